#!/bin/bash
# Run once in /verif after a fresh restore, offline: builds the Coq development (full .vo).
set -e
cd "$(dirname "$0")/coq"
coq_makefile -f _CoqProject -o Makefile
timeout 3000 make -j16
