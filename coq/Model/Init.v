(* Model of src/cmd/init.go: `dud init` as it sees the directory it is run in.
   [meta] is that directory's .dud: the index, the project configuration, .gitignore, rclone.conf
   (None = the file is not there) and whether .dud/cache exists.  The repaired command (fix
   "never clobber the index and config of an existing project") refuses when .dud/index exists and
   otherwise writes the four files and creates the cache directory.  The two configuration texts
   are parameters of the model (their exact wording is not the property's business); what matters
   about them is [comment_only]: a fresh configuration sets nothing. *)
From Coq Require Import NArith List Bool.
From DudV Require Import Base.Bytes.
Import ListNotations.
Local Open Scope N_scope.

Record meta := mkMeta {
  m_index : option bytes; m_config : option bytes; m_ignore : option bytes;
  m_rclone : option bytes; m_cache : bool }.

(* "/cache/\n/lock\n" *)
Definition ignore_text : bytes := [47; 99; 97; 99; 104; 101; 47; 10; 47; 108; 111; 99; 107; 10].

Definition init_cmd (cfg rcl : bytes) (m : meta) : meta * bool :=
  match m_index m with
  | Some _ => (m, false)
  | None => (mkMeta (Some []) (Some cfg) (Some ignore_text) (Some rcl) true, true)
  end.

(* every line is empty or starts with '#': [at_start] = we are at the beginning of a line,
   [in_comment] = the current line started with '#' *)
Fixpoint comment_only_from (at_start in_comment : bool) (s : bytes) : bool :=
  match s with
  | [] => true
  | c :: r =>
    if c =? 10 then comment_only_from true false r
    else if at_start then (c =? 35) && comment_only_from false true r
    else in_comment && comment_only_from false in_comment r
  end.
Definition comment_only (s : bytes) : bool := comment_only_from true false s.

Definition oeqb (a b : option bytes) : bool :=
  match a, b with
  | Some u, Some v => beqb u v
  | None, None => true
  | _, _ => false
  end.
Definition meta_eqb (a b : meta) : bool :=
  oeqb (m_index a) (m_index b) && oeqb (m_config a) (m_config b) && oeqb (m_ignore a) (m_ignore b) &&
  oeqb (m_rclone a) (m_rclone b) && Bool.eqb (m_cache a) (m_cache b).
