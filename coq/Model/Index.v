(* Model of the index-level traversals (src/index/{commit,checkout,status,run}.go): depth-first
   through the owners of the inputs with a visited list and a recursion-stack list.  Go map
   iteration order is replaced by list order (inputs/outputs sorted by path); Proofs show the
   properties for every order. *)
From Coq Require Import NArith List Bool.
From Coq Require Import String.
From DudV Require Import Base.Bytes Base.JsonStr Base.Json Base.GoPath Model.Fs Model.Cache Model.Stage.
Import ListNotations.
Local Open Scope N_scope.

Definition mem (x : bytes) (l : list bytes) : bool := existsb (beqb x) l.

Section WithHash.
  Variable H : bytes -> bytes.

  (* ---- stage definition checksum: JSON of the stage with artifact checksums blanked ---- *)
  Definition s_Checksum := of_string "Checksum"%string.
  Definition s_Command := of_string "Command"%string.
  Definition s_WorkingDir := of_string "WorkingDir"%string.
  Definition s_Inputs := of_string "Inputs"%string.
  Definition s_Outputs := of_string "Outputs"%string.

  Definition arts_json (arts : list artifact) : bytes :=
    jobj (map (fun kv => (fst kv, enc_artifact (snd kv)))
              (sort_kv (map (fun a => (a_path a, set_cs a [])) arts))).

  Definition def_json (s : stage) : bytes :=
    jobj [(s_Checksum, jstr []); (s_Command, jstr (s_cmd s)); (s_WorkingDir, jstr (s_wd s));
          (s_Inputs, arts_json (s_inputs s)); (s_Outputs, arts_json (s_outputs s))] ++ [10].

  Definition def_checksum (s : stage) : bytes := H (def_json s).

  Record istate := mkI { i_idx : index; i_root : node; i_cache : cache }.

  Definition slot_of (root : node) (p : bytes) : res (option node) :=
    if blocked root (comps p) then Err else Ok (get root (comps p)).

  (* cache.Commit of a top-level artifact of the project *)
  Definition commit_top (a : artifact) (root : node) (c : cache) (st : strategy)
    : res (node * cache * artifact) :=
    match slot_of root (a_path a) with
    | Err => Err
    | Ok slot =>
      match commit_art H a slot c st with
      | Ok (slot', c', a') =>
        match put root (comps (a_path a)) slot' with
        | Some root' => Ok (root', c', a')
        | None => Err
        end
      | Err => Err
      end
    end.

  Fixpoint commit_arts (arts : list artifact) (force_skip : bool) (root : node) (c : cache) (st : strategy)
    : res (list artifact * node * cache) :=
    match arts with
    | [] => Ok ([], root, c)
    | a :: r =>
      let a0 := if force_skip then mkArt (a_cs a) (a_path a) (a_isdir a) (a_norec a) true else a in
      match commit_top a0 root c st with
      | Ok (root1, c1, a1) =>
        match commit_arts r force_skip root1 c1 st with
        | Ok (l, root2, c2) => Ok (a1 :: l, root2, c2)
        | Err => Err
        end
      | Err => Err
      end
    end.

  Definition set_stage (idx : index) (sp : bytes) (s : stage) : index := ins_sorted sp s idx.

  (* Index.Commit *)
  Fixpoint commit_stage (fuel : nat) (st : istate) (strat : strategy)
           (done inprog : list bytes) (sp : bytes) : res (istate * list bytes) :=
    match fuel with
    | O => Err
    | S f =>
      if mem sp done then Ok (st, done)
      else if mem sp inprog then Err
      else match alookup sp (i_idx st) with
           | None => Err
           | Some stg =>
             (* inputs: recurse into owners, copy their checksum; collect the rest *)
             let fix ins (arts : list artifact) (st : istate) (done : list bytes)
               : res (list artifact * list artifact * istate * list bytes) :=
               match arts with
               | [] => Ok ([], [], st, done)
               | a :: r =>
                 match find_owner (i_idx st) (a_path a) with
                 | None =>
                   match ins r st done with
                   | Ok (owned, plain, st', done') => Ok (owned, a :: plain, st', done')
                   | Err => Err
                   end
                 | Some (op, _) =>
                   match commit_stage f st strat done (sp :: inprog) op with
                   | Err => Err
                   | Ok (st1, done1) =>
                     let cs := match find_owner (i_idx st1) (a_path a) with
                               | Some (_, up) => a_cs up | None => a_cs a end in
                     match ins r st1 done1 with
                     | Ok (owned, plain, st', done') => Ok (set_cs a cs :: owned, plain, st', done')
                     | Err => Err
                     end
                   end
                 end
               end in
             match ins (s_inputs stg) st done with
             | Err => Err
             | Ok (owned, plain, st1, done1) =>
               match commit_arts plain true (i_root st1) (i_cache st1) strat with
               | Err => Err
               | Ok (plain', root2, c2) =>
                 match commit_arts (s_outputs stg) false root2 c2 strat with
                 | Err => Err
                 | Ok (outs', root3, c3) =>
                   let inputs' := fold_left art_set (owned ++ plain') (s_inputs stg) in
                   let stg1 := mkStage (s_cs stg) (s_cmd stg) (s_wd stg) inputs' outs' in
                   let stg2 := mkStage (def_checksum stg1) (s_cmd stg) (s_wd stg) inputs' outs' in
                   Ok (mkI (set_stage (i_idx st1) sp stg2) root3 c3, sp :: done1)
                 end
               end
             end
           end
    end.

  (* cache.Checkout of a top-level artifact *)
  Definition checkout_top (fuel : nat) (a : artifact) (root : node) (c : cache) (st : strategy) : res node :=
    if a_skip a then Ok root
    else match slot_of root (a_path a) with
         | Err => Err
         | Ok slot =>
           match checkout_art H fuel a slot c st with
           | Ok slot' => match put root (comps (a_path a)) slot' with Some r => Ok r | None => Err end
           | Err => Err
           end
         end.

  Fixpoint checkout_arts (fuel : nat) (arts : list artifact) (root : node) (c : cache) (st : strategy) : res node :=
    match arts with
    | [] => Ok root
    | a :: r => match checkout_top fuel a root c st with
                | Ok root' => checkout_arts fuel r root' c st
                | Err => Err
                end
    end.

  (* Index.Checkout *)
  Fixpoint checkout_stage (fuel : nat) (idx : index) (c : cache) (strat : strategy) (recursive : bool)
           (root : node) (done inprog : list bytes) (sp : bytes) : res (node * list bytes) :=
    match fuel with
    | O => Err
    | S f =>
      if mem sp done then Ok (root, done)
      else if mem sp inprog then Err
      else match alookup sp idx with
           | None => Err
           | Some stg =>
             let fix ins (arts : list artifact) (root : node) (done : list bytes) : res (node * list bytes) :=
               match arts with
               | [] => Ok (root, done)
               | a :: r =>
                 match find_owner idx (a_path a) with
                 | Some (op, _) =>
                   if recursive then
                     match checkout_stage f idx c strat recursive root done (sp :: inprog) op with
                     | Ok (root', done') => ins r root' done'
                     | Err => Err
                     end
                   else ins r root done
                 | None => ins r root done
                 end
               end in
             match ins (s_inputs stg) root done with
             | Err => Err
             | Ok (root1, done1) =>
               match checkout_arts 64 (s_outputs stg) root1 c strat with
               | Ok root2 => Ok (root2, sp :: done1)
               | Err => Err
               end
             end
           end
    end.

  (* ---- status ---- *)
  Record sstatus := mkSS { ss_has : bool; ss_match : bool; ss_arts : list (bytes * stree) }.

  Definition status_top (a : artifact) (root : node) (c : cache) : res stree :=
    match slot_of root (a_path a) with
    | Err => Err
    | Ok slot => status_node H 64 a slot c
    end.

  Fixpoint status_arts (arts : list artifact) (root : node) (c : cache) : res (list (bytes * stree)) :=
    match arts with
    | [] => Ok []
    | a :: r => match status_top a root c, status_arts r root c with
                | Ok s, Ok l => Ok ((a_path a, s) :: l)
                | _, _ => Err
                end
    end.

  (* Index.Status; [out] maps stage paths to their status *)
  Fixpoint status_stage (fuel : nat) (idx : index) (c : cache) (root : node)
           (out : list (bytes * sstatus)) (inprog : list bytes) (sp : bytes) : res (list (bytes * sstatus)) :=
    match fuel with
    | O => Err
    | S f =>
      match alookup sp out with
      | Some _ => Ok out
      | None =>
        if mem sp inprog then Err
        else match alookup sp idx with
             | None => Err
             | Some stg =>
               let fix ins (arts : list artifact) (out : list (bytes * sstatus))
                 : res (list artifact * list (bytes * sstatus)) :=
                 match arts with
                 | [] => Ok ([], out)
                 | a :: r =>
                   match find_owner idx (a_path a) with
                   | Some (op, _) =>
                     match status_stage f idx c root out (sp :: inprog) op with
                     | Ok out' => ins r out'
                     | Err => Err
                     end
                   | None => match ins r out with
                             | Ok (plain, out') => Ok (a :: plain, out')
                             | Err => Err
                             end
                   end
                 end in
               match ins (s_inputs stg) out with
               | Err => Err
               | Ok (plain, out1) =>
                 match status_arts plain root c, status_arts (s_outputs stg) root c with
                 | Ok l1, Ok l2 =>
                   let has := match s_cs stg with [] => false | _ => true end in
                   Ok (ins_sorted sp (mkSS has (has && beqb (def_checksum stg) (s_cs stg))
                                           (sort_kv (l1 ++ l2))) out1)
                 | _, _ => Err
                 end
               end
             end
      end
    end.

  (* ---- run ---- *)
  Variable exec : bytes -> stage -> node -> cache -> res node.   (* the stage's shell command *)

  Definition short_top (a : artifact) (root : node) (c : cache) : res bool :=
    match slot_of root (a_path a) with
    | Err => Err
    | Ok slot => status_short H 64 a slot c
    end.

  Fixpoint any_stale (arts : list artifact) (root : node) (c : cache) : res bool :=
    match arts with
    | [] => Ok false
    | a :: r => match short_top a root c with
                | Ok true => any_stale r root c
                | Ok false => Ok true
                | Err => Err
                end
    end.

  (* Index.Run; [ran] maps visited stage paths to doRun; [log] is the execution log (newest first) *)
  Fixpoint run_stage (fuel : nat) (idx : index) (c : cache) (recursive : bool)
           (root : node) (ran : list (bytes * bool)) (log : list bytes) (inprog : list bytes) (sp : bytes)
    : res (node * list (bytes * bool) * list bytes) :=
    match fuel with
    | O => Err
    | S f =>
      match alookup sp ran with
      | Some _ => Ok (root, ran, log)
      | None =>
        if mem sp inprog then Err
        else match alookup sp idx with
             | None => Err
             | Some stg =>
               let has_cmd := match s_cmd stg with [] => false | _ => true end in
               let cs_ok := match s_cs stg with [] => false | cs => beqb (def_checksum stg) cs end in
               let do0 := (has_cmd && match s_inputs stg with [] => true | _ => false end) || negb cs_ok in
               let fix ins (arts : list artifact) (root : node) (ran : list (bytes * bool)) (log : list bytes) (doit : bool)
                 : res (node * list (bytes * bool) * list bytes * bool) :=
                 match arts with
                 | [] => Ok (root, ran, log, doit)
                 | a :: r =>
                   match find_owner idx (a_path a) with
                   | None =>
                     match short_top a root c with
                     | Ok cm => ins r root ran log (doit || negb cm)
                     | Err => Err
                     end
                   | Some (op, up) =>
                     if recursive then
                       match run_stage f idx c recursive root ran log (sp :: inprog) op with
                       | Ok (root', ran', log') =>
                         let upran := match alookup op ran' with Some b => b | None => false end in
                         ins r root' ran' log' (doit || upran || negb (beqb (a_cs a) (a_cs up)))
                       | Err => Err
                       end
                     else ins r root ran log doit
                   end
                 end in
               match ins (s_inputs stg) root ran log do0 with
               | Err => Err
               | Ok (root1, ran1, log1, do1) =>
                 let do2 := if do1 then Ok true else any_stale (s_outputs stg) root1 c in
                 match do2 with
                 | Err => Err
                 | Ok d =>
                   if d && has_cmd then
                     match exec sp stg root1 c with
                     | Ok root2 => Ok (root2, ins_sorted sp d ran1, sp :: log1)
                     | Err => Err
                     end
                   else Ok (root1, ins_sorted sp d ran1, log1)
                 end
               end
             end
      end
    end.
End WithHash.
