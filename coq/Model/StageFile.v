(* Model of the stage-file layer of src/stage/stage.go: what FromFile makes of the decoded YAML
   value (normalisation), what ToFile hands to the YAML encoder (toFileFormat), and the
   definition checksum (Model/Index.v def_json).  The YAML text layer itself (yaml.v2) is not
   modelled: it appears as an encode/decode pair with a round-trip hypothesis. *)
From Coq Require Import NArith List Bool.
From DudV Require Import Base.Bytes Base.JsonStr Base.Json Base.GoPath Model.Fs Model.Cache Model.Stage Model.Index.
Import ListNotations.
Local Open Scope N_scope.

(* strings.TrimSpace: Unicode White_Space (ASCII, NEL, NBSP, U+1680, U+2000-200A, U+2028/9, U+202F,
   U+205F, U+3000) *)
Fixpoint strip_prefix (p s : bytes) : option bytes :=
  match p, s with
  | [], _ => Some s
  | x :: p', y :: s' => if x =? y then strip_prefix p' s' else None
  | _, [] => None
  end.
Definition space_seqs : list bytes :=
  [[9]; [10]; [11]; [12]; [13]; [32]; [194; 133]; [194; 160]; [225; 154; 128];
   [226; 128; 128]; [226; 128; 129]; [226; 128; 130]; [226; 128; 131]; [226; 128; 132];
   [226; 128; 133]; [226; 128; 134]; [226; 128; 135]; [226; 128; 136]; [226; 128; 137];
   [226; 128; 138]; [226; 128; 168]; [226; 128; 169]; [226; 128; 175]; [226; 129; 159];
   [227; 128; 128]].
Fixpoint strip_one (seqs : list bytes) (s : bytes) : option bytes :=
  match seqs with
  | [] => None
  | q :: r => match strip_prefix q s with Some t => Some t | None => strip_one r s end
  end.
Fixpoint trim_left (fuel : nat) (s : bytes) : bytes :=
  match fuel with
  | O => s
  | S f => match strip_one space_seqs s with Some t => trim_left f t | None => s end
  end.
Definition rev_seqs : list bytes := map (@rev N) space_seqs.
Fixpoint trim_left_with (seqs : list bytes) (fuel : nat) (s : bytes) : bytes :=
  match fuel with
  | O => s
  | S f => match strip_one seqs s with Some t => trim_left_with seqs f t | None => s end
  end.
Definition trim_space (s : bytes) : bytes :=
  let l := trim_left_with space_seqs (length s) s in
  rev (trim_left_with rev_seqs (length l) (rev l)).

(* the value stored in / loaded from the YAML document: artifacts keyed by path, Path empty *)
Record yart := mkYArt { y_cs : bytes; y_isdir : bool; y_norec : bool; y_skip : bool }.
Record ystage := mkYStage {
  ys_cs : bytes; ys_cmd : bytes; ys_wd : bytes;
  ys_inputs : list (bytes * yart); ys_outputs : list (bytes * yart) }.

(* toFileFormat: inputs lose the implicit skip-cache flag, paths become keys *)
Definition to_file_format (s : stage) : ystage :=
  mkYStage (s_cs s) (s_cmd s) (s_wd s)
    (map (fun a => (a_path a, mkYArt (a_cs a) (a_isdir a) (a_norec a) false)) (s_inputs s))
    (map (fun a => (a_path a, mkYArt (a_cs a) (a_isdir a) (a_norec a) (a_skip a))) (s_outputs s)).

(* FromFile after decoding: trim the command, Clean every path, inputs are skip-cache; artifacts
   are (re-)keyed by the cleaned path: a later entry with the same cleaned path wins (Go map) *)
Definition from_file (y : ystage) : stage :=
  mkStage (ys_cs y) (trim_space (ys_cmd y)) (clean (ys_wd y))
    (map snd (sort_kv (map (fun kv => (clean (fst kv),
                                       mkArt (y_cs (snd kv)) (clean (fst kv)) (y_isdir (snd kv)) (y_norec (snd kv)) true))
                           (ys_inputs y))))
    (map snd (sort_kv (map (fun kv => (clean (fst kv),
                                       mkArt (y_cs (snd kv)) (clean (fst kv)) (y_isdir (snd kv)) (y_norec (snd kv))
                                             (y_skip (snd kv))))
                           (ys_outputs y)))).

(* normal form: what every loaded stage satisfies *)
Definition nf_art (input : bool) (a : artifact) : bool :=
  beqb (clean (a_path a)) (a_path a) && (if input then a_skip a else true).
Fixpoint strictly_sorted (l : list artifact) : bool :=
  match l with
  | a :: ((b :: _) as r) => bltb (a_path a) (a_path b) && strictly_sorted r
  | _ => true
  end.
Definition nf_stage (s : stage) : bool :=
  beqb (trim_space (s_cmd s)) (s_cmd s) && beqb (clean (s_wd s)) (s_wd s) &&
  forallb (nf_art true) (s_inputs s) && forallb (nf_art false) (s_outputs s) &&
  strictly_sorted (s_inputs s) && strictly_sorted (s_outputs s).

(* what the definition checksum looks at *)
Definition def_view (s : stage) : bytes * bytes * list artifact * list artifact :=
  (s_cmd s, s_wd s, map (fun a => set_cs a []) (s_inputs s), map (fun a => set_cs a []) (s_outputs s)).
