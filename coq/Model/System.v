(* Whole-program model: a project = workspace tree (without .dud and the stage files), cache,
   stage files (as loaded by stage.FromFile), index lines, lock.  One [step] per dud command,
   assembled from the index-level traversals the way src/cmd assembles them. *)
From Coq Require Import NArith List Bool String.
From DudV Require Import Base.Bytes Base.Json Base.GoPath Model.Fs Model.Cache Model.Stage Model.Index.
Import ListNotations.
Local Open Scope N_scope.

Record world := mkW {
  w_root : node;
  w_cache : cache;
  w_stages : list (bytes * option stage);   (* every stage file of the scenario; None = does not load *)
  w_index : list bytes;
  w_lock : bool }.

Inductive command :=
| CCommit (targets : list bytes) (copy : bool)
| CCheckout (targets : list bytes) (copy single : bool)
| CStatus (targets : list bytes)
| CRun (targets : list bytes) (single : bool)
| CStageAdd (paths : list bytes)
| CStageRm (paths : list bytes)
| CGraph (targets : list bytes)
| CPush (targets : list bytes) (single : bool)      (* traversal only; the transfer is Model/Remote.v *)
| CFetch (targets : list bytes) (single : bool).

(* what a stage's shell command does: "rm -f dst; cat srcs > dst; echo tag >> .runlog" *)
Record cmdsem := mkCmd { k_srcs : list bytes; k_dst : bytes; k_tag : bytes }.

Inductive output :=
| ONone
| OStatus (l : list (bytes * sstatus))
| ORun (log : list bytes).

Section WithHash.
  Variable H : bytes -> bytes.
  Variable sems : list (bytes * cmdsem).     (* stage path -> semantics of its command *)

  Definition read_through (root : node) (c : cache) (p : bytes) : option bytes :=
    match get root (comps p) with
    | Some (File b) => Some b
    | Some (LinkC d) => match cget c d with Some o => Some (o_data o) | None => None end
    | _ => None
    end.

  Fixpoint cat_all (root : node) (c : cache) (ps : list bytes) : option bytes :=
    match ps with
    | [] => Some []
    | p :: r => match read_through root c p, cat_all root c r with
                | Some a, Some b => Some (a ++ b)
                | _, _ => None
                end
    end.

  Definition runlog := of_string ".runlog"%string.

  Definition exec (sp : bytes) (s : stage) (root : node) (c : cache) : res node :=
    match alookup sp sems with
    | None => Ok root          (* a command without effect on the project (e.g. `true`) *)
    | Some k =>
      match cat_all root c (k_srcs k) with
      | None => Err
      | Some out =>
        match put root (comps (k_dst k)) (Some (File out)) with
        | None => Err
        | Some root1 => Ok root1     (* the execution log (.runlog) is kept outside the tree *)
        end
      end
    end.

  (* the traversal skeleton shared by graph / push / fetch: visited list, recursion stack *)
  Fixpoint walk_stage (fuel : nat) (idx : index) (recursive : bool) (done inprog : list bytes) (sp : bytes)
    : res (list bytes) :=
    match fuel with
    | O => Err
    | S f =>
      if mem sp done then Ok done
      else if mem sp inprog then Err
      else match alookup sp idx with
           | None => Err
           | Some stg =>
             let fix ins (arts : list artifact) (done : list bytes) : res (list bytes) :=
               match arts with
               | [] => Ok done
               | a :: r =>
                 match find_owner idx (a_path a) with
                 | Some (op, _) =>
                   if recursive then
                     match walk_stage f idx recursive done (sp :: inprog) op with
                     | Ok done' => ins r done'
                     | Err => Err
                     end
                   else ins r done
                 | None => ins r done
                 end
               end in
             match ins (s_inputs stg) done with
             | Ok done1 => Ok (sp :: done1)
             | Err => Err
             end
           end
    end.

  Definition walk_all (idx : index) (recursive : bool) (ts : list bytes) : bool :=
    match fold_left (fun acc t => match acc with
                                  | Ok done => walk_stage (S (List.length idx)) idx recursive done [] t
                                  | Err => Err end) ts (Ok []) with
    | Ok _ => true
    | Err => false
    end.

  Definition strat_of (copy : bool) : strategy := if copy then Copy else Link.

  Definition all_or (targets : list bytes) (idx : index) : list bytes :=
    match targets with [] => map fst idx | _ => targets end.

  Definition write_back (files : list (bytes * option stage)) (idx : index) (done : list bytes)
    : list (bytes * option stage) :=
    map (fun f => if mem (fst f) done then (fst f, alookup (fst f) idx) else f) files.

  Definition fuel_of (idx : index) : nat := S (List.length idx).

  (* returns the new world and whether dud exits 0; on failure the world is what the model can
     say about a failed run: unchanged (the correspondence then only compares the exit class) *)
  Definition step (w : world) (cmd : command) : world * bool * output :=
    if w_lock w then (w, false, ONone)
    else match load_index (w_index w) (w_stages w) [] with
    | None => (w, false, ONone)
    | Some idx =>
      match cmd with
      | CCommit targets copy =>
        match all_or targets idx with
        | [] => (w, false, ONone)
        | ts =>
          let go := fold_left (fun acc t =>
                      match acc with
                      | Ok (st, done) => commit_stage H (fuel_of idx) st (strat_of copy) done [] t
                      | Err => Err
                      end) ts (Ok (mkI idx (w_root w) (w_cache w), [])) in
          match go with
          | Ok (st, done) =>
            (mkW (i_root st) (i_cache st) (write_back (w_stages w) (i_idx st) done) (w_index w) false, true, ONone)
          | Err => (w, false, ONone)
          end
        end
      | CCheckout targets copy single =>
        match idx with
        | [] => (w, false, ONone)
        | _ =>
          let recursive := match targets with [] => true | _ => negb single end in
          let go := fold_left (fun acc t =>
                      match acc with
                      | Ok (root, done) =>
                        checkout_stage H (fuel_of idx) idx (w_cache w) (strat_of copy) recursive root done [] t
                      | Err => Err
                      end) (all_or targets idx) (Ok (w_root w, [])) in
          match go with
          | Ok (root, _) => (mkW root (w_cache w) (w_stages w) (w_index w) false, true, ONone)
          | Err => (w, false, ONone)
          end
        end
      | CStatus targets =>
        match idx with
        | [] => (w, false, ONone)
        | _ =>
          let go := fold_left (fun acc t =>
                      match acc with
                      | Ok out => status_stage H (fuel_of idx) idx (w_cache w) (w_root w) out [] t
                      | Err => Err
                      end) (all_or targets idx) (Ok []) in
          match go with
          | Ok out => (w, true, OStatus out)
          | Err => (w, false, ONone)
          end
        end
      | CRun targets single =>
        match idx with
        | [] => (w, false, ONone)
        | _ =>
          let go := fold_left (fun acc t =>
                      match acc with
                      | Ok (root, ran, log) =>
                        run_stage H exec (fuel_of idx) idx (w_cache w) (negb single) root ran log [] t
                      | Err => Err
                      end) (all_or targets idx) (Ok (w_root w, [], [])) in
          match go with
          | Ok (root, _, log) => (mkW root (w_cache w) (w_stages w) (w_index w) false, true, ORun (rev log))
          | Err => (w, false, ONone)
          end
        end
      | CStageAdd paths =>
        let go := fold_left (fun acc p =>
                    match acc with
                    | Some ix =>
                      match alookup p (w_stages w) with
                      | Some (Some s) => if stage_path_ok p && validate p s then add_stage ix p s else None
                      | _ => None
                      end
                    | None => None
                    end) paths (Some idx) in
        match go with
        | Some ix => (mkW (w_root w) (w_cache w) (w_stages w) (map fst ix) false, true, ONone)
        | None => (w, false, ONone)
        end
      | CGraph targets =>
        match idx with
        | [] => (w, false, ONone)
        | _ => (w, walk_all idx true (all_or targets idx), ONone)
        end
      | CPush targets single =>
        match idx with
        | [] => (w, false, ONone)
        | _ => (w, walk_all idx (match targets with [] => true | _ => negb single end) (all_or targets idx), ONone)
        end
      | CFetch targets single =>
        (w, walk_all idx (match targets with [] => true | _ => negb single end) (all_or targets idx), ONone)
      | CStageRm paths =>
        let go := fold_left (fun acc p => match acc with Some ix => remove_stage ix p | None => None end)
                            paths (Some idx) in
        match go with
        | Some ix => (mkW (w_root w) (w_cache w) (w_stages w) (map fst ix) false, true, ONone)
        | None => (w, false, ONone)
        end
      end
    end.
  (* the command as the CLI runs it: the index is read first, and an index that lists a stage file
     outside the project is refused before anything is done *)
  Definition step_checked (w : world) (cmd : command) : world * bool * output :=
    if forallb index_line_ok (w_index w) then step w cmd else (w, false, ONone).
End WithHash.
