(* Cut semantics of `dud commit` / `dud checkout`: the states of one artifact's neighbourhood
   (workspace entry, cache) that are visible BETWEEN two mutating system calls of the command,
   i.e. the states a kill -9 (C03) or a failing system call (C04) can leave behind.

   State = (option node, cache): the workspace entry of the artifact (None = absent) and the
   cache.  Temporary files are not part of the state (they do not carry digest names).

   Mutating system calls of one FILE commit, in program order (src/cache/commit.go:
   commitFileArtifact, commitBytes, replaceWithLink; observed with the ptrace monitor):
     link, rename-able cache : rename W -> obj (obj keeps W's mode); chmod obj 0444; symlink W
     link, cross-device cache: (temp T written); rename T -> obj; chmod obj 0444;
                               symlink W.tmp; rename W.tmp -> W     (W never absent)
     copy                    : (temp T written); rename T -> obj; chmod obj 0444
     skip-cache, matching link, adopted link: nothing.
   A cache write is an entry of a write log [wlog]; the cache of a cut is the initial cache with
   the log applied ([capply], last writer wins).

   DIRECTORIES (the approximation used, see [ccut] / [kids_cut]):
     - every child is, independently of its siblings, in one of ITS OWN cuts (any combination of
       per-child progress: this is the full product, not a sequential schedule);
     - the write log of the directory is ANY PERMUTATION of the concatenation of the children's
       logs (a superset of the order-preserving interleavings of the worker goroutines), followed
       by the manifest's two writes (rename of the temp file, chmod), which happen only when
       every child is final;
     - the DECISIONS of a child (does a link match, which old manifest does a sub-directory
       start from) are taken against the cache of the big-step model [commit_node], i.e. the
       initial cache extended by the final writes of the children that precede it in listing
       order ([next_cache]).  Decisions influence the system calls only through the flags of
       the entries of an old sub-directory manifest; they do not depend on object modes. *)
From Coq Require Import NArith List Bool Permutation.
From DudV Require Import Base.Bytes Base.Json Model.Fs Model.Cache.
Import ListNotations.
Local Open Scope N_scope.

(* ---- write logs ---- *)
Definition wlog := list (bytes * cobj).
Definition cwrite (c : cache) (e : bytes * cobj) : cache := ins_sorted (fst e) (snd e) c.
Definition capply (c : cache) (l : wlog) : cache := fold_left cwrite l c.

(* modes an object can have before its chmod: the mode of the workspace file that was renamed
   into the cache (0o644 stands for "whatever mode the file had"), or the mode of os.CreateTemp *)
Definition file_mode : N := 420.   (* 0o644 *)
Definition temp_mode : N := 384.   (* 0o600 *)

Definition meta_cuts {A} (old new : A) : list A := [old; new].

Section WithHash.
  Variable H : bytes -> bytes.

  Definition wr (b : bytes) (m : N) : bytes * cobj := (H b, mkObj b m).

  Definition src_mode (st : strategy) (can_rename : bool) : N :=
    match st, can_rename with Link, true => file_mode | _, _ => temp_mode end.

  (* (workspace entry, cache writes so far) before the last system call ... *)
  Definition file_commit_mid (st : strategy) (can_rename : bool) (b : bytes)
    : list (option node * wlog) :=
    let m := src_mode st can_rename in
    match st, can_rename with
    | Link, true  => [(Some (File b), []); (None, [wr b m]); (None, [wr b m; wr b cache_perms])]
    | Link, false => [(Some (File b), []); (Some (File b), [wr b m]);
                      (Some (File b), [wr b m; wr b cache_perms])]
    | Copy, _     => [(Some (File b), []); (Some (File b), [wr b m])]
    end.
  (* ... and after it *)
  Definition file_commit_fin (st : strategy) (can_rename : bool) (b : bytes) : option node * wlog :=
    (Some (match st with Link => LinkC (H b) | Copy => File b end),
     [wr b (src_mode st can_rename); wr b cache_perms]).

  Definition file_commit_steps st can_rename b : list (option node * wlog) :=
    file_commit_mid st can_rename b ++ [file_commit_fin st can_rename b].

  (* the cuts of committing [File b] from cache [c]: first = initial, last = final *)
  Definition file_commit_cuts (st : strategy) (can_rename : bool) (b : bytes) (c : cache)
    : list (option node * cache) :=
    map (fun s => (fst s, capply c (snd s))) (file_commit_steps st can_rename b).

  (* the link path on a cross-device cache BEFORE the repair: copy, chmod, unlink W, symlink W *)
  Definition file_commit_steps_prerepair (b : bytes) : list (option node * wlog) :=
    [(Some (File b), []); (Some (File b), [wr b temp_mode]);
     (Some (File b), [wr b temp_mode; wr b cache_perms]);
     (None, [wr b temp_mode; wr b cache_perms]);
     (Some (LinkC (H b)), [wr b temp_mode; wr b cache_perms])].
  Definition file_commit_cuts_prerepair (b : bytes) (c : cache) : list (option node * cache) :=
    map (fun s => (fst s, capply c (snd s))) (file_commit_steps_prerepair b).

  (* ---- C04: a failing system call.  The state when the (k+1)-th mutating call fails is the
     k-th cut; the error path then runs restoreWorkspaceFile (a no-op unless W is absent and the
     object is in the cache). ---- *)
  Definition restore_ws (b : bytes) (s : option node * cache) : option node * cache :=
    match fst s with
    | None => match cget (snd s) (H b) with
              | Some o => (Some (File (o_data o)), snd s)
              | None => s
              end
    | Some _ => s
    end.
  Definition file_commit_fail_states st can_rename b c : list (option node * cache) :=
    map (fun s => restore_ws b (fst s, capply c (snd s))) (file_commit_mid st can_rename b).
  (* the same without the repaired rollback *)
  Definition file_commit_fail_states_norollback st can_rename b c : list (option node * cache) :=
    map (fun s => (fst s, capply c (snd s))) (file_commit_mid st can_rename b).

  (* ---- executable membership (the correspondence check): an observed (entry, cache) is one of
     the cuts; an object mode of a cut that is not the final 0o444 stands for any mode ---- *)
  Definition mode_okb (mcut mobs : N) : bool := (mcut =? mobs) || negb (mcut =? cache_perms).
  Fixpoint cache_matchb (cut obs : cache) : bool :=
    match cut, obs with
    | [], [] => true
    | (k, v) :: a, (k', v') :: b =>
      beqb k k' && beqb (o_data v) (o_data v') && mode_okb (o_mode v) (o_mode v') && cache_matchb a b
    | _, _ => false
    end.
  Definition in_file_commit_cuts_b st can_rename b c (slot : option node) (c' : cache) : bool :=
    existsb (fun s => onode_eqb (fst s) slot && cache_matchb (snd s) c')
            (file_commit_cuts st can_rename b c).

  (* ---- trees ---- *)
  Section Tree.
    Variable st : strategy.
    Variable can_rename : bool.

    (* the child artifact a directory commit starts from (= CommitProofs.child_of) *)
    Definition cchild (old : list (bytes * artifact)) (name : bytes) (ch : node) : artifact :=
      match alookup name old with
      | Some oa => if Bool.eqb (a_isdir oa) (is_dir ch) then oa else fresh_art name (is_dir ch)
      | None => fresh_art name (is_dir ch)
      end.

    (* bytes that a file-artifact commit stores, if it stores anything *)
    Definition stores (a : artifact) (n : node) : option bytes :=
      if a_isdir a then None
      else match n with File b => if a_skip a then None else Some b | _ => None end.

    (* decision cache of the next child in listing order *)
    Definition next_cache (a : artifact) (n : node) (c : cache) : cache :=
      match commit_node H a n c st with Ok (_, c1, _) => c1 | Err => c end.

    Definition entries_of (ks : list (bytes * option node)) : list (bytes * node) :=
      flat_map (fun k => match snd k with Some n => [(fst k, n)] | None => [] end) ks.

    Definition man_bytes (a : artifact) (m : list (bytes * artifact)) : bytes :=
      enc_manifest (mkMan (a_path a) m).

    (* [ccut a n c s l oa]: committing artifact [a] with workspace entry [n], decisions taken
       against cache [c], can be cut in a state where the entry is [s] and the cache writes so
       far are [l]; [oa = Some a'] iff the commit has completed, with resulting artifact [a'] *)
    Inductive ccut : artifact -> node -> cache -> option node -> wlog -> option artifact -> Prop :=
    | cc_init a n c : ccut a n c (Some n) [] None
    | cc_noop a n c a' :
        a_isdir a = false -> stores a n = None -> commit_file H a n c st = Ok (n, c, a') ->
        ccut a n c (Some n) [] (Some a')
    | cc_file_mid a b c s l :
        a_isdir a = false -> a_skip a = false -> In (s, l) (file_commit_mid st can_rename b) ->
        ccut a (File b) c s l None
    | cc_file_fin a b c :
        a_isdir a = false -> a_skip a = false ->
        ccut a (File b) c (fst (file_commit_fin st can_rename b)) (snd (file_commit_fin st can_rename b))
             (Some (set_cs a (H b)))
    | cc_dir a es c old ks logs om l :
        a_isdir a = true -> old_contents a c = Ok old ->
        kids_cut (a_norec a) old es c ks logs om ->
        Permutation l (concat logs) ->
        ccut a (Dir es) c (Some (Dir (entries_of ks))) l None
    | cc_dir_man a es c old ks logs m l :
        a_isdir a = true -> old_contents a c = Ok old ->
        kids_cut (a_norec a) old es c ks logs (Some m) ->
        Permutation l (concat logs) ->
        ccut a (Dir es) c (Some (Dir (entries_of ks))) (l ++ [wr (man_bytes a m) temp_mode]) None
    | cc_dir_fin a es c old ks logs m l :
        a_isdir a = true -> old_contents a c = Ok old ->
        kids_cut (a_norec a) old es c ks logs (Some m) ->
        Permutation l (concat logs) ->
        ccut a (Dir es) c (Some (Dir (entries_of ks)))
             (l ++ [wr (man_bytes a m) temp_mode; wr (man_bytes a m) cache_perms])
             (Some (set_cs a (H (man_bytes a m))))
    (* [kids_cut nr old es c ks logs om]: per-child states [ks], per-child logs [logs];
       [om = Some m] iff every child is final, [m] = the manifest entries *)
    with kids_cut : bool -> list (bytes * artifact) -> list (bytes * node) -> cache ->
                    list (bytes * option node) -> list wlog -> option (list (bytes * artifact)) -> Prop :=
    | kc_nil nr old c : kids_cut nr old [] c [] [] (Some [])
    | kc_skip nr old name ch r c ks logs om :      (* sub-directory of a non-recursive artifact *)
        nr && is_dir ch = true ->
        kids_cut nr old r c ks logs om ->
        kids_cut nr old ((name, ch) :: r) c ((name, Some ch) :: ks) logs om
    | kc_bad nr old name ch r c ks logs om :       (* name not UTF-8: the commit will fail *)
        nr && is_dir ch = false -> utf8_name name = false ->
        kids_cut nr old r c ks logs om ->
        kids_cut nr old ((name, ch) :: r) c ((name, Some ch) :: ks) logs None
    | kc_child nr old name ch r c s l oa ks logs om :
        nr && is_dir ch = false -> utf8_name name = true ->
        ccut (cchild old name ch) ch c s l oa ->
        kids_cut nr old r (next_cache (cchild old name ch) ch c) ks logs om ->
        kids_cut nr old ((name, ch) :: r) c ((name, s) :: ks) (l :: logs)
                 (match oa, om with
                  | Some a', Some m => Some ((a_path a', a') :: m)
                  | _, _ => None
                  end).

    Inductive commit_cut (a : artifact) (n : node) (c : cache) : option node * cache -> Prop :=
    | commit_cut_intro s l oa : ccut a n c s l oa -> commit_cut a n c (s, capply c l).

  End Tree.

  (* ---- checkout ---- *)
  Definition prefixes (b : bytes) : list bytes := map (fun k => firstn k b) (seq 0 (S (length b))).

  (* link: symlink W (only when absent).  copy: [unlink W iff W is the matching link]; create W
     exclusively; write W...  (every prefix of the object is a visible state of W).  The cache
     is never written.  The copy path verifies the checksum only AFTER writing, so the cuts do
     not depend on the outcome of that check (checkout_file = Err still leaves the copy). *)
  Definition file_checkout_cuts (a : artifact) (slot : option node) (c : cache) (st : strategy)
    : list (option node) :=
    if negb (has_cs (a_cs a)) then [slot]
    else match cget c (a_cs a) with
         | None => [slot]
         | Some o =>
           match slot with
           | Some (File _) => [slot]
           | _ =>
             match st with
             | Link => if qmatch c (a_cs a) slot then [slot]
                       else match slot with None => [None; Some (LinkC (a_cs a))] | _ => [slot] end
             | Copy => if qmatch c (a_cs a) slot
                       then slot :: None :: map (fun p => Some (File p)) (prefixes (o_data o))
                       else match slot with
                            | None => None :: map (fun p => Some (File p)) (prefixes (o_data o))
                            | _ => [slot]
                            end
             end
           end
         end.

  Definition slot_dir (slot : option node) : option (list (bytes * node)) :=
    match slot with None => Some [] | Some (Dir es) => Some es | _ => None end.

  (* children are checked out into disjoint entries and the cache is read-only: the cuts of
     a directory checkout are exactly the products of its children's cuts *)
  Inductive checkout_cut (st : strategy) (c : cache) : nat -> artifact -> option node -> option node -> Prop :=
  | oc_init f a slot : checkout_cut st c f a slot slot
  | oc_file f a slot s :
      a_isdir a = false -> In s (file_checkout_cuts a slot c st) -> checkout_cut st c (S f) a slot s
  | oc_dir f a slot o m es0 es' :
      a_isdir a = true -> has_cs (a_cs a) = true -> cget c (a_cs a) = Some o ->
      dec_manifest (o_data o) = Some m -> slot_dir slot = Some es0 ->
      co_kids st c f (m_contents m) es0 es' ->
      checkout_cut st c (S f) a slot (Some (Dir es'))
  with co_kids (st : strategy) (c : cache) : nat -> list (bytes * artifact) -> list (bytes * node) -> list (bytes * node) -> Prop :=
  | ok_nil f es : co_kids st c f [] es es
  | ok_wait f name child r es es' :           (* this child has not started *)
      co_kids st c f r es es' -> co_kids st c f ((name, child) :: r) es es'
  | ok_cons f name child r es v es' :
      checkout_cut st c f child (alookup name es) v ->
      co_kids st c f r (dset es name v) es' ->
      co_kids st c f ((name, child) :: r) es es'.
End WithHash.

Scheme ccut_mind := Minimality for ccut Sort Prop
  with kids_cut_mind := Minimality for kids_cut Sort Prop.
Combined Scheme ccut_kids_ind from ccut_mind, kids_cut_mind.

Scheme checkout_cut_mind := Minimality for checkout_cut Sort Prop
  with co_kids_mind := Minimality for co_kids Sort Prop.
Combined Scheme checkout_cut_kids_ind from checkout_cut_mind, co_kids_mind.

(* ---- what C03 says about a state (Prop and executable forms; the executable forms are those
   of Corr/RunCrash.v, relative to the artifact's own entry instead of the workspace root) ---- *)

(* all (path, bytes) of regular files, links followed, below a node *)
Fixpoint files_of (c : cache) (pre : list bytes) (n : node) : list (list bytes * bytes) :=
  match n with
  | File b => [(pre, b)]
  | LinkC d => match alookup d c with Some o => [(pre, o_data o)] | None => [] end
  | Dir es => flat_map (fun e => files_of c (pre ++ [fst e]) (snd e)) es
  | _ => []
  end.

Definition oget (s : option node) (p : path) : option node :=
  match s with Some n => get n p | None => None end.

Section Spec.
  Variable H : bytes -> bytes.

  (* the bytes [b] are still at path [p] (directly or through a link) or in the cache under
     their digest *)
  Definition retrievable (c' : cache) (s : option node) (p : list bytes) (b : bytes) : Prop :=
    match oget s p with
    | Some (File b') => b' = b
    | Some (LinkC d) => exists o, cget c' d = Some o /\ o_data o = b
    | _ => False
    end \/ exists o, cget c' (H b) = Some o /\ o_data o = b.

  Definition retrievable_b (c' : cache) (s : option node) (p : list bytes) (b : bytes) : bool :=
    (match oget s p with
     | Some (File b') => beqb b b'
     | Some (LinkC d) => match alookup d c' with Some o => beqb (o_data o) b | None => false end
     | _ => false
     end) ||
    (match alookup (H b) c' with Some o => beqb (o_data o) b | None => false end).

  Definition no_loss (c : cache) (n : node) (s' : option node) (c' : cache) : Prop :=
    forall p b, In (p, b) (files_of c [] n) -> retrievable c' s' p b.
  Definition no_loss_b (c : cache) (n : node) (s' : option node) (c' : cache) : bool :=
    forallb (fun pb => retrievable_b c' s' (fst pb) (snd pb)) (files_of c [] n).

  (* no object appears under a digest name with other bytes than those the name says *)
  Definition no_torn (c c' : cache) : Prop :=
    forall d o, cget c' d = Some o -> cget c d = None -> d = H (o_data o).
End Spec.
