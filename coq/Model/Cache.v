(* Model of src/cache: artifacts, directory manifests (JSON), commit / checkout / status of one
   artifact as total functions over (workspace entry, cache).  The hash is a parameter [H]
   (bytes -> lowercase hex digest); the correspondence runner instantiates it with the Gallina
   BLAKE3.  Follows the decision tables of DESIGN.md Appendix B on the repaired tree. *)
From Coq Require Import NArith List Bool String.
From DudV Require Import Base.Bytes Base.JsonStr Base.Json Model.Fs.
Import ListNotations.
Local Open Scope N_scope.

Record cobj := mkObj { o_data : bytes; o_mode : N }.
Definition cache := list (bytes * cobj).
Definition cache_perms : N := 292.   (* 0o444, re-proved against the source on every run *)

Definition cget (c : cache) (d : bytes) : option cobj := alookup d c.
Definition cput (c : cache) (d : bytes) (b : bytes) : cache := ins_sorted d (mkObj b cache_perms) c.
Definition in_cache (c : cache) (d : bytes) : bool :=
  match cget c d with Some _ => true | None => false end.

Record artifact := mkArt { a_cs : bytes; a_path : bytes; a_isdir : bool; a_norec : bool; a_skip : bool }.
Definition set_cs (a : artifact) (cs : bytes) : artifact :=
  mkArt cs (a_path a) (a_isdir a) (a_norec a) (a_skip a).
Definition fresh_art (name : bytes) (isdir : bool) : artifact := mkArt [] name isdir false false.

Definition art_eqb (a b : artifact) : bool :=
  beqb (a_cs a) (a_cs b) && beqb (a_path a) (a_path b) && Bool.eqb (a_isdir a) (a_isdir b) &&
  Bool.eqb (a_norec a) (a_norec b) && Bool.eqb (a_skip a) (a_skip b).

Record manifest := mkMan { m_path : bytes; m_contents : list (bytes * artifact) }.

(* ---- manifest JSON ---- *)
Definition s_checksum := of_string "checksum"%string.
Definition s_path := of_string "path"%string.
Definition s_isdir := of_string "is-dir"%string.
Definition s_norec := of_string "disable-recursion"%string.
Definition s_skip := of_string "skip-cache"%string.
Definition s_contents := of_string "contents"%string.
Definition s_true := of_string "true"%string.

(* json tags with omitempty, in field order *)
Definition enc_artifact (a : artifact) : bytes :=
  jobj ((match a_cs a with [] => [] | cs => [(s_checksum, jstr cs)] end) ++
        (match a_path a with [] => [] | p => [(s_path, jstr p)] end) ++
        (if a_isdir a then [(s_isdir, s_true)] else []) ++
        (if a_norec a then [(s_norec, s_true)] else []) ++
        (if a_skip a then [(s_skip, s_true)] else [])).

(* json.NewEncoder(buf).Encode: object, map keys sorted, trailing newline *)
Definition enc_manifest (m : manifest) : bytes :=
  jobj [(s_path, jstr (m_path m));
        (s_contents, jobj (map (fun kv => (fst kv, enc_artifact (snd kv))) (sort_kv (m_contents m))))]
  ++ [10].

(* decoding one child: strict current schema (unknown field => fall back), then old schema *)
Definition set_field (names : list bytes) (a : artifact) (k : bytes) (v : jv) : option (option artifact) :=
  (* None = key not matched; Some None = type error; Some (Some a') = ok *)
  let str f := match v with JStr s => Some (Some (f s)) | JNull => Some (Some a) | _ => Some None end in
  let boo f := match v with JBool b => Some (Some (f b)) | JNull => Some (Some a) | _ => Some None end in
  match names with
  | [n1; n2; n3; n4; n5] =>
    if fold_eq k n1 then str (fun s => mkArt s (a_path a) (a_isdir a) (a_norec a) (a_skip a))
    else if fold_eq k n2 then str (fun s => mkArt (a_cs a) s (a_isdir a) (a_norec a) (a_skip a))
    else if fold_eq k n3 then boo (fun b => mkArt (a_cs a) (a_path a) b (a_norec a) (a_skip a))
    else if fold_eq k n4 then boo (fun b => mkArt (a_cs a) (a_path a) (a_isdir a) b (a_skip a))
    else if fold_eq k n5 then boo (fun b => mkArt (a_cs a) (a_path a) (a_isdir a) (a_norec a) b)
    else None
  | _ => None
  end.

Definition new_names := [s_checksum; s_path; s_isdir; s_norec; s_skip].
Definition old_names := map of_string ["Checksum"; "Path"; "IsDir"; "DisableRecursion"; "SkipCache"]%string.

(* strict: an unknown key is an error *)
Fixpoint dec_fields (names : list bytes) (strict : bool) (kv : list (bytes * jv)) (a : artifact)
  : option artifact :=
  match kv with
  | [] => Some a
  | (k, v) :: r =>
    match set_field names a k v with
    | None => if strict then None else dec_fields names strict r a
    | Some None => None
    | Some (Some a') => dec_fields names strict r a'
    end
  end.

Definition dec_child (v : jv) : option artifact :=
  match v with
  | JObj kv =>
    match dec_fields new_names true kv (mkArt [] [] false false false) with
    | Some a => Some a
    | None => dec_fields old_names false kv (mkArt [] [] false false false)
    end
  | _ => None
  end.

(* validateDirManifest: key = path, a single non-empty component *)
Definition valid_entry_name (n : bytes) : bool :=
  negb (beqb n []) && negb (beqb n [46]) && negb (beqb n [46; 46]) &&
  negb (existsb (fun b => (b =? 47) || (b =? 0)) n).

Fixpoint dec_children (kv : list (bytes * jv)) : option (list (bytes * artifact)) :=
  match kv with
  | [] => Some []
  | (k, v) :: r =>
    match dec_child v, dec_children r with
    | Some a, Some l => Some ((k, a) :: l)
    | _, _ => None
    end
  end.

Definition dec_manifest_v (v : jv) : option manifest :=
  match v with
  | JObj kv =>
    let step (acc : option manifest) (f : bytes * jv) : option manifest :=
      match acc with
      | None => None
      | Some m =>
        if fold_eq (fst f) s_path then
          match snd f with JStr s => Some (mkMan s (m_contents m)) | JNull => Some m | _ => None end
        else if fold_eq (fst f) s_contents then
          match snd f with
          | JObj ckv => match dec_children ckv with
                        | Some l => Some (mkMan (m_path m) (sort_kv (m_contents m ++ l)))
                        | None => None end
          | JNull => Some m
          | _ => None
          end
        else Some m
      end in
    match fold_left step kv (Some (mkMan [] [])) with
    | Some m =>
      if forallb (fun kv => beqb (a_path (snd kv)) (fst kv) && valid_entry_name (fst kv)) (m_contents m)
      then Some m else None
    | None => None
    end
  | _ => None
  end.

Definition dec_manifest (b : bytes) : option manifest :=
  match parse_json b with Some v => dec_manifest_v v | None => None end.

Inductive strategy := Link | Copy.

Section WithHash.
  Variable H : bytes -> bytes.

  Definition has_cs (cs : bytes) : bool := (3 <=? N.of_nat (List.length cs)).

  (* quickStatus: the link test (os.SameFile of the cache object and what the link resolves to) *)
  Definition qmatch (c : cache) (cs : bytes) (slot : option node) : bool :=
    has_cs cs && in_cache c cs && match slot with Some (LinkC d) => beqb d cs | _ => false end.

  (* B.2 *)
  Definition commit_file (a : artifact) (n : node) (c : cache) (st : strategy)
    : res (node * cache * artifact) :=
    if qmatch c (a_cs a) (Some n) then Ok (n, c, a)
    else match n with
         | File b =>
           let d := H b in
           if a_skip a then Ok (n, c, set_cs a d)
           else match st with
                | Link => Ok (LinkC d, cput c d b, set_cs a d)
                | Copy => Ok (n, cput c d b, set_cs a d)
                end
         | LinkC d =>
           (* a link to another existing object of the cache is adopted (repaired tree) *)
           if in_cache c d then Ok (n, c, set_cs a d) else Err
         | _ => Err
         end.

  Definition old_contents (a : artifact) (c : cache) : res (list (bytes * artifact)) :=
    if has_cs (a_cs a) then
      match cget c (a_cs a) with
      | Some o => match dec_manifest (o_data o) with Some m => Ok (m_contents m) | None => Err end
      | None => Ok []
      end
    else Ok [].

  Definition utf8_name (n : bytes) : bool := valid (List.length n) n.

  (* B.3; entries are visited in listing order, the result of a successful commit does not
     depend on it (Proofs/CommitOrder) *)
  Fixpoint commit_node (a : artifact) (n : node) (c : cache) (st : strategy) {struct n}
    : res (node * cache * artifact) :=
    if a_isdir a then
      match n with
      | Dir es =>
        match old_contents a c with
        | Err => Err
        | Ok old =>
          let fix go (es : list (bytes * node)) (c : cache)
            : res (list (bytes * node) * cache * list (bytes * artifact)) :=
            match es with
            | [] => Ok ([], c, [])
            | (name, ch) :: r =>
              if a_norec a && is_dir ch then
                match go r c with
                | Ok (es', c', m) => Ok ((name, ch) :: es', c', m)
                | Err => Err
                end
              else if negb (utf8_name name) then Err
              else
                let child := match alookup name old with
                             | Some oa => if Bool.eqb (a_isdir oa) (is_dir ch) then oa
                                          else fresh_art name (is_dir ch)
                             | None => fresh_art name (is_dir ch)
                             end in
                match commit_node child ch c st with
                | Err => Err
                | Ok (ch', c1, child') =>
                  match go r c1 with
                  | Ok (es', c2, m) => Ok ((name, ch') :: es', c2, (a_path child', child') :: m)
                  | Err => Err
                  end
                end
            end in
          match go es c with
          | Err => Err
          | Ok (es', c', m) =>
            let mb := enc_manifest (mkMan (a_path a) m) in
            Ok (Dir es', cput c' (H mb) mb, set_cs a (H mb))
          end
        end
      | _ => Err
      end
    else commit_file a n c st.

  (* cache.Commit on the workspace entry of the artifact (None = absent) *)
  Definition commit_art (a : artifact) (slot : option node) (c : cache) (st : strategy)
    : res (option node * cache * artifact) :=
    match slot with
    | None => Err
    | Some n => match commit_node a n c st with
                | Ok (n', c', a') => Ok (Some n', c', a')
                | Err => Err
                end
    end.

  (* B.4 (with the repaired rule: a regular file that already has the checksum is left alone) *)
  Definition checkout_file (a : artifact) (slot : option node) (c : cache) (st : strategy)
    : res (option node) :=
    if negb (has_cs (a_cs a)) then Err
    else match cget c (a_cs a) with
         | None => Err
         | Some o =>
           match slot with
           | Some (File b) => if beqb (H b) (a_cs a) then Ok slot else Err
           | _ =>
             let placeable := qmatch c (a_cs a) slot ||
                              match slot with None => true | _ => false end in
             match st with
             | Link => if qmatch c (a_cs a) slot then Ok slot
                       else match slot with None => Ok (Some (LinkC (a_cs a))) | _ => Err end
             | Copy => if placeable
                       then if beqb (H (o_data o)) (a_cs a) then Ok (Some (File (o_data o))) else Err
                       else Err
             end
           end
         end.

  (* B.5 *)
  Fixpoint checkout_node (fuel : nat) (a : artifact) (slot : option node) (c : cache) (st : strategy)
    : res (option node) :=
    match fuel with
    | O => Err
    | S f =>
      if a_isdir a then
        if negb (has_cs (a_cs a)) then Err
        else match cget c (a_cs a) with
             | None => Err
             | Some o =>
               match slot with
               | None | Some (Dir _) =>
                 match dec_manifest (o_data o) with
                 | None => Err
                 | Some m =>
                   let es0 := match slot with Some (Dir es) => es | _ => [] end in
                   let fix go (kids : list (bytes * artifact)) (es : list (bytes * node))
                     : res (list (bytes * node)) :=
                     match kids with
                     | [] => Ok es
                     | (name, child) :: r =>
                       match checkout_node f child (alookup name es) c st with
                       | Ok v => go r (dset es name v)
                       | Err => Err
                       end
                     end in
                   match go (m_contents m) es0 with
                   | Ok es' => Ok (Some (Dir es'))
                   | Err => Err
                   end
                 end
               | _ => Err
               end
             end
      else checkout_file a slot c st
    end.

  (* cache.Checkout: skip-cache artifacts are left alone *)
  Definition checkout_art (fuel : nat) (a : artifact) (slot : option node) (c : cache) (st : strategy)
    : res (option node) :=
    if a_skip a then Ok slot else checkout_node fuel a slot c st.

  (* ---- status ---- *)
  Inductive stree := St (a : artifact) (wst : fstatus) (has inc cm : bool) (kids : list (bytes * stree)).
  Definition st_cm (s : stree) : bool := match s with St _ _ _ _ cm _ => cm end.
  Definition st_art (s : stree) : artifact := match s with St a _ _ _ _ _ => a end.

  Definition quick (a : artifact) (slot : option node) (c : cache) : stree :=
    let has := has_cs (a_cs a) in
    let inc := has && in_cache c (a_cs a) in
    St a (fstat slot) has inc (qmatch c (a_cs a) slot) [].

  (* B.6; SameContents is byte equality (Proofs/SameContents) *)
  Definition status_file (a : artifact) (slot : option node) (c : cache) : stree :=
    match quick a slot c with
    | St a' w has inc cm k =>
      match slot with
      | Some (File b) =>
        if a_skip a then (if has then St a' w has inc (beqb (H b) (a_cs a)) k else St a' w has inc cm k)
        else match cget c (a_cs a) with
             | Some o => if inc then St a' w has inc (beqb b (o_data o)) k else St a' w has inc cm k
             | None => St a' w has inc cm k
             end
      | _ => St a' w has inc cm k
      end
    end.

  (* B.7; non-short-circuit form: the full children tree *)
  Fixpoint status_node (fuel : nat) (a : artifact) (slot : option node) (c : cache) : res stree :=
    match fuel with
    | O => Err
    | S f =>
      if a_isdir a then
        match quick a slot c with
        | St a' w has inc _ _ =>
          match slot with
          | Some (Dir es) =>
            let listed := filter (fun e => negb (a_norec a && is_dir (snd e))) es in
            let tracked : res (list (bytes * artifact) * list (bytes * stree) * bool) :=
              if inc then
                match cget c (a_cs a) with
                | Some o =>
                  match dec_manifest (o_data o) with
                  | None => Err
                  | Some m =>
                    let fix go (kids : list (bytes * artifact)) : res (list (bytes * stree) * bool) :=
                      match kids with
                      | [] => Ok ([], true)
                      | (name, child) :: r =>
                        match status_node f child (alookup name es) c, go r with
                        | Ok s, Ok (l, cm) => Ok ((a_path child, s) :: l, st_cm s && cm)
                        | _, _ => Err
                        end
                      end in
                    match go (m_contents m) with
                    | Ok (l, cm) => Ok (m_contents m, l, cm)
                    | Err => Err
                    end
                  end
                | None => Err
                end
              else Ok ([], [], false) in
            match tracked with
            | Err => Err
            | Ok (mc, kids, cm) =>
              let untracked := filter (fun e => match alookup (fst e) mc with Some _ => false | None => true end) listed in
              let fix go2 (us : list (bytes * node)) : res (list (bytes * stree)) :=
                match us with
                | [] => Ok []
                | (name, n) :: r =>
                  match status_node f (fresh_art name (is_dir n)) (Some n) c, go2 r with
                  | Ok s, Ok l => Ok ((name, s) :: l)
                  | _, _ => Err
                  end
                end in
              match untracked with
              | [] => Ok (St a' w has inc cm kids)
              | _ => match go2 untracked with
                     | Ok l => Ok (St a' w has inc false (sort_kv (kids ++ l)))
                     | Err => Err
                     end
              end
            end
          | _ => Ok (St a' w has inc false [])
          end
        end
      else Ok (status_file a slot c)
    end.

  (* the short-circuit answer: only ContentsMatch is meaningful *)
  Definition status_short (fuel : nat) (a : artifact) (slot : option node) (c : cache) : res bool :=
    if a_isdir a then
      match quick a slot c with
      | St _ _ has inc _ _ =>
        if negb (has && inc) then Ok false
        else match status_node fuel a slot c with Ok s => Ok (st_cm s) | Err => Err end
      end
    else Ok (st_cm (status_file a slot c)).
End WithHash.
