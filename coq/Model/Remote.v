(* Model of src/cache/push.go and fetch.go and of their index-level traversals: which cache
   objects are sent to / taken from the remote.  The transfer itself (rclone) is the function
   [transfer] below: it copies exactly the listed objects that exist at the source and do not
   exist at the destination, never overwrites, fails if a listed object is missing at the source
   (the emulation in harness/fakebin/rclone implements this contract; real rclone with
   --immutable --size-only is assumed to).  setFilePerms then makes the listed objects 0444 at
   the destination. *)
From Coq Require Import NArith List Bool.
From DudV Require Import Base.Bytes Base.Json Model.Fs Model.Cache Model.Stage Model.Index Model.System.
Import ListNotations.
Local Open Scope N_scope.

Definition transfer_mode : N := 420.   (* 0o644: what a fresh copy gets before the fix-up *)

(* copy the listed objects src -> dst *)
Fixpoint transfer (files : list bytes) (src dst : cache) : res cache :=
  match files with
  | [] => Ok dst
  | d :: r =>
    match cget src d with
    | None => Err
    | Some o =>
      let dst' := match cget dst d with
                  | Some _ => dst
                  | None => ins_sorted d (mkObj (o_data o) transfer_mode) dst
                  end in
      transfer r src dst'
    end
  end.

(* setFilePerms: chmod 0444 on every listed object that exists at the destination *)
Fixpoint fix_perms (files : list bytes) (dst : cache) : cache :=
  match files with
  | [] => dst
  | d :: r =>
    let dst' := match cget dst d with
                | Some o => ins_sorted d (mkObj (o_data o) cache_perms) dst
                | None => dst
                end in
    fix_perms r dst'
  end.

Definition remote_copy (files : list bytes) (src dst : cache) : res cache :=
  match transfer files src dst with
  | Ok dst' => Ok (fix_perms files dst')
  | Err => Err
  end.

Definition add_key (d : bytes) (l : list bytes) : list bytes := if mem d l then l else d :: l.

(* gatherFilesToPush *)
Fixpoint gather (fuel : nat) (a : artifact) (c : cache) (acc : list bytes) : res (list bytes) :=
  match fuel with
  | O => Err
  | S f =>
    if a_skip a then Ok acc
    else if negb (has_cs (a_cs a)) then Err
    else match cget c (a_cs a) with
         | None => Err
         | Some o =>
           if a_isdir a then
             match dec_manifest (o_data o) with
             | None => Err
             | Some m =>
               let fix go (kids : list (bytes * artifact)) (acc : list bytes) : res (list bytes) :=
                 match kids with
                 | [] => Ok acc
                 | (_, ch) :: r => match gather f ch c acc with
                                   | Ok acc' => go r acc'
                                   | Err => Err
                                   end
                 end in
               match go (m_contents m) acc with
               | Ok acc' => Ok (add_key (a_cs a) acc')
               | Err => Err
               end
             end
           else Ok (add_key (a_cs a) acc)
         end
  end.

Fixpoint gather_all (fuel : nat) (arts : list artifact) (c : cache) (acc : list bytes) : res (list bytes) :=
  match arts with
  | [] => Ok acc
  | a :: r => match gather fuel a c acc with
              | Ok acc' => gather_all fuel r c acc'
              | Err => Err
              end
  end.

(* LocalCache.Push for one stage's outputs *)
Definition push_arts (arts : list artifact) (c remote : cache) : res cache :=
  match gather_all 64 arts c [] with
  | Err => Err
  | Ok [] => Ok remote
  | Ok files => remote_copy files c remote
  end.

(* the key under which Fetch merges the children of one level: the checksum, plus a marker for
   directories (repaired tree: a file whose bytes are a directory's manifest has that directory's
   checksum and must not shadow it) *)
Definition child_key (a : artifact) : bytes := if a_isdir a then a_cs a ++ [47] else a_cs a.

(* LocalCache.Fetch: missing objects first, then the children of every directory artifact
   (read from the local cache after the transfer), keyed by checksum *)
Fixpoint fetch_arts (fuel : nat) (arts : list artifact) (c remote : cache) : res cache :=
  match fuel with
  | O => Err
  | S f =>
    let arts' := filter (fun a => negb (a_skip a)) arts in
    if negb (forallb (fun a => has_cs (a_cs a)) arts') then Err
    else
      let missing := fold_right (fun a acc => if in_cache c (a_cs a) then acc else add_key (a_cs a) acc) [] arts' in
      let c1 := match missing with
                | [] => Ok c
                | _ => remote_copy missing remote c
                end in
      match c1 with
      | Err => Err
      | Ok c1 =>
        let fix kids (dirs : list artifact) (acc : list (bytes * artifact)) : res (list (bytes * artifact)) :=
          match dirs with
          | [] => Ok acc
          | a :: r =>
            match cget c1 (a_cs a) with
            | None => Err
            | Some o =>
              match dec_manifest (o_data o) with
              | None => Err
              | Some m => kids r (fold_left (fun acc kv => ins_sorted (child_key (snd kv)) (snd kv) acc) (m_contents m) acc)
              end
            end
          end in
        match kids (filter a_isdir arts') [] with
        | Err => Err
        | Ok [] => Ok c1
        | Ok children => fetch_arts f (map snd children) c1 remote
        end
      end
  end.

(* the stages a push / fetch command visits, in completion order *)
Definition visited (idx : index) (recursive : bool) (ts : list bytes) : res (list bytes) :=
  match fold_left (fun acc t => match acc with
                                | Ok done => walk_stage (S (length idx)) idx recursive done [] t
                                | Err => Err end) ts (Ok []) with
  | Ok done => Ok (rev done)
  | Err => Err
  end.

Definition stage_outputs (idx : index) (sp : bytes) : list artifact :=
  match alookup sp idx with Some s => s_outputs s | None => [] end.

(* `dud push [targets] [-s]` : new remote *)
Definition rstep_push (w : world) (remote : cache) (targets : list bytes) (single : bool) : res cache :=
  if w_lock w then Err else
  match load_index (w_index w) (w_stages w) [] with
  | None => Err
  | Some [] => Err
  | Some idx =>
    let recursive := match targets with [] => true | _ => negb single end in
    match visited idx recursive (all_or targets idx) with
    | Err => Err
    | Ok sps => fold_left (fun acc sp => match acc with
                                         | Ok r => push_arts (stage_outputs idx sp) (w_cache w) r
                                         | Err => Err end) sps (Ok remote)
    end
  end.

(* `dud fetch [targets] [-s]` : new local cache *)
Definition rstep_fetch (w : world) (remote : cache) (targets : list bytes) (single : bool) : res cache :=
  if w_lock w then Err else
  match load_index (w_index w) (w_stages w) [] with
  | None => Err
  | Some idx =>
    let recursive := match targets with [] => true | _ => negb single end in
    match visited idx recursive (all_or targets idx) with
    | Err => Err
    | Ok sps => fold_left (fun acc sp => match acc with
                                         | Ok c => fetch_arts 64 (stage_outputs idx sp) c remote
                                         | Err => Err end) sps (Ok (w_cache w))
    end
  end.

(* every object checkout of an artifact may need: the artifact's own object and, for a
   directory, everything listed by its manifests *)
Fixpoint reach (fuel : nat) (a : artifact) (c : cache) : list bytes :=
  match fuel with
  | O => []
  | S f =>
    if a_skip a then []
    else a_cs a ::
         (if a_isdir a then
            match cget c (a_cs a) with
            | Some o => match dec_manifest (o_data o) with
                        | Some m => flat_map (fun kv => reach f (snd kv) c) (m_contents m)
                        | None => []
                        end
            | None => []
            end
          else [])
  end.
