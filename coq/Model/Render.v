(* Model of the human status text: [artifact.Status.String()] of /repo/src/artifact/artifact.go at
   /repo HEAD (5dad7e2; contains ed62442 "status text reports a missing or replaced sub-directory
   instead of counting it as a directory").  Executable definitions only; the facts are in
   Proofs/RenderProofs.v.

   Go value                          model ([stree] of Model/Cache.v)
   --------                          -----
   Status.Artifact.IsDir             a_isdir a
   Status.Artifact.SkipCache         a_skip a
   Status.WorkspaceFileStatus        wst : fstatus   (Model/Fs.v; SAbsent / SRegular / SLink /
                                     SDirectory / SOther are fsutil.StatusAbsent / StatusRegularFile /
                                     StatusLink / StatusDirectory / StatusOther, same order as the iota)
   Status.HasChecksum                has
   Status.ChecksumInCache            inc
   Status.ContentsMatch              cm
   Status.ChildrenStatus (a Go map)  kids : list (bytes * stree)

   Every field String() reads is present in [stree]; nothing had to be guessed.  Two differences of
   representation, both harmless for the text:
   - ChildrenStatus is a Go map (unique keys, random iteration order); [kids] is a list.  String()
     never reads the keys, only the values, and [render_perm] (RenderProofs) proves that the text
     does not depend on the order in which the children are visited.
   - the counts are Go [int]; here [N] (no overflow: a count is at most the number of nodes). *)
From Coq Require Import NArith List Bool String.
From DudV Require Import Base.Bytes Model.Fs Model.Cache.
Import ListNotations.
Local Open Scope N_scope.

(* ---- fsutil.FileStatus.String(), fsutil.go:24-26 ---- *)
Definition fstatus_name (w : fstatus) : bytes :=
  match w with
  | SAbsent => of_string "absent"
  | SRegular => of_string "regular file"
  | SLink => of_string "link"
  | SDirectory => of_string "directory"
  | SOther => of_string "other"
  end.

(* ---- the literals of artifact.go ---- *)
Definition t_incorrect_type : bytes := of_string "incorrect file type: ".          (* 135, 139 *)
Definition t_not_cached : bytes := of_string " (not cached)".                      (* 139, 167 *)
Definition t_missing_ws : bytes := of_string "missing from workspace".             (* 145 *)
Definition t_missing_both : bytes := of_string "missing from cache and workspace". (* 147 *)
Definition t_missing_nc : bytes := of_string "missing and not committed".          (* 149 *)
Definition t_uptodate : bytes := of_string "up-to-date".                           (* 156 *)
Definition t_modified : bytes := of_string "modified".                             (* 158 *)
Definition t_missing_cache : bytes := of_string "missing from cache".              (* 161 *)
Definition t_not_committed : bytes := of_string "not committed".                   (* 164 *)
Definition t_uptodate_link : bytes := of_string "up-to-date (link)".               (* 175 *)
Definition t_incorrect_link : bytes := of_string "incorrect link".                 (* 177 *)
Definition t_broken_link : bytes := of_string "broken link".                       (* 179 *)
Definition t_link_no_cs : bytes := of_string "link with no checksum".              (* 181 *)
Definition t_invalid_type : bytes := of_string "invalid file type".                (* 184 *)
Definition t_empty_dir : bytes := of_string "empty directory".                     (* 92 *)
Definition t_dir : bytes := of_string "directory".                                 (* 94 *)
Definition t_uptodate_nc : bytes := t_uptodate ++ t_not_cached.   (* what 156 + 167 write *)

(* ---- lines 132-185 and the two tests after the switch (187, 197) ----
   Everything String() does before it looks at the children.  Three ways out:
   [Ret t]      a [return] of lines 135-184,
   [DirCounts]  fell out of the switch with stat.IsDir (line 187): the count rendering,
   [Panic]      line 197.  [head_never_panics] proves that this cannot happen. *)
Inductive head := Ret (t : bytes) | DirCounts | Panic.

Definition string_head (a : artifact) (w : fstatus) (has inc cm : bool) : head :=
  let isDir := fstatus_eqb w SDirectory in                                        (* 132 *)
  let isAbsent := fstatus_eqb w SAbsent in                                        (* 133 *)
  if negb (Bool.eqb (a_isdir a) isDir) && negb isAbsent then                      (* 134 *)
    Ret (t_incorrect_type ++ fstatus_name w)                                      (* 135 *)
  else
  let isRegularFile := fstatus_eqb w SRegular in                                  (* 137 *)
  if a_skip a && negb isRegularFile then                                          (* 138 *)
    Ret (t_incorrect_type ++ fstatus_name w ++ t_not_cached)                      (* 139 *)
  else
  match w with                                                                    (* 141 *)
  | SAbsent =>                                                                    (* 142 *)
    if has then                                                                   (* 143 *)
      if inc then Ret t_missing_ws                                                (* 144-145 *)
      else Ret t_missing_both                                                     (* 147 *)
    else Ret t_missing_nc                                                         (* 149 *)
  | SRegular =>                                                                   (* 151 *)
    let out :=                                                                    (* 152 *)
      if has then                                                                 (* 153 *)
        if inc || a_skip a then                                                   (* 154 *)
          if cm then t_uptodate                                                   (* 155-156 *)
          else t_modified                                                         (* 158 *)
        else t_missing_cache                                                      (* 161 *)
      else t_not_committed in                                                     (* 164 *)
    Ret (if a_skip a then out ++ t_not_cached else out)                           (* 166-169 *)
  | SLink =>                                                                      (* 171 *)
    if has then                                                                   (* 172 *)
      if inc then                                                                 (* 173 *)
        if cm then Ret t_uptodate_link                                            (* 174-175 *)
        else Ret t_incorrect_link                                                 (* 177 *)
      else Ret t_broken_link                                                      (* 179 *)
    else Ret t_link_no_cs                                                         (* 181 *)
  | SOther => Ret t_invalid_type                                                  (* 183-184 *)
  | SDirectory =>                                 (* no case: falls out of the switch *)
    if a_isdir a then DirCounts                                                   (* 187 *)
    else Panic                                                                    (* 197 *)
  end.

(* ---- the count map: map[string]int as an association list, first increment first ---- *)
Definition counts := list (bytes * N).

(* counts[k]++ (a missing key reads as 0) *)
Fixpoint bump (k : bytes) (m : counts) : counts :=
  match m with
  | [] => [(k, 1)]
  | (k', n) :: r => if beqb k k' then (k', n + 1) :: r else (k', n) :: bump k r
  end.

(* ---- sortCounts, lines 108-129 ----
   sort.Slice with less(a, b) = if counts[a] == counts[b] then a < b (Go string order = bytewise
   lexicographic = [bltb]) else counts[a] > counts[b]: highest count first, ties by key ascending.
   sort.Slice is not stable, but the keys of a map are distinct, so [less] is a strict total order
   on them and the sorted slice is unique; insertion sort computes it. *)
Definition less (x y : bytes * N) : bool :=
  if snd x =? snd y then bltb (fst x) (fst y)                                     (* 122-123 *)
  else snd y <? snd x.                                                            (* 126 *)

Fixpoint insert_count (x : bytes * N) (l : counts) : counts :=
  match l with
  | [] => [x]
  | y :: r => if less y x then y :: insert_count x r else x :: y :: r
  end.
Definition sort_counts (m : counts) : counts := fold_right insert_count [] m.

(* ---- "%d" for a count ---- *)
Fixpoint dec_fuel (fuel : nat) (n : N) (acc : bytes) : bytes :=
  match fuel with
  | O => acc
  | S f => let acc' := (48 + n mod 10) :: acc in
           if n / 10 =? 0 then acc' else dec_fuel f (n / 10) acc'
  end.
(* [N.size_nat n] (the number of binary digits) bounds the number of decimal digits *)
Definition dec (n : N) : bytes := dec_fuel (S (N.size_nat n)) n [].

(* fmt.Sprintf("%dx %s", counts[status], status), line 192 *)
Definition item (x : bytes * N) : bytes := dec (snd x) ++ of_string "x " ++ fst x.

(* strings.Join(countStrings, ", "), line 194 *)
Fixpoint join (sep : bytes) (l : list bytes) : bytes :=
  match l with
  | [] => []
  | [x] => x
  | x :: r => x ++ sep ++ join sep r
  end.

Definition show_counts (m : counts) : bytes :=                                    (* 190-194 *)
  join (of_string ", ") (map item (sort_counts m)).

(* ---- String() and dirStatusCounts; mutually recursive in the Go code, here the knot is tied
   through [string_with] (a plain structural [Fixpoint], no fuel) ----
   [dir_counts s m] is stat.dirStatusCounts(counts) started on the map [m], lines 89-106:
   - 91-95: one "empty directory" for a node without children, else one "directory";
   - 96-105: for every child: a child with IsDir whose workspace entry IS a directory is descended
     into (so it adds its own "directory" / "empty directory" and its children; its SkipCache,
     HasChecksum, ChecksumInCache and ContentsMatch are never looked at); any other child - a file,
     a link, and since ed62442 also a sub-directory that is missing or has been replaced - adds its
     own String().
   The children are visited in list order (Go: map order, see the header). *)
(* a child that dirStatusCounts descends into (line 100) *)
Definition is_subdir (s : stree) : bool :=
  match s with St a w _ _ _ _ => a_isdir a && fstatus_eqb w SDirectory end.

(* String() with the recursive call of line 189 abstracted: [dc] stands for dirStatusCounts. *)
Definition string_with (dc : stree -> counts -> counts) (s : stree) : bytes :=
  match s with
  | St a w has inc cm _ =>
    match string_head a w has inc cm with
    | Ret t => t
    | DirCounts => show_counts (dc s [])                                          (* 188-194 *)
    | Panic => []                                                                 (* 197, unreachable *)
    end
  end.

Fixpoint dir_counts (s : stree) (m : counts) : counts :=
  match s with
  | St a w has inc cm kids =>
    let m1 := match kids with
              | [] => bump t_empty_dir m                                          (* 91-92 *)
              | _ :: _ => bump t_dir m                                            (* 93-94 *)
              end in
    (fix go (l : list (bytes * stree)) (m : counts) : counts :=                   (* 96 *)
       match l with
       | [] => m
       | (_, c) :: r =>
         if is_subdir c                                                           (* 100 *)
         then go r (dir_counts c m)                                               (* 101 *)
         else go r (bump (string_with dir_counts c) m)                            (* 103: childStatus.String() *)
       end) kids m1
  end.

(* func (stat Status) String() string *)
Definition render (s : stree) : bytes := string_with dir_counts s.

(* ---- the labels the tool's users (and the old checker [human_ok] of Corr/RunSys.v) read as
   "nothing to do" ---- *)
Definition uptodate_texts : list bytes := [t_uptodate; t_uptodate_nc; t_uptodate_link].
Definition ok_labels : list bytes := [t_uptodate; t_uptodate_link; t_uptodate_nc; t_dir; t_empty_dir].
Definition is_uptodate_text (t : bytes) : bool := existsb (beqb t) uptodate_texts.
Definition is_ok_label (t : bytes) : bool := existsb (beqb t) ok_labels.

(* the flag condition under which String() writes one of [uptodate_texts] (lines 134, 138, 153-156,
   172-175) *)
Definition uptodate_flags (s : stree) : bool :=
  match s with
  | St a w has inc cm _ =>
    negb (a_isdir a) && has && cm &&
    match w with
    | SRegular => inc || a_skip a
    | SLink => inc && negb (a_skip a)
    | _ => false
    end
  end.

(* the keys of the count map of a directory status, in the order they are printed *)
Definition items (s : stree) : list bytes := map fst (sort_counts (dir_counts s [])).

(* the statuses whose own String() ends up in the count map: the non-descended nodes below [s] *)
Fixpoint leaves (s : stree) : list stree :=
  match s with
  | St _ _ _ _ _ kids =>
    (fix go (l : list (bytes * stree)) : list stree :=
       match l with
       | [] => []
       | (_, c) :: r => (if is_subdir c then leaves c else [c]) ++ go r
       end) kids
  end.
