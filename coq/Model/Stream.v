(* Model of src/checksum/checksum.go: ChecksumBuffer = Reset the pooled hasher, drain the
   reader with the io.CopyBuffer loop, hex of Sum.  The hasher is an abstract incremental
   object; readers are lists of read events. *)
From Coq Require Import NArith List Bool.
From DudV Require Import Base.Bytes.
Import ListNotations.

Inductive rerr := RNone | REOF | RFail.
Definition event := (bytes * rerr)%type.

Section Stream.
  Variable hstate : Type.
  Variable h_reset : hstate -> hstate.
  Variable h_write : hstate -> bytes -> hstate.
  Variable h_sum : hstate -> bytes.

  (* io.CopyBuffer: n>0 is written before the error is looked at; EOF ends the loop without
     error; any other error is returned.  A reader whose script runs out without EOF or
     error never returns: [None]. *)
  Fixpoint copy_loop (h : hstate) (evs : list event) : option (hstate * bool) :=
    match evs with
    | [] => None
    | (c, e) :: r =>
      let h' := match c with [] => h | _ => h_write h c end in
      match e with
      | RNone => copy_loop h' r
      | REOF => Some (h', true)
      | RFail => Some (h', false)
      end
    end.

  (* ChecksumBuffer on a hasher in ANY state left by earlier computations *)
  Definition checksum (h : hstate) (evs : list event) : option (hstate * option bytes) :=
    match copy_loop (h_reset h) evs with
    | None => None
    | Some (h', true) => Some (h', Some (hex (h_sum h')))
    | Some (h', false) => Some (h', None)
    end.

  (* a sequence of computations, each drawing some hasher of the pool (choice list picks
     which pool slot; the slot receives the hasher back) *)
  Fixpoint nth_set {A} (l : list A) (i : nat) (v : A) : list A :=
    match l, i with
    | [], _ => []
    | _ :: r, O => v :: r
    | a :: r, S i' => a :: nth_set r i' v
    end.

  Fixpoint checksum_seq (pool : list hstate) (dflt : hstate)
           (jobs : list (nat * list event)) : list (option (option bytes)) :=
    match jobs with
    | [] => []
    | (slot, evs) :: r =>
      match checksum (nth slot pool dflt) evs with
      | None => [None]
      | Some (h', out) => Some out :: checksum_seq (nth_set pool slot h') dflt r
      end
    end.
End Stream.

(* reader scripts *)
Definition data_of (evs : list event) : bytes := concat (map fst evs).

(* a script that ends with EOF (possibly together with the last data) and has no error *)
Fixpoint eof_script (evs : list event) : bool :=
  match evs with
  | [] => false
  | [(_, REOF)] => true
  | (_, RNone) :: r => eof_script r
  | _ => false
  end.

(* a script whose first non-RNone event is a failure *)
Fixpoint fail_script (evs : list event) : bool :=
  match evs with
  | [] => false
  | (_, RFail) :: _ => true
  | (_, RNone) :: r => fail_script r
  | (_, REOF) :: _ => false
  end.
