(* Model of the project lock of the dud CLI (src/cmd/root.go: lockProject, unlockProject,
   prepare, fatal, Main; config.go; pull.go) as a transition system over any number of
   concurrently started processes.

   The lock is the file <root>/.dud/lock, created with O_CREATE|O_RDWR|O_EXCL; existence of
   the file = the project is owned.  The only modelled environment is other dud processes
   (nobody else creates or deletes the file), and a killed process is not modelled: the
   property is about commands that exit on their own.

   The kind of release is a parameter:
     ReleaseSamePath     unlockProject removes exactly the absolute path that lockProject
                         created (lockedPath, the repaired tree);
     ReleaseCwdRelative  unlockProject removes ./.dud/lock relative to the working directory
                         (pre-repair).  When cwd <> root there is no such file (the root is the
                         NEAREST ancestor holding .dud), the remove fails with ENOENT and the
                         real lock stays.

   Mapping of step rules to Go source is given at each rule. *)
From Coq Require Import List Bool Arith.
Import ListNotations.

Inductive release_kind := ReleaseSamePath | ReleaseCwdRelative.

(* static descriptor of a subcommand *)
Record desc := mkDesc {
  locks : bool;              (* calls lockProject at all *)
  chdir_before_lock : bool;  (* os.Chdir(rootDir) before lockProject (prepare) *)
  relocks : bool;            (* pull: fetch, unlockProject, checkout locks again *)
  body_may_fail : bool       (* some non-lock error may reach fatal *)
}.

(* commit, checkout, run, status, graph, push, fetch, stage add, stage remove: prepare *)
Definition prepare_desc := mkDesc true true false true.
(* config get, config set (project): getProjectRootDir + lockProject, NO chdir *)
Definition config_desc := mkDesc true false false true.
(* pull = fetchCmd.Run; unlockProject; checkoutCmd.Run *)
Definition pull_desc := mkDesc true true true true.
(* init, checksum, stage gen, config path, config set --user, version: never lock *)
Definition nolock_desc := mkDesc false false false true.

Inductive pc :=
| Start      (* process started, nothing done *)
| Resolved   (* root found, paths re-based, chdir done if the descriptor says so; the next
                action is the O_EXCL open *)
| Acquired   (* lockProject returned nil: projectLocked = true; rest of prepare ahead *)
| Body       (* the work of the subcommand *)
| Relock     (* pull: fetch returned; at pull.go:38 (unlockProject) .. :41 (checkout) *)
| Done       (* Execute returned nil; at root.go:142 (Main's unlockProject) *)
| Failing    (* inside fatal(err), before logger.Error.Fatal *)
| Exited (code : nat).

Record proc := mkProc {
  p_pc : pc;
  p_locked : bool;        (* the Go variable projectLocked *)
  p_path_ok : bool;       (* the path unlockProject will remove is the path lockProject created *)
  p_cwd_root : bool;      (* working directory = project root *)
  p_refused : bool;       (* ghost: the last lockProject returned projectLockedError *)
  p_relocked : bool;      (* pull: already in the checkout half *)
  p_desc : desc
}.

Record global := mkGlobal {
  lockfile : bool;        (* <root>/.dud/lock exists *)
  holder : option nat;    (* ghost: index of the process whose O_EXCL open succeeded *)
  procs : list proc
}.

Definition set_pc (p : proc) (c : pc) : proc :=
  mkProc c (p_locked p) (p_path_ok p) (p_cwd_root p) (p_refused p) (p_relocked p) (p_desc p).
Definition set_locked (p : proc) (b : bool) : proc :=
  mkProc (p_pc p) b (p_path_ok p) (p_cwd_root p) (p_refused p) (p_relocked p) (p_desc p).
Definition set_path_ok (p : proc) (b : bool) : proc :=
  mkProc (p_pc p) (p_locked p) b (p_cwd_root p) (p_refused p) (p_relocked p) (p_desc p).
Definition set_cwd_root (p : proc) (b : bool) : proc :=
  mkProc (p_pc p) (p_locked p) (p_path_ok p) b (p_refused p) (p_relocked p) (p_desc p).
Definition set_refused (p : proc) (b : bool) : proc :=
  mkProc (p_pc p) (p_locked p) (p_path_ok p) (p_cwd_root p) b (p_relocked p) (p_desc p).
Definition set_relocked (p : proc) (b : bool) : proc :=
  mkProc (p_pc p) (p_locked p) (p_path_ok p) (p_cwd_root p) (p_refused p) b (p_desc p).

(* names of the step rules; which process moves is the other half of a schedule entry *)
Inductive label :=
| LResolve | LAcquireOk | LAcquireRefused | LBodyOk | LBodyFail | LUnlock | LRelock | LExit.

(* what a step of one process does to the lock file *)
Inductive effect :=
| Keep     (* the file system is not touched, or the syscall failed *)
| Take     (* the O_EXCL open created the file *)
| Drop.    (* os.Remove deleted the file *)

(* whether the path that unlockProject will remove is the file lockProject created.
   ReleaseSamePath: lockedPath = absLockPath (root.go:273, :291), always.
   ReleaseCwdRelative: the relative lockPath resolves to the lock only at the root; the cwd
   does not change between lockProject and the exit of the process. *)
Definition created_path_ok (k : release_kind) (p : proc) : bool :=
  match k with
  | ReleaseSamePath => true
  | ReleaseCwdRelative => p_cwd_root p
  end.

(* cwd after the (optional) os.Chdir(rootDir), root.go:315 *)
Definition after_chdir (p : proc) : proc :=
  set_cwd_root p (p_cwd_root p || chdir_before_lock (p_desc p)).

(* One step of one process, given whether the lock file exists. *)
Definition local_step (k : release_kind) (l : label) (lf : bool) (p : proc)
  : option (proc * effect) :=
  match l, p_pc p with
  (* resolve.  Locking subcommands: getProjectRootDir, pathAbsThenRel, os.Chdir
     (root.go:303-317; config.go:32, :75 without the chdir).  Others go straight to their
     body (init.go, checksum.go, stage.go:88-124 gen, config.go:108-129 path, :71-72). *)
  | LResolve, Start =>
      if locks (p_desc p)
      then Some (set_pc (after_chdir p) Resolved, Keep)
      else Some (set_pc p Body, Keep)
  (* acquire_ok.  root.go:262-275: the open succeeds exactly when the file is absent;
     creation of the file, projectLocked = true and lockedPath are one atomic step as far as
     other processes can tell (the two variables are process-local). *)
  | LAcquireOk, Resolved =>
      if lf then None
      else Some (set_pc (set_locked (set_path_ok p (created_path_ok k p)) true) Acquired, Take)
  (* acquire_refused.  root.go:276-282: EEXIST -> projectLockedError; the caller calls
     fatal (root.go:319-321 + e.g. commit.go:35-37; config.go:36-38, :79-81). *)
  | LAcquireRefused, Resolved =>
      if lf then Some (set_pc (set_refused p true) Failing, Keep) else None
  (* body_ok.  From Acquired: the rest of prepare succeeded (root.go:323-333).  From Body:
     the Run function returns; for pull that is the return of fetchCmd.Run (pull.go:33),
     otherwise Execute returns nil (root.go:139). *)
  | LBodyOk, Acquired => Some (set_pc p Body, Keep)
  | LBodyOk, Body =>
      if relocks (p_desc p) && negb (p_relocked p)
      then Some (set_pc p Relock, Keep)
      else Some (set_pc p Done, Keep)
  (* body_fail.  Any error other than projectLockedError on the way: no root / chdir failed
     (root.go:304, :315), lockProject's other errors (root.go:283), config/cache/index errors
     (root.go:323-333), or the subcommand's own fatal(err) calls; also Execute returning an
     error (root.go:139-141). *)
  | LBodyFail, Start | LBodyFail, Resolved | LBodyFail, Acquired | LBodyFail, Body =>
      if body_may_fail (p_desc p) then Some (set_pc p Failing, Keep) else None
  (* unlock.  unlockProject, root.go:286-294: only when projectLocked; the flag is cleared
     BEFORE the remove, whatever its result.
     At Relock (pull.go:38-40) and at Done (root.go:142-144) a failed remove leads to fatal. *)
  | LUnlock, Relock | LUnlock, Done =>
      if p_locked p then
        if p_path_ok p then Some (set_locked p false, Drop)
        else Some (set_pc (set_locked p false) Failing, Keep)
      else None
  (* In fatal (root.go:152-156): skipped for projectLockedError; a failed remove is only
     logged. *)
  | LUnlock, Failing =>
      if p_locked p && negb (p_refused p) then
        if p_path_ok p then Some (set_locked p false, Drop)
        else Some (set_locked p false, Keep)
      else None
  (* relock.  pull.go:41: checkoutCmd.Run -> prepare again (root finding, chdir); the
     O_EXCL open is the following acquire step.  unlockProject with projectLocked = false is
     a no-op and is folded into this step. *)
  | LRelock, Relock =>
      if p_locked p then None
      else Some (set_pc (set_relocked (after_chdir p) true) Resolved, Keep)
  (* exit.  Main returns (root.go:145-148), exit status 0; logger.Error.Fatal
     (root.go:160), exit status 1.  An unlockProject call with projectLocked = false is a
     no-op and is folded into this step; in fatal it is skipped for projectLockedError. *)
  | LExit, Done => if p_locked p then None else Some (set_pc p (Exited 0), Keep)
  | LExit, Failing =>
      if p_refused p || negb (p_locked p) then Some (set_pc p (Exited 1), Keep) else None
  | _, _ => None
  end.

Fixpoint upd {A} (l : list A) (i : nat) (x : A) : list A :=
  match l, i with
  | [], _ => []
  | _ :: r, 0 => x :: r
  | y :: r, S j => y :: upd r j x
  end.

Definition apply_effect (e : effect) (i : nat) (lf : bool) (h : option nat)
  : bool * option nat :=
  match e with
  | Keep => (lf, h)
  | Take => (true, Some i)
  | Drop => (false, None)
  end.

(* process [i] fires rule [l] *)
Definition step_proc (k : release_kind) (l : label) (g : global) (i : nat) : option global :=
  match nth_error (procs g) i with
  | None => None
  | Some p =>
    match local_step k l (lockfile g) p with
    | None => None
    | Some (p', e) =>
      let '(lf, h) := apply_effect e i (lockfile g) (holder g) in
      Some (mkGlobal lf h (upd (procs g) i p'))
    end
  end.

(* arbitrary interleaving: any enabled rule of any process *)
Inductive steps (k : release_kind) : global -> global -> Prop :=
| steps_refl g : steps k g g
| steps_step g1 g2 g3 l i :
    steps k g1 g2 -> step_proc k l g2 i = Some g3 -> steps k g1 g3.

(* executable schedules *)
Fixpoint run (k : release_kind) (g : global) (sch : list (label * nat)) : option global :=
  match sch with
  | [] => Some g
  | (l, i) :: r =>
    match step_proc k l g i with
    | None => None
    | Some g' => run k g' r
    end
  end.

(* every process at Start; subcommand and starting directory are arbitrary per process *)
Definition start_proc (c : desc * bool) : proc :=
  mkProc Start false false (snd c) false false (fst c).

Definition init (cfg : list (desc * bool)) : global :=
  mkGlobal false None (map start_proc cfg).

Definition reachable (k : release_kind) (g : global) : Prop :=
  exists cfg, steps k (init cfg) g.

(* process [i] believes it owns the project *)
Definition holds (g : global) (i : nat) : Prop :=
  exists p, nth_error (procs g) i = Some p /\ p_locked p = true.

Definition is_exited (p : proc) : bool :=
  match p_pc p with Exited _ => true | _ => false end.

Definition exit_code (p : proc) : option nat :=
  match p_pc p with Exited c => Some c | _ => None end.
