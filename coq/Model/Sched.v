(* Model of the per-directory worker pool of src/cache/{commit,checkout,status}.go:
   commitDirArtifact / startCommitWorkers / commitWorker        (variant Commit)
   checkoutDir / startCheckoutWorkers / checkoutWorker          (variant Checkout)
   concurrentStatus / startStatusWorkers / statusWorker         (variant Status short_circuit)

   ONE directory level as a labelled transition system over counters (no entry identities).
   A state counts the entries not yet handed out by the feeder goroutine, the workers per
   token kind (dedicated / shared) in each of the phases idle / busy / holding a result, the
   results received by the collector goroutine, and the flags of the errgroup (context
   cancelled, first error).  The action of an entry (commit of a file, or a nested directory
   instance) is opaque: a busy worker eventually finishes it or fails it.

   The shared token pool belongs to the whole tree.  It is treated adversarially: a shared
   spawn is merely permitted while this instance holds fewer than S shared tokens; nothing
   ever depends on it being granted.

   Go's select picks any ready case: nothing is disabled by cancellation, the ctx.Done()
   branches are merely added once the context is cancelled. *)
From Coq Require Import Lia Arith Bool List.
Import ListNotations.

Inductive variant := Commit | Checkout | Status (short_circuit : bool).

(* commit and status have a collector goroutine (manifest builder / status builder) and a
   result channel; checkout workers return nothing *)
Definition has_collector (v : variant) : bool :=
  match v with Checkout => false | _ => true end.

Definition sc_on (v : variant) : bool :=
  match v with Status true => true | _ => false end.

Inductive errkind := EntryError | ParentCancelled | ShortCircuit.

Inductive kind := Ded | Shr.

(* workers holding one kind of token *)
Record wk := { idle : nat; busy : nat; hold : nat }.
Definition wlive (x : wk) : nat := idle x + busy x + hold x.

Record cfg := {
  (* feeder goroutine *)
  q : nat;              (* entries not yet sent on the input channel *)
  fd_done : bool;       (* feeder has returned *)
  closed : bool;        (* input channel closed *)
  (* spawn loop of start*Workers (runs on the calling goroutine, before errGroup.Wait) *)
  sp : nat;             (* loop counter i = workers spawned so far *)
  sp_done : bool;
  (* worker goroutines *)
  wD : wk; wS : wk;
  (* collector goroutine (Commit, Status); for Checkout [col] counts processed entries *)
  col : nat;
  col_done : bool;      (* collector has returned (true from the start for Checkout) *)
  ready : bool;         (* manifestReady / statusReady closed *)
  (* errgroup *)
  cancelled : bool;     (* groupCtx.Done() closed *)
  err : option errkind; (* first non-nil error returned by a goroutine of the group *)
  (* ghost history *)
  dropped : nat;        (* entries whose action failed or whose result was abandoned *)
  nfail : nat;          (* number of fail steps so far *)
  nabort : nat;         (* number of abort steps so far *)
  nfin : nat;           (* number of finish steps so far *)
  xc : bool;            (* an ext_cancel step happened *)
  scd : bool;           (* a short_circuit step happened *)
}.

Definition w (k : kind) (c : cfg) : wk := match k with Ded => wD c | Shr => wS c end.
Definition workers (c : cfg) : nat := wlive (wD c) + wlive (wS c).

Definition set_feeder (c : cfg) q' fd' cl' : cfg :=
  {| q := q'; fd_done := fd'; closed := cl'; sp := sp c; sp_done := sp_done c;
     wD := wD c; wS := wS c; col := col c; col_done := col_done c; ready := ready c;
     cancelled := cancelled c; err := err c;
     dropped := dropped c; nfail := nfail c; nabort := nabort c; nfin := nfin c;
     xc := xc c; scd := scd c |}.

Definition set_spawner (c : cfg) sp' spd' : cfg :=
  {| q := q c; fd_done := fd_done c; closed := closed c; sp := sp'; sp_done := spd';
     wD := wD c; wS := wS c; col := col c; col_done := col_done c; ready := ready c;
     cancelled := cancelled c; err := err c;
     dropped := dropped c; nfail := nfail c; nabort := nabort c; nfin := nfin c;
     xc := xc c; scd := scd c |}.

Definition set_w (k : kind) (c : cfg) (x : wk) : cfg :=
  {| q := q c; fd_done := fd_done c; closed := closed c; sp := sp c; sp_done := sp_done c;
     wD := match k with Ded => x | Shr => wD c end;
     wS := match k with Ded => wS c | Shr => x end;
     col := col c; col_done := col_done c; ready := ready c;
     cancelled := cancelled c; err := err c;
     dropped := dropped c; nfail := nfail c; nabort := nabort c; nfin := nfin c;
     xc := xc c; scd := scd c |}.

Definition set_collector (c : cfg) col' cd' rd' : cfg :=
  {| q := q c; fd_done := fd_done c; closed := closed c; sp := sp c; sp_done := sp_done c;
     wD := wD c; wS := wS c; col := col'; col_done := cd'; ready := rd';
     cancelled := cancelled c; err := err c;
     dropped := dropped c; nfail := nfail c; nabort := nabort c; nfin := nfin c;
     xc := xc c; scd := scd c |}.

Definition set_ctx (c : cfg) ca' er' : cfg :=
  {| q := q c; fd_done := fd_done c; closed := closed c; sp := sp c; sp_done := sp_done c;
     wD := wD c; wS := wS c; col := col c; col_done := col_done c; ready := ready c;
     cancelled := ca'; err := er';
     dropped := dropped c; nfail := nfail c; nabort := nabort c; nfin := nfin c;
     xc := xc c; scd := scd c |}.

Definition set_ghost (c : cfg) dr' nf' na' nfi' xc' scd' : cfg :=
  {| q := q c; fd_done := fd_done c; closed := closed c; sp := sp c; sp_done := sp_done c;
     wD := wD c; wS := wS c; col := col c; col_done := col_done c; ready := ready c;
     cancelled := cancelled c; err := err c;
     dropped := dr'; nfail := nf'; nabort := na'; nfin := nfi'; xc := xc'; scd := scd' |}.

(* errgroup.Go wrapper: a goroutine of the group returns the non-nil error e.  The first such
   error is kept (errOnce) and the group context is cancelled. *)
Definition record (e : errkind) (c : cfg) : option errkind :=
  match err c with None => Some e | Some x => Some x end.
Definition raise (e : errkind) (c : cfg) : cfg := set_ctx c true (record e c).

Inductive label :=
| L_spawn (k : kind)        (* start*Workers: token acquired, errGroup.Go(worker) *)
| L_sp_stop                 (* spawn loop over (i = N) or case <-manifestReady / <-statusReady *)
| L_sp_cancel               (* spawn loop: case <-ctx.Done(): return *)
| L_take (k : kind)         (* rendezvous feeder -> idle worker on the input channel *)
| L_feed_close              (* feeder: loop over, close(input), return nil *)
| L_feed_cancel             (* feeder: case <-groupCtx.Done(): return groupCtx.Err() *)
| L_finish (k : kind)       (* the entry action of a busy worker returns nil *)
| L_fail (k : kind)         (* the entry action of a busy worker returns an error of its own *)
| L_abort (k : kind)        (* the entry action (a nested directory, which got this group's
                               context) returns the cancellation error *)
| L_deliver (k : kind)      (* rendezvous worker -> collector on the result channel *)
| L_short_circuit (k : kind)(* same, and the collector returns shortCircuited{} *)
| L_drop (k : kind)         (* worker holding a result: case <-ctx.Done(): return ctx.Err() *)
| L_exit (k : kind)         (* idle worker sees the closed input channel, returns nil *)
| L_exit_cancel (k : kind)  (* checkoutWorker: case <-ctx.Done(): return ctx.Err() *)
| L_collected               (* collector: loop over, close(ready), return nil *)
| L_col_cancel              (* collector: case <-groupCtx.Done(): return groupCtx.Err() *)
| L_ext_cancel.             (* the parent context is cancelled (environment) *)

(* steps that need the environment: a token of the tree-wide shared pool, or the caller
   cancelling *)
Definition env_label (l : label) : Prop := l = L_spawn Shr \/ l = L_ext_cancel.

Section flat.
  Context (N D S : nat) (v : variant).

  Definition cap (k : kind) : nat := match k with Ded => D | Shr => S end.

  Inductive step : label -> cfg -> cfg -> Prop :=
  (* commit.go:342-380, checkout.go:265-295, status.go:340-372.  The select may pick a token
     case even when ctx.Done() or the ready channel is ready. *)
  | S_spawn k c
      (Hspd : sp_done c = false) (Hsp : sp c < N) (Hcap : wlive (w k c) < cap k) :
      step (L_spawn k) c
        (set_spawner
           (set_w k c {| idle := 1 + idle (w k c); busy := busy (w k c); hold := hold (w k c) |})
           (1 + sp c) false)
  (* loop condition i < totalWorkItems false, or commit.go:346 / status.go:344 *)
  | S_sp_stop c
      (Hspd : sp_done c = false) (Hwhy : sp c = N \/ ready c = true) :
      step L_sp_stop c (set_spawner c (sp c) true)
  (* commit.go:344, checkout.go:267, status.go:342 *)
  | S_sp_cancel c
      (Hspd : sp_done c = false) (Hsp : sp c < N) (Hca : cancelled c = true) :
      step L_sp_cancel c (set_spawner c (sp c) true)
  (* commit.go:256 with :396, checkout.go:228 with :310, status.go:276 with :385 *)
  | S_take k c n m
      (Hfd : fd_done c = false) (Hq : q c = 1 + n) (Hidle : idle (w k c) = 1 + m) :
      step (L_take k) c
        (set_feeder
           (set_w k c {| idle := m; busy := 1 + busy (w k c); hold := hold (w k c) |})
           n false (closed c))
  (* commit.go:253+261 (deferred close), checkout.go:233-234, status.go:273+281 *)
  | S_feed_close c
      (Hfd : fd_done c = false) (Hq : q c = 0) :
      step L_feed_close c (set_feeder c 0 true true)
  (* commit.go:257-258 (deferred close runs), checkout.go:229-230 (channel stays open),
     status.go:277-278 (deferred close runs) *)
  | S_feed_cancel c n
      (Hfd : fd_done c = false) (Hq : q c = 1 + n) (Hca : cancelled c = true) :
      step L_feed_cancel c (raise ParentCancelled (set_feeder c (q c) true (has_collector v)))
  (* commit.go:444 err == nil, status.go:404: the worker now holds a result *)
  | S_finish k c m
      (Hv : has_collector v = true) (Hbusy : busy (w k c) = 1 + m) :
      step (L_finish k) c
        (set_ghost
           (set_w k c {| idle := idle (w k c); busy := m; hold := 1 + hold (w k c) |})
           (dropped c) (nfail c) (nabort c) (1 + nfin c) (xc c) (scd c))
  (* checkout.go:328 err == nil: back to the select *)
  | S_finish_co k c m
      (Hv : has_collector v = false) (Hbusy : busy (w k c) = 1 + m) :
      step (L_finish k) c
        (set_ghost
           (set_collector
              (set_w k c {| idle := 1 + idle (w k c); busy := m; hold := hold (w k c) |})
              (1 + col c) (col_done c) (ready c))
           (dropped c) (nfail c) (nabort c) (1 + nfin c) (xc c) (scd c))
  (* commit.go:401/445, checkout.go:329, status.go:405: return err; the deferred token
     release runs (commit.go:350/366, checkout.go:271/284, status.go:348/361) *)
  | S_fail k c m
      (Hbusy : busy (w k c) = 1 + m) :
      step (L_fail k) c
        (raise EntryError
           (set_ghost
              (set_w k c {| idle := idle (w k c); busy := m; hold := hold (w k c) |})
              (1 + dropped c) (1 + nfail c) (nabort c) (nfin c) (xc c) (scd c)))
  (* commit.go:424-446, checkout.go:316-330, status.go:393-406 when the nested
     commitDirArtifact / checkoutDir / dirArtifactStatus, which was given this group's ctx,
     returns ctx.Err(): possible only once this group's context is cancelled *)
  | S_abort k c m
      (Hbusy : busy (w k c) = 1 + m) (Hca : cancelled c = true) :
      step (L_abort k) c
        (raise ParentCancelled
           (set_ghost
              (set_w k c {| idle := idle (w k c); busy := m; hold := hold (w k c) |})
              (1 + dropped c) (nfail c) (1 + nabort c) (nfin c) (xc c) (scd c)))
  (* commit.go:448 with :281, status.go:408 with :288 (no short circuit) *)
  | S_deliver k c m
      (Hhold : hold (w k c) = 1 + m) (Hcd : col_done c = false) (Hcol : col c < N) :
      step (L_deliver k) c
        (set_collector
           (set_w k c {| idle := 1 + idle (w k c); busy := busy (w k c); hold := m |})
           (1 + col c) false (ready c))
  (* status.go:408 with :288-292 *)
  | S_short_circuit k c m
      (Hsc : sc_on v = true)
      (Hhold : hold (w k c) = 1 + m) (Hcd : col_done c = false) (Hcol : col c < N) :
      step (L_short_circuit k) c
        (raise ShortCircuit
           (set_ghost
              (set_collector
                 (set_w k c {| idle := 1 + idle (w k c); busy := busy (w k c); hold := m |})
                 (1 + col c) true (ready c))
              (dropped c) (nfail c) (nabort c) (nfin c) (xc c) true))
  (* commit.go:449-450, status.go:409-410 *)
  | S_drop k c m
      (Hhold : hold (w k c) = 1 + m) (Hca : cancelled c = true) :
      step (L_drop k) c
        (raise ParentCancelled
           (set_ghost
              (set_w k c {| idle := idle (w k c); busy := busy (w k c); hold := m |})
              (1 + dropped c) (nfail c) (nabort c) (nfin c) (xc c) (scd c)))
  (* commit.go:396/453, checkout.go:311-312, status.go:385/413 *)
  | S_exit k c m
      (Hidle : idle (w k c) = 1 + m) (Hcl : closed c = true) :
      step (L_exit k) c
        (set_w k c {| idle := m; busy := busy (w k c); hold := hold (w k c) |})
  (* checkout.go:331-332 only: commit and status workers range over the input channel *)
  | S_exit_cancel k c m
      (Hv : has_collector v = false)
      (Hidle : idle (w k c) = 1 + m) (Hca : cancelled c = true) :
      step (L_exit_cancel k) c
        (raise ParentCancelled
           (set_w k c {| idle := m; busy := busy (w k c); hold := hold (w k c) |}))
  (* commit.go:287-288, status.go:298-299 *)
  | S_collected c
      (Hcd : col_done c = false) (Hcol : col c = N) :
      step L_collected c (set_collector c (col c) true true)
  (* commit.go:283-284, status.go:294-295 *)
  | S_col_cancel c
      (Hcd : col_done c = false) (Hcol : col c < N) (Hca : cancelled c = true) :
      step L_col_cancel c (raise ParentCancelled (set_collector c (col c) true (ready c)))
  (* the ctx argument of commitDirArtifact / checkoutDir / concurrentStatus is cancelled:
     groupCtx is derived from it (errgroup.WithContext) *)
  | S_ext_cancel c
      (Hxc : xc c = false) :
      step L_ext_cancel c
        (set_ghost (set_ctx c true (err c)) (dropped c) (nfail c) (nabort c) (nfin c) true (scd c)).

  Definition init : cfg :=
    {| q := N; fd_done := false; closed := false; sp := 0; sp_done := false;
       wD := {| idle := 0; busy := 0; hold := 0 |};
       wS := {| idle := 0; busy := 0; hold := 0 |};
       col := 0; col_done := negb (has_collector v); ready := false;
       cancelled := false; err := None;
       dropped := 0; nfail := 0; nabort := 0; nfin := 0; xc := false; scd := false |}.

  (* errGroup.Wait() can return: every goroutine started with errGroup.Go has returned, and
     the spawn loop (which runs before Wait on the calling goroutine) is over *)
  Definition final (c : cfg) : Prop :=
    fd_done c = true /\ col_done c = true /\ sp_done c = true /\ workers c = 0.

  (* what the function returns to its caller: concurrentStatus maps the sentinel to nil
     (status.go:317-319) *)
  Definition returned (c : cfg) : option errkind :=
    match err c with Some ShortCircuit => None | e => e end.

  Inductive steps : cfg -> list label -> cfg -> Prop :=
  | steps_nil c : steps c [] c
  | steps_cons c l c' tr c'' : step l c c' -> steps c' tr c'' -> steps c (l :: tr) c''.

  Definition reachable (c : cfg) : Prop := exists tr, steps init tr c.

  Lemma steps_app c1 t1 c2 t2 c3 : steps c1 t1 c2 -> steps c2 t2 c3 -> steps c1 (t1 ++ t2) c3.
  Proof.
    intros H1 H2. induction H1 as [c|c l c' tr c'' Hs Hst IH]; simpl; [exact H2|].
    eapply steps_cons; [exact Hs|]. apply IH. exact H2.
  Qed.

  Lemma reachable_init : reachable init.
  Proof. exists []. constructor. Qed.

  Lemma reachable_step l c c' : reachable c -> step l c c' -> reachable c'.
  Proof.
    intros [tr Htr] Hs. exists (tr ++ [l]).
    eapply steps_app; [exact Htr|]. eapply steps_cons; [exact Hs|constructor].
  Qed.

  (* termination measure *)
  Definition b2n (b : bool) : nat := if b then 0 else 1.
  Definition measure (c : cfg) : nat :=
    3 * q c + 3 * (busy (wD c) + busy (wS c)) + 2 * (hold (wD c) + hold (wS c))
    + (idle (wD c) + idle (wS c)) + 2 * (N - sp c)
    + b2n (fd_done c) + b2n (sp_done c) + b2n (col_done c) + b2n (xc c).

  Record Inv (c : cfg) : Prop := {
    (* every entry is in exactly one place *)
    I_sum : q c + busy (wD c) + busy (wS c) + hold (wD c) + hold (wS c) + col c + dropped c = N;
    (* every entry handed out is being processed or its action has ended in one of three ways *)
    I_taken : q c + busy (wD c) + busy (wS c) + nfin c + nfail c + nabort c = N;
    I_sp : sp c <= N;
    (* token bounds *)
    I_ded : wlive (wD c) <= D;
    I_shr : wlive (wS c) <= S;
    (* feeder *)
    I_closed_fd : closed c = true -> fd_done c = true;
    I_fd_q : fd_done c = true -> q c = 0 \/ err c <> None;
    I_fd_open : fd_done c = true -> closed c = false ->
                has_collector v = false /\ cancelled c = true;
    (* collector *)
    I_ready : ready c = true -> col c = N /\ col_done c = true;
    I_cd : col_done c = true -> has_collector v = true -> ready c = true \/ err c <> None;
    I_nocol : has_collector v = false ->
              col_done c = true /\ ready c = false /\ hold (wD c) = 0 /\ hold (wS c) = 0;
    (* spawner *)
    I_spd : sp_done c = true -> sp c = N \/ ready c = true \/ cancelled c = true;
    I_open : cancelled c = false -> closed c = false -> workers c = sp c;
    (* errgroup and history *)
    I_err_canc : err c <> None -> cancelled c = true;
    I_canc_src : cancelled c = true -> xc c = true \/ err c <> None;
    I_clean : err c = None -> dropped c = 0 /\ nfail c = 0 /\ nabort c = 0 /\ scd c = false;
    I_entry : err c = Some EntryError -> 1 <= nfail c;
    I_parent : err c = Some ParentCancelled -> xc c = true;
    I_short : err c = Some ShortCircuit -> scd c = true;
    I_scd : scd c = true -> sc_on v = true;
    I_sc_col : scd c = true -> 1 <= col c /\ col_done c = true;
  }.
End flat.

(* ------------------------------------------------------------------------------------------
   Tree level.  A directory is a list of children; a leaf is a file whose action succeeds or
   fails on its own (commitFileArtifact / checkoutFile / fileArtifactStatus take no context).
   A nested directory runs its own flat instance with the SAME D and S, is handed the group
   context of its parent, and gives its result to the parent's busy worker.

   The flat level has no entry identities, so a directory execution is tied to its children
   by counting: the feeder hands out the children in order, so the first (N - q) of them have
   been taken when the instance is final; each of them has a result justified by its own
   execution, and the numbers of finish / fail / abort steps of the flat schedule are the
   numbers of ROk / RFail / RCancelled among these results.  A child may see a cancellation
   from above only if the parent's group context was cancelled at some point; the abort step
   itself is enabled only once it is. *)

Inductive tree := Leaf (ok : bool) | Node (children : list tree).

Inductive result := ROk | RFail | RCancelled.

Definition result_eqb (a b : result) : bool :=
  match a, b with
  | ROk, ROk | RFail, RFail | RCancelled, RCancelled => true
  | _, _ => false
  end.

Fixpoint count (r : result) (l : list result) : nat :=
  match l with
  | [] => 0
  | x :: l' => (if result_eqb r x then 1 else 0) + count r l'
  end.

(* the error value seen by the caller's worker *)
Definition result_of (e : option errkind) : result :=
  match e with
  | None => ROk
  | Some EntryError => RFail
  | Some ParentCancelled => RCancelled
  | Some ShortCircuit => ROk
  end.

Fixpoint all_ok (t : tree) : bool :=
  match t with
  | Leaf ok => ok
  | Node ch => forallb all_ok ch
  end.

Section tree_exec.
  Context (D S : nat) (v : variant).

  (* exec t xcin r: the operation on t, whose context may (xcin = true) or may not be
     cancelled from above while it runs, can return r *)
  Inductive exec : tree -> bool -> result -> Prop :=
  | exec_leaf ok xcin : exec (Leaf ok) xcin (if ok then ROk else RFail)
  | exec_node ch xcin tr c outs
      (Hsteps : steps (length ch) D S v (init (length ch) v) tr c)
      (Hfinal : final c)
      (Hxc : xcin = false -> xc c = false)
      (Hch : exec_children (cancelled c) (firstn (length ch - q c) ch) outs)
      (Hfin : count ROk outs = nfin c)
      (Hfail : count RFail outs = nfail c)
      (Habort : count RCancelled outs = nabort c) :
      exec (Node ch) xcin (result_of (returned c))
  with exec_children : bool -> list tree -> list result -> Prop :=
  | ec_nil cc : exec_children cc [] []
  | ec_cons cc t ts xci r rs
      (Hxci : xci = true -> cc = true)
      (Hex : exec t xci r)
      (Hrest : exec_children cc ts rs) :
      exec_children cc (t :: ts) (r :: rs).
End tree_exec.
