(* Workspace trees.  A workspace is a [Dir]; links that resolve (lexically) to a cache object
   are [LinkC digest] whether or not the object exists; every other symlink is [LinkO text]. *)
From Coq Require Import NArith List Bool.
From DudV Require Import Base.Bytes Base.Json.
Import ListNotations.
Local Open Scope N_scope.

Inductive node :=
| File (b : bytes)
| LinkC (d : bytes)
| LinkO (t : bytes)
| Dir (es : list (bytes * node))
| Other.

Inductive res (A : Type) := Ok (a : A) | Err.
Arguments Ok {A} a.
Arguments Err {A}.

Definition is_dir (n : node) : bool := match n with Dir _ => true | _ => false end.

Inductive fstatus := SAbsent | SRegular | SLink | SDirectory | SOther.
Definition fstat (o : option node) : fstatus :=
  match o with
  | None => SAbsent
  | Some (File _) => SRegular
  | Some (LinkC _) | Some (LinkO _) => SLink
  | Some (Dir _) => SDirectory
  | Some Other => SOther
  end.
Definition fstatus_eqb (a b : fstatus) : bool :=
  match a, b with
  | SAbsent, SAbsent | SRegular, SRegular | SLink, SLink | SDirectory, SDirectory | SOther, SOther => true
  | _, _ => false
  end.

(* directory entries: association list, kept sorted by [ins_sorted] *)
Definition dset (es : list (bytes * node)) (name : bytes) (v : option node) : list (bytes * node) :=
  match v with
  | Some n => ins_sorted name n es
  | None => aremove name es
  end.

Definition path := list bytes.

(* split "a/b/c" into components; empty components and "." are dropped (paths are Clean) *)
Fixpoint split_slash (s : bytes) (cur : bytes) : list bytes :=
  match s with
  | [] => match cur with [] => [] | _ => [rev cur] end
  | b :: r => if b =? 47 then (match cur with [] => split_slash r [] | _ => rev cur :: split_slash r [] end)
              else split_slash r (b :: cur)
  end.
Definition components (p : bytes) : path :=
  filter (fun c => negb (beqb c [46])) (split_slash p []).

(* entry at a path; None = absent (also when an ancestor is not a directory: ENOTDIR is not
   distinguished here, see [blocked]) *)
Fixpoint get (n : node) (p : path) : option node :=
  match p with
  | [] => Some n
  | c :: r => match n with
              | Dir es => match alookup c es with Some m => get m r | None => None end
              | _ => None
              end
  end.

(* some proper ancestor of the path exists and is not a directory *)
Fixpoint blocked (n : node) (p : path) : bool :=
  match p with
  | [] => false
  | c :: r => match n with
              | Dir es => match alookup c es with Some m => blocked m r | None => false end
              | _ => true
              end
  end.

(* replace / create / delete the entry at a path, creating missing ancestors (MkdirAll);
   None when an ancestor is not a directory *)
Fixpoint put (n : node) (p : path) (v : option node) : option node :=
  match p with
  | [] => v
  | c :: r =>
    match n with
    | Dir es =>
      match alookup c es with
      | Some m =>
        match r with
        | [] => Some (Dir (dset es c v))
        | _ => match put m r v with
               | Some m' => Some (Dir (dset es c (Some m')))
               | None => None
               end
        end
      | None =>
        match v with
        | None => Some n
        | Some _ =>
          match r with
          | [] => Some (Dir (dset es c v))
          | _ => match put (Dir []) r v with
                 | Some m' => Some (Dir (dset es c (Some m')))
                 | None => None
                 end
          end
        end
      end
    | _ => None
    end
  end.

(* structural equality (entry lists compared in order: both sides are kept sorted) *)
Fixpoint node_eqb (a b : node) : bool :=
  match a, b with
  | File x, File y => beqb x y
  | LinkC x, LinkC y => beqb x y
  | LinkO x, LinkO y => beqb x y
  | Other, Other => true
  | Dir xs, Dir ys =>
    (fix go (xs ys : list (bytes * node)) : bool :=
       match xs, ys with
       | [], [] => true
       | (k, v) :: xr, (k', v') :: yr => beqb k k' && node_eqb v v' && go xr yr
       | _, _ => false
       end) xs ys
  | _, _ => false
  end.

Definition onode_eqb (a b : option node) : bool :=
  match a, b with
  | Some x, Some y => node_eqb x y
  | None, None => true
  | _, _ => false
  end.
