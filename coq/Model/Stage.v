(* Model of src/stage/stage.go (records, Validate, FindDirArtifactOwnerForPath) and of
   src/index/index.go (AddStage / RemoveStage / findOwner / sorted reload), on the repaired tree. *)
From Coq Require Import NArith List Bool.
From DudV Require Import Base.Bytes Base.Json Base.GoPath Model.Fs Model.Cache.
Import ListNotations.
Local Open Scope N_scope.

Record stage := mkStage {
  s_cs : bytes; s_cmd : bytes; s_wd : bytes;
  s_inputs : list artifact;      (* keyed by a_path, distinct *)
  s_outputs : list artifact }.

Definition art_lookup (p : bytes) (arts : list artifact) : option artifact :=
  find (fun a => beqb (a_path a) p) arts.

(* FindDirArtifactOwnerForPath: the ancestors of relPath from the shallowest to the deepest *)
Fixpoint fdo_walk (parts : list bytes) (dir fullDir : bytes) (arts : list artifact) : option artifact :=
  match parts with
  | [] => None
  | part :: r =>
    let dir' := join2 dir part in
    match art_lookup dir' arts with
    | Some owner => if negb (a_norec owner) || beqb dir' fullDir then Some owner
                    else fdo_walk r dir' fullDir arts
    | None => fdo_walk r dir' fullDir arts
    end
  end.
Definition find_dir_owner (relPath : bytes) (arts : list artifact) : option artifact :=
  let fullDir := dir relPath in
  fdo_walk (split fullDir) [] fullDir arts.

Inductive verr := VOk | VBad.

(* Stage.Validate(stagePath) *)
Definition validate (stagePath : bytes) (s : stage) : bool :=
  negb (contains_dotdot (s_wd s)) &&
  negb (is_abs (s_wd s)) &&
  negb (match s_inputs s, s_outputs s with [], [] => true | _, _ => false end) &&
  negb (match s_outputs s, s_cmd s with [], [] => true | _, _ => false end) &&
  forallb (fun o => negb (beqb (a_path o) stagePath) &&
                    match art_lookup (a_path o) (s_inputs s) with Some _ => false | None => true end)
          (s_outputs s) &&
  forallb (fun i => negb (beqb (a_path i) stagePath)) (s_inputs s) &&
  let all := s_outputs s ++ s_inputs s in
  forallb (fun a => negb (contains_dotdot (a_path a)) && negb (is_abs (a_path a)) &&
                    match find_dir_owner (a_path a) all with Some _ => false | None => true end) all.

(* ---- index ---- *)
Definition index := list (bytes * stage).     (* kept sorted by stage path *)

(* findOwner: Go iterates the map in random order; under the ownership invariant at most one
   stage matches, so the order is immaterial (Proofs/Ownership) *)
Fixpoint find_owner (idx : index) (artPath : bytes) : option (bytes * artifact) :=
  match idx with
  | [] => None
  | (sp, s) :: r =>
    match art_lookup artPath (s_outputs s) with
    | Some a => Some (sp, a)
    | None => match find_dir_owner artPath (s_outputs s) with
              | Some a => Some (sp, a)
              | None => find_owner r artPath
              end
    end
  end.

Definition add_stage (idx : index) (path : bytes) (s : stage) : option index :=
  match alookup path idx with
  | Some _ => None
  | None =>
    if forallb (fun o => match find_owner idx (a_path o) with Some _ => false | None => true end) (s_outputs s)
       && forallb (fun e => forallb (fun o => match find_dir_owner (a_path o) (s_outputs s) with
                                              | Some _ => false | None => true end)
                                    (s_outputs (snd e))) idx
    then Some (ins_sorted path s idx)
    else None
  end.

Definition remove_stage (idx : index) (path : bytes) : option index :=
  match alookup path idx with
  | Some _ => Some (aremove path idx)
  | None => None
  end.

(* index.FromFile refuses a line that names a stage file outside the project (absolute, or
   escaping through ".." once cleaned): commit writes stage files back, so they must live inside.
   The whole-command model (System.step_checked) applies it to every line before anything else. *)
Definition index_line_ok (l : bytes) : bool :=
  let c := clean l in
  negb (is_abs c) &&
  negb (match c with
        | 46 :: 46 :: [] => true
        | 46 :: 46 :: 47 :: _ => true
        | _ => false
        end).

(* Index.AddStage refuses a stage path that the one-path-per-line index file (trimmed when read)
   cannot hold: surrounding white space, CR or LF; and, like index.FromFile, a path outside the
   project *)
Definition is_space (b : N) : bool :=
  (b =? 32) || (b =? 9) || (b =? 10) || (b =? 11) || (b =? 12) || (b =? 13) || (b =? 133) || (b =? 160).
Definition path_storable (p : bytes) : bool :=
  negb (existsb (fun b => (b =? 10) || (b =? 13)) p) &&
  match p with [] => true | b :: _ => negb (is_space b) end &&
  match rev p with [] => true | b :: _ => negb (is_space b) end.
Definition stage_path_ok (p : bytes) : bool := path_storable p && index_line_ok p.

(* index.FromFile: every listed stage file must load, validate and be addable, in file order *)
Fixpoint load_index (lines : list bytes) (files : list (bytes * option stage)) (idx : index) : option index :=
  match lines with
  | [] => Some idx
  | l :: r =>
    match alookup l files with
    | Some (Some s) =>
      if validate l s then
        match add_stage idx l s with
        | Some idx' => load_index r files idx'
        | None => None
        end
      else None
    | _ => None
    end
  end.

(* replace an artifact in a list (same path) *)
Definition art_set (arts : list artifact) (a : artifact) : list artifact :=
  map (fun b => if beqb (a_path b) (a_path a) then a else b) arts.
