(* path/filepath on Unix over byte strings: Clean, Join (2 args), Dir, IsAbs, Rel, and the
   string tests dud applies to paths.  Clean/Join/Dir/IsAbs agreed with Go on 3000 hostile paths
   in the design round and are re-compared on every run (harness family gopath). *)
From Coq Require Import NArith List Bool.
From DudV Require Import Base.Bytes.
Import ListNotations.
Local Open Scope N_scope.


Definition slash : N := 47.
Definition dot : N := 46.

Fixpoint split_aux (s : list N) (cur : list N) : list (list N) :=
  match s with
  | [] => [rev cur]
  | c :: r => if c =? slash then rev cur :: split_aux r [] else split_aux r (c :: cur)
  end.
Definition split (s : list N) : list (list N) := split_aux s [].

Fixpoint join_comps (cs : list (list N)) : list N :=
  match cs with
  | [] => []
  | [c] => c
  | c :: r => c ++ slash :: join_comps r
  end.

Definition is_dot (c : list N) := match c with [d] => d =? dot | _ => false end.
Definition is_dotdot (c : list N) := match c with [d1; d2] => (d1 =? dot) && (d2 =? dot) | _ => false end.
Definition is_empty (c : list N) := match c with [] => true | _ => false end.

(* stack is kept reversed (top first) *)
Fixpoint clean_comps (rooted : bool) (cs : list (list N)) (stack : list (list N)) : list (list N) :=
  match cs with
  | [] => rev stack
  | c :: r =>
    if is_empty c || is_dot c then clean_comps rooted r stack
    else if is_dotdot c then
      match stack with
      | top :: rest => if is_dotdot top then clean_comps rooted r (c :: stack) else clean_comps rooted r rest
      | [] => if rooted then clean_comps rooted r [] else clean_comps rooted r [c]
      end
    else clean_comps rooted r (c :: stack)
  end.

Definition is_abs (s : list N) : bool := match s with c :: _ => c =? slash | [] => false end.

Definition clean (s : list N) : list N :=
  match s with
  | [] => [dot]
  | _ =>
    let rooted := is_abs s in
    let out := join_comps (clean_comps rooted (split s) []) in
    if rooted then slash :: out else match out with [] => [dot] | _ => out end
  end.

Definition join2 (a b : list N) : list N :=
  match a, b with
  | [], [] => []
  | [], _ => clean b
  | _, [] => clean a
  | _, _ => clean (a ++ slash :: b)
  end.

(* Dir: everything up to the last slash, cleaned *)
Fixpoint last_slash_prefix (s : list N) (acc cur : list N) : list N :=
  (* acc = prefix up to and including the last slash seen (reversed), cur = reversed scan *)
  match s with
  | [] => rev acc
  | c :: r => if c =? slash then last_slash_prefix r (c :: cur) (c :: cur) else last_slash_prefix r acc (c :: cur)
  end.
Definition dir (s : list N) : list N := clean (last_slash_prefix s [] []).

(* strings.Contains(p, "..") *)
Fixpoint contains_dotdot (s : bytes) : bool :=
  match s with
  | a :: ((b :: _) as r) => ((a =? dot) && (b =? dot)) || contains_dotdot r
  | _ => false
  end.

(* components of a Clean relative path ("." = no components) *)
Definition comps (p : bytes) : list bytes :=
  filter (fun c => negb (is_empty c || is_dot c)) (split p).

(* filepath.Rel(base, targ) for Clean paths that are both absolute or both relative and where
   base has no ".." components (all dud uses): drop the common prefix, climb out of what is
   left of base, descend into what is left of targ. *)
Fixpoint drop_common (a b : list bytes) : list bytes * list bytes :=
  match a, b with
  | x :: a', y :: b' => if beqb x y then drop_common a' b' else (a, b)
  | _, _ => (a, b)
  end.
Definition rel (base targ : bytes) : bytes :=
  let '(b', t') := drop_common (comps (clean base)) (comps (clean targ)) in
  match map (fun _ => [dot; dot]) b' ++ t' with
  | [] => [dot]
  | cs => join_comps cs
  end.

(* is [p] equal to or below [root] (both Clean, absolute) *)
Fixpoint is_prefix (a b : list bytes) : bool :=
  match a, b with
  | [], _ => true
  | x :: a', y :: b' => beqb x y && is_prefix a' b'
  | _, [] => false
  end.
Definition under (root p : bytes) : bool := is_prefix (comps root) (comps p).
