(* BLAKE3-256 as a total Gallina function over byte lists (N words).  Independent reference
   implementation for C14 and the executable instance of the abstract hash [H] of the models.
   Validated by vm_compute on the official test vectors in Blake3Vectors.v. *)
From Coq Require Import NArith List.
From DudV Require Import Base.Bytes.
Import ListNotations.
Local Open Scope N_scope.

Definition w32 (x : N) : N := N.land x 4294967295.
Definition add32 (a b : N) : N := w32 (a + b).
Definition rotr (x : N) (n : N) : N := w32 (N.lor (N.shiftr x n) (N.shiftl x (32 - n))).

Definition IV : list N := [1779033703; 3144134277; 1013904242; 2773480762; 1359893119; 2600822924; 528734635; 1541459225].

Record st := mk { s0:N; s1:N; s2:N; s3:N; s4:N; s5:N; s6:N; s7:N; s8:N; s9:N; s10:N; s11:N; s12:N; s13:N; s14:N; s15:N }.

Definition g (a b c d mx my : N) : N * N * N * N :=
  let a := add32 (add32 a b) mx in
  let d := rotr (N.lxor d a) 16 in
  let c := add32 c d in
  let b := rotr (N.lxor b c) 12 in
  let a := add32 (add32 a b) my in
  let d := rotr (N.lxor d a) 8 in
  let c := add32 c d in
  let b := rotr (N.lxor b c) 7 in
  (a, b, c, d).

Definition nthN (l : list N) (i : nat) := nth i l 0.

Definition round (s : st) (m : list N) : st :=
  let '(a0,b0,c0,d0) := g (s0 s) (s4 s) (s8 s) (s12 s) (nthN m 0) (nthN m 1) in
  let '(a1,b1,c1,d1) := g (s1 s) (s5 s) (s9 s) (s13 s) (nthN m 2) (nthN m 3) in
  let '(a2,b2,c2,d2) := g (s2 s) (s6 s) (s10 s) (s14 s) (nthN m 4) (nthN m 5) in
  let '(a3,b3,c3,d3) := g (s3 s) (s7 s) (s11 s) (s15 s) (nthN m 6) (nthN m 7) in
  let '(a0,b1,c2,d3) := g a0 b1 c2 d3 (nthN m 8) (nthN m 9) in
  let '(a1,b2,c3,d0) := g a1 b2 c3 d0 (nthN m 10) (nthN m 11) in
  let '(a2,b3,c0,d1) := g a2 b3 c0 d1 (nthN m 12) (nthN m 13) in
  let '(a3,b0,c1,d2) := g a3 b0 c1 d2 (nthN m 14) (nthN m 15) in
  mk a0 a1 a2 a3 b0 b1 b2 b3 c0 c1 c2 c3 d0 d1 d2 d3.

Definition perm : list nat := [2; 6; 3; 10; 7; 0; 4; 13; 1; 11; 12; 5; 9; 14; 15; 8]%nat.
Definition permute (m : list N) : list N := map (nthN m) perm.

Fixpoint rounds (n : nat) (s : st) (m : list N) : st :=
  match n with
  | O => s
  | S O => round s m
  | S n' => rounds n' (round s m) (permute m)
  end.

(* returns 16 output words *)
Definition compress (cv : list N) (m : list N) (counter blen flags : N) : list N :=
  let s := mk (nthN cv 0) (nthN cv 1) (nthN cv 2) (nthN cv 3) (nthN cv 4) (nthN cv 5) (nthN cv 6) (nthN cv 7)
              (nthN IV 0) (nthN IV 1) (nthN IV 2) (nthN IV 3) (w32 counter) (w32 (N.shiftr counter 32)) blen flags in
  let s := rounds 7 s m in
  [ N.lxor (s0 s) (s8 s); N.lxor (s1 s) (s9 s); N.lxor (s2 s) (s10 s); N.lxor (s3 s) (s11 s);
    N.lxor (s4 s) (s12 s); N.lxor (s5 s) (s13 s); N.lxor (s6 s) (s14 s); N.lxor (s7 s) (s15 s);
    N.lxor (s8 s) (nthN cv 0); N.lxor (s9 s) (nthN cv 1); N.lxor (s10 s) (nthN cv 2); N.lxor (s11 s) (nthN cv 3);
    N.lxor (s12 s) (nthN cv 4); N.lxor (s13 s) (nthN cv 5); N.lxor (s14 s) (nthN cv 6); N.lxor (s15 s) (nthN cv 7) ].

(* bytes as N < 256 *)
Fixpoint words_of_bytes (n : nat) (bs : list N) : list N :=
  match n with
  | O => []
  | S n' =>
    let b i := nthN bs i in
    (b 0%nat + 256 * b 1%nat + 65536 * b 2%nat + 16777216 * b 3%nat) :: words_of_bytes n' (skipn 4 bs)
  end.

Definition CHUNK_START := 1. Definition CHUNK_END := 2. Definition PARENT := 4. Definition ROOT := 8.

(* process blocks of a chunk; bs nonempty-or-first; returns 16-word output of last block *)
Fixpoint chunk_blocks (fuel : nat) (cv : list N) (bs : list N) (counter : N) (first : bool) (rootf : N) : list N :=
  match fuel with
  | O => []
  | S f =>
    let len := length bs in
    let sf := if first then CHUNK_START else 0 in
    if Nat.leb len 64 then
      compress cv (words_of_bytes 16 bs) counter (N.of_nat len) (N.lor sf (N.lor CHUNK_END rootf))
    else
      let out := compress cv (words_of_bytes 16 (firstn 64 bs)) counter 64 sf in
      chunk_blocks f (firstn 8 out) (skipn 64 bs) counter false rootf
  end.

Definition chunk_cv (bs : list N) (counter : N) (rootf : N) := chunk_blocks 17 IV bs counter true rootf.

(* largest power of two strictly less than n chunks, n >= 2 *)
Fixpoint pow2_below (fuel : nat) (p n : nat) : nat :=
  match fuel with O => p | S f => if Nat.ltb (2*p) n then pow2_below f (2*p) n else p end.

Fixpoint tree (fuel : nat) (bs : list N) (nchunks : nat) (counter : N) (rootf : N) : list N :=
  match fuel with
  | O => []
  | S f =>
    if Nat.leb nchunks 1 then chunk_cv bs counter rootf
    else
      let l := pow2_below 64 1 nchunks in
      let lbytes := (l * 1024)%nat in
      let lcv := firstn 8 (tree f (firstn lbytes bs) l counter 0) in
      let rcv := firstn 8 (tree f (skipn lbytes bs) (nchunks - l) (counter + N.of_nat l) 0) in
      compress IV (lcv ++ rcv) 0 64 (N.lor PARENT rootf)
  end.

Definition nchunks_of (len : nat) : nat := if Nat.eqb len 0 then 1%nat else Nat.div (len + 1023) 1024.

Definition blake3_words (bs : list N) : list N := firstn 8 (tree 64 bs (nchunks_of (length bs)) 0 ROOT).

Definition bytes_of_word (w : N) : list N := [N.land w 255; N.land (N.shiftr w 8) 255; N.land (N.shiftr w 16) 255; N.land (N.shiftr w 24) 255].
Definition blake3 (bs : list N) : list N := flat_map bytes_of_word (blake3_words bs).


(* lowercase hex digest: what dud records as a checksum *)
Definition hexdigest (bs : bytes) : bytes := hex (blake3 bs).
