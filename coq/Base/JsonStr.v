(* Go 1.23 encoding/json string encoder (HTML escaping on, as json.NewEncoder/Marshal use by
   default) and string decoder, over byte lists; utf8.DecodeRune.  Ported from the design-round
   spike that agreed with Go on 800 adversarial strings; re-validated on every run by the
   correspondence harness (family json). *)
From Coq Require Import NArith List Lia Bool.
From DudV Require Import Base.Bytes.
Import ListNotations.
Local Open Scope N_scope.



Definition cont (b : N) : bool := (128 <=? b) && (b <=? 191).

(* Go's utf8.DecodeRune on a byte list: (Some rune, width) or (None, 1) for RuneError/invalid *)
Definition decode (s : list N) : option N * nat :=
  match s with
  | [] => (None, 0%nat)
  | b0 :: r =>
    if b0 <? 128 then (Some b0, 1%nat)
    else if (194 <=? b0) && (b0 <=? 223) then
      match r with
      | b1 :: _ => if cont b1 then (Some ((b0 - 192) * 64 + (b1 - 128)), 2%nat) else (None, 1%nat)
      | _ => (None, 1%nat)
      end
    else if (224 <=? b0) && (b0 <=? 239) then
      match r with
      | b1 :: b2 :: _ =>
        let lo := if b0 =? 224 then 160 else 128 in
        let hi := if b0 =? 237 then 159 else 191 in
        if (lo <=? b1) && (b1 <=? hi) && cont b2
        then (Some ((b0 - 224) * 4096 + (b1 - 128) * 64 + (b2 - 128)), 3%nat) else (None, 1%nat)
      | _ => (None, 1%nat)
      end
    else if (240 <=? b0) && (b0 <=? 244) then
      match r with
      | b1 :: b2 :: b3 :: _ =>
        let lo := if b0 =? 240 then 144 else 128 in
        let hi := if b0 =? 244 then 143 else 191 in
        if (lo <=? b1) && (b1 <=? hi) && cont b2 && cont b3
        then (Some ((b0 - 240) * 262144 + (b1 - 128) * 4096 + (b2 - 128) * 64 + (b3 - 128)), 4%nat)
        else (None, 1%nat)
      | _ => (None, 1%nat)
      end
    else (None, 1%nat)
  end.

Definition u00 (b : N) : list N := [92; 117; 48; 48; hexd (b / 16); hexd (b mod 16)].   (* \u00XX *)

Definition esc_ascii (b : N) : list N :=
  if b =? 34 then [92; 34] else            (* backslash quote *)
  if b =? 92 then [92; 92] else            (* backslash backslash *)
  if b =? 8 then [92; 98] else             (* \b *)
  if b =? 12 then [92; 102] else           (* \f *)
  if b =? 10 then [92; 110] else           (* \n *)
  if b =? 13 then [92; 114] else           (* \r *)
  if b =? 9 then [92; 116] else            (* \t *)
  if b <? 32 then u00 b else
  if (b =? 60) || (b =? 62) || (b =? 38) then u00 b else   (* < > & *)
  [b].

Definition ufffd : list N := [92; 117; 102; 102; 102; 100].
Definition u2028 : list N := [92; 117; 50; 48; 50; 56].
Definition u2029 : list N := [92; 117; 50; 48; 50; 57].

Fixpoint enc_body (fuel : nat) (s : list N) : list N :=
  match fuel with
  | O => []
  | S f =>
    match s with
    | [] => []
    | b :: r =>
      if b <? 128 then esc_ascii b ++ enc_body f r
      else match decode s with
           | (None, _) => ufffd ++ enc_body f r
           | (Some c, w) =>
             if c =? 8232 then u2028 ++ enc_body f (skipn w s)
             else if c =? 8233 then u2029 ++ enc_body f (skipn w s)
             else firstn w s ++ enc_body f (skipn w s)
           end
    end
  end.

Definition enc_string (s : list N) : list N := 34 :: enc_body (length s) s ++ [34].

(* ---- decoder ---- *)
Definition unhex1 (c : N) : option N :=
  if (48 <=? c) && (c <=? 57) then Some (c - 48)
  else if (97 <=? c) && (c <=? 102) then Some (c - 87)
  else if (65 <=? c) && (c <=? 70) then Some (c - 55)
  else None.

Definition hex4 (s : list N) : option (N * list N) :=
  match s with
  | a :: b :: c :: d :: r =>
    match unhex1 a, unhex1 b, unhex1 c, unhex1 d with
    | Some a, Some b, Some c, Some d => Some (a * 4096 + b * 256 + c * 16 + d, r)
    | _, _, _, _ => None
    end
  | _ => None
  end.

Definition utf8_enc (c : N) : list N :=
  if c <? 128 then [c]
  else if c <? 2048 then [192 + c / 64; 128 + c mod 64]
  else if c <? 65536 then [224 + c / 4096; 128 + (c / 64) mod 64; 128 + c mod 64]
  else [240 + c / 262144; 128 + (c / 4096) mod 64; 128 + (c / 64) mod 64; 128 + c mod 64].

Definition repl : list N := [239; 191; 189].   (* U+FFFD *)

(* decode the body of a string literal (after the opening quote) up to the closing quote *)
Fixpoint dec_body (fuel : nat) (s : list N) : option (list N * list N) :=
  match fuel with
  | O => None
  | S f =>
    match s with
    | [] => None
    | b :: r =>
      if b =? 34 then Some ([], r)
      else if b =? 92 then
        match r with
        | e :: r' =>
          let simple (x : N) := match dec_body f r' with Some (o, t) => Some (x :: o, t) | None => None end in
          if e =? 34 then simple 34 else if e =? 92 then simple 92 else if e =? 47 then simple 47
          else if e =? 98 then simple 8 else if e =? 102 then simple 12 else if e =? 110 then simple 10
          else if e =? 114 then simple 13 else if e =? 116 then simple 9
          else if e =? 117 then
            match hex4 r' with
            | Some (c, r'') =>
              if (55296 <=? c) && (c <=? 56319) then      (* high surrogate *)
                match r'' with
                | 92 :: 117 :: r3 =>
                  match hex4 r3 with
                  | Some (c2, r4) =>
                    if (56320 <=? c2) && (c2 <=? 57343)
                    then match dec_body f r4 with
                         | Some (o, t) => Some (utf8_enc (65536 + (c - 55296) * 1024 + (c2 - 56320)) ++ o, t)
                         | None => None end
                    else match dec_body f r'' with Some (o, t) => Some (repl ++ o, t) | None => None end
                  | None => match dec_body f r'' with Some (o, t) => Some (repl ++ o, t) | None => None end
                  end
                | _ => match dec_body f r'' with Some (o, t) => Some (repl ++ o, t) | None => None end
                end
              else if (56320 <=? c) && (c <=? 57343) then
                match dec_body f r'' with Some (o, t) => Some (repl ++ o, t) | None => None end
              else match dec_body f r'' with Some (o, t) => Some (utf8_enc c ++ o, t) | None => None end
            | None => None
            end
          else None
        | [] => None
        end
      else if b <? 32 then None
      else if b <? 128 then
        match dec_body f r with Some (o, t) => Some (b :: o, t) | None => None end
      else match decode s with
           | (None, _) => match dec_body f r with Some (o, t) => Some (repl ++ o, t) | None => None end
           | (Some _, w) =>
             match dec_body f (skipn w s) with Some (o, t) => Some (firstn w s ++ o, t) | None => None end
           end
    end
  end.

Definition dec_string (s : list N) : option (list N * list N) :=
  match s with
  | 34 :: r => dec_body (S (length r)) r
  | _ => None
  end.


(* valid UTF-8 (what Go passes through unchanged) *)
Definition bytes_ok (s : list N) := Forall (fun b => b < 256) s.

Fixpoint valid (fuel : nat) (s : list N) : bool :=
  match fuel with
  | O => match s with [] => true | _ => false end
  | S f =>
    match s with
    | [] => true
    | b :: r =>
      if b <? 128 then valid f r
      else match decode s with
           | (None, _) => false
           | (Some _, w) => valid f (skipn w s)
           end
    end
  end.

