(* Byte strings as lists of N (each element < 256 by convention), hex, conversion from
   Coq string literals.  Used by every other file. *)
From Coq Require Import NArith List String Ascii Bool.
Import ListNotations.
Local Open Scope N_scope.

Definition bytes := list N.

Definition is_byte (b : N) : bool := b <? 256.
Definition wf_bytes (s : bytes) : bool := forallb is_byte s.

Fixpoint beqb (a b : bytes) : bool :=
  match a, b with
  | [], [] => true
  | x :: a', y :: b' => (x =? y) && beqb a' b'
  | _, _ => false
  end.

Lemma beqb_eq a b : beqb a b = true <-> a = b.
Proof.
  revert b; induction a as [|x a IH]; intros [|y b]; simpl; split; intro H; try congruence; auto.
  - apply andb_true_iff in H as [H1 H2]. apply N.eqb_eq in H1. apply IH in H2. congruence.
  - inversion H; subst. rewrite N.eqb_refl. simpl. apply IH. reflexivity.
Qed.

Lemma beqb_refl a : beqb a a = true.
Proof. apply beqb_eq; reflexivity. Qed.

(* lexicographic "less than" on byte strings: Go's string comparison / sort.Strings *)
Fixpoint bltb (a b : bytes) : bool :=
  match a, b with
  | [], [] => false
  | [], _ :: _ => true
  | _ :: _, [] => false
  | x :: a', y :: b' => if x <? y then true else if y <? x then false else bltb a' b'
  end.

Definition of_string (s : string) : bytes := map N_of_ascii (list_ascii_of_string s).
Definition to_string (l : bytes) : string := string_of_list_ascii (map ascii_of_N l).

(* lowercase hex *)
Definition hexd (n : N) : N := if n <? 10 then 48 + n else 87 + n.
Definition hex (bs : bytes) : bytes :=
  flat_map (fun b => [hexd (N.shiftr b 4); hexd (N.land b 15)]) bs.

Definition unhexd (c : N) : N :=
  if (48 <=? c) && (c <=? 57) then c - 48
  else if (97 <=? c) && (c <=? 102) then c - 87
  else if (65 <=? c) && (c <=? 70) then c - 55 else 0.
Fixpoint unhex_l (l : bytes) : bytes :=
  match l with
  | a :: b :: r => (unhexd a * 16 + unhexd b) :: unhex_l r
  | _ => []
  end.
(* [x "6869"] = bytes of "hi": how the harness writes byte strings into case files *)
Definition x (s : string) : bytes := unhex_l (of_string s).

Definition is_lower_hex_char (c : N) : bool :=
  ((48 <=? c) && (c <=? 57)) || ((97 <=? c) && (c <=? 102)).
Definition is_lower_hex (s : bytes) : bool := forallb is_lower_hex_char s.
