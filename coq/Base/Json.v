(* JSON values, a fuel-based parser for what Go's encoding/json accepts on the documents dud
   reads (directory manifests: objects, strings with every escape, true/false/null, numbers and
   arrays skipped as values), and Go's field matching (ASCII case folding). *)
From Coq Require Import NArith List Bool.
From DudV Require Import Base.Bytes Base.JsonStr.
Import ListNotations.
Local Open Scope N_scope.

Inductive jv :=
| JNull
| JBool (b : bool)
| JStr (s : bytes)
| JNum (raw : bytes)
| JArr (l : list jv)
| JObj (kv : list (bytes * jv)).

Definition is_ws (b : N) : bool := (b =? 32) || (b =? 9) || (b =? 10) || (b =? 13).
Fixpoint skip_ws (s : bytes) : bytes :=
  match s with
  | b :: r => if is_ws b then skip_ws r else s
  | [] => []
  end.

Definition is_numch (b : N) : bool :=
  ((48 <=? b) && (b <=? 57)) || (b =? 45) || (b =? 43) || (b =? 46) || (b =? 101) || (b =? 69).
Fixpoint take_num (s : bytes) : bytes * bytes :=
  match s with
  | b :: r => if is_numch b then let '(n, t) := take_num r in (b :: n, t) else ([], s)
  | [] => ([], [])
  end.

Fixpoint pval (fuel : nat) (s : bytes) : option (jv * bytes) :=
  match fuel with
  | O => None
  | S f =>
    match skip_ws s with
    | 123 :: r =>                                   (* { *)
      match skip_ws r with
      | 125 :: r' => Some (JObj [], r')
      | r' => pmembers f r' []
      end
    | 91 :: r =>                                    (* [ *)
      match skip_ws r with
      | 93 :: r' => Some (JArr [], r')
      | r' => pelems f r' []
      end
    | 34 :: r =>
      match dec_string (34 :: r) with
      | Some (str, t) => Some (JStr str, t)
      | None => None
      end
    | 116 :: 114 :: 117 :: 101 :: r => Some (JBool true, r)
    | 102 :: 97 :: 108 :: 115 :: 101 :: r => Some (JBool false, r)
    | 110 :: 117 :: 108 :: 108 :: r => Some (JNull, r)
    | b :: r =>
      if is_numch b && negb (b =? 43) && negb (b =? 46) && negb (b =? 101) && negb (b =? 69)
      then let '(n, t) := take_num (b :: r) in Some (JNum n, t)
      else None
    | [] => None
    end
  end
with pmembers (fuel : nat) (s : bytes) (acc : list (bytes * jv)) : option (jv * bytes) :=
  match fuel with
  | O => None
  | S f =>
    match dec_string (skip_ws s) with
    | Some (k, r) =>
      match skip_ws r with
      | 58 :: r2 =>
        match pval f r2 with
        | Some (v, r3) =>
          match skip_ws r3 with
          | 44 :: r4 => pmembers f r4 ((k, v) :: acc)
          | 125 :: r4 => Some (JObj (rev ((k, v) :: acc)), r4)
          | _ => None
          end
        | None => None
        end
      | _ => None
      end
    | None => None
    end
  end
with pelems (fuel : nat) (s : bytes) (acc : list jv) : option (jv * bytes) :=
  match fuel with
  | O => None
  | S f =>
    match pval f s with
    | Some (v, r) =>
      match skip_ws r with
      | 44 :: r2 => pelems f r2 (v :: acc)
      | 93 :: r2 => Some (JArr (rev (v :: acc)), r2)
      | _ => None
      end
    | None => None
    end
  end.

(* json.Decoder.Decode reads ONE value; trailing data is left in the stream *)
Definition parse_json (s : bytes) : option jv :=
  match pval (2 * length s + 2) s with
  | Some (v, _) => Some v
  | None => None
  end.

(* Go's struct-field matching: exact, else ASCII case-insensitive *)
Definition lower (b : N) : N := if (65 <=? b) && (b <=? 90) then b + 32 else b.
Definition fold_eq (a b : bytes) : bool := beqb (map lower a) (map lower b).

(* ---- printer pieces ---- *)
Definition jstr (s : bytes) : bytes := enc_string s.
Fixpoint join_with (sep : bytes) (l : list bytes) : bytes :=
  match l with
  | [] => []
  | [a] => a
  | a :: r => a ++ sep ++ join_with sep r
  end.
Definition jobj (fields : list (bytes * bytes)) : bytes :=
  [123] ++ join_with [44] (map (fun kv => jstr (fst kv) ++ [58] ++ snd kv) fields) ++ [125].

(* insertion sort of association lists by key (bytewise), last binding of a key wins:
   the canonical form of a Go map *)
Fixpoint ins_sorted {A} (k : bytes) (v : A) (l : list (bytes * A)) : list (bytes * A) :=
  match l with
  | [] => [(k, v)]
  | (k', v') :: r =>
    if beqb k k' then (k, v) :: r
    else if bltb k k' then (k, v) :: l
    else (k', v') :: ins_sorted k v r
  end.
Definition sort_kv {A} (l : list (bytes * A)) : list (bytes * A) :=
  fold_left (fun acc kv => ins_sorted (fst kv) (snd kv) acc) l [].

Fixpoint alookup {A} (k : bytes) (l : list (bytes * A)) : option A :=
  match l with
  | [] => None
  | (k', v) :: r => if beqb k k' then Some v else alookup k r
  end.
Fixpoint aremove {A} (k : bytes) (l : list (bytes * A)) : list (bytes * A) :=
  match l with
  | [] => []
  | (k', v) :: r => if beqb k k' then aremove k r else (k', v) :: aremove k r
  end.
