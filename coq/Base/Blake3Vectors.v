(* The official BLAKE3 test vectors shipped offline with the zeebo/blake3 dependency
   (vec_test.go; input byte i = i mod 251; the first 32 bytes of the extended output are the
   BLAKE3-256 digest), checked against the Gallina implementation by vm_compute. *)
From Coq Require Import NArith List String.
From DudV Require Import Base.Bytes Base.Blake3.
Import ListNotations.
Local Open Scope N_scope.

Fixpoint tv (n : nat) (i : N) : bytes := match n with O => [] | S n' => (i mod 251) :: tv n' (i+1) end.
Definition tvN (n : N) : bytes := tv (N.to_nat n) 0.

Definition vectors : list (N * string) := [
  (0, "af1349b9f5f9a1a6a0404dea36dcc9499bcb25c9adc112b7cc9a93cae41f3262");
  (1, "2d3adedff11b61f14c886e35afa036736dcd87a74d27b5c1510225d0f592e213");
  (1023, "10108970eeda3eb932baac1428c7a2163b0e924c9a9e25b35bba72b28f70bd11");
  (1024, "42214739f095a406f3fc83deb889744ac00df831c10daa55189b5d121c855af7");
  (1025, "d00278ae47eb27b34faecf67b4fe263f82d5412916c1ffd97c8cb7fb814b8444");
  (2048, "e776b6028c7cd22a4d0ba182a8bf62205d2ef576467e838ed6f2529b85fba24a");
  (2049, "5f4d72f40d7a5f82b15ca2b2e44b1de3c2ef86c426c95c1af0b6879522563030");
  (3072, "b98cb0ff3623be03326b373de6b9095218513e64f1ee2edd2525c7ad1e5cffd2");
  (3073, "7124b49501012f81cc7f11ca069ec9226cecb8a2c850cfe644e327d22d3e1cd3");
  (4096, "015094013f57a5277b59d8475c0501042c0b642e531b0a1c8f58d2163229e969");
  (4097, "9b4052b38f1c5fc8b1f9ff7ac7b27cd242487b3d890d15c96a1c25b8aa0fb995");
  (5120, "9cadc15fed8b5d854562b26a9536d9707cadeda9b143978f319ab34230535833");
  (5121, "628bd2cb2004694adaab7bbd778a25df25c47b9d4155a55f8fbd79f2fe154cff");
  (6144, "3e2e5b74e048f3add6d21faab3f83aa44d3b2278afb83b80b3c35164ebeca205");
  (6145, "f1323a8631446cc50536a9f705ee5cb619424d46887f3c376c695b70e0f0507f");
  (7168, "61da957ec2499a95d6b8023e2b0e604ec7f6b50e80a9678b89d2628e99ada77a");
  (7169, "a003fc7a51754a9b3c7fae0367ab3d782dccf28855a03d435f8cfe74605e7817");
  (8192, "aae792484c8efe4f19e2ca7d371d8c467ffb10748d8a5a1ae579948f718a2a63");
  (8193, "bab6c09cb8ce8cf459261398d2e7aef35700bf488116ceb94a36d0f5f1b7bc3b");
  (16384, "f875d6646de28985646f34ee13be9a576fd515f76b5b0a26bb324735041ddde4");
  (31744, "62b6960e1a44bcc1eb1a611a8d6235b6b4b78f32e7abc4fb4c6cdcce94895c47")
]%string.

Definition check_vec (v : N * string) : bool := beqb (hexdigest (tvN (fst v))) (of_string (snd v)).

Theorem blake3_vectors : forallb check_vec vectors = true.
Proof. vm_compute. reflexivity. Qed.
