(* Shared definitions for the theorems about Model/Cache.v: invariants of the cache, plain trees,
   the logical view, the Merkle function, and the exact STATEMENTS (as Props) that the proof
   files establish.  Property files in Properties/ state the theorems through these Props. *)
From Coq Require Import NArith List Bool Sorted.
From DudV Require Import Base.Bytes Base.JsonStr Base.Json Model.Fs Model.Cache.
Import ListNotations.
Local Open Scope N_scope.

Section Defs.
  Variable H : bytes -> bytes.

  (* ---- assumptions about the hash, always explicit premises ---- *)
  Definition H_inj : Prop := forall a b, H a = H b -> a = b.           (* collision freedom *)
  Definition H_has : Prop := forall b, has_cs (H b) = true.            (* digests have >= 3 characters *)
  Definition H_text : Prop := forall b, valid (length (H b)) (H b) = true /\ bytes_ok (H b).
                                                                        (* digests are (ASCII) text *)

  (* ---- cache invariants ---- *)
  Definition cache_ok (c : cache) : Prop :=
    forall d o, cget c d = Some o -> d = H (o_data o) /\ o_mode o = cache_perms.

  Definition cache_le (c c' : cache) : Prop :=
    forall d o, cget c d = Some o -> exists o', cget c' d = Some o' /\ o_data o' = o_data o.

  (* children recorded in manifests never carry flags *)
  Definition plain_child (a : artifact) : Prop := a_norec a = false /\ a_skip a = false.
  Definition man_plain (c : cache) : Prop :=
    forall d o m, cget c d = Some o -> dec_manifest (o_data o) = Some m ->
                  Forall (fun kv => plain_child (snd kv)) (m_contents m).

  (* a directory child whose checksum is in the cache points at something that decodes *)
  Definition man_closed (c : cache) : Prop :=
    forall d o m, cget c d = Some o -> dec_manifest (o_data o) = Some m ->
      Forall (fun kv => a_isdir (snd kv) = true ->
                        forall o', cget c (a_cs (snd kv)) = Some o' -> dec_manifest (o_data o') <> None)
             (m_contents m).

  Definition cache_inv (c : cache) : Prop := cache_ok c /\ man_plain c /\ man_closed c.

  (* the recorded checksum of a directory artifact, if present in the cache, is a manifest *)
  Definition art_hist_ok (c : cache) (a : artifact) : Prop :=
    a_isdir a = true -> forall o, cget c (a_cs a) = Some o -> dec_manifest (o_data o) <> None.

  (* ---- names and plain trees ---- *)
  Definition good_name (n : bytes) : Prop :=
    utf8_name n = true /\ valid_entry_name n = true /\ bytes_ok n.

  Definition key_lt (a b : bytes * node) : Prop := bltb (fst a) (fst b) = true.

  (* trees of regular files and directories, entries strictly sorted by name *)
  Inductive plain : node -> Prop :=
  | plain_file b : plain (File b)
  | plain_dir es :
      StronglySorted key_lt es ->
      Forall (fun e => good_name (fst e) /\ plain (snd e)) es ->
      plain (Dir es).

  (* links followed *)
  Fixpoint logical (c : cache) (n : node) : node :=
    match n with
    | LinkC d => match cget c d with Some o => File (o_data o) | None => n end
    | Dir es => Dir (map (fun e => (fst e, logical c (snd e))) es)
    | _ => n
    end.

  (* what a (non-)recursive directory artifact tracks of a tree *)
  Definition tracked_view (a : artifact) (n : node) : node :=
    match n with
    | Dir es => if a_norec a then Dir (filter (fun e => negb (is_dir (snd e))) es) else n
    | _ => n
    end.

  (* the checksum as a pure function of path and content *)
  Fixpoint merkle (path : bytes) (norec : bool) (n : node) : option bytes :=
    match n with
    | File b => Some (H b)
    | Dir es =>
      let fix go (es : list (bytes * node)) : option (list (bytes * artifact)) :=
        match es with
        | [] => Some []
        | (name, ch) :: r =>
          if norec && is_dir ch then go r else
          match merkle name false ch, go r with
          | Some d, Some l => Some ((name, mkArt d name (is_dir ch) false false) :: l)
          | _, _ => None
          end
        end in
      match go es with
      | Some l => Some (H (enc_manifest (mkMan path l)))
      | None => None
      end
    | _ => None
    end.

  (* well-formed manifests: what commit writes; the codec round trip is proved for these *)
  Definition wf_text (s : bytes) : Prop := valid (length s) s = true /\ bytes_ok s.
  Definition man_key_lt (a b : bytes * artifact) : Prop := bltb (fst a) (fst b) = true.
  Definition wf_manifest (m : manifest) : Prop :=
    wf_text (m_path m) /\
    StronglySorted man_key_lt (m_contents m) /\
    Forall (fun kv => a_path (snd kv) = fst kv /\ valid_entry_name (fst kv) = true /\
                      wf_text (fst kv) /\ wf_text (a_cs (snd kv)) /\ plain_child (snd kv))
           (m_contents m).
  Definition codec_ok : Prop := forall m, wf_manifest m -> dec_manifest (enc_manifest m) = Some m.

  Definition kind_ok (a : artifact) (n : node) : Prop := a_isdir a = is_dir n.
  Definition top_art (a : artifact) : Prop := wf_text (a_path a) /\ a_skip a = false.

  (* ================= statements ================= *)

  (* C02 (artifact level): commit keeps the cache content-addressed, read-only and append-only *)
  Definition stmt_commit_cache_ok : Prop :=
    H_inj -> forall a n c st n' c' a',
      cache_ok c -> commit_node H a n c st = Ok (n', c', a') -> cache_ok c' /\ cache_le c c'.

  (* C16: the recorded checksum is the Merkle function of path and logical content, whatever
     the strategy and whatever old manifest the commit started from *)
  Definition stmt_commit_merkle : Prop :=
    H_inj -> forall a n c st n' c' a',
      cache_ok c -> man_plain c -> commit_node H a n c st = Ok (n', c', a') ->
      a_skip a = false ->
      merkle (a_path a) (a_norec a) (logical c n) = Some (a_cs a').
  (* (for a file artifact with skip-cache the checksum is H of the bytes as well) *)
  Definition stmt_commit_skip : Prop :=
    forall a b c st n' c' a',
      a_isdir a = false -> a_skip a = true -> commit_node H a (File b) c st = Ok (n', c', a') ->
      n' = File b /\ c' = c /\ a_cs a' = H b.

  (* C16: different content trees (of the same kind) get different checksums *)
  Definition stmt_merkle_inj : Prop :=
    H_inj -> H_text -> codec_ok -> forall p nr n1 n2 d,
      plain n1 -> plain n2 -> is_dir n1 = is_dir n2 -> wf_text p ->
      merkle p nr n1 = Some d -> merkle p nr n2 = Some d ->
      tracked_view (mkArt [] p true nr false) n1 = tracked_view (mkArt [] p true nr false) n2.

  (* C01: commit succeeds on every plain tree of the right kind *)
  Definition stmt_commit_ok : Prop :=
    forall a n c st, plain n -> kind_ok a n -> a_skip a = false ->
      cache_inv c -> art_hist_ok c a ->
      exists n' c' a', commit_node H a n c st = Ok (n', c', a').

  (* C01: commit leaves the logical content unchanged and preserves the invariants *)
  Definition stmt_commit_logical : Prop :=
    H_inj -> H_has -> forall a n c st n' c' a',
      cache_ok c -> commit_node H a n c st = Ok (n', c', a') ->
      logical c' n' = logical c n.
  Definition stmt_commit_inv : Prop :=
    H_inj -> H_has -> H_text -> codec_ok -> forall a n c st n' c' a',
      plain n -> wf_text (a_path a) -> cache_inv c -> commit_node H a n c st = Ok (n', c', a') ->
      cache_inv c' /\ art_hist_ok c' a'.

  (* C01: checkout into an absent slot reproduces the tracked tree, for both strategies *)
  Definition stmt_roundtrip : Prop :=
    H_inj -> H_has -> H_text -> codec_ok -> forall a n c st st' n' c' a',
      plain n -> kind_ok a n -> top_art a -> cache_inv c ->
      commit_node H a n c st = Ok (n', c', a') ->
      exists fuel n2, checkout_node H fuel a' None c' st' = Ok (Some n2) /\
                      logical c' n2 = tracked_view a n.

  (* C19: a copy checkout that succeeds only ever placed bytes that hash to the recorded checksum *)
  Definition stmt_copy_verified : Prop :=
    forall a slot c b,
      checkout_file H a slot c Copy = Ok (Some (File b)) -> H b = a_cs a.

  (* every file of a checked-out tree carries the bytes its manifest entry names *)
  Inductive verified (c : cache) : artifact -> node -> Prop :=
  | v_file a b : a_isdir a = false -> H b = a_cs a -> verified c a (File b)
  | v_dir a o m es :
      a_isdir a = true -> cget c (a_cs a) = Some o -> dec_manifest (o_data o) = Some m ->
      (forall k ch, In (k, ch) (m_contents m) -> exists n, alookup k es = Some n /\ verified c ch n) ->
      verified c a (Dir es).
  Definition stmt_copy_tree_verified : Prop :=
    forall fuel a c n,
      checkout_node H fuel a None c Copy = Ok (Some n) -> verified c a n.

  (* C06: checkout never destroys an entry that is in the way.  [preserved] relates the entry
     before and after: unchanged, newly created, a matching link replaced by a copy of the very
     object it pointed to, or a directory whose entries are each preserved. *)
  Definition stmt_checkout_file_frame : Prop :=
    forall a slot c st r,
      checkout_file H a slot c st = Ok r ->
      r = slot \/ slot = None \/
      (st = Copy /\ exists o, slot = Some (LinkC (a_cs a)) /\ cget c (a_cs a) = Some o /\ r = Some (File (o_data o))).

  Inductive preserved (c : cache) (st : strategy) : option node -> option node -> Prop :=
  | p_same s : preserved c st s s
  | p_new r : preserved c st None r
  | p_copy d o : st = Copy -> cget c d = Some o -> preserved c st (Some (LinkC d)) (Some (File (o_data o)))
  | p_dir es es' :
      (forall k, preserved c st (alookup k es) (alookup k es')) ->
      preserved c st (Some (Dir es)) (Some (Dir es')).
  Definition sorted_entries (es : list (bytes * node)) : Prop := StronglySorted key_lt es.
  Fixpoint sorted_tree (n : node) : Prop :=
    match n with
    | Dir es => sorted_entries es /\
                (fix all (l : list (bytes * node)) : Prop :=
                   match l with [] => True | (_, ch) :: r => sorted_tree ch /\ all r end) es
    | _ => True
    end.
  Definition stmt_checkout_frame : Prop :=
    forall fuel a slot c st r,
      match slot with Some n => sorted_tree n | None => True end ->
      checkout_node H fuel a slot c st = Ok r -> preserved c st slot r.

  (* C15: repeating a successful commit / checkout changes nothing *)
  Definition cache_sorted (c : cache) : Prop :=
    StronglySorted (fun a b : bytes * cobj => bltb (fst a) (fst b) = true) c.
  Definition stmt_commit_idem : Prop :=
    H_inj -> H_has -> H_text -> codec_ok -> forall a n c st n' c' a',
      plain n -> wf_text (a_path a) -> a_skip a = false -> cache_ok c -> man_plain c -> cache_sorted c ->
      commit_node H a n c st = Ok (n', c', a') ->
      commit_node H a' n' c' st = Ok (n', c', a').
  Definition stmt_checkout_idem : Prop :=
    forall fuel a slot c st r,
      match slot with Some n => sorted_tree n | None => True end ->
      checkout_node H fuel a slot c st = Ok r -> checkout_node H fuel a r c st = Ok r.

  (* C05: status tells the truth.  [expand] is the logical tree a checksum stands for. *)
  Fixpoint expand (fuel : nat) (a : artifact) (c : cache) : option node :=
    match fuel with
    | O => None
    | S f =>
      match cget c (a_cs a) with
      | None => None
      | Some o =>
        if a_isdir a then
          match dec_manifest (o_data o) with
          | None => None
          | Some m =>
            option_map Dir
              ((fix go (kids : list (bytes * artifact)) : option (list (bytes * node)) :=
                  match kids with
                  | [] => Some []
                  | (k, ch) :: r => match expand f ch c, go r with
                                    | Some t, Some l => Some ((k, t) :: l)
                                    | _, _ => None
                                    end
                  end) (m_contents m))
          end
        else Some (File (o_data o))
      end
    end.
  (* ContentsMatch of a non-skip artifact is true exactly when the workspace entry, links
     followed, is the committed tree and that tree is in the cache *)
  Definition stmt_status_iff : Prop :=
    H_inj -> forall fuel a n c s,
      cache_ok c -> man_plain c -> sorted_tree n -> a_skip a = false -> has_cs (a_cs a) = true ->
      status_node H fuel a (Some n) c = Ok s ->
      (st_cm s = true <->
       exists t, expand fuel a c = Some t /\ tracked_view a (logical c n) = t /\ kind_ok a n).
  (* skip-cache files and plain inputs: matches the recorded checksum *)
  Definition stmt_status_skip : Prop :=
    forall a b c,
      a_isdir a = false -> a_skip a = true -> has_cs (a_cs a) = true ->
      st_cm (status_file H a (Some (File b)) c) = true <-> H b = a_cs a.
  (* right after a successful commit the artifact is reported up-to-date, at every level *)
  Fixpoint all_cm (s : stree) : Prop :=
    match s with
    | St _ _ _ _ cm kids =>
      cm = true /\ (fix go (l : list (bytes * stree)) : Prop :=
                      match l with [] => True | (_, k) :: r => all_cm k /\ go r end) kids
    end.
  Definition stmt_status_after_commit : Prop :=
    H_inj -> H_has -> H_text -> codec_ok -> forall a n c st n' c' a',
      plain n -> kind_ok a n -> top_art a -> cache_inv c ->
      commit_node H a n c st = Ok (n', c', a') ->
      exists fuel s, status_node H fuel a' (Some n') c' = Ok s /\ all_cm s.
  (* the short-circuit answer agrees with the full one *)
  Definition stmt_short_agrees : Prop :=
    forall fuel a slot c s,
      status_node H fuel a slot c = Ok s -> status_short H fuel a slot c = Ok (st_cm s).
End Defs.
