(* C04, nested directories: the retry of a failed (or killed) commit of a directory tree of ANY
   depth returns the result of the undisturbed commit.

   Lifts CrashProofs.C04_retry_dir_flat (one level, all entries regular files).

     tree_state H st c a n n1     [n1] is what a failed commit of [n] (artifact [a], old manifests
                                  looked up in the initial cache [c], exactly as commit_node looks
                                  up the old child) may have left in the workspace
     olds_fixed c cf a n          no sub-directory visited by the commit has a STALE recorded
                                  checksum (naming no object of [c]) that names an object of [cf]
     C04_retry_nested             the theorem (same node, same recorded artifact, same objects)
     C04_rerun_untouched          instance n1 = n (tree_state_refl)
     C04_retry_flat_from_nested   the flat theorem is an instance (the statement of
                                  Properties/C04.v C04_retry_flat_directory, re-proved from it)
     C04_retry_nested_naive_refuted, cx_shapes, cx_not_olds_fixed
                                  WITHOUT [olds_fixed] (only: "every old manifest consulted reads
                                  the same in c and in c1", [olds_naive]) the statement is FALSE:
                                  closed witness
     C04_retry_nested_inv         second form: no premise on old manifests at all, but the
                                  invariants man_plain / man_closed of the FINAL cache (and
                                  art_hist_ok of the top artifact); state relation [tree_state2]
                                  without cache; covers the case [olds_fixed] excludes (a lost
                                  sub-manifest re-created by the failed run and read by the retry)
     ex_nested_retry(_thm)        a depth-2 tree, one inner file already a link, no manifest
                                  written: by computation, and through C04_retry_nested
     ex_lost_manifest_retry(_thm) the lost sub-manifest: by computation, and through
                                  C04_retry_nested_inv

   No axioms; Print Assumptions after each main theorem. *)
From Coq Require Import NArith List Bool Sorted.
From DudV Require Import Base.Bytes Base.Json Model.Fs Model.Cache Model.Crash
  Proofs.CacheDefs Proofs.CommitProofs Proofs.CrashProofs.
Import ListNotations.
Local Open Scope N_scope.

Section NestedRetry.
  Variable H : bytes -> bytes.
  Variable st : strategy.

  (* ---------------------------------------------------------------------------------------- *)
  (* the relation between the original tree and the tree a failed run left                     *)
  (* ---------------------------------------------------------------------------------------- *)

  (* [c] is the cache the failed run STARTED from: the old manifest of a directory artifact [a]
     is [old_contents a c], the artifact of an entry is [child_of old name ch] (the recorded
     child if the kinds agree, a fresh one otherwise), as in commit_node.
       leaf      untouched / put back by the rollback / completed under the copy strategy:
                 the same node; or, completed under the link strategy: the link to its object
                 (only for an artifact that is stored, i.e. not skip-cache)
       directory the same names in the same order; an entry that a non-recursive artifact
                 does not visit is untouched; the others are related entry-wise *)
  Inductive tree_state (c : cache) : artifact -> node -> node -> Prop :=
  | ts_same a n : is_dir n = false -> tree_state c a n n
  | ts_linked a b : st = Link -> a_skip a = false -> tree_state c a (File b) (LinkC (H b))
  | ts_dir a es es1 old :
      old_contents a c = Ok old ->
      Forall2 (fun e e1 : bytes * node =>
                 fst e1 = fst e /\
                 ((a_norec a && is_dir (snd e) = true /\ snd e1 = snd e) \/
                  (a_norec a && is_dir (snd e) = false /\
                   tree_state c (child_of old (fst e) (snd e)) (snd e) (snd e1)))) es es1 ->
      tree_state c a (Dir es) (Dir es1).

  (* the recorded checksum of a directory artifact is not STALE-and-recreated: if it names no
     object of [c] (so that the commit starts that directory from no old manifest), no object
     of [cf] has it either *)
  Definition stale_free (c cf : cache) (a : artifact) : Prop :=
    has_cs (a_cs a) = true -> in_cache c (a_cs a) = false -> in_cache cf (a_cs a) = false.

  (* ... for every SUB-directory the commit visits (not for the top artifact) *)
  Inductive olds_fixed (c cf : cache) : artifact -> node -> Prop :=
  | of_leaf a n : is_dir n = false -> olds_fixed c cf a n
  | of_dir a es old :
      old_contents a c = Ok old ->
      Forall (fun e : bytes * node =>
                a_norec a && is_dir (snd e) = true \/
                ((is_dir (snd e) = true -> stale_free c cf (child_of old (fst e) (snd e))) /\
                 olds_fixed c cf (child_of old (fst e) (snd e)) (snd e))) es ->
      olds_fixed c cf a (Dir es).

  (* the naive version: every old manifest consulted reads the same in [c] and in [c1] *)
  Inductive olds_naive (c c1 : cache) : artifact -> node -> Prop :=
  | on_leaf a n : is_dir n = false -> olds_naive c c1 a n
  | on_dir a es old :
      old_contents a c = Ok old -> old_contents a c1 = Ok old ->
      Forall (fun e : bytes * node =>
                a_norec a && is_dir (snd e) = true \/
                olds_naive c c1 (child_of old (fst e) (snd e)) (snd e)) es ->
      olds_naive c c1 a (Dir es).

  Lemma tree_state_is_dir c a n n1 : tree_state c a n n1 -> is_dir n1 = is_dir n.
  Proof. intros Hts. destruct Hts; reflexivity. Qed.

  (* ---------------------------------------------------------------------------------------- *)
  (* the invariant between the caches of the two runs                                          *)
  (* ---------------------------------------------------------------------------------------- *)

  (* [c1] the cache the retry starts from, [c0] / [c1'] the caches of the undisturbed run and
     of the retry at the same point of the traversal *)
  Definition sync (c1 c0 c1' : cache) : Prop :=
    keyed H c1' /\
    (forall d, in_cache c0 d = true -> in_cache c1' d = true) /\
    (forall d, in_cache c1 d = true -> in_cache c1' d = true) /\
    (forall d, in_cache c1' d = true -> in_cache c1 d = true \/ in_cache c0 d = true).

  Lemma ic_cput c d b d' : in_cache (cput c d b) d' = beqb d' d || in_cache c d'.
  Proof. unfold in_cache. rewrite cget_cput. destruct (beqb d' d); reflexivity. Qed.

  Lemma ic_some c d o : cget c d = Some o -> in_cache c d = true.
  Proof. unfold in_cache. intros ->. reflexivity. Qed.

  Lemma ic_inv c d : in_cache c d = true -> exists o, cget c d = Some o.
  Proof. unfold in_cache. destruct (cget c d) as [o|]; [exists o; reflexivity|discriminate]. Qed.

  Lemma cache_le_in c c' d : cache_le c c' -> in_cache c d = true -> in_cache c' d = true.
  Proof.
    intros Hle Hd. apply ic_inv in Hd as (o & Hg). destruct (Hle _ _ Hg) as (o' & Hg' & _).
    exact (ic_some _ _ _ Hg').
  Qed.

  Lemma keyed_cput c b : keyed H c -> keyed H (cput c (H b) b).
  Proof.
    intros Hk d o. rewrite cget_cput. destruct (beqb d (H b)) eqn:E.
    - apply beqb_eq in E. intros Hg. injection Hg as <-. exact E.
    - apply Hk.
  Qed.

  (* both runs store the same object *)
  Lemma sync_cput c1 c0 c1' b :
    sync c1 c0 c1' -> sync c1 (cput c0 (H b) b) (cput c1' (H b) b).
  Proof.
    intros (Hk & Hsub & Hbase & Hsup). split; [apply keyed_cput; exact Hk|]. split; [|split].
    - intros d. rewrite !ic_cput. destruct (beqb d (H b)); [reflexivity|]. cbn [orb]. apply Hsub.
    - intros d Hd. rewrite ic_cput. rewrite (Hbase _ Hd). apply orb_true_r.
    - intros d. rewrite !ic_cput. destruct (beqb d (H b)); cbn [orb].
      + intros _. right. reflexivity.
      + apply Hsup.
  Qed.

  (* the undisturbed run stores an object the retry finds in place *)
  Lemma sync_cput_left c1 c0 c1' b :
    sync c1 c0 c1' -> in_cache c1' (H b) = true -> sync c1 (cput c0 (H b) b) c1'.
  Proof.
    intros (Hk & Hsub & Hbase & Hsup) Hin. split; [exact Hk|]. split; [|split].
    - intros d. rewrite ic_cput. destruct (beqb d (H b)) eqn:E; cbn [orb]; [|apply Hsub].
      apply beqb_eq in E. subst d. intros _. exact Hin.
    - exact Hbase.
    - intros d Hd. destruct (Hsup _ Hd) as [Hx|Hx]; [left; exact Hx|right].
      rewrite ic_cput, Hx. apply orb_true_r.
  Qed.

  Lemma set_cs_id a : set_cs a (a_cs a) = a.
  Proof. destruct a; reflexivity. Qed.

  (* ---------------------------------------------------------------------------------------- *)
  (* leaves                                                                                    *)
  (* ---------------------------------------------------------------------------------------- *)

  Lemma link_retry a d c1' :
    in_cache c1' d = true ->
    commit_file H a (LinkC d) c1' st = Ok (LinkC d, c1', set_cs a d).
  Proof.
    intros Hin. unfold commit_file.
    destruct (qmatch c1' (a_cs a) (Some (LinkC d))) eqn:Eq.
    - apply qmatch_inv in Eq as (_ & Eq & _). injection Eq as Eq.
      rewrite Eq at 3. rewrite set_cs_id. reflexivity.
    - rewrite Hin. reflexivity.
  Qed.

  Lemma leaf_retry c1 a n n1 c0 c1' nf cf0 af :
    sync c1 c0 c1' ->
    (n1 = n \/
     exists b, n = File b /\ n1 = LinkC (H b) /\ st = Link /\ a_skip a = false /\
               in_cache c1 (H b) = true) ->
    commit_file H a n c0 st = Ok (nf, cf0, af) ->
    exists cf1, commit_file H a n1 c1' st = Ok (nf, cf1, af) /\ sync c1 cf0 cf1.
  Proof.
    intros Hsy Hst Hok. pose proof Hsy as (Hk & Hsub & Hbase & Hsup).
    destruct Hst as [->|(b & -> & -> & Hlink & Hsk & Hin)].
    - apply commit_file_inv in Hok
        as [(Hq & -> & -> & ->)|[(_ & b & -> & -> & [(Hsk & -> & ->)|(Hsk & -> & ->)])
                                |(d & o & -> & Hg & -> & -> & ->)]].
      + (* a matching link *)
        apply qmatch_inv in Hq as (Hhas & -> & o & Hg).
        exists c1'. split; [|exact Hsy].
        unfold commit_file, qmatch. rewrite Hhas, (Hsub _ (ic_some _ _ _ Hg)), beqb_refl.
        reflexivity.
      + (* a skip-cache file *)
        exists c1'. split; [|exact Hsy].
        unfold commit_file. rewrite qmatch_file, Hsk. reflexivity.
      + (* a file that is stored *)
        exists (cput c1' (H b) b). split; [|apply sync_cput; exact Hsy].
        unfold commit_file. rewrite qmatch_file, Hsk. destruct st; reflexivity.
      + (* an adopted link *)
        exists c1'. split; [|exact Hsy].
        apply link_retry. apply Hsub. exact (ic_some _ _ _ Hg).
    - (* the entry is already the link to its object *)
      unfold commit_file in Hok. rewrite qmatch_file, Hsk, Hlink in Hok.
      injection Hok as <- <- <-.
      exists c1'. split.
      + apply link_retry. apply Hbase. exact Hin.
      + apply sync_cput_left; [exact Hsy|]. apply Hbase. exact Hin.
  Qed.

  (* ---------------------------------------------------------------------------------------- *)
  (* the old manifest of a sub-directory reads the same in both runs                           *)
  (* ---------------------------------------------------------------------------------------- *)

  Lemma old_contents_stable c c1 CF c0 c1' ca :
    H_inj H -> cache_ok H c -> cache_le c c0 -> cache_le c0 CF -> cache_le c1 CF ->
    sync c1 c0 c1' -> stale_free c CF ca ->
    old_contents ca c0 = old_contents ca c /\ old_contents ca c1' = old_contents ca c.
  Proof.
    intros Hinj Hc Hle0 HleF Hle1F (Hk & Hsub & Hbase & Hsup) Hsf.
    unfold old_contents. destruct (has_cs (a_cs ca)) eqn:Hhas; [|split; reflexivity].
    destruct (cget c (a_cs ca)) as [o|] eqn:Hg.
    - destruct (Hle0 _ _ Hg) as (o0 & Hg0 & E0). rewrite Hg0, E0. split; [reflexivity|].
      pose proof (Hsub _ (ic_some _ _ _ Hg0)) as Hin. apply ic_inv in Hin as (o1 & Hg1).
      rewrite Hg1. replace (o_data o1) with (o_data o); [reflexivity|].
      apply Hinj. rewrite <- (Hk _ _ Hg1). symmetry. exact (proj1 (Hc _ _ Hg)).
    - assert (HF : in_cache CF (a_cs ca) = false).
      { apply Hsf; [exact Hhas|]. unfold in_cache. rewrite Hg. reflexivity. }
      assert (H0 : cget c0 (a_cs ca) = None).
      { destruct (cget c0 (a_cs ca)) as [o0|] eqn:Hg0; [|reflexivity].
        rewrite (cache_le_in _ _ _ HleF (ic_some _ _ _ Hg0)) in HF. discriminate. }
      assert (H1 : cget c1' (a_cs ca) = None).
      { destruct (cget c1' (a_cs ca)) as [o1|] eqn:Hg1; [|reflexivity].
        destruct (Hsup _ (ic_some _ _ _ Hg1)) as [Hx|Hx].
        - rewrite (cache_le_in _ _ _ Hle1F Hx) in HF. discriminate.
        - rewrite (cache_le_in _ _ _ HleF Hx) in HF. discriminate. }
      rewrite H0, H1. split; reflexivity.
  Qed.

  (* ---------------------------------------------------------------------------------------- *)
  (* the strengthened statement, by induction on the tree                                      *)
  (* ---------------------------------------------------------------------------------------- *)

  Section Fixed.
    Variables c c1 CF : cache.
    Hypothesis Hinj : H_inj H.
    Hypothesis Hc : cache_ok H c.
    Hypothesis Hle1F : cache_le c1 CF.

    Definition retry_at (n : node) : Prop :=
      forall a n1 c0 c1' nf cf0 af,
        cache_ok H c0 -> cache_le c c0 -> cache_le cf0 CF -> sync c1 c0 c1' ->
        tree_state c a n n1 -> olds_fixed c CF a n -> resolved c1 n1 ->
        (is_dir n = true ->
         old_contents a c0 = old_contents a c /\ old_contents a c1' = old_contents a c) ->
        commit_node H a n c0 st = Ok (nf, cf0, af) ->
        exists cf1, commit_node H a n1 c1' st = Ok (nf, cf1, af) /\ sync c1 cf0 cf1.

    Definition ent_state (nr : bool) (old : list (bytes * artifact)) (e e1 : bytes * node) : Prop :=
      fst e1 = fst e /\
      ((nr && is_dir (snd e) = true /\ snd e1 = snd e) \/
       (nr && is_dir (snd e) = false /\
        tree_state c (child_of old (fst e) (snd e)) (snd e) (snd e1))).

    Definition ent_fixed (nr : bool) (old : list (bytes * artifact)) (e : bytes * node) : Prop :=
      nr && is_dir (snd e) = true \/
      ((is_dir (snd e) = true -> stale_free c CF (child_of old (fst e) (snd e))) /\
       olds_fixed c CF (child_of old (fst e) (snd e)) (snd e)).

    Lemma entries_retry nr old es :
      Forall (fun e => retry_at (snd e)) es ->
      forall es1 c0 c1' es' c2 m,
        cache_ok H c0 -> cache_le c c0 -> cache_le c2 CF -> sync c1 c0 c1' ->
        Forall2 (ent_state nr old) es es1 -> Forall (ent_fixed nr old) es ->
        Forall (fun e => resolved c1 (snd e)) es1 ->
        commit_entries (commit_node H) nr old st es c0 = Ok (es', c2, m) ->
        exists cf1, commit_entries (commit_node H) nr old st es1 c1' = Ok (es', cf1, m) /\
                    sync c1 c2 cf1.
    Proof.
      induction 1 as [|[name ch] r IHch _ IHr];
        intros es1 c0 c1' es' c2 m Hc0 Hle0 Hle2 Hsy Hst Hfx Hres He.
      - inversion Hst; subst. apply commit_entries_nil in He. injection He as -> -> ->.
        exists c1'. split; [reflexivity|exact Hsy].
      - inversion Hst as [|e0 [name1 ch1] r0 r1 Hst1 Hstr]; subst. clear Hst.
        inversion Hfx as [|e0 r0 Hfx1 Hfxr]; subst. clear Hfx.
        inversion Hres as [|e0 r0 Hres1 Hresr]; subst. clear Hres.
        destruct Hst1 as (Hn & Hst1). cbn [fst snd] in Hn, Hst1, Hres1, IHch. subst name1.
        apply commit_entries_cons in He
          as [(Hs & es1' & Hr & ->)|(Hs & Hu & ch' & cm & child' & es1' & m1 & Hcom & Hr & -> & ->)].
        + (* an entry the artifact does not visit *)
          destruct Hst1 as [(_ & ->)|(Hs' & _)]; [|congruence].
          destruct (IHr _ _ _ _ _ _ Hc0 Hle0 Hle2 Hsy Hstr Hfxr Hresr Hr) as (cf1 & He1 & Hsy1).
          exists cf1. split; [|exact Hsy1].
          cbn [commit_entries]. rewrite Hs, He1. reflexivity.
        + destruct Hst1 as [(Hs' & _)|(_ & Hts)]; [congruence|].
          destruct Hfx1 as [Hs'|(Hsf & Hof)]; [cbn [snd] in Hs'; congruence|].
          cbn [fst snd] in Hsf, Hof.
          destruct (commit_cache_ok H Hinj _ _ _ _ _ _ _ Hc0 Hcom) as [Hcm Hlem].
          destruct (commit_entries_cache_ok H r Hinj _ _ _ _ _ _ _ Hcm Hr) as [_ Hler].
          assert (HlemF : cache_le cm CF) by exact (cache_le_trans _ _ _ Hler Hle2).
          destruct (IHch (child_of old name ch) ch1 c0 c1' ch' cm child' Hc0 Hle0 HlemF Hsy Hts Hof Hres1)
            as (cm1 & Hcom1 & Hsym); [|exact Hcom|].
          { intros Hd. apply (old_contents_stable c c1 CF); try assumption.
            - exact (cache_le_trans _ _ _ Hlem HlemF).
            - exact (Hsf Hd). }
          destruct (IHr _ _ _ _ _ _ Hcm (cache_le_trans _ _ _ Hle0 Hlem) Hle2 Hsym Hstr Hfxr Hresr Hr)
            as (cf1 & He1 & Hsy1).
          exists cf1. split; [|exact Hsy1].
          pose proof (tree_state_is_dir _ _ _ _ Hts) as Hd1.
          cbn [commit_entries]. rewrite Hd1, Hs, Hu. cbn [negb].
          replace (child_of old name ch1) with (child_of old name ch)
            by (unfold child_of; rewrite Hd1; reflexivity).
          rewrite Hcom1, He1. reflexivity.
    Qed.

    Lemma node_retry n : retry_at n.
    Proof.
      induction n as [b|d|t| |es IH] using node_ind2;
        intros a n1 c0 c1' nf cf0 af Hc0 Hle0 HleF Hsy Hts Hof Hres Hold Hok.
      1-4: rewrite commit_node_leaf in Hok by reflexivity;
           destruct (a_isdir a) eqn:Hd; [discriminate|].
      - (* File *)
        assert (Hn1 : is_dir n1 = false) by (rewrite (tree_state_is_dir _ _ _ _ Hts); reflexivity).
        rewrite (commit_node_leaf _ _ _ _ _ Hn1), Hd.
        apply (leaf_retry c1 a (File b) n1 c0 c1' nf cf0 af Hsy); [|exact Hok].
        inversion Hts as [a0 n0 _| a0 b0 Hl Hsk|]; subst.
        + left. reflexivity.
        + right. exists b. repeat split; try assumption.
          inversion Hres as [|d' o Hg| | |]; subst. exact (ic_some _ _ _ Hg).
      - inversion Hts; subst. rewrite commit_node_leaf, Hd by reflexivity.
        apply (leaf_retry c1 a (LinkC d) (LinkC d) c0 c1' nf cf0 af Hsy); [left; reflexivity|exact Hok].
      - inversion Hts; subst. rewrite commit_node_leaf, Hd by reflexivity.
        apply (leaf_retry c1 a (LinkO t) (LinkO t) c0 c1' nf cf0 af Hsy); [left; reflexivity|exact Hok].
      - inversion Hts; subst. rewrite commit_node_leaf, Hd by reflexivity.
        apply (leaf_retry c1 a Other Other c0 c1' nf cf0 af Hsy); [left; reflexivity|exact Hok].
      - (* Dir *)
        destruct (Hold eq_refl) as [Ho0 Ho1].
        inversion Hts as [a0 n0 Hnd| |a0 es0 es1 old Ho Hst]; subst; [discriminate|].
        inversion Hof as [a0 n0 Hnd|a0 es0 old' Ho' Hfx]; subst; [discriminate|].
        rewrite Ho in Ho'. injection Ho' as <-.
        inversion Hres as [| | | |es0 Hres1]; subst.
        destruct (commit_cache_ok H Hinj _ _ _ _ _ _ _ Hc0 Hok) as [Hcf0 _].
        apply commit_dir_inv in Hok as (Hd & old' & es' & c2 & m & Ho' & He & -> & -> & ->).
        rewrite Ho0, Ho in Ho'. injection Ho' as <-.
        set (mb := enc_manifest (mkMan (a_path a) m)) in *.
        assert (Hle2 : cache_le c2 CF).
        { destruct (commit_entries_cache_ok H es Hinj _ _ _ _ _ _ _ Hc0 He) as [Hc2 _].
          exact (cache_le_trans _ _ _ (cput_le H c2 mb Hinj Hc2) HleF). }
        destruct (entries_retry (a_norec a) old es IH es1 c0 c1' es' c2 m Hc0 Hle0 Hle2 Hsy Hst Hfx Hres1 He)
          as (cf1 & He1 & Hsy1).
        exists (cput cf1 (H mb) mb). split; [|apply sync_cput; exact Hsy1].
        rewrite CommitProofs.commit_node_dir, Hd, Ho1, Ho, He1. reflexivity.
    Qed.
  End Fixed.

  (* ---------------------------------------------------------------------------------------- *)
  (* C04 for nested directories                                                                *)
  (* ---------------------------------------------------------------------------------------- *)

  (* From the state a failed (or killed) run leaves behind - the tree [n1] related to [n] by
     [tree_state], a cache [c1] between the initial and the final one that holds the object of
     every link of [n1] - the retry succeeds with the same workspace tree, the same recorded
     artifact (checksum) and a cache with the same objects as the undisturbed commit.
     Premises on old manifests: the top artifact reads the same old manifest in [c] and [c1] (as
     in the flat theorem); for sub-directories, [olds_fixed] (see
     C04_retry_nested_naive_refuted for why "reads the same in c and c1" is not enough). *)
  Theorem C04_retry_nested a n n1 c c1 nf cf af :
    H_inj H -> cache_ok H c -> keyed H c1 -> cache_le c c1 -> cache_le c1 cf ->
    (is_dir n = true -> old_contents a c1 = old_contents a c) ->
    tree_state c a n n1 -> olds_fixed c cf a n -> resolved c1 n1 ->
    commit_node H a n c st = Ok (nf, cf, af) ->
    exists cf1, commit_node H a n1 c1 st = Ok (nf, cf1, af) /\
                cache_le cf cf1 /\ cache_le cf1 cf.
  Proof.
    intros Hinj Hc Hk1 Hle1 Hle2 Hold Hts Hof Hres Hok.
    destruct (commit_cache_ok H Hinj _ _ _ _ _ _ _ Hc Hok) as [Hcf _].
    assert (Hsy : sync c1 c c1).
    { split; [exact Hk1|]. split; [intros d; apply cache_le_in; exact Hle1|].
      split; [intros d Hd; exact Hd|]. intros d Hd. left. exact Hd. }
    destruct (node_retry c c1 cf Hinj Hc Hle2 n a n1 c c1 nf cf af Hc (cache_le_refl c)
                         (cache_le_refl cf) Hsy Hts Hof Hres) as (cf1 & Hok1 & Hsy1); [|exact Hok|].
    { intros Hd. split; [reflexivity|exact (Hold Hd)]. }
    exists cf1. split; [exact Hok1|].
    destruct Hsy1 as (Hkf1 & Hsub & _ & Hsup).
    assert (Hpres : forall cA cB, keyed H cA -> keyed H cB ->
              (forall d, in_cache cA d = true -> in_cache cB d = true) -> cache_le cA cB).
    { intros cA cB HkA HkB Hin d o Hg.
      pose proof (Hin _ (ic_some _ _ _ Hg)) as Hi. apply ic_inv in Hi as (o' & Hg').
      exists o'. split; [exact Hg'|]. apply Hinj. rewrite <- (HkB _ _ Hg'). exact (HkA _ _ Hg). }
    split; apply Hpres; try exact Hkf1; try exact (cache_ok_keyed H _ Hcf).
    - exact Hsub.
    - intros d Hd. destruct (Hsup _ Hd) as [Hx|Hx]; [|exact Hx].
      exact (cache_le_in _ _ _ Hle2 Hx).
  Qed.

  (* the relation is reflexive on every tree whose old manifests are readable: the untouched
     tree is a possible state (a run that failed before its first effect, or whose effects were
     all rolled back), and C04_retry_nested then says that the commit gives the same result
     from every keyed cache between the initial and the final one *)
  Lemma tree_state_refl c cf n : forall a, olds_fixed c cf a n -> tree_state c a n n.
  Proof.
    induction n as [b|d|t| |es IH] using node_ind2; intros a Hof;
      try (apply ts_same; reflexivity).
    inversion Hof as [a0 n0 Hnd|a0 es0 old Ho Hfx]; subst; [discriminate|].
    apply (ts_dir c a es es old Ho). clear Hof Ho.
    induction IH as [|[name ch] r IHch _ IHr]; [constructor|].
    inversion Hfx as [|e0 r0 Hfx1 Hfxr]; subst. constructor; [|exact (IHr Hfxr)].
    cbn [fst snd] in *. split; [reflexivity|].
    destruct Hfx1 as [Hs|(_ & Hof1)].
    - left. split; [exact Hs|reflexivity].
    - destruct (a_norec a && is_dir ch) eqn:Hs.
      + left. split; reflexivity.
      + right. split; [reflexivity|]. exact (IHch _ Hof1).
  Qed.

  Corollary C04_rerun_untouched a n c c1 nf cf af :
    H_inj H -> cache_ok H c -> keyed H c1 -> cache_le c c1 -> cache_le c1 cf ->
    (is_dir n = true -> old_contents a c1 = old_contents a c) ->
    olds_fixed c cf a n -> resolved c1 n ->
    commit_node H a n c st = Ok (nf, cf, af) ->
    exists cf1, commit_node H a n c1 st = Ok (nf, cf1, af) /\
                cache_le cf cf1 /\ cache_le cf1 cf.
  Proof.
    intros Hinj Hc Hk1 Hle1 Hle2 Hold Hof Hres Hok.
    exact (C04_retry_nested a n n c c1 nf cf af Hinj Hc Hk1 Hle1 Hle2 Hold
                            (tree_state_refl c cf n a Hof) Hof Hres Hok).
  Qed.

  (* ---------------------------------------------------------------------------------------- *)
  (* the flat theorem is an instance                                                           *)
  (* ---------------------------------------------------------------------------------------- *)

  Lemma flat_tree_state a es es1 c old :
    old_contents a c = Ok old -> Forall2 (flat_state H st old) es es1 ->
    tree_state c a (Dir es) (Dir es1).
  Proof.
    intros Ho Hst. apply (ts_dir c a es es1 old Ho).
    induction Hst as [|[name ch] [name1 ch1] r r1 (Hn & b & Hch & Hch1) _ IH]; constructor; [|exact IH].
    cbn [fst snd] in *. subst ch. split; [exact Hn|]. right. cbn [is_dir].
    split; [apply andb_false_r|].
    destruct Hch1 as [->|(-> & Hl & Hsk)]; [apply ts_same; reflexivity|apply ts_linked; assumption].
  Qed.

  Lemma flat_olds_fixed a es es1 c cf old :
    old_contents a c = Ok old -> Forall2 (flat_state H st old) es es1 ->
    olds_fixed c cf a (Dir es).
  Proof.
    intros Ho Hst. apply (of_dir c cf a es old Ho).
    induction Hst as [|[name ch] [name1 ch1] r r1 (Hn & b & Hch & Hch1) _ IH]; constructor; [|exact IH].
    cbn [fst snd] in *. subst ch. right. split; [discriminate|]. apply of_leaf. reflexivity.
  Qed.

  Lemma flat_resolved es es1 c1 old :
    Forall2 (flat_state H st old) es es1 ->
    (forall name b, In (name, LinkC (H b)) es1 -> in_cache c1 (H b) = true) ->
    resolved c1 (Dir es1).
  Proof.
    intros Hst Hlk. constructor.
    induction Hst as [|[name ch] [name1 ch1] r r1 (Hn & b & Hch & Hch1) _ IH]; constructor.
    - cbn [fst snd] in *. destruct Hch1 as [->|(-> & _)]; [constructor|].
      pose proof (Hlk name1 b (or_introl eq_refl)) as Hin. apply ic_inv in Hin as (o & Hg).
      exact (rs_linkc _ _ _ Hg).
    - apply IH. intros nm b' Hin. exact (Hlk nm b' (or_intror Hin)).
  Qed.

  Theorem C04_retry_flat_from_nested a es es1 c c1 old nf cf af :
    H_inj H -> cache_ok H c -> keyed H c1 -> cache_le c c1 -> cache_le c1 cf ->
    old_contents a c = Ok old -> old_contents a c1 = Ok old ->
    Forall2 (flat_state H st old) es es1 ->
    (forall name b, In (name, LinkC (H b)) es1 -> in_cache c1 (H b) = true) ->
    commit_node H a (Dir es) c st = Ok (nf, cf, af) ->
    exists cf1, commit_node H a (Dir es1) c1 st = Ok (nf, cf1, af) /\
                cache_le cf cf1 /\ cache_le cf1 cf.
  Proof.
    intros Hinj Hc Hk1 Hle1 Hle2 Ho Ho1 Hst Hlk Hok.
    apply (C04_retry_nested a (Dir es) (Dir es1) c c1 nf cf af Hinj Hc Hk1 Hle1 Hle2);
      [| | | |exact Hok].
    - intros _. rewrite Ho, Ho1. reflexivity.
    - exact (flat_tree_state a es es1 c old Ho Hst).
    - exact (flat_olds_fixed a es es1 c cf old Ho Hst).
    - exact (flat_resolved es es1 c1 old Hst Hlk).
  Qed.

  (* ---------------------------------------------------------------------------------------- *)
  (* second form: no premise on the old manifests, invariants of the FINAL cache instead       *)
  (* ---------------------------------------------------------------------------------------- *)

  (* If the manifests of the final cache record plain children (man_plain) and name directory
     objects that decode (man_closed) - the invariants that commit preserves
     (the commit_inv theorems of CommitProofs) - the result of a directory commit does not depend on WHICH old
     manifest each directory starts from: the two runs may read different ones (a sub-directory
     whose manifest object was lost is re-created by the failed run and READ by the retry).
     The state relation needs neither the cache nor the old manifests: the children of a
     directory artifact are plain. *)
  Inductive tree_state2 : bool -> bool -> node -> node -> Prop :=
  | t2_same sk nr n : is_dir n = false -> tree_state2 sk nr n n
  | t2_linked nr b : st = Link -> tree_state2 false nr (File b) (LinkC (H b))
  | t2_dir sk nr es es1 :
      Forall2 (fun e e1 : bytes * node =>
                 fst e1 = fst e /\
                 ((nr && is_dir (snd e) = true /\ snd e1 = snd e) \/
                  (nr && is_dir (snd e) = false /\ tree_state2 false false (snd e) (snd e1))))
              es es1 ->
      tree_state2 sk nr (Dir es) (Dir es1).

  Lemma tree_state2_is_dir sk nr n n1 : tree_state2 sk nr n n1 -> is_dir n1 = is_dir n.
  Proof. intros Hts. destruct Hts; reflexivity. Qed.

  (* the same artifact up to the recorded checksum *)
  Definition art_sim (a a' : artifact) : Prop :=
    a_path a = a_path a' /\ a_isdir a = a_isdir a' /\ a_norec a = a_norec a' /\ a_skip a = a_skip a'.

  Lemma sim_set_cs a a' d : art_sim a a' -> set_cs a' d = set_cs a d.
  Proof.
    destruct a, a'. unfold art_sim, set_cs. cbn. intros (-> & -> & -> & ->). reflexivity.
  Qed.

  Lemma child_sim old0 old1 name ch ch1 :
    old_ok old0 -> old_ok old1 -> is_dir ch1 = is_dir ch ->
    art_sim (child_of old0 name ch) (child_of old1 name ch1) /\
    a_skip (child_of old0 name ch) = false /\ a_norec (child_of old0 name ch) = false.
  Proof.
    intros H0 H1 Hd.
    destruct (child_of_props old0 name ch H0) as (Hp0 & (Hn0 & Hs0) & Hd0).
    destruct (child_of_props old1 name ch1 H1) as (Hp1 & (Hn1 & Hs1) & Hd1).
    split; [|split; assumption]. unfold art_sim. rewrite Hp0, Hp1, Hd0, Hd1, Hn0, Hn1, Hs0, Hs1, Hd.
    repeat split; reflexivity.
  Qed.

  (* what a recorded checksum names in the final cache decodes *)
  Definition hist2 (CF : cache) (a : artifact) : Prop :=
    has_cs (a_cs a) = true -> forall o, cget CF (a_cs a) = Some o -> dec_manifest (o_data o) <> None.
  Definition closed_old (CF : cache) (old : list (bytes * artifact)) : Prop :=
    Forall (fun kv : bytes * artifact => a_isdir (snd kv) = true -> hist2 CF (snd kv)) old.

  Lemma child_hist2 CF old name ch :
    closed_old CF old -> is_dir ch = true -> hist2 CF (child_of old name ch).
  Proof.
    intros Hcl Hd. unfold child_of.
    assert (Hf : hist2 CF (fresh_art name (is_dir ch))) by (intros Hhas; discriminate Hhas).
    destruct (alookup name old) as [oa|] eqn:El; [|exact Hf].
    destruct (Bool.eqb (a_isdir oa) (is_dir ch)) eqn:Ek; [|exact Hf].
    apply CommitProofs.alookup_In in El. unfold closed_old in Hcl. rewrite Forall_forall in Hcl.
    apply (Hcl _ El). cbn [snd]. apply eqb_prop in Ek. rewrite Ek. exact Hd.
  Qed.

  Lemma man_plain_le c' CF : cache_le c' CF -> man_plain CF -> man_plain c'.
  Proof.
    intros Hle Hmp d o m Hg Hdec. destruct (Hle _ _ Hg) as (o' & Hg' & E).
    rewrite <- E in Hdec. exact (Hmp _ _ _ Hg' Hdec).
  Qed.

  Lemma old_read c' CF a :
    cache_le c' CF -> man_plain CF -> man_closed CF -> hist2 CF a ->
    exists old, old_contents a c' = Ok old /\ old_ok old /\ closed_old CF old.
  Proof.
    intros Hle Hmp Hmc Hh. unfold old_contents.
    destruct (has_cs (a_cs a)) eqn:Hhas; [|exists []; repeat split; constructor].
    destruct (cget c' (a_cs a)) as [o|] eqn:Hg; [|exists []; repeat split; constructor].
    destruct (Hle _ _ Hg) as (o' & Hg' & E). rewrite <- E.
    destruct (dec_manifest (o_data o')) as [m|] eqn:Hdec; [|exfalso; exact (Hh Hhas _ Hg' Hdec)].
    exists (m_contents m). split; [reflexivity|]. split.
    - apply (old_contents_ok a CF); [exact Hmp|]. unfold old_contents. rewrite Hhas, Hg', Hdec. reflexivity.
    - pose proof (Hmc _ _ _ Hg' Hdec) as Hc. unfold closed_old. rewrite Forall_forall in *.
      intros kv Hin Hd _ o2 Hg2. exact (Hc _ Hin Hd _ Hg2).
  Qed.

  Lemma leaf_retry2 c1 a a' n n1 c0 c1' nf cf0 af :
    sync c1 c0 c1' -> art_sim a a' ->
    (n1 = n \/
     exists b, n = File b /\ n1 = LinkC (H b) /\ st = Link /\ a_skip a = false /\
               in_cache c1 (H b) = true) ->
    commit_file H a n c0 st = Ok (nf, cf0, af) ->
    exists cf1, commit_file H a' n1 c1' st = Ok (nf, cf1, af) /\ sync c1 cf0 cf1.
  Proof.
    intros Hsy Hsim Hst Hok. pose proof Hsy as (Hk & Hsub & Hbase & Hsup).
    pose proof Hsim as (_ & _ & _ & Hskeq).
    destruct Hst as [->|(b & -> & -> & Hlink & Hsk & Hin)].
    - apply commit_file_inv in Hok
        as [(Hq & -> & -> & ->)|[(_ & b & -> & -> & [(Hsk & -> & ->)|(Hsk & -> & ->)])
                                |(d & o & -> & Hg & -> & -> & ->)]].
      + apply qmatch_inv in Hq as (Hhas & -> & o & Hg).
        exists c1'. split; [|exact Hsy].
        rewrite (link_retry a' (a_cs a) c1' (Hsub _ (ic_some _ _ _ Hg))).
        rewrite (sim_set_cs _ _ _ Hsim), set_cs_id. reflexivity.
      + exists c1'. split; [|exact Hsy].
        unfold commit_file. rewrite qmatch_file, <- Hskeq, Hsk, (sim_set_cs _ _ _ Hsim). reflexivity.
      + exists (cput c1' (H b) b). split; [|apply sync_cput; exact Hsy].
        unfold commit_file. rewrite qmatch_file, <- Hskeq, Hsk, (sim_set_cs _ _ _ Hsim).
        destruct st; reflexivity.
      + exists c1'. split; [|exact Hsy].
        rewrite (link_retry a' d c1' (Hsub _ (ic_some _ _ _ Hg))), (sim_set_cs _ _ _ Hsim).
        reflexivity.
    - unfold commit_file in Hok. rewrite qmatch_file, Hsk, Hlink in Hok.
      injection Hok as <- <- <-.
      exists c1'. split.
      + rewrite (link_retry a' (H b) c1' (Hbase _ Hin)), (sim_set_cs _ _ _ Hsim). reflexivity.
      + apply sync_cput_left; [exact Hsy|]. apply Hbase. exact Hin.
  Qed.

  Section Fixed2.
    Variables c1 CF : cache.
    Hypothesis Hinj : H_inj H.
    Hypothesis HkF : keyed H CF.
    Hypothesis Hle1F : cache_le c1 CF.
    Hypothesis HmpF : man_plain CF.
    Hypothesis HmcF : man_closed CF.

    (* every cache of the retry is below the final cache *)
    Lemma sync_le_CF c0 c1' : cache_le c0 CF -> sync c1 c0 c1' -> cache_le c1' CF.
    Proof.
      intros Hle0 (Hk & _ & _ & Hsup) d o Hg.
      assert (Hin : in_cache CF d = true).
      { destruct (Hsup _ (ic_some _ _ _ Hg)) as [Hx|Hx];
        [exact (cache_le_in _ _ _ Hle1F Hx)|exact (cache_le_in _ _ _ Hle0 Hx)]. }
      apply ic_inv in Hin as (o' & Hg'). exists o'. split; [exact Hg'|].
      apply Hinj. rewrite <- (HkF _ _ Hg'). exact (Hk _ _ Hg).
    Qed.

    Definition retry_at2 (n : node) : Prop :=
      forall a a' n1 c0 c1' nf cf0 af,
        cache_ok H c0 -> cache_le cf0 CF -> sync c1 c0 c1' -> art_sim a a' ->
        tree_state2 (a_skip a) (a_norec a) n n1 -> resolved c1 n1 ->
        (is_dir n = true -> hist2 CF a') ->
        commit_node H a n c0 st = Ok (nf, cf0, af) ->
        exists cf1, commit_node H a' n1 c1' st = Ok (nf, cf1, af) /\ sync c1 cf0 cf1.

    Definition ent_state2 (nr : bool) (e e1 : bytes * node) : Prop :=
      fst e1 = fst e /\
      ((nr && is_dir (snd e) = true /\ snd e1 = snd e) \/
       (nr && is_dir (snd e) = false /\ tree_state2 false false (snd e) (snd e1))).

    Lemma entries_retry2 nr old0 old1 es :
      old_ok old0 -> old_ok old1 -> closed_old CF old1 ->
      Forall (fun e => retry_at2 (snd e)) es ->
      forall es1 c0 c1' es' c2 m,
        cache_ok H c0 -> cache_le c2 CF -> sync c1 c0 c1' ->
        Forall2 (ent_state2 nr) es es1 ->
        Forall (fun e => resolved c1 (snd e)) es1 ->
        commit_entries (commit_node H) nr old0 st es c0 = Ok (es', c2, m) ->
        exists cf1, commit_entries (commit_node H) nr old1 st es1 c1' = Ok (es', cf1, m) /\
                    sync c1 c2 cf1.
    Proof.
      intros Hok0 Hok1 Hcl1.
      induction 1 as [|[name ch] r IHch _ IHr];
        intros es1 c0 c1' es' c2 m Hc0 Hle2 Hsy Hst Hres He.
      - inversion Hst; subst. apply commit_entries_nil in He. injection He as -> -> ->.
        exists c1'. split; [reflexivity|exact Hsy].
      - inversion Hst as [|e0 [name1 ch1] r0 r1 Hst1 Hstr]; subst. clear Hst.
        inversion Hres as [|e0 r0 Hres1 Hresr]; subst. clear Hres.
        destruct Hst1 as (Hn & Hst1). cbn [fst snd] in Hn, Hst1, Hres1, IHch. subst name1.
        apply commit_entries_cons in He
          as [(Hs & es1' & Hr & ->)|(Hs & Hu & ch' & cm & child' & es1' & m1 & Hcom & Hr & -> & ->)].
        + destruct Hst1 as [(_ & ->)|(Hs' & _)]; [|congruence].
          destruct (IHr _ _ _ _ _ _ Hc0 Hle2 Hsy Hstr Hresr Hr) as (cf1 & He1 & Hsy1).
          exists cf1. split; [|exact Hsy1].
          cbn [commit_entries]. rewrite Hs, He1. reflexivity.
        + destruct Hst1 as [(Hs' & _)|(_ & Hts)]; [congruence|].
          destruct (commit_cache_ok H Hinj _ _ _ _ _ _ _ Hc0 Hcom) as [Hcm Hlem].
          destruct (commit_entries_cache_ok H r Hinj _ _ _ _ _ _ _ Hcm Hr) as [_ Hler].
          assert (HlemF : cache_le cm CF) by exact (cache_le_trans _ _ _ Hler Hle2).
          pose proof (tree_state2_is_dir _ _ _ _ Hts) as Hd1.
          destruct (child_sim old0 old1 name ch ch1 Hok0 Hok1 Hd1) as (Hsim & Hsk0 & Hnr0).
          destruct (IHch (child_of old0 name ch) (child_of old1 name ch1) ch1 c0 c1' ch' cm child'
                         Hc0 HlemF Hsy Hsim) as (cm1 & Hcom1 & Hsym); [| | |exact Hcom|].
          { rewrite Hsk0, Hnr0. exact Hts. }
          { exact Hres1. }
          { intros Hd. apply child_hist2; [exact Hcl1|]. rewrite Hd1. exact Hd. }
          destruct (IHr _ _ _ _ _ _ Hcm Hle2 Hsym Hstr Hresr Hr) as (cf1 & He1 & Hsy1).
          exists cf1. split; [|exact Hsy1].
          cbn [commit_entries]. rewrite Hd1, Hs, Hu. cbn [negb]. rewrite Hcom1, He1. reflexivity.
    Qed.

    Lemma node_retry2 n : retry_at2 n.
    Proof.
      induction n as [b|d|t| |es IH] using node_ind2;
        intros a a' n1 c0 c1' nf cf0 af Hc0 HleF Hsy Hsim Hts Hres Hh Hok;
        pose proof Hsim as (Hpeq & Hdeq & Hneq & Hseq).
      1-4: rewrite commit_node_leaf in Hok by reflexivity;
           destruct (a_isdir a) eqn:Hd; [discriminate|].
      - assert (Hn1 : is_dir n1 = false) by (rewrite (tree_state2_is_dir _ _ _ _ Hts); reflexivity).
        rewrite (commit_node_leaf _ _ _ _ _ Hn1), <- Hdeq.
        apply (leaf_retry2 c1 a a' (File b) n1 c0 c1' nf cf0 af Hsy Hsim); [|exact Hok].
        inversion Hts as [sk0 nr0 n0 _|nr0 b0 Hl Hsk|]; subst.
        + left. reflexivity.
        + right. exists b. repeat split; try assumption; try (symmetry; assumption).
          inversion Hres as [|d' o Hg| | |]; subst. exact (ic_some _ _ _ Hg).
      - inversion Hts; subst. rewrite commit_node_leaf, <- Hdeq by reflexivity.
        apply (leaf_retry2 c1 a a' (LinkC d) (LinkC d) c0 c1' nf cf0 af Hsy Hsim);
          [left; reflexivity|exact Hok].
      - inversion Hts; subst. rewrite commit_node_leaf, <- Hdeq by reflexivity.
        apply (leaf_retry2 c1 a a' (LinkO t) (LinkO t) c0 c1' nf cf0 af Hsy Hsim);
          [left; reflexivity|exact Hok].
      - inversion Hts; subst. rewrite commit_node_leaf, <- Hdeq by reflexivity.
        apply (leaf_retry2 c1 a a' Other Other c0 c1' nf cf0 af Hsy Hsim);
          [left; reflexivity|exact Hok].
      - inversion Hts as [sk0 nr0 n0 Hnd| |sk0 nr0 es0 es1 Hst]; subst; [discriminate|].
        inversion Hres as [| | | |es0 Hres1]; subst.
        destruct (commit_cache_ok H Hinj _ _ _ _ _ _ _ Hc0 Hok) as [Hcf0 Hle00].
        assert (Hle0F : cache_le c0 CF) by exact (cache_le_trans _ _ _ Hle00 HleF).
        apply commit_dir_inv in Hok as (Hd & old0 & es' & c2 & m & Ho0 & He & -> & -> & ->).
        pose proof (old_contents_ok a c0 old0 (man_plain_le _ _ Hle0F HmpF) Ho0) as Hok0.
        destruct (old_read c1' CF a' (sync_le_CF c0 c1' Hle0F Hsy) HmpF HmcF (Hh eq_refl))
          as (old1 & Ho1 & Hok1 & Hcl1).
        set (mb := enc_manifest (mkMan (a_path a) m)) in *.
        assert (Hle2 : cache_le c2 CF).
        { destruct (commit_entries_cache_ok H es Hinj _ _ _ _ _ _ _ Hc0 He) as [Hc2 _].
          exact (cache_le_trans _ _ _ (cput_le H c2 mb Hinj Hc2) HleF). }
        destruct (entries_retry2 (a_norec a) old0 old1 es Hok0 Hok1 Hcl1 IH es1 c0 c1' es' c2 m
                                 Hc0 Hle2 Hsy Hst Hres1 He) as (cf1 & He1 & Hsy1).
        exists (cput cf1 (H mb) mb). split; [|apply sync_cput; exact Hsy1].
        rewrite CommitProofs.commit_node_dir, <- Hdeq, Hd, Ho1, <- Hneq, He1, <- Hpeq.
        cbv zeta. fold mb. rewrite (sim_set_cs _ _ _ Hsim). reflexivity.
    Qed.
  End Fixed2.

  Theorem C04_retry_nested_inv a n n1 c c1 nf cf af :
    H_inj H -> cache_ok H c -> keyed H c1 -> cache_le c c1 -> cache_le c1 cf ->
    man_plain cf -> man_closed cf -> art_hist_ok cf a ->
    tree_state2 (a_skip a) (a_norec a) n n1 -> resolved c1 n1 ->
    commit_node H a n c st = Ok (nf, cf, af) ->
    exists cf1, commit_node H a n1 c1 st = Ok (nf, cf1, af) /\
                cache_le cf cf1 /\ cache_le cf1 cf.
  Proof.
    intros Hinj Hc Hk1 Hle1 Hle2 Hmp Hmc Hh Hts Hres Hok.
    destruct (commit_cache_ok H Hinj _ _ _ _ _ _ _ Hc Hok) as [Hcf _].
    assert (Hsy : sync c1 c c1).
    { split; [exact Hk1|]. split; [intros d; apply cache_le_in; exact Hle1|].
      split; [intros d Hd; exact Hd|]. intros d Hd. left. exact Hd. }
    assert (Hsim : art_sim a a) by (repeat split; reflexivity).
    destruct (node_retry2 c1 cf Hinj (cache_ok_keyed H _ Hcf) Hle2 Hmp Hmc n a a n1 c c1 nf cf af Hc
                          (cache_le_refl cf) Hsy Hsim Hts Hres) as (cf1 & Hok1 & Hsy1); [|exact Hok|].
    { intros Hd _. apply Hh. destruct n; try discriminate.
      apply commit_dir_inv in Hok as (Hda & _). exact Hda. }
    exists cf1. split; [exact Hok1|].
    destruct Hsy1 as (Hkf1 & Hsub & _ & Hsup).
    assert (Hpres : forall cA cB, keyed H cA -> keyed H cB ->
              (forall d, in_cache cA d = true -> in_cache cB d = true) -> cache_le cA cB).
    { intros cA cB HkA HkB Hin d o Hg.
      pose proof (Hin _ (ic_some _ _ _ Hg)) as Hi. apply ic_inv in Hi as (o' & Hg').
      exists o'. split; [exact Hg'|]. apply Hinj. rewrite <- (HkB _ _ Hg'). exact (HkA _ _ Hg). }
    split; apply Hpres; try exact Hkf1; try exact (cache_ok_keyed H _ Hcf).
    - exact Hsub.
    - intros d Hd. destruct (Hsup _ Hd) as [Hx|Hx]; [|exact Hx].
      exact (cache_le_in _ _ _ Hle2 Hx).
  Qed.
End NestedRetry.
Print Assumptions C04_retry_nested.
Print Assumptions C04_retry_flat_from_nested.
Print Assumptions C04_rerun_untouched.
Print Assumptions C04_retry_nested_inv.

(* ------------------------------------------------------------------------------------------ *)
(* checkers for closed examples                                                                *)
(* ------------------------------------------------------------------------------------------ *)

Definition cache_ok_b (H : bytes -> bytes) (c : cache) : bool :=
  forallb (fun kv => beqb (fst kv) (H (o_data (snd kv))) && (o_mode (snd kv) =? cache_perms)) c.
Definition cache_le_b (c c' : cache) : bool :=
  forallb (fun kv => match cget c' (fst kv) with
                     | Some o' => beqb (o_data o') (o_data (snd kv))
                     | None => false
                     end) c.

Lemma cache_ok_b_sound H c : cache_ok_b H c = true -> cache_ok H c.
Proof.
  intros Hb d o Hg. apply alookup_In in Hg. unfold cache_ok_b in Hb.
  rewrite forallb_forall in Hb. specialize (Hb _ Hg). cbn [fst snd] in Hb.
  apply andb_true_iff in Hb as [Hd Hm]. apply beqb_eq in Hd. apply N.eqb_eq in Hm.
  split; assumption.
Qed.

Lemma cache_le_b_sound c c' : cache_le_b c c' = true -> cache_le c c'.
Proof.
  intros Hb d o Hg. apply alookup_In in Hg. unfold cache_le_b in Hb.
  rewrite forallb_forall in Hb. specialize (Hb _ Hg). cbn [fst snd] in Hb.
  destruct (cget c' d) as [o'|]; [|discriminate]. apply beqb_eq in Hb.
  exists o'. split; [reflexivity|exact Hb].
Qed.

(* ------------------------------------------------------------------------------------------ *)
(* a depth-2 example (hash: Hx of CrashProofs, a 3-byte prefix: injective, identity-like)      *)
(* ------------------------------------------------------------------------------------------ *)

(* d/ = { s/ = { a = "xy", b = "z" }, w = "w" }.  The failed run completed s/a (link strategy:
   the entry is the link, its object is in the cache) and then failed: neither the manifest of
   s/ nor the manifest of d/ has been written. *)
Definition ex2_tree : node :=
  Dir [([115], Dir [([97], File ex_x); ([98], File ex_y)]); ([119], File [119])].
Definition ex2_left : node :=
  Dir [([115], Dir [([97], LinkC (Hx ex_x)); ([98], File ex_y)]); ([119], File [119])].
Definition ex2_c1 : cache := cput [] (Hx ex_x) ex_x.

Example ex_nested_retry :
  commit_node Hx ex_dir_art ex2_left ex2_c1 Link = commit_node Hx ex_dir_art ex2_tree [] Link /\
  exists nf cf af, commit_node Hx ex_dir_art ex2_tree [] Link = Ok (nf, cf, af).
Proof. split; [vm_compute; reflexivity|]. do 3 eexists. vm_compute. reflexivity. Qed.

(* the same through the theorem: its premises hold of this state *)
Example ex_nested_retry_thm :
  exists nf cf af cf1,
    commit_node Hx ex_dir_art ex2_tree [] Link = Ok (nf, cf, af) /\
    commit_node Hx ex_dir_art ex2_left ex2_c1 Link = Ok (nf, cf1, af) /\
    cache_le cf cf1 /\ cache_le cf1 cf.
Proof.
  destruct (commit_node Hx ex_dir_art ex2_tree [] Link) as [[[nf cf] af]|] eqn:Hok;
    [|vm_compute in Hok; discriminate].
  exists nf, cf, af.
  destruct (C04_retry_nested Hx Link ex_dir_art ex2_tree ex2_left [] ex2_c1 nf cf af) as (cf1 & H1 & H2 & H3).
  - exact Hx_inj.
  - intros d o Hg. discriminate.
  - apply cache_ok_keyed. apply cache_ok_b_sound. vm_compute. reflexivity.
  - intros d o Hg. discriminate.
  - vm_compute in Hok. injection Hok as <- <- <-. apply cache_le_b_sound. vm_compute. reflexivity.
  - intros _. vm_compute. reflexivity.
  - eapply ts_dir; [vm_compute; reflexivity|]. constructor; [|constructor; [|constructor]].
    + split; [reflexivity|]. right. split; [reflexivity|]. cbn [fst snd].
      eapply ts_dir; [vm_compute; reflexivity|]. constructor; [|constructor; [|constructor]].
      * split; [reflexivity|]. right. split; [reflexivity|]. apply ts_linked; reflexivity.
      * split; [reflexivity|]. right. split; [reflexivity|]. apply ts_same; reflexivity.
    + split; [reflexivity|]. right. split; [reflexivity|]. apply ts_same; reflexivity.
  - eapply of_dir; [vm_compute; reflexivity|]. constructor; [|constructor; [|constructor]].
    + right. cbn [fst snd]. split.
      * intros _ Hhas. vm_compute in Hhas. discriminate.
      * eapply of_dir; [vm_compute; reflexivity|]. constructor; [|constructor; [|constructor]].
        -- right. split; [discriminate|]. apply of_leaf; reflexivity.
        -- right. split; [discriminate|]. apply of_leaf; reflexivity.
    + right. split; [discriminate|]. apply of_leaf; reflexivity.
  - repeat constructor. cbn [snd]. eapply rs_linkc. vm_compute. reflexivity.
  - exact Hok.
  - exists cf1. split; [first [reflexivity|exact Hok]|]. split; [exact H1|]. split; assumption.
Qed.

(* ------------------------------------------------------------------------------------------ *)
(* the naive statement is false                                                                *)
(* ------------------------------------------------------------------------------------------ *)

(* d/ = { a = M, b/ = { x = "z" }, c = "z" } where the bytes M of the regular file d/a are a
   directory manifest (of a directory "b" whose entry "x" is skip-cache), and the old manifest
   of d/ (in the cache) records for b/ the checksum Hx M, an object that is NOT in the cache.
   - Looked up in the initial cache, b/ has no old manifest, so x would be stored and linked:
     [tree_state] admits the state where b/x is already the link to its object (which is in
     c1: it is also the object of d/c).  Every old manifest consulted reads the same in c and
     in c1 (none for b/).
   - But the undisturbed commit stores d/a FIRST: when it reaches b/, Hx M names an object,
     its manifest is read, x is skip-cache and is left a regular file.  The retry reads the
     same manifest and adopts the link it finds: a different workspace tree.
   The extra premise [olds_fixed] excludes exactly this: a stale recorded checksum (no object
   in c) of a visited sub-directory must not name an object of the final cache. *)
Definition cx_z : bytes := [122].
Definition cx_M : bytes :=
  enc_manifest (mkMan [98] [([120], mkArt (Hx cx_z) [120] false false true)]).
Definition cx_top : bytes :=
  enc_manifest (mkMan [100] [([98], mkArt (Hx cx_M) [98] true false false)]).
Definition cx_c : cache := [(Hx cx_top, mkObj cx_top cache_perms)].
Definition cx_c1 : cache := cput cx_c (Hx cx_z) cx_z.
Definition cx_a : artifact := mkArt (Hx cx_top) [100] true false false.
Definition cx_n : node :=
  Dir [([97], File cx_M); ([98], Dir [([120], File cx_z)]); ([99], File cx_z)].
Definition cx_n1 : node :=
  Dir [([97], File cx_M); ([98], Dir [([120], LinkC (Hx cx_z))]); ([99], File cx_z)].

Theorem C04_retry_nested_naive_refuted :
  exists nf cf af nf1 cf1 af1,
    H_inj Hx /\ cache_ok Hx cx_c /\ keyed Hx cx_c1 /\ cache_le cx_c cx_c1 /\ cache_le cx_c1 cf /\
    tree_state Hx Link cx_c cx_a cx_n cx_n1 /\ olds_naive cx_c cx_c1 cx_a cx_n /\
    resolved cx_c1 cx_n1 /\
    commit_node Hx cx_a cx_n cx_c Link = Ok (nf, cf, af) /\
    commit_node Hx cx_a cx_n1 cx_c1 Link = Ok (nf1, cf1, af1) /\
    nf1 <> nf.
Proof.
  destruct (commit_node Hx cx_a cx_n cx_c Link) as [[[nf cf] af]|] eqn:Hok;
    [|vm_compute in Hok; discriminate].
  destruct (commit_node Hx cx_a cx_n1 cx_c1 Link) as [[[nf1 cf1] af1]|] eqn:Hok1;
    [|vm_compute in Hok1; discriminate].
  exists nf, cf, af, nf1, cf1, af1.
  vm_compute in Hok. injection Hok as <- <- <-.
  vm_compute in Hok1. injection Hok1 as <- <- <-.
  split; [exact Hx_inj|].
  split; [apply cache_ok_b_sound; vm_compute; reflexivity|].
  split; [apply cache_ok_keyed; apply cache_ok_b_sound; vm_compute; reflexivity|].
  split; [apply cache_le_b_sound; vm_compute; reflexivity|].
  split; [|split; [|split; [|split; [|split; [reflexivity|split; [reflexivity|intros E; discriminate E]]]]]].
  - apply cache_le_b_sound. vm_compute. reflexivity.
  - eapply ts_dir; [vm_compute; reflexivity|]. constructor; [|constructor; [|constructor; [|constructor]]].
    + split; [reflexivity|]. right. split; [reflexivity|]. apply ts_same; reflexivity.
    + split; [reflexivity|]. right. split; [reflexivity|]. cbn [fst snd].
      eapply ts_dir; [vm_compute; reflexivity|]. constructor; [|constructor].
      split; [reflexivity|]. right. split; [reflexivity|]. apply ts_linked; reflexivity.
    + split; [reflexivity|]. right. split; [reflexivity|]. apply ts_same; reflexivity.
  - eapply on_dir; [vm_compute; reflexivity|vm_compute; reflexivity|].
    constructor; [|constructor; [|constructor; [|constructor]]].
    + right. apply on_leaf; reflexivity.
    + right. cbn [fst snd]. eapply on_dir; [vm_compute; reflexivity|vm_compute; reflexivity|].
      constructor; [|constructor]. right. apply on_leaf; reflexivity.
    + right. apply on_leaf; reflexivity.
  - repeat constructor. cbn [snd]. eapply rs_linkc. vm_compute. reflexivity.
Qed.
Print Assumptions C04_retry_nested_naive_refuted.

(* what differs: b/x is a regular file after the undisturbed commit, the link after the retry;
   and the premise [olds_fixed] of C04_retry_nested fails for this tree (the stale checksum
   Hx cx_M recorded for b/ names no object of cx_c but names one of the final cache) *)
Definition at_b_x (r : res (node * cache * artifact)) : option node :=
  match r with
  | Ok (Dir [_; (_, Dir [(_, x)]); _], _, _) => Some x
  | _ => None
  end.
Example cx_shapes :
  at_b_x (commit_node Hx cx_a cx_n cx_c Link) = Some (File cx_z) /\
  at_b_x (commit_node Hx cx_a cx_n1 cx_c1 Link) = Some (LinkC (Hx cx_z)).
Proof. split; vm_compute; reflexivity. Qed.

Example cx_not_olds_fixed :
  forall nf cf af, commit_node Hx cx_a cx_n cx_c Link = Ok (nf, cf, af) ->
                   ~ olds_fixed cx_c cf cx_a cx_n.
Proof.
  intros nf cf af Hok Hof. vm_compute in Hok. injection Hok as <- <- <-.
  inversion Hof as [a0 n0 Hnd|a0 es0 old Ho Hfx]; subst; [discriminate|].
  assert (Eo : old = [([98], mkArt (Hx cx_M) [98] true false false)]).
  { assert (Ho2 : old_contents cx_a cx_c = Ok [([98], mkArt (Hx cx_M) [98] true false false)])
      by (vm_compute; reflexivity).
    rewrite Ho in Ho2. injection Ho2 as ->. reflexivity. }
  subst old. clear Ho.
  inversion Hfx as [|e0 r0 _ Hfx2]; subst. inversion Hfx2 as [|e1 r1 Hb _]; subst.
  destruct Hb as [Hs|(Hsf & _)]; [discriminate|]. cbn [fst snd] in Hsf.
  specialize (Hsf eq_refl). unfold stale_free in Hsf.
  assert (E : in_cache cx_c (a_cs (child_of [([98], mkArt (Hx cx_M) [98] true false false)] [98]
                                            (Dir [([120], File cx_z)]))) = false)
    by (vm_compute; reflexivity).
  specialize (Hsf ltac:(vm_compute; reflexivity) E). vm_compute in Hsf. discriminate.
Qed.

(* ------------------------------------------------------------------------------------------ *)
(* the second form on a closed example: a lost sub-manifest, re-created by the failed run      *)
(* ------------------------------------------------------------------------------------------ *)

Definition man_plain_b (c : cache) : bool :=
  forallb (fun kv : bytes * cobj =>
             match dec_manifest (o_data (snd kv)) with
             | Some m => forallb (fun e : bytes * artifact =>
                                    negb (a_norec (snd e)) && negb (a_skip (snd e))) (m_contents m)
             | None => true
             end) c.
Definition man_closed_b (c : cache) : bool :=
  forallb (fun kv : bytes * cobj =>
             match dec_manifest (o_data (snd kv)) with
             | Some m => forallb (fun e : bytes * artifact =>
                                    negb (a_isdir (snd e)) ||
                                    match cget c (a_cs (snd e)) with
                                    | Some o' => match dec_manifest (o_data o') with
                                                 | Some _ => true | None => false end
                                    | None => true
                                    end) (m_contents m)
             | None => true
             end) c.

Lemma man_plain_b_sound c : man_plain_b c = true -> man_plain c.
Proof.
  intros Hb d o m Hg Hdec. apply CommitProofs.alookup_In in Hg. unfold man_plain_b in Hb.
  rewrite forallb_forall in Hb. specialize (Hb _ Hg). cbn [snd] in Hb. rewrite Hdec in Hb.
  rewrite forallb_forall in Hb. apply Forall_forall. intros e Hin. specialize (Hb _ Hin).
  apply andb_true_iff in Hb as [Hn Hs]. split.
  - destruct (a_norec (snd e)); [discriminate|reflexivity].
  - destruct (a_skip (snd e)); [discriminate|reflexivity].
Qed.

Lemma man_closed_b_sound c : man_closed_b c = true -> man_closed c.
Proof.
  intros Hb d o m Hg Hdec. apply CommitProofs.alookup_In in Hg. unfold man_closed_b in Hb.
  rewrite forallb_forall in Hb. specialize (Hb _ Hg). cbn [snd] in Hb. rewrite Hdec in Hb.
  rewrite forallb_forall in Hb. apply Forall_forall. intros e Hin Hd o' Hg'. specialize (Hb _ Hin).
  rewrite Hd, Hg' in Hb. cbn [negb orb] in Hb.
  destruct (dec_manifest (o_data o')); [discriminate|discriminate Hb].
Qed.

(* d/ = { b/ = { x = "z" }, w = "w" }.  The old manifest of d/ (in the cache) records for b/ the
   checksum of the manifest that b/ still has, but that object is missing from the cache.  The
   failed run completed b/ (x is the link; the objects of x and of the manifest of b/ are in
   the cache) and failed before d/w.  The undisturbed commit starts b/ from NO old manifest, the
   retry from the manifest the failed run wrote: [olds_fixed] does not hold, the second form
   applies. *)
Definition lm_z : bytes := [122].
Definition lm_X : bytes :=
  enc_manifest (mkMan [98] [([120], mkArt (Hx lm_z) [120] false false false)]).
Definition lm_top : bytes :=
  enc_manifest (mkMan [100] [([98], mkArt (Hx lm_X) [98] true false false)]).
Definition lm_c : cache := [(Hx lm_top, mkObj lm_top cache_perms)].
Definition lm_c1 : cache := cput (cput lm_c (Hx lm_z) lm_z) (Hx lm_X) lm_X.
Definition lm_a : artifact := mkArt (Hx lm_top) [100] true false false.
Definition lm_n : node := Dir [([98], Dir [([120], File lm_z)]); ([119], File [119])].
Definition lm_n1 : node := Dir [([98], Dir [([120], LinkC (Hx lm_z))]); ([119], File [119])].

Example ex_lost_manifest_retry :
  commit_node Hx lm_a lm_n1 lm_c1 Link = commit_node Hx lm_a lm_n lm_c Link /\
  old_contents (child_of [([98], mkArt (Hx lm_X) [98] true false false)] [98] (Dir [])) lm_c = Ok [] /\
  old_contents (child_of [([98], mkArt (Hx lm_X) [98] true false false)] [98] (Dir [])) lm_c1
    = Ok [([120], mkArt (Hx lm_z) [120] false false false)].
Proof. repeat split; vm_compute; reflexivity. Qed.

Example ex_lost_manifest_retry_thm :
  exists nf cf af cf1,
    commit_node Hx lm_a lm_n lm_c Link = Ok (nf, cf, af) /\
    commit_node Hx lm_a lm_n1 lm_c1 Link = Ok (nf, cf1, af) /\
    cache_le cf cf1 /\ cache_le cf1 cf.
Proof.
  destruct (commit_node Hx lm_a lm_n lm_c Link) as [[[nf cf] af]|] eqn:Hok;
    [|vm_compute in Hok; discriminate].
  exists nf, cf, af.
  destruct (C04_retry_nested_inv Hx Link lm_a lm_n lm_n1 lm_c lm_c1 nf cf af) as (cf1 & H1 & H2 & H3).
  - exact Hx_inj.
  - apply cache_ok_b_sound. vm_compute. reflexivity.
  - apply cache_ok_keyed. apply cache_ok_b_sound. vm_compute. reflexivity.
  - apply cache_le_b_sound. vm_compute. reflexivity.
  - vm_compute in Hok. injection Hok as <- <- <-. apply cache_le_b_sound. vm_compute. reflexivity.
  - vm_compute in Hok. injection Hok as <- <- <-. apply man_plain_b_sound. vm_compute. reflexivity.
  - vm_compute in Hok. injection Hok as <- <- <-. apply man_closed_b_sound. vm_compute. reflexivity.
  - vm_compute in Hok. injection Hok as <- <- <-. intros _ o Hg. vm_compute in Hg.
    injection Hg as <-. vm_compute. discriminate.
  - apply t2_dir. constructor; [|constructor; [|constructor]].
    + split; [reflexivity|]. right. split; [reflexivity|]. cbn [fst snd].
      apply t2_dir. constructor; [|constructor].
      split; [reflexivity|]. right. split; [reflexivity|]. apply t2_linked; reflexivity.
    + split; [reflexivity|]. right. split; [reflexivity|]. apply t2_same; reflexivity.
  - repeat constructor. cbn [snd]. eapply rs_linkc. vm_compute. reflexivity.
  - exact Hok.
  - exists cf1. split; [first [reflexivity|exact Hok]|]. split; [exact H1|]. split; assumption.
Qed.
Print Assumptions ex_nested_retry_thm.
Print Assumptions ex_lost_manifest_retry_thm.
