(* Round trip of the JSON string codec: dec_string (enc_string s ++ rest) = Some (s, rest)
   for valid UTF-8; injectivity of enc_string.  Ported from the design-round spike. *)
From Coq Require Import ZArith NArith List Lia Bool ZifyBool ZifyN ZifyNat.
From DudV Require Import Base.Bytes Base.JsonStr.
Import ListNotations.
Local Open Scope N_scope.
Ltac Zify.zify_post_hook ::= Z.div_mod_to_equations.

Lemma unhex_hexd x : x < 16 -> unhex1 (hexd x) = Some x.
Proof.
  intros Hx. unfold unhex1, hexd.
  destruct (x <? 10) eqn:E.
  - replace ((48 <=? 48 + x) && (48 + x <=? 57)) with true by lia. f_equal. lia.
  - replace ((48 <=? 87 + x) && (87 + x <=? 57)) with false by lia.
    replace ((97 <=? 87 + x) && (87 + x <=? 102)) with true by lia. f_equal. lia.
Qed.

Lemma hex4_u00 b X : b < 256 -> hex4 (48 :: 48 :: hexd (b / 16) :: hexd (b mod 16) :: X) = Some (b, X).
Proof.
  intros Hb. unfold hex4. change (unhex1 48) with (Some 0).
  rewrite !unhex_hexd by lia. f_equal. f_equal. lia.
Qed.

(* decoding one escaped ASCII byte costs one unit of decoder fuel *)
Lemma dec_esc_ascii g b X o t :
  b < 128 -> dec_body g X = Some (o, t) -> dec_body (S g) (esc_ascii b ++ X) = Some (b :: o, t).
Proof.
  intros Hb HX. unfold esc_ascii.
  destruct (b =? 34) eqn:E1; [apply N.eqb_eq in E1; subst; simpl; now rewrite HX|].
  destruct (b =? 92) eqn:E2; [apply N.eqb_eq in E2; subst; simpl; now rewrite HX|].
  destruct (b =? 8) eqn:E3; [apply N.eqb_eq in E3; subst; simpl; now rewrite HX|].
  destruct (b =? 12) eqn:E4; [apply N.eqb_eq in E4; subst; simpl; now rewrite HX|].
  destruct (b =? 10) eqn:E5; [apply N.eqb_eq in E5; subst; simpl; now rewrite HX|].
  destruct (b =? 13) eqn:E6; [apply N.eqb_eq in E6; subst; simpl; now rewrite HX|].
  destruct (b =? 9) eqn:E7; [apply N.eqb_eq in E7; subst; simpl; now rewrite HX|].
  assert (Hu : dec_body (S g) (u00 b ++ X) = Some (b :: o, t)).
  { unfold u00. cbn [app dec_body N.eqb Pos.eqb].
    rewrite hex4_u00 by lia.
    replace ((55296 <=? b) && (b <=? 56319)) with false by lia.
    replace ((56320 <=? b) && (b <=? 57343)) with false by lia.
    rewrite HX. unfold utf8_enc. replace (b <? 128) with true by lia. reflexivity. }
  destruct (b <? 32) eqn:E8; [exact Hu|].
  destruct ((b =? 60) || (b =? 62) || (b =? 38)) eqn:E9; [exact Hu|].
  cbn [app dec_body].
  replace (b =? 34) with false by lia. replace (b =? 92) with false by lia.
  rewrite E8. replace (b <? 128) with true by lia. now rewrite HX.
Qed.

Lemma esc_ascii_len b : (1 <= length (esc_ascii b))%nat.
Proof. unfold esc_ascii, u00. repeat match goal with |- context [if ?c then _ else _] => destruct c end; simpl; lia. Qed.

Ltac break_decode H :=
  unfold decode in H;
  repeat match type of H with
  | context [match ?l with [] => _ | _ :: _ => _ end] => destruct l
  | context [if ?c then _ else _] => let E := fresh "E" in destruct c eqn:E
  end; try discriminate.

(* a successful multi-byte decode only looks at its own w bytes *)
Lemma decode_multi s c w :
  decode s = (Some c, w) -> (exists b r, s = b :: r /\ 128 <= b) ->
  (2 <= w <= 4)%nat /\ length (firstn w s) = w /\
  (forall Y, decode (firstn w s ++ Y) = (Some c, w)) /\
  (forall Y, skipn w (firstn w s ++ Y) = Y) /\ (forall Y, firstn w (firstn w s ++ Y) = firstn w s) /\
  (exists b r, firstn w s = b :: r /\ 128 <= b).
Proof.
  intros H (b & r & -> & Hb).
  unfold decode in H.
  replace (b <? 128) with false in H by lia.
  destruct ((194 <=? b) && (b <=? 223)) eqn:E2.
  { destruct r as [|b1 r]; [discriminate|]. destruct (cont b1) eqn:Ec; [|discriminate].
    injection H as <- <-. split; [lia|]. split; [reflexivity|]. split.
    - intros Y. cbn [firstn app]. unfold decode. replace (b <? 128) with false by lia. rewrite E2, Ec. reflexivity.
    - split; [reflexivity|]. split; [reflexivity|]. cbn [firstn]. do 2 eexists. split; [reflexivity|exact Hb]. }
  destruct ((224 <=? b) && (b <=? 239)) eqn:E3.
  { destruct r as [|b1 [|b2 r]]; try discriminate.
    destruct ((_ <=? b1) && (b1 <=? _) && cont b2) eqn:Ec; [|discriminate].
    injection H as <- <-. split; [lia|]. split; [reflexivity|]. split.
    - intros Y. cbn [firstn app]. unfold decode. replace (b <? 128) with false by lia. rewrite E2, E3, Ec. reflexivity.
    - split; [reflexivity|]. split; [reflexivity|]. cbn [firstn]. do 2 eexists. split; [reflexivity|exact Hb]. }
  destruct ((240 <=? b) && (b <=? 244)) eqn:E4; [|discriminate].
  destruct r as [|b1 [|b2 [|b3 r]]]; try discriminate.
  destruct ((_ <=? b1) && (b1 <=? _) && cont b2 && cont b3) eqn:Ec; [|discriminate].
  injection H as <- <-. split; [lia|]. split; [reflexivity|]. split.
  - intros Y. cbn [firstn app]. unfold decode. replace (b <? 128) with false by lia. rewrite E2, E3, E4, Ec. reflexivity.
  - split; [reflexivity|]. split; [reflexivity|]. cbn [firstn]. do 2 eexists. split; [reflexivity|exact Hb].
Qed.

(* the two line separators are the only runes the encoder rewrites *)
Lemma decode_2028 s w : bytes_ok s -> decode s = (Some 8232, w) -> w = 3%nat /\ firstn w s = [226; 128; 168].
Proof.
  intros Hok H. destruct s as [|b r]; [discriminate|].
  unfold decode in H.
  destruct (b <? 128) eqn:E1; [injection H as H _; lia|].
  destruct ((194 <=? b) && (b <=? 223)) eqn:E2.
  { destruct r as [|b1 r]; [discriminate|]. destruct (cont b1) eqn:Ec; [|discriminate].
    unfold cont in Ec. injection H as H _. lia. }
  destruct ((224 <=? b) && (b <=? 239)) eqn:E3.
  { destruct r as [|b1 [|b2 r]]; try discriminate.
    destruct ((_ <=? b1) && (b1 <=? _) && cont b2) eqn:Ec; [|discriminate].
    unfold cont in Ec. injection H as H <-. split; [reflexivity|].
    cbn [firstn]. assert (b = 226 /\ b1 = 128 /\ b2 = 168) as (-> & -> & ->); [|reflexivity].
    destruct (b =? 224) eqn:Ea; destruct (b =? 237) eqn:Eb; lia. }
  destruct ((240 <=? b) && (b <=? 244)) eqn:E4; [|discriminate].
  destruct r as [|b1 [|b2 [|b3 r]]]; try discriminate.
  destruct ((_ <=? b1) && (b1 <=? _) && cont b2 && cont b3) eqn:Ec; [|discriminate].
  unfold cont in Ec. injection H as H _.
  destruct (b =? 240) eqn:Ea; destruct (b =? 244) eqn:Eb; lia.
Qed.

Lemma decode_2029 s w : bytes_ok s -> decode s = (Some 8233, w) -> w = 3%nat /\ firstn w s = [226; 128; 169].
Proof.
  intros Hok H. destruct s as [|b r]; [discriminate|].
  unfold decode in H.
  destruct (b <? 128) eqn:E1; [injection H as H _; lia|].
  destruct ((194 <=? b) && (b <=? 223)) eqn:E2.
  { destruct r as [|b1 r]; [discriminate|]. destruct (cont b1) eqn:Ec; [|discriminate].
    unfold cont in Ec. injection H as H _. lia. }
  destruct ((224 <=? b) && (b <=? 239)) eqn:E3.
  { destruct r as [|b1 [|b2 r]]; try discriminate.
    destruct ((_ <=? b1) && (b1 <=? _) && cont b2) eqn:Ec; [|discriminate].
    unfold cont in Ec. injection H as H <-. split; [reflexivity|].
    cbn [firstn]. assert (b = 226 /\ b1 = 128 /\ b2 = 169) as (-> & -> & ->); [|reflexivity].
    destruct (b =? 224) eqn:Ea; destruct (b =? 237) eqn:Eb; lia. }
  destruct ((240 <=? b) && (b <=? 244)) eqn:E4; [|discriminate].
  destruct r as [|b1 [|b2 [|b3 r]]]; try discriminate.
  destruct ((_ <=? b1) && (b1 <=? _) && cont b2 && cont b3) eqn:Ec; [|discriminate].
  unfold cont in Ec. injection H as H _.
  destruct (b =? 240) eqn:Ea; destruct (b =? 244) eqn:Eb; lia.
Qed.

Lemma dec_raw_multi g ch Y c w o t :
  (exists b r, ch = b :: r /\ 128 <= b) -> decode (ch ++ Y) = (Some c, w) ->
  firstn w (ch ++ Y) = ch -> skipn w (ch ++ Y) = Y ->
  dec_body g Y = Some (o, t) -> dec_body (S g) (ch ++ Y) = Some (ch ++ o, t).
Proof.
  intros (b & r & -> & Hb) Hd Hf Hs HY.
  cbn [app dec_body]. cbn [app] in Hd, Hf, Hs.
  replace (b =? 34) with false by lia. replace (b =? 92) with false by lia.
  replace (b <? 32) with false by lia. replace (b <? 128) with false by lia.
  rewrite Hd, Hs, HY, Hf. reflexivity.
Qed.

Lemma dec_u2028 g Y o t : dec_body g Y = Some (o, t) -> dec_body (S g) (u2028 ++ Y) = Some ([226;128;168] ++ o, t).
Proof. intros HY. unfold u2028. cbn. now rewrite HY. Qed.
Lemma dec_u2029 g Y o t : dec_body g Y = Some (o, t) -> dec_body (S g) (u2029 ++ Y) = Some ([226;128;169] ++ o, t).
Proof. intros HY. unfold u2029. cbn. now rewrite HY. Qed.

Lemma bytes_ok_skipn n s : bytes_ok s -> bytes_ok (skipn n s).
Proof.
  unfold bytes_ok. revert s. induction n as [|n IH]; intros s H; [exact H|].
  destruct s as [|b r]; [constructor|]. simpl. apply IH. inversion H; assumption.
Qed.

(* main round trip: any decoder fuel exceeding the encoded length works *)
Theorem enc_dec_body : forall f s rest g,
  (length s <= f)%nat -> valid f s = true -> bytes_ok s ->
  (length (enc_body f s) + 1 <= g)%nat ->
  dec_body g (enc_body f s ++ 34 :: rest) = Some (s, rest).
Proof.
  induction f as [|f IH]; intros s rest g Hlen Hv Hok Hg.
  { destruct s; [|simpl in Hlen; lia]. simpl in *. destruct g; [lia|]. reflexivity. }
  destruct s as [|b r].
  { simpl in *. destruct g; [lia|]. reflexivity. }
  cbn [enc_body valid] in *.
  assert (Hokr : bytes_ok r) by (inversion Hok; assumption).
  destruct (b <? 128) eqn:Eb.
  - (* ASCII *)
    rewrite app_length in Hg. pose proof (esc_ascii_len b).
    destruct g as [|g]; [lia|].
    rewrite <- app_assoc. apply dec_esc_ascii; [lia|].
    apply IH; try assumption; simpl in Hlen; lia.
  - destruct (decode (b :: r)) as [[c|] w] eqn:Ed; [|discriminate].
    assert (Hex : exists b0 r0, b :: r = b0 :: r0 /\ 128 <= b0) by (exists b, r; split; [reflexivity|lia]).
    destruct (decode_multi _ _ _ Ed Hex) as (Hw & Hlf & Hpre & Hsk & Hfi & Hch).
    assert (Hlen' : (length (skipn w (b :: r)) <= f)%nat).
    { rewrite skipn_length. cbn [length] in Hlen |- *. lia. }
    assert (Hok' : bytes_ok (skipn w (b :: r))) by (apply bytes_ok_skipn; assumption).
    destruct (c =? 8232) eqn:E28.
    { apply N.eqb_eq in E28; subst c. destruct (decode_2028 _ _ Hok Ed) as [-> Hf3].
      rewrite app_length in Hg. change (length u2028) with 6%nat in Hg. destruct g as [|g]; [lia|].
      rewrite <- app_assoc.
      erewrite dec_u2028; [|apply IH; try eassumption; try lia].
      rewrite <- Hf3. rewrite firstn_skipn. reflexivity. }
    destruct (c =? 8233) eqn:E29.
    { apply N.eqb_eq in E29; subst c. destruct (decode_2029 _ _ Hok Ed) as [-> Hf3].
      rewrite app_length in Hg. change (length u2029) with 6%nat in Hg. destruct g as [|g]; [lia|].
      rewrite <- app_assoc.
      erewrite dec_u2029; [|apply IH; try eassumption; try lia].
      rewrite <- Hf3. rewrite firstn_skipn. reflexivity. }
    rewrite app_length, Hlf in Hg. destruct g as [|g]; [lia|].
    rewrite <- app_assoc.
    erewrite dec_raw_multi; [| exact Hch | apply Hpre | apply Hfi | apply Hsk | apply IH; try eassumption; try lia].
    rewrite firstn_skipn. reflexivity.
Qed.

Theorem enc_dec_string s rest :
  valid (length s) s = true -> bytes_ok s -> dec_string (enc_string s ++ rest) = Some (s, rest).
Proof.
  intros Hv Hok. unfold enc_string, dec_string. cbn [app].
  rewrite <- app_assoc. cbn [app]. apply enc_dec_body; try assumption; try lia.
  rewrite !app_length. simpl. lia.
Qed.

(* injectivity on valid UTF-8, the form used by the manifest/definition-checksum theorems *)
Corollary enc_string_inj s1 s2 :
  valid (length s1) s1 = true -> valid (length s2) s2 = true -> bytes_ok s1 -> bytes_ok s2 ->
  enc_string s1 = enc_string s2 -> s1 = s2.
Proof.
  intros V1 V2 O1 O2 E.
  pose proof (enc_dec_string s1 [] V1 O1) as H1. pose proof (enc_dec_string s2 [] V2 O2) as H2.
  rewrite E in H1. rewrite H1 in H2. now injection H2.
Qed.

Print Assumptions enc_dec_string.
Print Assumptions enc_string_inj.
