(* Property C17: stage files (src/stage/stage.go: toFileFormat, FromFile, Serialize/ToFile,
   CalculateChecksum; src/artifact/artifact.go tags), over Model/StageFile.v and the definition
   checksum of Model/Index.v.

     C17_roundtrip_value   from_file (to_file_format s) = s                    for nf_stage s
     C17_roundtrip         the same through any YAML codec that round-trips the written value
     trim_space_idem       strings.TrimSpace is idempotent (all byte strings)
     clean_idem            filepath.Clean is idempotent (all byte strings)
     C17_normalise         nf_stage (from_file y) = true for every decoded value y
     C17_load_store_load   from_file (to_file_format (from_file y)) = from_file y
     C17_def_invariant     def_view s1 = def_view s2 -> def_json s1 = def_json s2
     C17_def_perm          def_json does not depend on the order of the artifact lists
     C17_def_injective     def_json determines command, working dir and the sorted blanked lists
     C17_def_checksum      for an injective hash: equal checksum <-> equal def_key

   No axioms; every theorem is followed by Print Assumptions. *)
From Coq Require Import String ZArith NArith List Lia Bool Permutation ZifyBool ZifyN ZifyNat.
From DudV Require Import Base.Bytes Base.JsonStr Base.Json Base.GoPath Model.Fs Model.Cache
  Model.Stage Model.Index Model.StageFile Proofs.JsonStrRT.
From DudV Require Import Proofs.Ownership.
From DudV Require Import Proofs.ManifestRT.
Import ListNotations.
Local Open Scope N_scope.

(* ------------------------------------------------------------------------------------------ *)
(* 0. Small tools                                                                              *)
(* ------------------------------------------------------------------------------------------ *)

Definition keyed (l : list artifact) : list (bytes * artifact) := map (fun a => (a_path a, a)) l.

Lemma map_snd_keyed l : map snd (keyed l) = l.
Proof. unfold keyed. rewrite map_map. cbn [snd]. apply map_id. Qed.

Lemma map_fst_keyed l : map fst (keyed l) = map a_path l.
Proof. unfold keyed. rewrite map_map. reflexivity. Qed.

(* strictly_sorted on artifacts is ManifestRT's ssorted on the keyed list *)
Lemma strictly_sorted_asorted l : strictly_sorted l = asorted (keyed l).
Proof.
  induction l as [|a r IH]; [reflexivity|].
  destruct r as [|b r']; [reflexivity|].
  change (strictly_sorted (a :: b :: r')) with (bltb (a_path a) (a_path b) && strictly_sorted (b :: r')).
  rewrite IH. reflexivity.
Qed.

Lemma strictly_sorted_ssorted l : strictly_sorted l = ssorted (keyed l).
Proof. rewrite strictly_sorted_asorted. apply asorted_ssorted. Qed.

Lemma sort_kv_keyed l : strictly_sorted l = true -> sort_kv (keyed l) = keyed l.
Proof. intros Hs. apply sort_kv_sorted. rewrite <- strictly_sorted_ssorted. exact Hs. Qed.

(* ------------------------------------------------------------------------------------------ *)
(* 1. Round trip                                                                               *)
(* ------------------------------------------------------------------------------------------ *)

Lemma nf_art_spec i a : nf_art i a = true -> clean (a_path a) = a_path a /\ (i = true -> a_skip a = true).
Proof.
  unfold nf_art. intros Hn. apply andb_true_iff in Hn as [H1 H2]. apply beqb_eq in H1.
  split; [exact H1|]. intros ->. exact H2.
Qed.

Lemma nf_stage_spec s : nf_stage s = true ->
  trim_space (s_cmd s) = s_cmd s /\ clean (s_wd s) = s_wd s /\
  forallb (nf_art true) (s_inputs s) = true /\ forallb (nf_art false) (s_outputs s) = true /\
  strictly_sorted (s_inputs s) = true /\ strictly_sorted (s_outputs s) = true.
Proof.
  unfold nf_stage. intros Hn.
  apply andb_true_iff in Hn as [Hn H6]. apply andb_true_iff in Hn as [Hn H5].
  apply andb_true_iff in Hn as [Hn H4]. apply andb_true_iff in Hn as [Hn H3].
  apply andb_true_iff in Hn as [H1 H2]. apply beqb_eq in H1. apply beqb_eq in H2.
  repeat split; assumption.
Qed.

Lemma load_inputs_nf l : forallb (nf_art true) l = true ->
  map (fun kv : bytes * yart =>
         (clean (fst kv), mkArt (y_cs (snd kv)) (clean (fst kv)) (y_isdir (snd kv)) (y_norec (snd kv)) true))
      (map (fun a => (a_path a, mkYArt (a_cs a) (a_isdir a) (a_norec a) false)) l) = keyed l.
Proof.
  intros Hall. rewrite forallb_forall in Hall. unfold keyed. rewrite map_map.
  apply map_ext_in. intros a Hin. cbn [fst snd y_cs y_isdir y_norec].
  destruct (nf_art_spec true a (Hall a Hin)) as [Hc Hs].
  rewrite Hc. destruct a as [cs p d nr sk]. cbn [a_skip a_cs a_path a_isdir a_norec] in *.
  rewrite (Hs eq_refl). reflexivity.
Qed.

Lemma load_outputs_nf l : forallb (nf_art false) l = true ->
  map (fun kv : bytes * yart =>
         (clean (fst kv), mkArt (y_cs (snd kv)) (clean (fst kv)) (y_isdir (snd kv)) (y_norec (snd kv))
                                (y_skip (snd kv))))
      (map (fun a => (a_path a, mkYArt (a_cs a) (a_isdir a) (a_norec a) (a_skip a))) l) = keyed l.
Proof.
  intros Hall. rewrite forallb_forall in Hall. unfold keyed. rewrite map_map.
  apply map_ext_in. intros a Hin. cbn [fst snd y_cs y_isdir y_norec y_skip].
  destruct (nf_art_spec false a (Hall a Hin)) as [Hc _].
  rewrite Hc. destruct a as [cs p d nr sk]. reflexivity.
Qed.

Theorem C17_roundtrip_value s : nf_stage s = true -> from_file (to_file_format s) = s.
Proof.
  intros Hn. destruct (nf_stage_spec s Hn) as (H1 & H2 & H3 & H4 & H5 & H6).
  assert (Ei : s_inputs (from_file (to_file_format s)) = s_inputs s).
  { unfold from_file, to_file_format. cbn [s_inputs ys_inputs].
    etransitivity; [apply (f_equal (map snd)), (f_equal sort_kv), (load_inputs_nf _ H3)|].
    rewrite (sort_kv_keyed _ H5). apply map_snd_keyed. }
  assert (Eo : s_outputs (from_file (to_file_format s)) = s_outputs s).
  { unfold from_file, to_file_format. cbn [s_outputs ys_outputs].
    etransitivity; [apply (f_equal (map snd)), (f_equal sort_kv), (load_outputs_nf _ H4)|].
    rewrite (sort_kv_keyed _ H6). apply map_snd_keyed. }
  assert (Ec : s_cmd (from_file (to_file_format s)) = s_cmd s) by exact H1.
  assert (Ew : s_wd (from_file (to_file_format s)) = s_wd s) by exact H2.
  assert (Es : s_cs (from_file (to_file_format s)) = s_cs s) by reflexivity.
  destruct (from_file (to_file_format s)) as [a b c d e], s as [a' b' c' d' e'].
  cbn [s_cs s_cmd s_wd s_inputs s_outputs] in Ei, Eo, Ec, Ew, Es. congruence.
Qed.
Print Assumptions C17_roundtrip_value.

(* the YAML text layer: any encoder/decoder pair that reads back the value it wrote *)
Theorem C17_roundtrip (yenc : ystage -> bytes) (ydec : bytes -> option ystage) s :
  ydec (yenc (to_file_format s)) = Some (to_file_format s) ->
  nf_stage s = true ->
  option_map from_file (ydec (yenc (to_file_format s))) = Some s.
Proof.
  intros Hrt Hn. rewrite Hrt. cbn [option_map]. rewrite (C17_roundtrip_value s Hn). reflexivity.
Qed.
Print Assumptions C17_roundtrip.

(* ------------------------------------------------------------------------------------------ *)
(* 2a. strings.TrimSpace is idempotent                                                         *)
(* ------------------------------------------------------------------------------------------ *)

Lemma strip_prefix_app q : forall a t x, strip_prefix q a = Some t -> strip_prefix q (a ++ x) = Some (t ++ x).
Proof.
  induction q as [|c q IH]; intros a t x Hs.
  - cbn [strip_prefix] in *. injection Hs as <-. reflexivity.
  - destruct a as [|d a]; [discriminate Hs|]. cbn [strip_prefix app] in *.
    destruct (c =? d); [|discriminate Hs]. apply IH. exact Hs.
Qed.

Lemma strip_one_app seqs : forall a t x, strip_one seqs a = Some t -> exists t', strip_one seqs (a ++ x) = Some t'.
Proof.
  induction seqs as [|q r IH]; intros a t x Hs; [discriminate Hs|].
  cbn [strip_one] in *. destruct (strip_prefix q a) as [u|] eqn:E.
  - rewrite (strip_prefix_app q a u x E). eexists. reflexivity.
  - destruct (strip_prefix q (a ++ x)) as [u|]; [eexists; reflexivity|].
    exact (IH a t x Hs).
Qed.

Lemma strip_prefix_len q : forall a t, strip_prefix q a = Some t -> length a = (length q + length t)%nat.
Proof.
  induction q as [|c q IH]; intros a t Hs.
  - cbn [strip_prefix] in Hs. injection Hs as <-. reflexivity.
  - destruct a as [|d a]; [discriminate Hs|]. cbn [strip_prefix] in Hs.
    destruct (c =? d); [|discriminate Hs]. cbn [length]. rewrite (IH a t Hs). reflexivity.
Qed.

Lemma strip_prefix_suffix q : forall a t, strip_prefix q a = Some t -> exists p, a = p ++ t.
Proof.
  induction q as [|c q IH]; intros a t Hs.
  - cbn [strip_prefix] in Hs. injection Hs as <-. exists []. reflexivity.
  - destruct a as [|d a]; [discriminate Hs|]. cbn [strip_prefix] in Hs.
    destruct (c =? d); [|discriminate Hs]. destruct (IH a t Hs) as [p ->]. exists (d :: p). reflexivity.
Qed.

Definition all_nonempty (seqs : list bytes) : Prop := Forall (fun q => q <> []) seqs.

Lemma strip_one_len seqs : all_nonempty seqs ->
  forall a t, strip_one seqs a = Some t -> (length t < length a)%nat.
Proof.
  induction 1 as [|q r Hq Hr IH]; intros a t Hs; [discriminate Hs|].
  cbn [strip_one] in Hs. destruct (strip_prefix q a) as [u|] eqn:E.
  - injection Hs as <-. pose proof (strip_prefix_len q a u E) as Hl.
    destruct q as [|c q]; [congruence|]. cbn [length] in Hl. lia.
  - exact (IH a t Hs).
Qed.

Lemma strip_one_suffix seqs : forall a t, strip_one seqs a = Some t -> exists p, a = p ++ t.
Proof.
  induction seqs as [|q r IH]; intros a t Hs; [discriminate Hs|].
  cbn [strip_one] in Hs. destruct (strip_prefix q a) as [u|] eqn:E.
  - injection Hs as <-. exact (strip_prefix_suffix q a u E).
  - exact (IH a t Hs).
Qed.

Lemma strip_one_nil seqs : all_nonempty seqs -> strip_one seqs [] = None.
Proof.
  induction 1 as [|q r Hq Hr IH]; [reflexivity|].
  cbn [strip_one]. destruct q as [|c q]; [congruence|]. cbn [strip_prefix]. exact IH.
Qed.

(* with enough fuel the result cannot be stripped further *)
Lemma trim_left_with_done seqs : all_nonempty seqs ->
  forall fuel s, (length s <= fuel)%nat -> strip_one seqs (trim_left_with seqs fuel s) = None.
Proof.
  intros Hne. induction fuel as [|f IH]; intros s Hl.
  - destruct s as [|c s]; [|cbn [length] in Hl; lia]. cbn [trim_left_with]. apply strip_one_nil. exact Hne.
  - cbn [trim_left_with]. destruct (strip_one seqs s) as [t|] eqn:E; [|exact E].
    apply IH. pose proof (strip_one_len seqs Hne s t E). lia.
Qed.

Lemma trim_left_with_suffix seqs : forall fuel s, exists p, s = p ++ trim_left_with seqs fuel s.
Proof.
  induction fuel as [|f IH]; intros s; [exists []; reflexivity|].
  cbn [trim_left_with]. destruct (strip_one seqs s) as [t|] eqn:E; [|exists []; reflexivity].
  destruct (strip_one_suffix seqs s t E) as [p ->]. destruct (IH t) as [p' Hp'].
  exists (p ++ p'). rewrite <- app_assoc. f_equal. exact Hp'.
Qed.

Lemma trim_left_with_fix seqs fuel s : strip_one seqs s = None -> trim_left_with seqs fuel s = s.
Proof. intros Hn. destruct fuel as [|f]; [reflexivity|]. cbn [trim_left_with]. rewrite Hn. reflexivity. Qed.

Lemma space_seqs_nonempty : all_nonempty space_seqs.
Proof. unfold space_seqs. repeat constructor; discriminate. Qed.

Lemma rev_seqs_nonempty : all_nonempty rev_seqs.
Proof. unfold rev_seqs, space_seqs. cbn [map rev app]. repeat constructor; discriminate. Qed.

(* the trimmed string neither starts nor ends with a white-space sequence *)
Lemma trim_space_edges s :
  strip_one space_seqs (trim_space s) = None /\ strip_one rev_seqs (rev (trim_space s)) = None.
Proof.
  unfold trim_space.
  set (l := trim_left_with space_seqs (length s) s).
  set (R := trim_left_with rev_seqs (length l) (rev l)).
  assert (Hl : strip_one space_seqs l = None)
    by (apply trim_left_with_done; [exact space_seqs_nonempty | lia]).
  assert (HR : strip_one rev_seqs R = None)
    by (apply trim_left_with_done; [exact rev_seqs_nonempty | rewrite rev_length; lia]).
  split; [|rewrite rev_involutive; exact HR].
  destruct (trim_left_with_suffix rev_seqs (length l) (rev l)) as [p Hp]. fold R in Hp.
  assert (El : l = rev R ++ rev p).
  { rewrite <- rev_app_distr, <- Hp, rev_involutive. reflexivity. }
  destruct (strip_one space_seqs (rev R)) as [t|] eqn:E; [|reflexivity].
  destruct (strip_one_app space_seqs (rev R) t (rev p) E) as [t' Ht'].
  rewrite <- El, Hl in Ht'. discriminate Ht'.
Qed.

Theorem trim_space_idem s : trim_space (trim_space s) = trim_space s.
Proof.
  destruct (trim_space_edges s) as [H1 H2]. set (u := trim_space s) in *.
  unfold trim_space. rewrite (trim_left_with_fix space_seqs _ u H1).
  rewrite (trim_left_with_fix rev_seqs _ (rev u) H2). apply rev_involutive.
Qed.
Print Assumptions trim_space_idem.

(* ------------------------------------------------------------------------------------------ *)
(* 2b. filepath.Clean is idempotent (every byte string)                                        *)
(* ------------------------------------------------------------------------------------------ *)

(* a component Clean may keep: no slash, not empty, not "." *)
Definition proper (c : bytes) : Prop := noslash c /\ is_empty c || is_dot c = false.
Definition isdd (c : bytes) : Prop := is_dotdot c = true.

Lemma split_aux_noslash_all s : forall cur, ~ In slash cur -> Forall noslash (split_aux s cur).
Proof.
  induction s as [|c s IH]; intros cur Hc.
  - cbn [split_aux]. constructor; [|constructor]. intros Hin. apply Hc. apply in_rev. exact Hin.
  - cbn [split_aux]. destruct (N.eqb_spec c slash) as [E|E].
    + constructor; [intros Hin; apply Hc; apply in_rev; exact Hin|]. apply IH. intros [].
    + apply IH. intros [Hin|Hin]; [apply E; exact Hin | exact (Hc Hin)].
Qed.

Lemma split_noslash s : Forall noslash (split s).
Proof. unfold split. apply split_aux_noslash_all. intros []. Qed.

Lemma isdd_eq c : isdd c -> c = [dot; dot].
Proof.
  unfold isdd. destruct c as [|d1 [|d2 [|d3 c]]]; cbn [is_dotdot]; intros Hd; try discriminate Hd.
  apply andb_true_iff in Hd as [H1 H2]. apply N.eqb_eq in H1. apply N.eqb_eq in H2. subst. reflexivity.
Qed.

Lemma isdd_proper c : isdd c -> proper c.
Proof.
  intros Hd. rewrite (isdd_eq c Hd). split; [|reflexivity].
  intros [H|[H|[]]]; discriminate H.
Qed.

(* the stack of clean_comps (top first): proper components; a ".." only when not rooted and
   only on top of other ".." *)
Fixpoint stk_ok (rooted : bool) (st : list bytes) : Prop :=
  match st with
  | [] => True
  | c :: r => proper c /\ (if is_dotdot c then rooted = false /\ Forall isdd r else stk_ok rooted r)
  end.

Lemma dds_ok rooted r : rooted = false -> Forall isdd r -> stk_ok rooted r.
Proof.
  intros Hr. induction 1 as [|c r Hc Hf IH]; [exact I|].
  cbn [stk_ok]. split; [exact (isdd_proper c Hc)|]. unfold isdd in Hc. rewrite Hc. split; assumption.
Qed.

Lemma stk_ok_tail rooted c r : stk_ok rooted (c :: r) -> stk_ok rooted r.
Proof.
  cbn [stk_ok]. intros [_ H]. destruct (is_dotdot c); [|exact H].
  destruct H as [Hr Hf]. exact (dds_ok rooted r Hr Hf).
Qed.

Lemma stk_ok_suffix rooted x : forall y, stk_ok rooted (x ++ y) -> stk_ok rooted y.
Proof.
  induction x as [|c x IH]; intros y H; [exact H|].
  apply IH. exact (stk_ok_tail rooted c (x ++ y) H).
Qed.

Lemma stk_ok_proper rooted st : stk_ok rooted st -> Forall proper st.
Proof.
  induction st as [|c r IH]; intros H; [constructor|].
  constructor; [exact (proj1 H)|]. apply IH. exact (stk_ok_tail rooted c r H).
Qed.

Lemma clean_comps_ok rooted : forall cs st, Forall noslash cs -> stk_ok rooted st ->
  exists st', clean_comps rooted cs st = rev st' /\ stk_ok rooted st'.
Proof.
  induction cs as [|c cs IH]; intros st Hn Hst.
  - exists st. split; [reflexivity | exact Hst].
  - inversion Hn as [|c0 cs0 Hc Hn']; subst c0 cs0.
    cbn [clean_comps]. destruct (is_empty c || is_dot c) eqn:Eed; [exact (IH st Hn' Hst)|].
    destruct (is_dotdot c) eqn:Edd.
    + destruct st as [|top rest].
      * destruct rooted eqn:Er; [exact (IH [] Hn' I)|].
        apply (IH [c] Hn'). cbn [stk_ok]. rewrite Edd. repeat split; [exact Hc | exact Eed | constructor].
      * destruct (is_dotdot top) eqn:Et.
        -- apply (IH (c :: top :: rest) Hn'). cbn [stk_ok] in Hst |- *. rewrite Et in Hst. rewrite Edd.
           destruct Hst as [Hp [Hr Hf]]. repeat split; [exact Hc | exact Eed | exact Hr |].
           constructor; [exact Et | exact Hf].
        -- apply (IH rest Hn'). exact (stk_ok_tail rooted top rest Hst).
    + apply (IH (c :: st) Hn'). cbn [stk_ok]. rewrite Edd. repeat split; [exact Hc | exact Eed | exact Hst].
Qed.

Lemma clean_comps_push rooted b : forall a st0, stk_ok rooted (rev a ++ st0) ->
  clean_comps rooted (a ++ b) st0 = clean_comps rooted b (rev a ++ st0).
Proof.
  induction a as [|c a IH]; intros st0 Hst; [reflexivity|].
  cbn [rev] in Hst |- *. rewrite <- app_assoc in Hst |- *. cbn [app] in Hst |- *.
  rewrite <- (IH (c :: st0) Hst).
  pose proof (stk_ok_suffix rooted (rev a) (c :: st0) Hst) as Hc.
  cbn [stk_ok] in Hc. destruct Hc as [[_ Hed] Hdd].
  cbn [clean_comps]. rewrite Hed. destruct (is_dotdot c) eqn:Edd; [|reflexivity].
  destruct Hdd as [Hr Hf]. subst rooted.
  destruct st0 as [|top rest]; [reflexivity|].
  inversion Hf as [|t0 r0 Ht Hf']; subst t0 r0. unfold isdd in Ht. rewrite Ht. reflexivity.
Qed.

Lemma clean_comps_fix rooted st : stk_ok rooted st -> clean_comps rooted (rev st) [] = rev st.
Proof.
  intros Hst. rewrite <- (app_nil_r (rev st)) at 1.
  rewrite clean_comps_push; rewrite rev_involutive, app_nil_r; [reflexivity | exact Hst].
Qed.

Lemma proper_head c : proper c -> exists y t, c = y :: t /\ (y =? slash) = false.
Proof.
  intros [Hn He]. destruct c as [|y t]; [discriminate He|].
  exists y, t. split; [reflexivity|]. exact (eqb_slash_false y t Hn).
Qed.

Lemma join_proper_head cs : cs <> [] -> Forall proper cs ->
  exists y t, join_comps cs = y :: t /\ (y =? slash) = false.
Proof.
  intros Hne Hf. destruct cs as [|c cs]; [congruence|].
  inversion Hf as [|c0 cs0 Hc _]; subst c0 cs0.
  destruct (proper_head c Hc) as (y & t & -> & Hy).
  destruct (join_head y t cs) as (t' & Ht'). exists y, t'. split; assumption.
Qed.

Lemma Forall_proper_noslash cs : Forall proper cs -> Forall noslash cs.
Proof. intros Hf. eapply Forall_impl; [|exact Hf]. intros c [Hn _]. exact Hn. Qed.

Lemma split_slash r : split (slash :: r) = [] :: split r.
Proof. reflexivity. Qed.

(* the two shapes of a cleaned path are fixed points of clean *)
Lemma clean_fix_abs st : stk_ok true st -> clean (slash :: join_comps (rev st)) = slash :: join_comps (rev st).
Proof.
  intros Hst. unfold clean. cbn [is_abs]. rewrite N.eqb_refl. f_equal.
  rewrite split_slash. cbn [clean_comps is_empty orb].
  destruct (rev st) as [|c cs] eqn:Er; [reflexivity|].
  rewrite split_join_noslash.
  - rewrite <- Er. rewrite (clean_comps_fix true st Hst). reflexivity.
  - discriminate.
  - apply Forall_proper_noslash. rewrite <- Er. apply Forall_rev. exact (stk_ok_proper true st Hst).
Qed.

Lemma clean_fix_rel st : stk_ok false st -> rev st <> [] -> clean (join_comps (rev st)) = join_comps (rev st).
Proof.
  intros Hst Hne.
  assert (Hp : Forall proper (rev st)) by (apply Forall_rev; exact (stk_ok_proper false st Hst)).
  destruct (join_proper_head (rev st) Hne Hp) as (y & t & Hj & Hy).
  rewrite clean_rel.
  - rewrite split_join_noslash; [|exact Hne | exact (Forall_proper_noslash _ Hp)].
    rewrite (clean_comps_fix false st Hst). rewrite Hj. reflexivity.
  - rewrite Hj. discriminate.
  - rewrite Hj. cbn [is_abs]. exact Hy.
Qed.

Theorem clean_idem s : clean (clean s) = clean s.
Proof.
  destruct s as [|x s]; [reflexivity|].
  destruct (clean_comps_ok (is_abs (x :: s)) (split (x :: s)) [] (split_noslash (x :: s)) I) as (st & Est & Hst).
  destruct (is_abs (x :: s)) eqn:Eabs.
  - assert (E : clean (x :: s) = slash :: join_comps (rev st)).
    { unfold clean. rewrite Eabs. f_equal. f_equal. exact Est. }
    rewrite E. exact (clean_fix_abs st Hst).
  - assert (E : clean (x :: s) = match join_comps (rev st) with [] => [dot] | o => o end).
    { rewrite clean_rel; [|discriminate | exact Eabs].
      replace (clean_comps false (split (x :: s)) []) with (rev st) by (symmetry; exact Est). reflexivity. }
    rewrite E. destruct (rev st) as [|c cs] eqn:Er; [reflexivity|].
    assert (Hne : rev st <> []) by (rewrite Er; discriminate).
    assert (Hp : Forall proper (rev st)) by (apply Forall_rev; exact (stk_ok_proper false st Hst)).
    destruct (join_proper_head (rev st) Hne Hp) as (y & t & Hj & Hy).
    rewrite <- Er. rewrite Hj, <- Hj. exact (clean_fix_rel st Hst Hne).
Qed.
Print Assumptions clean_idem.

(* ------------------------------------------------------------------------------------------ *)
(* 2c. Every loaded stage is in normal form                                                    *)
(* ------------------------------------------------------------------------------------------ *)

Lemma keyed_map_snd (L : list (bytes * artifact)) :
  (forall kv, In kv L -> fst kv = a_path (snd kv)) -> keyed (map snd L) = L.
Proof.
  intros HL. unfold keyed. rewrite map_map. rewrite <- (map_id L) at 2.
  apply map_ext_in. intros kv Hin. rewrite <- (HL kv Hin). destruct kv; reflexivity.
Qed.

(* the artifact list FromFile builds from a decoded map, for any way of filling the other fields *)
Lemma loaded_ok (i : bool) (f1 : bytes * yart -> bytes) (f2 f3 f4 : bytes * yart -> bool)
      (l : list (bytes * yart)) :
  (i = true -> forall kv, f4 kv = true) ->
  forallb (nf_art i) (map snd (sort_kv (map (fun kv => (clean (fst kv),
             mkArt (f1 kv) (clean (fst kv)) (f2 kv) (f3 kv) (f4 kv))) l))) = true /\
  strictly_sorted (map snd (sort_kv (map (fun kv => (clean (fst kv),
             mkArt (f1 kv) (clean (fst kv)) (f2 kv) (f3 kv) (f4 kv))) l))) = true.
Proof.
  intros Hi.
  set (g := fun kv : bytes * yart => (clean (fst kv), mkArt (f1 kv) (clean (fst kv)) (f2 kv) (f3 kv) (f4 kv))).
  set (L := sort_kv (map g l)).
  assert (HL : forall kv, In kv L -> exists x, kv = g x).
  { intros kv Hin. apply sort_kv_in in Hin. apply in_map_iff in Hin as (x & <- & _). exists x. reflexivity. }
  split.
  - apply forallb_forall. intros a Ha. apply in_map_iff in Ha as (kv & <- & Hin).
    destruct (HL kv Hin) as [x ->]. unfold g, nf_art. cbn [snd a_path a_skip].
    rewrite clean_idem, beqb_refl. cbn [andb]. destruct i; [|reflexivity]. exact (Hi eq_refl x).
  - rewrite strictly_sorted_ssorted. rewrite keyed_map_snd.
    + apply sort_kv_ssorted.
    + intros kv Hin. destruct (HL kv Hin) as [x ->]. reflexivity.
Qed.

Theorem C17_normalise y : nf_stage (from_file y) = true.
Proof.
  unfold nf_stage, from_file. cbn [s_cmd s_wd s_inputs s_outputs].
  rewrite trim_space_idem, clean_idem, !beqb_refl. cbn [andb].
  destruct (loaded_ok true (fun kv => y_cs (snd kv)) (fun kv => y_isdir (snd kv))
                      (fun kv => y_norec (snd kv)) (fun _ => true) (ys_inputs y) (fun _ _ => eq_refl)) as [A1 A2].
  destruct (loaded_ok false (fun kv => y_cs (snd kv)) (fun kv => y_isdir (snd kv))
                      (fun kv => y_norec (snd kv)) (fun kv => y_skip (snd kv)) (ys_outputs y)) as [B1 B2];
    [intros Hf; discriminate Hf|].
  repeat (apply andb_true_iff; split); assumption.
Qed.
Print Assumptions C17_normalise.

(* the separate readings of the normal form *)
Corollary C17_normalise_fields y :
  trim_space (s_cmd (from_file y)) = s_cmd (from_file y) /\
  clean (s_wd (from_file y)) = s_wd (from_file y) /\
  (forall a, In a (s_inputs (from_file y)) -> clean (a_path a) = a_path a /\ a_skip a = true) /\
  (forall a, In a (s_outputs (from_file y)) -> clean (a_path a) = a_path a) /\
  strictly_sorted (s_inputs (from_file y)) = true /\ NoDup (map a_path (s_inputs (from_file y))) /\
  strictly_sorted (s_outputs (from_file y)) = true /\ NoDup (map a_path (s_outputs (from_file y))).
Proof.
  destruct (nf_stage_spec _ (C17_normalise y)) as (H1 & H2 & H3 & H4 & H5 & H6).
  rewrite forallb_forall in H3, H4.
  assert (Hnd : forall l, strictly_sorted l = true -> NoDup (map a_path l)).
  { intros l Hs. rewrite strictly_sorted_ssorted in Hs. rewrite <- map_fst_keyed.
    generalize (keyed l) Hs. clear. intros L. induction L as [|kv r IH]; intros Hs; [constructor|].
    cbn [ssorted] in Hs. apply andb_true_iff in Hs as [Hg Hr]. cbn [map]. constructor; [|exact (IH Hr)].
    intros Hin. apply in_map_iff in Hin as (kv' & E & Hin).
    unfold keys_gt in Hg. rewrite forallb_forall in Hg. pose proof (Hg kv' Hin) as Hlt.
    rewrite E, bltb_irrefl in Hlt. discriminate Hlt. }
  split; [exact H1|]. split; [exact H2|].
  split; [intros a Ha; destruct (nf_art_spec true a (H3 a Ha)) as [Hc Hs]; split; [exact Hc | exact (Hs eq_refl)]|].
  split; [intros a Ha; exact (proj1 (nf_art_spec false a (H4 a Ha)))|].
  split; [exact H5|]. split; [exact (Hnd _ H5)|]. split; [exact H6 | exact (Hnd _ H6)].
Qed.
Print Assumptions C17_normalise_fields.

(* load, store, load again: nothing changes any more *)
Theorem C17_load_store_load y : from_file (to_file_format (from_file y)) = from_file y.
Proof. apply C17_roundtrip_value. apply C17_normalise. Qed.
Print Assumptions C17_load_store_load.

Theorem C17_roundtrip_loaded (yenc : ystage -> bytes) (ydec : bytes -> option ystage) y :
  (forall v, ydec (yenc v) = Some v) ->
  option_map from_file (ydec (yenc (to_file_format (from_file y)))) = Some (from_file y).
Proof. intros Hrt. apply C17_roundtrip; [apply Hrt | apply C17_normalise]. Qed.
Print Assumptions C17_roundtrip_loaded.

(* ------------------------------------------------------------------------------------------ *)
(* 3. The definition JSON ignores checksums and list order                                     *)
(* ------------------------------------------------------------------------------------------ *)

Definition blank (a : artifact) : artifact := set_cs a [].
Definition akv (arts : list artifact) : list (bytes * artifact) :=
  map (fun a => (a_path a, set_cs a [])) arts.

(* what def_json really depends on: command, working dir, and the two artifact maps with
   blanked checksums in canonical (sorted) form *)
Definition def_key (s : stage) : bytes * bytes * list (bytes * artifact) * list (bytes * artifact) :=
  (s_cmd s, s_wd s, sort_kv (akv (s_inputs s)), sort_kv (akv (s_outputs s))).

Lemma akv_keyed arts : akv arts = keyed (map blank arts).
Proof. unfold akv, keyed, blank. rewrite map_map. reflexivity. Qed.

Lemma arts_json_akv arts :
  arts_json arts = jobj (map (fun kv => (fst kv, enc_artifact (snd kv))) (sort_kv (akv arts))).
Proof. reflexivity. Qed.

Lemma def_json_unf s :
  def_json s = jobj [(s_Checksum, jstr []); (s_Command, jstr (s_cmd s)); (s_WorkingDir, jstr (s_wd s));
                     (s_Inputs, arts_json (s_inputs s)); (s_Outputs, arts_json (s_outputs s))] ++ [10].
Proof. reflexivity. Qed.

Lemma def_json_key s1 s2 : def_key s1 = def_key s2 -> def_json s1 = def_json s2.
Proof.
  unfold def_key. intros E. injection E as Ec Ew Ei Eo.
  rewrite !def_json_unf, !arts_json_akv, Ec, Ew, Ei, Eo. reflexivity.
Qed.

Lemma def_view_key s1 s2 : def_view s1 = def_view s2 -> def_key s1 = def_key s2.
Proof.
  unfold def_view, def_key. intros E. injection E as Ec Ew Ei Eo.
  rewrite !akv_keyed. unfold blank. rewrite Ec, Ew, Ei, Eo. reflexivity.
Qed.

Theorem C17_def_invariant s1 s2 : def_view s1 = def_view s2 -> def_json s1 = def_json s2.
Proof. intros E. apply def_json_key, def_view_key. exact E. Qed.
Print Assumptions C17_def_invariant.

(* in particular: the stage checksum and the artifact checksums do not matter *)
Corollary C17_def_ignores_checksums s cs (fi fo : artifact -> bytes) :
  def_json (mkStage cs (s_cmd s) (s_wd s)
                    (map (fun a => set_cs a (fi a)) (s_inputs s))
                    (map (fun a => set_cs a (fo a)) (s_outputs s))) = def_json s.
Proof.
  apply C17_def_invariant. unfold def_view. cbn [s_cmd s_wd s_inputs s_outputs].
  rewrite !map_map. reflexivity.
Qed.
Print Assumptions C17_def_ignores_checksums.

Lemma sort_akv_perm l1 l2 :
  NoDup (map a_path l1) -> Permutation (map blank l1) (map blank l2) -> sort_kv (akv l1) = sort_kv (akv l2).
Proof.
  intros Hnd HP. rewrite !akv_keyed. apply sort_kv_perm_eq.
  - rewrite map_fst_keyed, map_map. exact Hnd.
  - unfold keyed. apply Permutation_map. exact HP.
Qed.

(* map ordering: lists that are permutations of each other (distinct paths) give the same JSON *)
Theorem C17_def_perm s1 s2 :
  s_cmd s1 = s_cmd s2 -> s_wd s1 = s_wd s2 ->
  NoDup (map a_path (s_inputs s1)) -> NoDup (map a_path (s_outputs s1)) ->
  Permutation (map blank (s_inputs s1)) (map blank (s_inputs s2)) ->
  Permutation (map blank (s_outputs s1)) (map blank (s_outputs s2)) ->
  def_json s1 = def_json s2.
Proof.
  intros Ec Ew Ni No Pi Po. apply def_json_key. unfold def_key.
  rewrite Ec, Ew, (sort_akv_perm _ _ Ni Pi), (sort_akv_perm _ _ No Po). reflexivity.
Qed.
Print Assumptions C17_def_perm.

(* ------------------------------------------------------------------------------------------ *)
(* 4. The definition JSON determines the definition                                            *)
(* ------------------------------------------------------------------------------------------ *)

Definition art_jv (a : artifact) : jv := JObj (parsed (art_fields a)).
Definition arts_flds (arts : list artifact) : list fld :=
  child_flds enc_artifact art_jv (sort_kv (akv arts)).

Definition stage_flds (s : stage) : list fld :=
  [(s_Checksum, jstr [], JStr []);
   (s_Command, jstr (s_cmd s), JStr (s_cmd s));
   (s_WorkingDir, jstr (s_wd s), JStr (s_wd s));
   (s_Inputs, jobj (printed (arts_flds (s_inputs s))), JObj (parsed (arts_flds (s_inputs s))));
   (s_Outputs, jobj (printed (arts_flds (s_outputs s))), JObj (parsed (arts_flds (s_outputs s))))].

Lemma def_json_flds s : def_json s = jobj (printed (stage_flds s)) ++ [10].
Proof.
  rewrite def_json_unf, !arts_json_akv. cbn [stage_flds printed map fk fb fst snd].
  unfold arts_flds. rewrite !child_flds_printed. reflexivity.
Qed.

(* valid UTF-8 in every string the JSON carries *)
Definition ok_arts (arts : list artifact) : Prop := Forall (fun a => okstr (a_path a)) arts.
Definition ok_stage (s : stage) : Prop :=
  okstr (s_cmd s) /\ okstr (s_wd s) /\ ok_arts (s_inputs s) /\ ok_arts (s_outputs s).

Lemma ok_nil : okstr []. Proof. apply ok_lit. reflexivity. Qed.
Lemma ok_s_Checksum : okstr s_Checksum. Proof. apply ok_lit. vm_compute. reflexivity. Qed.
Lemma ok_s_Command : okstr s_Command. Proof. apply ok_lit. vm_compute. reflexivity. Qed.
Lemma ok_s_WorkingDir : okstr s_WorkingDir. Proof. apply ok_lit. vm_compute. reflexivity. Qed.
Lemma ok_s_Inputs : okstr s_Inputs. Proof. apply ok_lit. vm_compute. reflexivity. Qed.
Lemma ok_s_Outputs : okstr s_Outputs. Proof. apply ok_lit. vm_compute. reflexivity. Qed.

Lemma arts_flds_ok arts : ok_arts arts -> Forall (fld_ok 7) (arts_flds arts).
Proof.
  intros Hok. unfold ok_arts in Hok. rewrite Forall_forall in Hok.
  unfold arts_flds, child_flds. apply Forall_forall. intros t Ht.
  apply in_map_iff in Ht as (kv & <- & Hin). apply sort_kv_in in Hin.
  unfold akv in Hin. apply in_map_iff in Hin as (a & <- & Ha).
  split; cbn [fk fb fv fst snd].
  - exact (Hok a Ha).
  - apply parses_artifact; [exact ok_nil | exact (Hok a Ha)].
Qed.

Definition fuel_of (s : stage) : nat :=
  (length (arts_flds (s_inputs s)) + length (arts_flds (s_outputs s)) + 14)%nat.

Lemma stage_parses s : ok_stage s ->
  parses (jobj (printed (stage_flds s))) (JObj (parsed (stage_flds s))) (fuel_of s).
Proof.
  intros (Hc & Hw & Hi & Ho).
  set (n := (length (arts_flds (s_inputs s)) + length (arts_flds (s_outputs s)) + 8)%nat).
  apply (parses_mono _ _ (length (stage_flds s) + n + 1)); [unfold fuel_of, n; cbn [stage_flds length]; lia|].
  apply parses_jobj. unfold stage_flds.
  constructor; [|constructor; [|constructor; [|constructor; [|constructor; [|constructor]]]]];
    (split; cbn [fk fb fv fst snd]).
  - exact ok_s_Checksum.
  - apply (parses_mono _ _ 1); [unfold n; lia|]. apply parses_str. exact ok_nil.
  - exact ok_s_Command.
  - apply (parses_mono _ _ 1); [unfold n; lia|]. apply parses_str. exact Hc.
  - exact ok_s_WorkingDir.
  - apply (parses_mono _ _ 1); [unfold n; lia|]. apply parses_str. exact Hw.
  - exact ok_s_Inputs.
  - apply (parses_mono _ _ (length (arts_flds (s_inputs s)) + 7 + 1)); [unfold n; lia|].
    apply parses_jobj. exact (arts_flds_ok _ Hi).
  - exact ok_s_Outputs.
  - apply (parses_mono _ _ (length (arts_flds (s_outputs s)) + 7 + 1)); [unfold n; lia|].
    apply parses_jobj. exact (arts_flds_ok _ Ho).
Qed.

(* the fuel parse_json gives itself is enough: Go's decoder reads the document back *)
Lemma stage_len s : (fuel_of s <= 2 * length (def_json s) + 2)%nat.
Proof.
  rewrite def_json_flds, app_length, jobj_printed. cbn [stage_flds map join_with]. unfold pr.
  cbn [fk fb fst snd]. rewrite !app_length.
  pose proof (jobj_len (arts_flds (s_inputs s))) as Hi.
  pose proof (jobj_len (arts_flds (s_outputs s))) as Ho.
  unfold fuel_of. cbn [length]. lia.
Qed.

Theorem parse_def_json s : ok_stage s -> parse_json (def_json s) = Some (JObj (parsed (stage_flds s))).
Proof.
  intros Hok. unfold parse_json. pose proof (stage_len s) as Hl. rewrite def_json_flds in Hl |- *.
  rewrite (stage_parses s Hok _ [10] Hl). reflexivity.
Qed.
Print Assumptions parse_def_json.

Lemma art_jv_inj a b : art_jv a = art_jv b -> a = b.
Proof.
  intros E. pose proof (dec_child_new a) as Da. pose proof (dec_child_new b) as Db.
  unfold art_jv in E. rewrite E in Da. rewrite Da in Db. injection Db as Db. exact Db.
Qed.

Lemma child_flds_parsed_inj e : forall L1 L2,
  parsed (child_flds e art_jv L1) = parsed (child_flds e art_jv L2) -> L1 = L2.
Proof.
  induction L1 as [|[k1 a1] r1 IH]; intros [|[k2 a2] r2] E; try reflexivity; try discriminate E.
  cbn [child_flds parsed map fk fv fst snd] in E. injection E as Ek Ea Er.
  assert (Ea' : a1 = a2) by (apply art_jv_inj; unfold art_jv; f_equal; exact Ea).
  subst k2 a2. f_equal. apply IH. exact Er.
Qed.

Theorem C17_def_injective s1 s2 :
  ok_stage s1 -> ok_stage s2 -> def_json s1 = def_json s2 ->
  s_cmd s1 = s_cmd s2 /\ s_wd s1 = s_wd s2 /\
  sort_kv (akv (s_inputs s1)) = sort_kv (akv (s_inputs s2)) /\
  sort_kv (akv (s_outputs s1)) = sort_kv (akv (s_outputs s2)).
Proof.
  intros H1 H2 E.
  pose proof (parse_def_json s1 H1) as P1. pose proof (parse_def_json s2 H2) as P2.
  rewrite E, P2 in P1.
  injection P1 as Ec Ew Ei Eo.
  split; [symmetry; exact Ec|]. split; [symmetry; exact Ew|].
  split; symmetry; [exact (child_flds_parsed_inj _ _ _ Ei) | exact (child_flds_parsed_inj _ _ _ Eo)].
Qed.
Print Assumptions C17_def_injective.

Lemma sort_akv_perm_inv l1 l2 :
  NoDup (map a_path l1) -> NoDup (map a_path l2) ->
  sort_kv (akv l1) = sort_kv (akv l2) -> Permutation (map blank l1) (map blank l2).
Proof.
  intros N1 N2 E. rewrite !akv_keyed in E.
  assert (K : forall l, NoDup (map a_path l) -> Permutation (sort_kv (keyed (map blank l))) (keyed (map blank l))).
  { intros l Hn. apply sort_kv_perm. rewrite map_fst_keyed, map_map. exact Hn. }
  pose proof (K l1 N1) as P1. pose proof (K l2 N2) as P2. rewrite E in P1.
  rewrite <- (map_snd_keyed (map blank l1)), <- (map_snd_keyed (map blank l2)).
  apply Permutation_map. apply (Permutation_trans (Permutation_sym P1) P2).
Qed.

(* with distinct paths: the JSON determines def_view up to the order of the two lists *)
Theorem C17_def_injective_view s1 s2 :
  ok_stage s1 -> ok_stage s2 ->
  NoDup (map a_path (s_inputs s1)) -> NoDup (map a_path (s_inputs s2)) ->
  NoDup (map a_path (s_outputs s1)) -> NoDup (map a_path (s_outputs s2)) ->
  def_json s1 = def_json s2 ->
  s_cmd s1 = s_cmd s2 /\ s_wd s1 = s_wd s2 /\
  Permutation (map blank (s_inputs s1)) (map blank (s_inputs s2)) /\
  Permutation (map blank (s_outputs s1)) (map blank (s_outputs s2)).
Proof.
  intros H1 H2 Ni1 Ni2 No1 No2 E.
  destruct (C17_def_injective s1 s2 H1 H2 E) as (Ec & Ew & Ei & Eo).
  split; [exact Ec|]. split; [exact Ew|].
  split; [exact (sort_akv_perm_inv _ _ Ni1 Ni2 Ei) | exact (sort_akv_perm_inv _ _ No1 No2 Eo)].
Qed.
Print Assumptions C17_def_injective_view.

Lemma strictly_sorted_blank l : strictly_sorted (map blank l) = strictly_sorted l.
Proof.
  induction l as [|a r IH]; [reflexivity|]. destruct r as [|b r']; [reflexivity|].
  change (strictly_sorted (map blank (a :: b :: r')))
    with (bltb (a_path (blank a)) (a_path (blank b)) && strictly_sorted (map blank (b :: r'))).
  rewrite IH. reflexivity.
Qed.

(* for stages in normal form (sorted lists) the JSON determines def_view itself *)
Theorem C17_def_injective_nf s1 s2 :
  ok_stage s1 -> ok_stage s2 ->
  strictly_sorted (s_inputs s1) = true -> strictly_sorted (s_inputs s2) = true ->
  strictly_sorted (s_outputs s1) = true -> strictly_sorted (s_outputs s2) = true ->
  (def_json s1 = def_json s2 <-> def_view s1 = def_view s2).
Proof.
  intros H1 H2 Si1 Si2 So1 So2. split; [|apply C17_def_invariant].
  intros E. destruct (C17_def_injective s1 s2 H1 H2 E) as (Ec & Ew & Ei & Eo).
  assert (K : forall l, strictly_sorted l = true -> sort_kv (akv l) = keyed (map blank l)).
  { intros l Hs. rewrite akv_keyed. apply sort_kv_keyed. rewrite strictly_sorted_blank. exact Hs. }
  rewrite (K _ Si1), (K _ Si2) in Ei. rewrite (K _ So1), (K _ So2) in Eo.
  apply (f_equal (map snd)) in Ei. apply (f_equal (map snd)) in Eo. rewrite !map_snd_keyed in Ei, Eo.
  unfold def_view. unfold blank in Ei, Eo. rewrite Ec, Ew, Ei, Eo. reflexivity.
Qed.
Print Assumptions C17_def_injective_nf.

Theorem C17_def_json_iff s1 s2 :
  ok_stage s1 -> ok_stage s2 -> (def_json s1 = def_json s2 <-> def_key s1 = def_key s2).
Proof.
  intros H1 H2. split; [|apply def_json_key].
  intros E. destruct (C17_def_injective s1 s2 H1 H2 E) as (Ec & Ew & Ei & Eo).
  unfold def_key. rewrite Ec, Ew, Ei, Eo. reflexivity.
Qed.
Print Assumptions C17_def_json_iff.

Theorem C17_def_checksum (H : bytes -> bytes) s1 s2 :
  (forall a b, H a = H b -> a = b) -> ok_stage s1 -> ok_stage s2 ->
  (def_checksum H s1 = def_checksum H s2 <-> def_key s1 = def_key s2).
Proof.
  intros Hinj H1 H2. unfold def_checksum. rewrite <- (C17_def_json_iff s1 s2 H1 H2).
  split; [apply Hinj | intros ->; reflexivity].
Qed.
Print Assumptions C17_def_checksum.

(* "changes whenever the command, working directory, or the set, paths or flags change" *)
Corollary C17_def_checksum_changes (H : bytes -> bytes) s1 s2 :
  (forall a b, H a = H b -> a = b) -> ok_stage s1 -> ok_stage s2 ->
  (s_cmd s1 <> s_cmd s2 \/ s_wd s1 <> s_wd s2 \/
   sort_kv (akv (s_inputs s1)) <> sort_kv (akv (s_inputs s2)) \/
   sort_kv (akv (s_outputs s1)) <> sort_kv (akv (s_outputs s2))) ->
  def_checksum H s1 <> def_checksum H s2.
Proof.
  intros Hinj H1 H2 Hd E. apply (C17_def_checksum H s1 s2 Hinj H1 H2) in E.
  unfold def_key in E. injection E as Ec Ew Ei Eo.
  destruct Hd as [Hd|[Hd|[Hd|Hd]]]; apply Hd; assumption.
Qed.
Print Assumptions C17_def_checksum_changes.

(* ------------------------------------------------------------------------------------------ *)
(* 5. Concrete instances, by computation                                                       *)
(* ------------------------------------------------------------------------------------------ *)

(* a decoded stage file: multi-line command with blanks (space, NBSP, newline / space, tab,
   newline) around it, a working dir and paths that are not Clean, two spellings of one output *)
Definition ex_cmd : bytes :=
  [32; 194; 160; 10] ++ of_string "echo a" ++ [10] ++ of_string "echo b" ++ [32; 9; 10].
Definition ex_y : ystage :=
  mkYStage (of_string "abc") ex_cmd (of_string "sub/../x/")
    [(of_string "./in.txt", mkYArt (of_string "c1") false false false)]
    [(of_string "out//dir/", mkYArt (of_string "c2") true true false);
     (of_string "a/./b", mkYArt [] false false true);
     (of_string "out/dir", mkYArt (of_string "c3") true false false)].

Definition ex_s : stage :=
  mkStage (of_string "abc") (of_string "echo a" ++ [10] ++ of_string "echo b") (of_string "x")
    [mkArt (of_string "c1") (of_string "in.txt") false false true]
    [mkArt [] (of_string "a/b") false false true;
     mkArt (of_string "c3") (of_string "out/dir") true false false].

(* loading normalises: command trimmed, paths cleaned, input skip-cache, outputs re-keyed by the
   cleaned path (the later spelling of out/dir wins) and sorted *)
Example ex_load : from_file ex_y = ex_s.
Proof. vm_compute. reflexivity. Qed.

Example ex_nf : nf_stage ex_s = true.
Proof. vm_compute. reflexivity. Qed.

Example ex_file_format : to_file_format ex_s =
  mkYStage (of_string "abc") (of_string "echo a" ++ [10] ++ of_string "echo b") (of_string "x")
    [(of_string "in.txt", mkYArt (of_string "c1") false false false)]
    [(of_string "a/b", mkYArt [] false false true);
     (of_string "out/dir", mkYArt (of_string "c3") true false false)].
Proof. vm_compute. reflexivity. Qed.

Example ex_roundtrip : from_file (to_file_format (from_file ex_y)) = from_file ex_y.
Proof. vm_compute. reflexivity. Qed.

(* the document whose hash is the definition checksum: no checksums in it *)
Example ex_def_json : def_json (from_file ex_y) =
  of_string "{""Checksum"":"""",""Command"":""echo a\necho b"",""WorkingDir"":""x"",""Inputs"":{""in.txt"":{""path"":""in.txt"",""skip-cache"":true}},""Outputs"":{""a/b"":{""path"":""a/b"",""skip-cache"":true},""out/dir"":{""path"":""out/dir"",""is-dir"":true}}}"
  ++ [10].
Proof. vm_compute. reflexivity. Qed.

Example ex_parse : parse_json (def_json ex_s) = Some (JObj (parsed (stage_flds ex_s))).
Proof. vm_compute. reflexivity. Qed.

(* reordering the outputs and changing every checksum leaves the JSON alone; changing a flag
   does not *)
Example ex_def_same :
  def_json (mkStage [] (s_cmd ex_s) (s_wd ex_s) (s_inputs ex_s)
                    [mkArt (of_string "zz") (of_string "out/dir") true false false;
                     mkArt (of_string "yy") (of_string "a/b") false false true]) = def_json ex_s.
Proof. vm_compute. reflexivity. Qed.

Example ex_def_differs :
  beqb (def_json (mkStage [] (s_cmd ex_s) (s_wd ex_s) (s_inputs ex_s)
                    [mkArt [] (of_string "a/b") false false true;
                     mkArt [] (of_string "out/dir") true true false])) (def_json ex_s) = false.
Proof. vm_compute. reflexivity. Qed.

(* why the hypotheses are there.  Invalid UTF-8 is written as U+FFFD, so without ok_stage two
   different commands can share a definition JSON; with a duplicated path the later entry wins,
   so without NoDup the order of a list does matter. *)
Example ex_invalid_utf8_collides :
  def_json (mkStage [] [255] [46] [] []) = def_json (mkStage [] [254] [46] [] []).
Proof. vm_compute. reflexivity. Qed.

Example ex_duplicate_path_order_matters :
  beqb (def_json (mkStage [] [] [46] [] [mkArt [] [97] true false false; mkArt [] [97] false false false]))
       (def_json (mkStage [] [] [46] [] [mkArt [] [97] false false false; mkArt [] [97] true false false]))
  = false.
Proof. vm_compute. reflexivity. Qed.
