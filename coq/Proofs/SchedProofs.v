(* C13, flat level: invariant, termination, progress, join, token bounds, result. *)
From Coq Require Import Lia Arith Bool List.
From DudV Require Import Model.Sched.
Import ListNotations.

Section flat_proofs.
  Context (N D S : nat) (v : variant).

  Notation step := (step N D S v).
  Notation steps := (steps N D S v).
  Notation init := (init N v).
  Notation reachable := (reachable N D S v).
  Notation Inv := (Inv N D S v).
  Notation measure := (measure N).

  Lemma sc_on_collector : sc_on v = true -> has_collector v = true.
  Proof. destruct v as [| |[|]]; simpl; intros H; congruence. Qed.

  Lemma final_dec c : {final c} + {~ final c}.
  Proof.
    unfold final.
    destruct (fd_done c); [|right; intros (H & _); discriminate H].
    destruct (col_done c); [|right; intros (_ & H & _); discriminate H].
    destruct (sp_done c); [|right; intros (_ & _ & H & _); discriminate H].
    destruct (Nat.eq_dec (workers c) 0) as [H|H]; [left; auto|right; intros (_ & _ & _ & H'); auto].
  Qed.

  Lemma inv_init : Inv init.
  Proof.
    split; unfold workers, wlive; simpl; try lia; try discriminate; try congruence; auto.
    - intros H1 H2. rewrite H2 in H1. discriminate.
    - intros H. rewrite H. auto.
  Qed.

  Ltac use_hyps :=
    repeat match goal with
    | H : ?x = ?b -> _ , H' : ?x = ?b |- _ => specialize (H H')
    | H : ?x = ?x -> _ |- _ => specialize (H eq_refl)
    | H : Some _ <> None -> _ |- _ => specialize (H ltac:(discriminate))
    | H : _ /\ _ |- _ => destruct H
    end.

  Ltac split_hyps :=
    repeat match goal with
    | H : _ \/ _ |- _ => destruct H
    end.

  Ltac fin_tac :=
    use_hyps; split_hyps; use_hyps;
    repeat match goal with |- _ /\ _ => split end;
    try lia; try congruence; auto;
    try solve [left; try lia; try congruence; auto];
    try solve [right; try lia; try congruence; auto];
    try solve [right; left; try lia; try congruence; auto];
    try solve [right; right; try lia; try congruence; auto].

  Lemma inv_step l c c' : Inv c -> step l c c' -> Inv c'.
  Proof.
    intros HI Hs.
    assert (Hscc := sc_on_collector).
    destruct HI.
    destruct Hs; try destruct k; unfold raise, record; simpl in *.
    all: split; unfold workers, wlive in *; simpl; intros.
    all: try lia.
    all: try solve [use_hyps; try lia; try congruence; auto].
    all: try solve [fin_tac].
    all: destruct (err c) as [[]|] eqn:Eerr; try solve [fin_tac].
  Qed.

  Lemma inv_steps c tr c' : Inv c -> steps c tr c' -> Inv c'.
  Proof.
    intros HI Hst. induction Hst as [c|c l c' tr c'' Hs Hst IH]; [exact HI|].
    apply IH. eapply inv_step; [exact HI|exact Hs].
  Qed.

  (* the invariant holds in every reachable state, for every sizing (also D = 0) *)
  Theorem flat_inv_reachable c : reachable c -> Inv c.
  Proof. intros [tr Htr]. eapply inv_steps; [apply inv_init|exact Htr]. Qed.

  (* ---------------------------------------------------------------- termination *)

  Lemma step_decreases l c c' : step l c c' -> measure c' < measure c.
  Proof.
    intros Hs.
    destruct Hs; try destruct k; unfold Sched.measure, raise, b2n; simpl in *;
      repeat match goal with
      | H : ?x = true |- context [if ?x then _ else _] => rewrite H
      | H : ?x = false |- context [if ?x then _ else _] => rewrite H
      end;
      repeat match goal with |- context [if ?x then _ else _] => destruct x end; lia.
  Qed.

  Lemma steps_measure c tr c' : steps c tr c' -> length tr + measure c' <= measure c.
  Proof.
    intros Hst. induction Hst as [c|c l c' tr c'' Hs Hst IH]; simpl; [lia|].
    apply step_decreases in Hs. lia.
  Qed.

  Lemma measure_init : measure init = 5 * N + 3 + (if has_collector v then 1 else 0).
  Proof. unfold Sched.measure, b2n. simpl. destruct (has_collector v); simpl; lia. Qed.

  (* every step strictly decreases the measure; hence every schedule from init, whatever the
     sizing and the variant, has at most 5N+4 steps *)
  Theorem flat_terminates :
    (forall l c c', step l c c' -> measure c' < measure c) /\
    (forall tr c, steps init tr c -> length tr + measure c <= measure init) /\
    (forall tr c, steps init tr c -> length tr <= 5 * N + 4).
  Proof.
    split; [exact step_decreases|]. split.
    - intros tr c Hst. apply steps_measure. exact Hst.
    - intros tr c Hst. apply steps_measure in Hst. rewrite measure_init in Hst.
      destruct (has_collector v); lia.
  Qed.

  (* ---------------------------------------------------------------- progress *)

  Ltac ok_step tac :=
    do 2 eexists; split; [tac | let Hx := fresh "Hx" in intros [Hx|Hx]; discriminate Hx].

  Lemma spawner_progress c :
    1 <= D -> Inv c -> sp_done c = false -> wlive (wD c) = 0 ->
    exists l c', step l c c' /\ ~ env_label l.
  Proof.
    intros HD HI Hspd Hw. destruct HI.
    destruct (Nat.eq_dec (sp c) N) as [Heq|Hne].
    - ok_step ltac:(eapply S_sp_stop; [exact Hspd|left; exact Heq]).
    - ok_step ltac:(eapply (S_spawn N D S v Ded); simpl; [exact Hspd|lia|lia]).
  Qed.

  (* the feeder is alive and no worker is busy or holds a result *)
  Lemma feeder_progress c :
    1 <= D -> Inv c -> fd_done c = false ->
    busy (wD c) = 0 -> busy (wS c) = 0 -> hold (wD c) = 0 -> hold (wS c) = 0 ->
    exists l c', step l c c' /\ ~ env_label l.
  Proof.
    intros HD HI Hfd HbD HbS HhD HhS.
    destruct (q c) as [|n] eqn:Eq.
    { ok_step ltac:(eapply S_feed_close; [exact Hfd|exact Eq]). }
    destruct (idle (wD c)) as [|m] eqn:EiD.
    2:{ ok_step ltac:(eapply (S_take N D S v Ded); simpl; [exact Hfd|exact Eq|exact EiD]). }
    destruct (idle (wS c)) as [|m] eqn:EiS.
    2:{ ok_step ltac:(eapply (S_take N D S v Shr); simpl; [exact Hfd|exact Eq|exact EiS]). }
    destruct (cancelled c) eqn:Eca.
    { ok_step ltac:(eapply S_feed_cancel; [exact Hfd|exact Eq|exact Eca]). }
    (* no worker at all, not cancelled: nobody has been spawned yet, spawn a dedicated one *)
    assert (Hcl : closed c = false).
    { destruct (closed c) eqn:Ecl; [|reflexivity].
      rewrite (I_closed_fd _ _ _ _ _ HI Ecl) in Hfd. discriminate Hfd. }
    assert (Hw : workers c = sp c) by (apply (I_open _ _ _ _ _ HI); assumption).
    assert (Hsum := I_sum _ _ _ _ _ HI).
    unfold workers, wlive in Hw.
    destruct (sp_done c) eqn:Espd.
    { destruct (I_spd _ _ _ _ _ HI Espd) as [Hx|[Hx|Hx]].
      - lia.
      - destruct (I_ready _ _ _ _ _ HI Hx) as [Hy _]. lia.
      - congruence. }
    apply spawner_progress; try assumption. unfold wlive. lia.
  Qed.

  (* With at least one dedicated token, every reachable non-final state has an enabled step
     that needs neither the shared pool nor a cancellation from outside. *)
  Theorem flat_progress c :
    1 <= D -> reachable c -> ~ final c -> exists l c', step l c c' /\ ~ env_label l.
  Proof.
    intros HD Hr Hnf. apply flat_inv_reachable in Hr. rename Hr into HI.
    assert (Hsum := I_sum _ _ _ _ _ HI).
    destruct (has_collector v) eqn:Hv.
    - (* Commit, Status *)
      destruct (busy (wD c)) as [|m] eqn:EbD.
      2:{ ok_step ltac:(eapply (S_finish N D S v Ded); simpl; [exact Hv|exact EbD]). }
      destruct (busy (wS c)) as [|m] eqn:EbS.
      2:{ ok_step ltac:(eapply (S_finish N D S v Shr); simpl; [exact Hv|exact EbS]). }
      (* a worker holding a result delivers it, or abandons it after cancellation *)
      assert (Hhold : forall k m, hold (w k c) = 1 + m -> exists l c', step l c c' /\ ~ env_label l).
      { intros k m Hk.
        assert (Hle : hold (w k c) <= hold (wD c) + hold (wS c)) by (destruct k; simpl; lia).
        destruct (col_done c) eqn:Ecd.
        - destruct (I_cd _ _ _ _ _ HI Ecd Hv) as [Hrd|Her].
          + destruct (I_ready _ _ _ _ _ HI Hrd) as [Hx _]. lia.
          + assert (Hca := I_err_canc _ _ _ _ _ HI Her).
            ok_step ltac:(eapply (S_drop N D S v k); [exact Hk|exact Hca]).
        - ok_step ltac:(eapply (S_deliver N D S v k); [exact Hk|exact Ecd|lia]). }
      destruct (hold (wD c)) as [|m] eqn:EhD; [|apply (Hhold Ded m EhD)].
      destruct (hold (wS c)) as [|m] eqn:EhS; [|apply (Hhold Shr m EhS)].
      clear Hhold.
      destruct (fd_done c) eqn:Efd.
      2:{ apply feeder_progress; assumption. }
      assert (Hcl : closed c = true).
      { destruct (closed c) eqn:Ecl; [reflexivity|].
        destruct (I_fd_open _ _ _ _ _ HI Efd Ecl) as [Hx _]. congruence. }
      destruct (idle (wD c)) as [|m] eqn:EiD.
      2:{ ok_step ltac:(eapply (S_exit N D S v Ded); simpl; [exact EiD|exact Hcl]). }
      destruct (idle (wS c)) as [|m] eqn:EiS.
      2:{ ok_step ltac:(eapply (S_exit N D S v Shr); simpl; [exact EiS|exact Hcl]). }
      destruct (col_done c) eqn:Ecd.
      2:{ destruct (Nat.eq_dec (col c) N) as [Heq|Hne].
          { ok_step ltac:(eapply S_collected; [exact Ecd|exact Heq]). }
          assert (Her : err c <> None).
          { destruct (I_fd_q _ _ _ _ _ HI Efd) as [Hq|Her]; [|exact Her].
            intros Hnone. destruct (I_clean _ _ _ _ _ HI Hnone) as [Hdr _]. lia. }
          assert (Hca := I_err_canc _ _ _ _ _ HI Her).
          ok_step ltac:(eapply S_col_cancel; [exact Ecd|lia|exact Hca]). }
      destruct (sp_done c) eqn:Espd.
      2:{ apply spawner_progress; try assumption. unfold wlive. lia. }
      exfalso. apply Hnf. unfold final, workers, wlive. repeat split; try assumption. lia.
    - (* Checkout *)
      destruct (I_nocol _ _ _ _ _ HI Hv) as (Hcd & _ & HhD & HhS).
      destruct (busy (wD c)) as [|m] eqn:EbD.
      2:{ ok_step ltac:(eapply (S_finish_co N D S v Ded); simpl; [exact Hv|exact EbD]). }
      destruct (busy (wS c)) as [|m] eqn:EbS.
      2:{ ok_step ltac:(eapply (S_finish_co N D S v Shr); simpl; [exact Hv|exact EbS]). }
      destruct (fd_done c) eqn:Efd.
      2:{ apply feeder_progress; assumption. }
      assert (Hidle : forall k m, idle (w k c) = 1 + m -> exists l c', step l c c' /\ ~ env_label l).
      { intros k m Hk. destruct (closed c) eqn:Ecl.
        - ok_step ltac:(eapply (S_exit N D S v k); [exact Hk|exact Ecl]).
        - destruct (I_fd_open _ _ _ _ _ HI Efd Ecl) as [_ Hca].
          ok_step ltac:(eapply (S_exit_cancel N D S v k); [exact Hv|exact Hk|exact Hca]). }
      destruct (idle (wD c)) as [|m] eqn:EiD; [|apply (Hidle Ded m EiD)].
      destruct (idle (wS c)) as [|m] eqn:EiS; [|apply (Hidle Shr m EiS)].
      destruct (sp_done c) eqn:Espd.
      2:{ apply spawner_progress; try assumption. unfold wlive. lia. }
      exfalso. apply Hnf. unfold final, workers, wlive. repeat split; try assumption. lia.
  Qed.

  (* Consequence of progress and termination: from every reachable state the instance can
     run to a final state using internal steps only (no shared token, no outside cancel). *)
  Definition internal (l : label) : Prop := ~ env_label l.

  Theorem flat_can_finish c :
    1 <= D -> reachable c ->
    exists tr c', steps c tr c' /\ final c' /\ Forall internal tr.
  Proof.
    intros HD. remember (measure c) as n eqn:Hn. revert c Hn.
    induction n as [n IH] using lt_wf_ind. intros c Hn Hr.
    destruct (final_dec c) as [Hf|Hnf].
    - exists [], c. split; [constructor|]. split; [exact Hf|constructor].
    - destruct (flat_progress c HD Hr Hnf) as (l & c1 & Hs & Hl).
      assert (Hlt := step_decreases _ _ _ Hs).
      destruct (IH (measure c1) ltac:(lia) c1 eq_refl (reachable_step _ _ _ _ _ _ _ Hr Hs))
        as (tr & c2 & Hst & Hf & Hall).
      exists (l :: tr), c2. split; [eapply steps_cons; [exact Hs|exact Hst]|].
      split; [exact Hf|]. constructor; [exact Hl|exact Hall].
  Qed.

  (* ---------------------------------------------------------------- join, tokens *)

  (* errGroup.Wait returned: no goroutine of the instance is alive, every token it took from
     its dedicated channel and from the shared pool has been given back *)
  Theorem flat_joined c :
    final c ->
    workers c = 0 /\ wlive (wD c) = 0 /\ wlive (wS c) = 0 /\
    fd_done c = true /\ col_done c = true /\ sp_done c = true.
  Proof.
    intros (Hfd & Hcd & Hspd & Hw). unfold workers in *.
    repeat split; try assumption; lia.
  Qed.

  Theorem flat_tokens c : reachable c -> wlive (wD c) <= D /\ wlive (wS c) <= S.
  Proof.
    intros Hr. apply flat_inv_reachable in Hr.
    split; [exact (I_ded _ _ _ _ _ Hr)|exact (I_shr _ _ _ _ _ Hr)].
  Qed.

  (* ---------------------------------------------------------------- result *)

  (* Wait returns nil: every one of the N entries was handed out, its action succeeded, and
     (Commit, Status) its result reached the collector, which closed the ready channel;
     no action failed, nothing was abandoned, no short circuit.
     Wait returns an error: an entry error only if some action failed, the parent's
     cancellation only if the parent did cancel, the short-circuit sentinel only in
     Status with the flag on, after a short_circuit step.
     NB an ext_cancel may go unobserved (select takes any ready case), so [xc c] may be true
     in an error-free final state: see [ex_cancel_unobserved] below. *)
  Theorem flat_result c :
    reachable c -> final c ->
    (err c = None ->
       col c = N /\ q c = 0 /\ nfin c = N /\ dropped c = 0 /\ nfail c = 0 /\ nabort c = 0 /\
       scd c = false /\ (has_collector v = true -> ready c = true)) /\
    (err c = Some EntryError -> 1 <= nfail c) /\
    (err c = Some ParentCancelled -> xc c = true) /\
    (err c = Some ShortCircuit -> v = Status true /\ scd c = true /\ 1 <= col c) /\
    (1 <= nfail c -> err c <> None) /\
    (1 <= dropped c -> err c <> None).
  Proof.
    intros Hr (Hfd & Hcd & Hspd & Hw). apply flat_inv_reachable in Hr. rename Hr into HI.
    assert (Hsum := I_sum _ _ _ _ _ HI). assert (Htk := I_taken _ _ _ _ _ HI).
    unfold workers, wlive in Hw.
    split; [|split; [|split; [|split; [|split]]]].
    - intros Hnone. destruct (I_clean _ _ _ _ _ HI Hnone) as (Hdr & Hnf & Hna & Hsc).
      assert (Hq : q c = 0).
      { destruct (I_fd_q _ _ _ _ _ HI Hfd) as [Hq|Hq]; [exact Hq|congruence]. }
      repeat split; try assumption; try lia.
      intros Hv. destruct (I_cd _ _ _ _ _ HI Hcd Hv) as [Hrd|Her]; [exact Hrd|congruence].
    - apply (I_entry _ _ _ _ _ HI).
    - apply (I_parent _ _ _ _ _ HI).
    - intros Hsc. assert (Hscd := I_short _ _ _ _ _ HI Hsc).
      assert (Hon := I_scd _ _ _ _ _ HI Hscd).
      destruct (I_sc_col _ _ _ _ _ HI Hscd) as [Hcol _].
      split; [|split; assumption].
      destruct v as [| |[|]]; simpl in Hon; try discriminate Hon. reflexivity.
    - intros Hge Hnone. destruct (I_clean _ _ _ _ _ HI Hnone) as (_ & Hnf & _). lia.
    - intros Hge Hnone. destruct (I_clean _ _ _ _ _ HI Hnone) as (Hdr & _). lia.
  Qed.

  (* what the caller sees *)
  Corollary flat_returned_nil c :
    reachable c -> final c -> returned c = None ->
    (err c = None /\ col c = N /\ nfail c = 0 /\ dropped c = 0) \/
    (err c = Some ShortCircuit /\ v = Status true /\ scd c = true).
  Proof.
    intros Hr Hf Hret. destruct (flat_result c Hr Hf) as (H1 & _ & _ & H4 & _).
    unfold returned in Hret. destruct (err c) as [[]|] eqn:Eerr; try discriminate Hret.
    - right. destruct (H4 eq_refl) as (Hv & Hs & _). auto.
    - left. destruct (H1 eq_refl) as (Hc & _ & _ & Hd & Hn & _). auto.
  Qed.

  (* ---------------------------------------------------------------- D = 0 deadlocks *)

  (* Without a dedicated token the instance is stuck in its initial state as long as the
     shared pool grants nothing (the deadlock described at cache.go:44-47: the shared tokens
     are all held by ancestors waiting for this very instance). *)
  Theorem flat_stuck_without_dedicated :
    D = 0 -> 1 <= N ->
    exists c, reachable c /\ ~ final c /\ forall l c', step l c c' -> env_label l.
  Proof.
    intros HD HN. exists init. split; [apply reachable_init|]. split.
    - intros (H & _). discriminate H.
    - intros l c' Hs. unfold env_label.
      inversion Hs; subst; try destruct k; simpl in *; try discriminate; try lia; auto.
  Qed.
End flat_proofs.

(* ============================================================================ tree level *)

Section tree_ind.
  Variable P : tree -> Prop.
  Hypothesis Hleaf : forall ok, P (Leaf ok).
  Hypothesis Hnode : forall ch, Forall P ch -> P (Node ch).

  Fixpoint tree_ind' (t : tree) : P t :=
    match t with
    | Leaf ok => Hleaf ok
    | Node ch =>
      Hnode ch
        ((fix go (l : list tree) : Forall P l :=
            match l with
            | [] => Forall_nil P
            | t' :: l' => Forall_cons t' (tree_ind' t') (go l')
            end) ch)
    end.
End tree_ind.

Lemma count_repeat_same r n : count r (repeat r n) = n.
Proof. induction n as [|n IH]; simpl; [reflexivity|]. rewrite IH. destruct r; reflexivity. Qed.

Lemma count_repeat_other r r' n : result_eqb r r' = false -> count r (repeat r' n) = 0.
Proof. intros H. induction n as [|n IH]; simpl; [reflexivity|]. rewrite H, IH. reflexivity. Qed.

Lemma count_app r l1 l2 : count r (l1 ++ l2) = count r l1 + count r l2.
Proof. induction l1 as [|x l1 IH]; simpl; [reflexivity|]. rewrite IH. lia. Qed.

Lemma forallb_firstn_false (f : tree -> bool) k l :
  forallb f (firstn k l) = false -> forallb f l = false.
Proof.
  revert l. induction k as [|k IH]; intros l H; simpl in H; [discriminate H|].
  destruct l as [|x l]; simpl in *; [discriminate H|].
  destruct (f x); simpl in *; [apply IH; exact H|reflexivity].
Qed.

Lemma firstn_app_one (A : Type) (pre : list A) t post :
  firstn (length pre + 1) (pre ++ t :: post) = pre ++ [t].
Proof. induction pre as [|x pre IH]; simpl; [reflexivity|]. rewrite IH. reflexivity. Qed.

Section tree_proofs.
  Context (D S : nat) (v : variant).

  Notation exec := (exec D S v).
  Notation exec_children := (exec_children D S v).

  Scheme exec_min := Minimality for Sched.exec Sort Prop
    with exec_children_min := Minimality for Sched.exec_children Sort Prop.
  Combined Scheme exec_mutind from exec_min, exec_children_min.

  (* ---------------------------------------------------------------- soundness *)

  Definition sound_one (t : tree) (xcin : bool) (r : result) : Prop :=
    (r = RCancelled -> xcin = true) /\
    (r = RFail -> all_ok t = false) /\
    (sc_on v = false -> r = ROk -> all_ok t = true).

  Definition sound_list (cc : bool) (ts : list tree) (rs : list result) : Prop :=
    (1 <= count RFail rs -> forallb all_ok ts = false) /\
    (sc_on v = false -> count RFail rs = 0 -> count RCancelled rs = 0 ->
     forallb all_ok ts = true).

  Lemma exec_sound_mut :
    (forall t xcin r, exec t xcin r -> sound_one t xcin r) /\
    (forall cc ts rs, exec_children cc ts rs -> sound_list cc ts rs).
  Proof.
    apply exec_mutind.
    - intros ok xcin. unfold sound_one. destruct ok; simpl; repeat split; congruence.
    - intros ch xcin tr c outs Hsteps Hfinal Hxc Hch [IH1 IH2] Hfin Hfail Habort.
      assert (Hr : reachable (length ch) D S v c) by (exists tr; exact Hsteps).
      destruct (flat_result _ _ _ _ c Hr Hfinal) as (R1 & R2 & R3 & R4 & _).
      unfold sound_one, returned.
      destruct (err c) as [[]|] eqn:Eerr; simpl.
      + (* an entry error *)
        split; [congruence|]. split; [|congruence]. intros _.
        apply (forallb_firstn_false all_ok (length ch - q c)). apply IH1.
        specialize (R2 eq_refl). lia.
      + (* cancelled from above *)
        split; [|split; congruence]. intros _.
        destruct xcin; [reflexivity|]. rewrite (Hxc eq_refl) in R3.
        specialize (R3 eq_refl). discriminate R3.
      + (* short circuit: only Status true *)
        split; [congruence|]. split; [congruence|]. intros Hoff _.
        destruct (R4 eq_refl) as (Hv & _). rewrite Hv in Hoff. discriminate Hoff.
      + (* no error *)
        split; [congruence|]. split; [congruence|]. intros Hoff _.
        destruct (R1 eq_refl) as (_ & Hq & _ & _ & Hnf & Hna & _).
        rewrite Hq, Nat.sub_0_r, firstn_all in IH2. apply IH2; [exact Hoff|lia|lia].
    - intros cc. split; simpl; [lia|reflexivity].
    - intros cc t ts xci r rs Hxci Hex (S1 & S2 & S3) Hrest (L1 & L2).
      split; simpl.
      + intros Hc. destruct r; simpl in Hc.
        * rewrite (L1 Hc). apply andb_false_r.
        * rewrite (S2 eq_refl). reflexivity.
        * rewrite (L1 Hc). apply andb_false_r.
      + intros Hoff Hf Ha. destruct r; simpl in Hf, Ha; try lia.
        rewrite (S3 Hoff eq_refl). simpl. apply L2; assumption.
  Qed.

  (* A result without error (and without short circuit) means that every leaf below was
     processed successfully; a failure means that some leaf below fails; the cancellation
     error comes out only if the caller did cancel: in particular it never comes out of a
     top-level call whose context is never cancelled. *)
  Theorem exec_result_sound t xcin r :
    exec t xcin r ->
    (r = RCancelled -> xcin = true) /\
    (r = RFail -> all_ok t = false) /\
    (sc_on v = false -> r = ROk -> all_ok t = true).
  Proof. intros H. apply (proj1 exec_sound_mut t xcin r H). Qed.

  Corollary exec_top_level t r :
    exec t false r -> r = ROk \/ (r = RFail /\ all_ok t = false).
  Proof.
    intros H. destruct (exec_result_sound t false r H) as (H1 & H2 & _).
    destruct r; [left; reflexivity|right; auto|specialize (H1 eq_refl); discriminate H1].
  Qed.

  (* ---------------------------------------------------------------- totality *)

  Section seq.
    Context (N : nat).
    Notation step := (step N D S v).
    Notation steps := (steps N D S v).
    Notation init := (init N v).
    Notation reachable := (reachable N D S v).

    (* no entry is in flight and none will be handed out any more *)
    Definition settled (c : cfg) : Prop :=
      (fd_done c = true \/ q c = 0) /\ busy (wD c) = 0 /\ busy (wS c) = 0.

    Lemma settled_step l c c' :
      settled c -> step l c c' ->
      settled c' /\ q c' = q c /\ nfin c' = nfin c /\ nfail c' = nfail c /\ nabort c' = nabort c.
    Proof.
      intros (Hf & HbD & HbS) Hs. unfold settled.
      destruct Hs; try destruct k; simpl in *;
        try (exfalso; destruct Hf as [Hf|Hf]; [congruence|lia]);
        try (exfalso; lia);
        repeat split; auto.
    Qed.

    Lemma settled_steps c tr c' :
      settled c -> steps c tr c' ->
      q c' = q c /\ nfin c' = nfin c /\ nfail c' = nfail c /\ nabort c' = nabort c.
    Proof.
      intros Hse Hst. induction Hst as [c|c l c' tr c'' Hs Hst IH]; [auto|].
      destruct (settled_step _ _ _ Hse Hs) as (Hse' & E1 & E2 & E3 & E4).
      destruct (IH Hse') as (F1 & F2 & F3 & F4). repeat split; congruence.
    Qed.

    Lemma internal_step_xc l c c' : step l c c' -> internal l -> xc c' = xc c.
    Proof.
      intros Hs Hi. destruct Hs; try reflexivity.
      exfalso. apply Hi. right. reflexivity.
    Qed.

    Lemma internal_steps_xc c tr c' : steps c tr c' -> Forall internal tr -> xc c' = xc c.
    Proof.
      intros Hst. induction Hst as [c|c l c' tr c'' Hs Hst IH]; intros Hall; [reflexivity|].
      inversion Hall as [|l0 tr0 Hl Htr]; subst.
      rewrite (IH Htr). eapply internal_step_xc; [exact Hs|exact Hl].
    Qed.

    (* a settled reachable state can be completed without changing what happened to entries *)
    Lemma finish_from c :
      1 <= D -> reachable c -> settled c ->
      exists tr c', steps init tr c' /\ final c' /\
        q c' = q c /\ nfin c' = nfin c /\ nfail c' = nfail c /\ nabort c' = nabort c /\
        xc c' = xc c.
    Proof.
      intros HD Hr Hse. destruct (flat_can_finish N D S v c HD Hr) as (tr2 & c' & Hst & Hf & Hall).
      destruct Hr as [tr1 Htr1].
      destruct (settled_steps _ _ _ Hse Hst) as (E1 & E2 & E3 & E4).
      exists (tr1 ++ tr2), c'. split; [eapply steps_app; [exact Htr1|exact Hst]|].
      split; [exact Hf|]. repeat split; try assumption.
      eapply internal_steps_xc; [exact Hst|exact Hall].
    Qed.

    (* the sequential schedule: one dedicated worker, j entries done, r to go *)
    Definition seq_state (r j : nat) : cfg :=
      {| q := r; fd_done := false; closed := false; sp := 1; sp_done := false;
         wD := {| idle := 1; busy := 0; hold := 0 |};
         wS := {| idle := 0; busy := 0; hold := 0 |};
         col := j; col_done := negb (has_collector v); ready := false;
         cancelled := false; err := None;
         dropped := 0; nfail := 0; nabort := 0; nfin := j; xc := false; scd := false |}.

    Ltac go1 :=
      eapply steps_cons;
      [ solve [econstructor; simpl; try reflexivity; try lia; auto] | simpl ].

    Lemma seq_round r j :
      j < N -> exists tr, steps (seq_state (1 + r) j) tr (seq_state r (1 + j)).
    Proof.
      intros Hj. unfold seq_state. destruct (has_collector v) eqn:Hv; simpl.
      - exists [L_take Ded; L_finish Ded; L_deliver Ded]. go1. go1. go1. apply steps_nil.
      - exists [L_take Ded; L_finish Ded]. go1. go1. apply steps_nil.
    Qed.

    Lemma seq_reach j :
      1 <= D -> forall r, r + j = N -> 1 <= N -> reachable (seq_state r j).
    Proof.
      intros HD. induction j as [|j IH]; intros r Hrj HN.
      - assert (r = N) by lia. subst r.
        exists [L_spawn Ded]. unfold seq_state, Sched.init. go1. apply steps_nil.
      - destruct (IH (1 + r) ltac:(lia) HN) as [tr1 Htr1].
        destruct (seq_round r j ltac:(lia)) as [tr2 Htr2].
        exists (tr1 ++ tr2). eapply steps_app; [exact Htr1|exact Htr2].
    Qed.

    (* all N entries succeed *)
    Lemma seq_all_ok :
      1 <= D -> exists tr c, steps init tr c /\ final c /\
        q c = 0 /\ nfin c = N /\ nfail c = 0 /\ nabort c = 0 /\ xc c = false.
    Proof.
      intros HD. destruct (Nat.eq_dec N 0) as [E0|Hne].
      - destruct (finish_from init HD) as (tr & c & H1 & H2 & H3 & H4 & H5 & H6 & H7).
        + apply reachable_init.
        + unfold settled. simpl. auto.
        + exists tr, c. simpl in *. split; [exact H1|split; [exact H2|]].
          repeat split; try assumption; lia.
      - destruct (finish_from (seq_state 0 N) HD) as (tr & c & H1 & H2 & H3 & H4 & H5 & H6 & H7).
        + apply seq_reach; [exact HD|lia|lia].
        + unfold settled. simpl. auto.
        + exists tr, c. simpl in *. split; [exact H1|split; [exact H2|]].
          repeat split; assumption.
    Qed.

    (* the first j entries succeed, the next one fails, r are never handed out *)
    Lemma seq_fail_at r j :
      1 <= D -> 1 + r + j = N -> exists tr c, steps init tr c /\ final c /\
        q c = r /\ nfin c = j /\ nfail c = 1 /\ nabort c = 0 /\ xc c = false.
    Proof.
      intros HD Hrj.
      assert (Hr : reachable (seq_state (1 + r) j)) by (apply seq_reach; [exact HD|lia|lia]).
      assert (Hx : exists c, steps (seq_state (1 + r) j) [L_take Ded; L_fail Ded] c /\
                  fd_done c = false /\ cancelled c = true /\ q c = r /\
                  busy (wD c) = 0 /\ busy (wS c) = 0 /\
                  nfin c = j /\ nfail c = 1 /\ nabort c = 0 /\ xc c = false).
      { eexists. split; [unfold seq_state; go1; go1; apply steps_nil|]. simpl. repeat split. }
      destruct Hx as (c1 & Hst1 & Hfd & Hca & Hq & HbD & HbS & E1 & E2 & E3 & E4).
      assert (Hr1 : reachable c1).
      { destruct Hr as [tr0 Htr0]. eexists. eapply steps_app; [exact Htr0|exact Hst1]. }
      (* the feeder leaves *)
      assert (Hy : exists l c2, step l c1 c2 /\ settled c2 /\ q c2 = r /\
                  nfin c2 = j /\ nfail c2 = 1 /\ nabort c2 = 0 /\ xc c2 = false).
      { destruct r as [|r'].
        - do 2 eexists. split; [eapply S_feed_close; [exact Hfd|exact Hq]|].
          unfold settled. simpl. repeat split; auto.
        - do 2 eexists. split; [eapply S_feed_cancel; [exact Hfd|exact Hq|exact Hca]|].
          unfold settled. simpl. repeat split; auto. }
      destruct Hy as (l & c2 & Hs2 & Hse & F0 & F1 & F2 & F3 & F4).
      assert (Hr2 : reachable c2) by (eapply reachable_step; [exact Hr1|exact Hs2]).
      destruct (finish_from c2 HD Hr2 Hse) as (tr & c & H1 & H2 & H3 & H4 & H5 & H6 & H7).
      exists tr, c. split; [exact H1|split; [exact H2|]].
      repeat split; congruence.
    Qed.
  End seq.

  Lemma exec_node_eq ch xcin tr c outs r
      (Hsteps : steps (length ch) D S v (init (length ch) v) tr c)
      (Hfinal : final c)
      (Hxc : xcin = false -> xc c = false)
      (Hch : exec_children (cancelled c) (firstn (length ch - q c) ch) outs)
      (Hfin : count ROk outs = nfin c)
      (Hfail : count RFail outs = nfail c)
      (Habort : count RCancelled outs = nabort c)
      (Hres : r = result_of (returned c)) :
      exec (Node ch) xcin r.
  Proof. subst r. eapply exec_node; eassumption. Qed.

  Lemma exec_children_app cc l1 r1 l2 r2 :
    exec_children cc l1 r1 -> exec_children cc l2 r2 -> exec_children cc (l1 ++ l2) (r1 ++ r2).
  Proof.
    intros H1 H2. induction H1 as [cc|cc t ts xci r rs Hxci Hex Hrest IH]; simpl; [exact H2|].
    eapply ec_cons; [exact Hxci|exact Hex|]. apply IH. exact H2.
  Qed.

  Lemma exec_children_all_ok cc l :
    Forall (fun t => exec t false ROk) l -> exec_children cc l (repeat ROk (length l)).
  Proof.
    intros H. induction H as [|t l Ht Hl IH]; simpl; [constructor|].
    eapply ec_cons; [|exact Ht|exact IH]. intros Hx. discriminate Hx.
  Qed.

  Lemma first_failure l :
    Forall (fun t => exists r, exec t false r) l ->
    Forall (fun t => exec t false ROk) l \/
    exists pre t post, l = pre ++ t :: post /\
      Forall (fun t => exec t false ROk) pre /\ exec t false RFail.
  Proof.
    intros H. induction H as [|t l [r Hr] Hl IH]; [left; constructor|].
    destruct r.
    - destruct IH as [IH|(pre & t' & post & E & Hpre & Ht')].
      + left. constructor; assumption.
      + right. exists (t :: pre), t', post. subst l. split; [reflexivity|].
        split; [constructor; assumption|exact Ht'].
    - right. exists [], t, l. split; [reflexivity|]. split; [constructor|exact Hr].
    - destruct (exec_result_sound _ _ _ Hr) as (Hx & _). specialize (Hx eq_refl). discriminate Hx.
  Qed.

  (* With one dedicated token per directory, every tree has an execution, whatever the
     shared pool size, the variant, and whether or not the caller may cancel. *)
  Theorem exec_total t : 1 <= D -> forall xcin, exists r, exec t xcin r.
  Proof.
    intros HD. induction t as [ok|ch IH] using tree_ind'; intros xcin.
    - eexists. apply exec_leaf.
    - assert (IH' : Forall (fun t => exists r, exec t false r) ch).
      { eapply Forall_impl; [|exact IH]. intros t Ht. apply Ht. }
      destruct (first_failure ch IH') as [Hall|(pre & t & post & E & Hpre & Ht)].
      + destruct (seq_all_ok (length ch) HD) as (tr & c & H1 & H2 & H3 & H4 & H5 & H6 & H7).
        eexists. eapply (exec_node D S v ch xcin tr c (repeat ROk (length ch))).
        * exact H1.
        * exact H2.
        * intros _. exact H7.
        * rewrite H3, Nat.sub_0_r, firstn_all. apply exec_children_all_ok. exact Hall.
        * rewrite count_repeat_same. congruence.
        * rewrite count_repeat_other by reflexivity. congruence.
        * rewrite count_repeat_other by reflexivity. congruence.
      + assert (Hlen : 1 + length post + length pre = length ch).
        { subst ch. rewrite app_length. simpl. lia. }
        destruct (seq_fail_at (length ch) (length post) (length pre) HD Hlen)
          as (tr & c & H1 & H2 & H3 & H4 & H5 & H6 & H7).
        eexists.
        eapply (exec_node D S v ch xcin tr c (repeat ROk (length pre) ++ [RFail])).
        * exact H1.
        * exact H2.
        * intros _. exact H7.
        * rewrite H3. replace (length ch - length post) with (length pre + 1) by lia.
          subst ch. rewrite firstn_app_one. apply exec_children_app.
          -- apply exec_children_all_ok. exact Hpre.
          -- eapply ec_cons; [|exact Ht|constructor]. intros Hx. discriminate Hx.
        * rewrite count_app, count_repeat_same. simpl. lia.
        * rewrite count_app, count_repeat_other by reflexivity. simpl. lia.
        * rewrite count_app, count_repeat_other by reflexivity. simpl. lia.
  Qed.
End tree_proofs.

(* -------------------------------------------------------------------- the model is not vacuous *)

Ltac run1 :=
  eapply steps_cons;
  [ solve [econstructor; cbv; try reflexivity; try lia; auto] | cbv ].
Ltac run := repeat run1; apply steps_nil.

(* two entries, one dedicated token, no shared token: complete successful commit *)
Example ex_commit_ok :
  exists c,
    steps 2 1 0 Commit (init 2 Commit)
      [L_spawn Ded; L_take Ded; L_finish Ded; L_deliver Ded; L_take Ded; L_finish Ded;
       L_deliver Ded; L_feed_close; L_exit Ded; L_collected; L_sp_stop] c
    /\ final c /\ err c = None /\ col c = 2 /\ ready c = true.
Proof. eexists. split; [run|]. cbv. auto 10. Qed.

(* the first entry fails: the feeder, the collector and the spawn loop leave through ctx.Done() *)
Example ex_commit_fail :
  exists c,
    steps 2 1 0 Commit (init 2 Commit)
      [L_spawn Ded; L_take Ded; L_fail Ded; L_feed_cancel; L_col_cancel; L_sp_cancel] c
    /\ final c /\ err c = Some EntryError /\ nfail c = 1 /\ q c = 1 /\ col c = 0.
Proof. eexists. split; [run|]. cbv. auto 10. Qed.

(* the parent cancels while a worker holds a result: the worker abandons it *)
Example ex_commit_cancelled :
  exists c,
    steps 2 1 0 Commit (init 2 Commit)
      [L_spawn Ded; L_take Ded; L_finish Ded; L_ext_cancel; L_drop Ded; L_col_cancel;
       L_feed_cancel; L_sp_cancel] c
    /\ final c /\ err c = Some ParentCancelled /\ nfail c = 0 /\ dropped c = 1.
Proof. eexists. split; [run|]. cbv. auto 10. Qed.

(* a cancellation nobody looks at: every select took its other ready case *)
Example ex_cancel_unobserved :
  exists c,
    steps 2 1 0 Commit (init 2 Commit)
      [L_spawn Ded; L_ext_cancel; L_take Ded; L_finish Ded; L_deliver Ded; L_take Ded;
       L_finish Ded; L_deliver Ded; L_feed_close; L_exit Ded; L_collected; L_sp_stop] c
    /\ final c /\ err c = None /\ xc c = true /\ col c = 2.
Proof. eexists. split; [run|]. cbv. auto 10. Qed.

(* checkout: the spawn loop has no ready channel; it gets the dedicated token back when the
   only worker has left and starts a second worker, which finds the channel closed *)
Example ex_checkout_ok :
  exists c,
    steps 2 1 0 Checkout (init 2 Checkout)
      [L_spawn Ded; L_take Ded; L_finish Ded; L_take Ded; L_finish Ded; L_feed_close;
       L_exit Ded; L_spawn Ded; L_exit Ded; L_sp_stop] c
    /\ final c /\ err c = None /\ col c = 2.
Proof. eexists. split; [run|]. cbv. auto 10. Qed.

(* checkout: after a failure the feeder leaves WITHOUT closing the channel; the idle worker
   leaves through ctx.Done() *)
Example ex_checkout_fail :
  exists c,
    steps 2 2 0 Checkout (init 2 Checkout)
      [L_spawn Ded; L_spawn Ded; L_take Ded; L_fail Ded; L_feed_cancel; L_exit_cancel Ded;
       L_sp_stop] c
    /\ final c /\ err c = Some EntryError /\ closed c = false.
Proof. eexists. split; [run|]. cbv. auto 10. Qed.

(* status with short circuit: the sentinel is the group error, the caller gets nil *)
Example ex_status_short_circuit :
  exists c,
    steps 2 1 1 (Status true) (init 2 (Status true))
      [L_spawn Shr; L_take Shr; L_finish Shr; L_short_circuit Shr; L_feed_cancel; L_exit Shr;
       L_sp_cancel] c
    /\ final c /\ err c = Some ShortCircuit /\ returned c = None /\ col c = 1.
Proof. eexists. split; [run|]. cbv. auto 10. Qed.

(* flat: a nested directory gives up because this group was cancelled by a failing sibling *)
Example ex_commit_abort :
  exists c,
    steps 2 1 1 Commit (init 2 Commit)
      [L_spawn Ded; L_spawn Shr; L_take Ded; L_take Shr; L_fail Shr; L_abort Ded; L_feed_close;
       L_col_cancel; L_sp_stop] c
    /\ final c /\ err c = Some EntryError /\ nfail c = 1 /\ nabort c = 1 /\ dropped c = 2.
Proof. eexists. split; [run|]. cbv. auto 10. Qed.

(* tree: [file; dir [bad file]; file] with D = 1, S = 0: the third entry is never handed out *)
Example ex_tree_fail :
  exec 1 0 Commit (Node [Leaf true; Node [Leaf false]; Leaf true]) false RFail.
Proof.
  eapply exec_node_eq with
    (tr := [L_spawn Ded; L_take Ded; L_finish Ded; L_deliver Ded; L_take Ded; L_fail Ded;
            L_feed_cancel; L_col_cancel; L_sp_cancel])
    (outs := [ROk; RFail]).
  - run.
  - cbv. auto.
  - intros _. reflexivity.
  - cbv [length q Nat.sub firstn].
    eapply ec_cons with (xci := false); [intros Hx; discriminate Hx|apply (exec_leaf 1 0 Commit true)|].
    eapply ec_cons with (xci := false); [intros Hx; discriminate Hx| |apply ec_nil].
    eapply exec_node_eq with
      (tr := [L_spawn Ded; L_take Ded; L_fail Ded; L_feed_close; L_col_cancel; L_sp_stop])
      (outs := [RFail]).
    + run.
    + cbv. auto.
    + intros _. reflexivity.
    + cbv [length q Nat.sub firstn].
      eapply ec_cons with (xci := false);
        [intros Hx; discriminate Hx|apply (exec_leaf 1 0 Commit false)|apply ec_nil].
    + reflexivity.
    + reflexivity.
    + reflexivity.
    + reflexivity.
  - reflexivity.
  - reflexivity.
  - reflexivity.
  - reflexivity.
Qed.

(* tree: [dir [file]; bad file] with D = 1, S = 1: both entries are in flight, the file fails,
   the nested directory sees the cancellation of its parent's group and returns it *)
Example ex_tree_abort :
  exec 1 1 Commit (Node [Node [Leaf true]; Leaf false]) false RFail.
Proof.
  eapply exec_node_eq with
    (tr := [L_spawn Ded; L_spawn Shr; L_take Ded; L_take Shr; L_fail Shr; L_abort Ded;
            L_feed_close; L_col_cancel; L_sp_stop])
    (outs := [RCancelled; RFail]).
  - run.
  - cbv. auto.
  - intros _. reflexivity.
  - cbv [length q Nat.sub firstn].
    eapply ec_cons with (xci := true); [intros _; reflexivity| |].
    + eapply exec_node_eq with
        (tr := [L_ext_cancel; L_feed_cancel; L_col_cancel; L_sp_cancel]) (outs := []).
      * run.
      * cbv. auto.
      * intros Hx. discriminate Hx.
      * cbv [length q Nat.sub firstn]. apply ec_nil.
      * reflexivity.
      * reflexivity.
      * reflexivity.
      * reflexivity.
    + eapply ec_cons with (xci := false);
        [intros Hx; discriminate Hx|apply (exec_leaf 1 1 Commit false)|apply ec_nil].
  - reflexivity.
  - reflexivity.
  - reflexivity.
  - reflexivity.
Qed.

Print Assumptions flat_inv_reachable.
Print Assumptions flat_terminates.
Print Assumptions flat_progress.
Print Assumptions flat_can_finish.
Print Assumptions flat_stuck_without_dedicated.
Print Assumptions flat_joined.
Print Assumptions flat_tokens.
Print Assumptions flat_result.
Print Assumptions flat_returned_nil.
Print Assumptions exec_total.
Print Assumptions exec_result_sound.
Print Assumptions exec_top_level.
