(* C13, flat level: invariant, termination, progress, join, token bounds, result. *)
From Coq Require Import Lia Arith Bool List.
From DudV Require Import Model.Sched.
Import ListNotations.

Section flat_proofs.
  Context (N D S : nat) (v : variant).

  Notation step := (step N D S v).
  Notation steps := (steps N D S v).
  Notation init := (init N v).
  Notation reachable := (reachable N D S v).
  Notation Inv := (Inv N D S v).
  Notation measure := (measure N).

  Lemma sc_on_collector : sc_on v = true -> has_collector v = true.
  Proof. destruct v as [| |[|]]; simpl; intros H; congruence. Qed.

  Lemma inv_init : Inv init.
  Proof.
    split; unfold workers, wlive; simpl; try lia; try discriminate; try congruence; auto.
    - intros H1 H2. rewrite H2 in H1. discriminate.
    - intros H. rewrite H. auto.
  Qed.

  Ltac use_hyps :=
    repeat match goal with
    | H : ?x = ?b -> _ , H' : ?x = ?b |- _ => specialize (H H')
    | H : ?x = ?x -> _ |- _ => specialize (H eq_refl)
    | H : Some _ <> None -> _ |- _ => specialize (H ltac:(discriminate))
    | H : _ /\ _ |- _ => destruct H
    end.

  Ltac split_hyps :=
    repeat match goal with
    | H : _ \/ _ |- _ => destruct H
    end.

  Ltac fin_tac :=
    use_hyps; split_hyps; use_hyps;
    repeat match goal with |- _ /\ _ => split end;
    try lia; try congruence; auto;
    try solve [left; try lia; try congruence; auto];
    try solve [right; try lia; try congruence; auto];
    try solve [right; left; try lia; try congruence; auto];
    try solve [right; right; try lia; try congruence; auto].

  Lemma inv_step l c c' : Inv c -> step l c c' -> Inv c'.
  Proof.
    intros HI Hs.
    assert (Hscc := sc_on_collector).
    destruct HI.
    destruct Hs; try destruct k; unfold raise, record; simpl in *.
    all: split; unfold workers, wlive in *; simpl; intros.
    all: try lia.
    all: try solve [use_hyps; try lia; try congruence; auto].
    all: try solve [fin_tac].
    all: destruct (err c) as [[]|] eqn:Eerr; try solve [fin_tac].
    Show.
  Abort.
End flat_proofs.
