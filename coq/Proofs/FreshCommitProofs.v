(* C09, continued: how [FreshProofs.committed_fresh] is ESTABLISHED by the model's own
   `dud run; dud commit`.

   Part A  [resolve] is CacheDefs.[logical]; contents at every path from the logical tree
   Part B  a recorded checksum determines the contents, for DIRECTORY artifacts:
             short_top_dir_determines   recursive directory artifacts, SORTED workspaces
             cs_determines_all          every artifact of the index (files and recursive dirs)
           FALSE, with vm_compute counterexamples (module DetCex):
             - for non-recursive (disable-recursion) directory artifacts: sub-directories are
               not tracked, two matching workspaces differ below the artifact
               ([norec_not_determined]; the true statement is about CacheDefs.tracked_view:
               short_top_dir_tracked)
             - for workspaces whose entry lists have duplicate names ([unsorted_not_determined]):
               FreshProofs.cs_determines and committed_fresh quantify over ALL trees, so for
               directory artifacts they have to be relativised to well-formed trees:
               [cs_determines_on], [committed_fresh_on], [run_outputs_fresh_on] (Part C)
   Part C  the theorems of FreshProofs relativised to a predicate P on workspaces
   Part D  `dud commit` keeps the contents of the whole workspace, index level
           ([commit_targets_keeps_contents]: same [view] at every path, cache only grows; needs
           a workspace without dangling cache links and with sorted entry lists)
   Part E  [exec_content_only] (the command reads the project only through the contents of its
           inputs: two caches, two stage records that differ in checksums/flags only);
           [run_commit_fresh]: after `run; commit` every stage with a command that the run
           visited is fresh in the committed workspace, for the NEW index and the NEW cache
   Part F  [run_commit_establishes_committed_fresh_partial], [run_commit_run_outputs_fresh_partial]:
           the chain for arbitrary artifacts, with three premises about the RESULT of the commit
           left: [arts_match] (= `dud status` right after `dud commit` reports every recorded
           output / un-owned input up to date), [owned_below idx'], [cs_determines_on .. idx' c']
   Part F2 premises that only depend on paths move from the old index to the new one
           ([idx_wf_shape], [inputs_wf_shape], [owned_below_shape], [cpaths_apart_shape])
   Part F3 [arts_match] PROVED for indexes whose artifacts are all files
           ([commit_targets_arts_match_files]; invariant J over the commit traversal)
   Part F4 the COMPLETE chain for such indexes, no premise about the result of the commit:
           [run_commit_establishes_committed_fresh_files] (its conclusion restates every premise
           about the index for the new index, so it can be iterated) and
           [run_commit_run_outputs_fresh_files]: run; commit; any change of the workspace; run
           => every visited stage with a command is fresh in the final workspace.
   Part G  counterexamples (DetCex), the example chain (FreshCommitExamples with the snapshot
           premises computed; FilesExample with nothing computed on the result of the commit).

   What is still MISSING for directory artifacts (the _partial theorems keep it as premises):
     - [arts_match] after commit: needs status-after-commit at index level for entries that
       already contain cache links, the depth bound of Index.short_top (fuel 64), monotonicity
       of the directory status under cache growth, and frames for nested un-owned inputs;
     - [cs_determines_on] for the new cache needs [man_plain c'], which commit does not preserve
       in general (a committed file whose bytes decode as a manifest with flags; CommitProofs
       has it for [tame] trees);
     - disable-recursion directory artifacts are not determined at all (DetCex).
   Premises of the files theorems worth noticing: [H_has] (digests have >= 3 characters),
   [cpaths_apart] (committed paths pairwise equal or incomparable: two stages may share a source
   file, but no committed path lies inside another), no dangling cache link and sorted entry
   lists in the workspace that is committed, sorted entry lists in the final workspace. *)
From Coq Require Import NArith List Bool Lia Relations Sorted.
From DudV Require Import Base.Bytes Base.Json Base.GoPath Model.Fs Model.Cache Model.Stage Model.Index.
From DudV Require Import Proofs.CacheDefs.
From DudV Require Proofs.StatusProofs Proofs.CommitProofs.
From DudV Require Import Proofs.PipelineProofs Proofs.RunProofs Proofs.FreshProofs.
Import ListNotations.

(* the two cache invariants: CacheDefs.cache_ok (key = hash of the data, mode) implies
   FreshProofs.cache_ok (hash of the data = key) *)
Lemma cache_ok_fresh H c : CacheDefs.cache_ok H c -> FreshProofs.cache_ok H c.
Proof. intros Hc d o Hg. destruct (Hc d o Hg) as [Hd _]. symmetry. exact Hd. Qed.

(* ------------------------------------------------------------------------------------------ *)
(* Part A                                                                                      *)
(* ------------------------------------------------------------------------------------------ *)
Lemma resolve_logical c : forall n, resolve c n = logical c n.
Proof.
  fix IH 1. intros [b|d|t|es|]; try reflexivity.
  cbn [resolve logical]. f_equal. induction es as [|[k m] r IHr]; [reflexivity|].
  cbn [map fst snd]. rewrite IH, IHr. reflexivity.
Qed.

Lemma view_logical c r p : view c r p = get (logical c r) p.
Proof. unfold view. rewrite <- resolve_logical. symmetry. apply get_resolve. Qed.

Lemma blocked_logical c r p : blocked (logical c r) p = blocked r p.
Proof. rewrite <- resolve_logical. apply blocked_resolve. Qed.

Lemma view_some c r p n : get r p = Some n -> view c r p = Some (logical c n).
Proof. intros Hg. unfold view. rewrite Hg. cbn [option_map]. rewrite resolve_logical. reflexivity. Qed.

Lemma sorted_tree_get : forall p r n, sorted_tree r -> get r p = Some n -> sorted_tree n.
Proof.
  induction p as [|x p IH]; intros r n Hs Hg.
  - cbn [get] in Hg. inversion Hg; subst. exact Hs.
  - destruct r as [b|d|t|es|]; cbn [get] in Hg; try discriminate.
    destruct (alookup x es) as [m|] eqn:Hm; [|discriminate].
    eapply IH; [|exact Hg].
    destruct (StatusProofs.sorted_tree_dir es Hs) as [_ Hall].
    eapply Hall. eapply StatusProofs.alookup_In. exact Hm.
Qed.

(* ------------------------------------------------------------------------------------------ *)
(* Part B: directory artifacts                                                                 *)
(* ------------------------------------------------------------------------------------------ *)
Section DirDetermines.
  Variable H : bytes -> bytes.
  Variable c : cache.
  Hypothesis c_ok : CacheDefs.cache_ok H c.
  Hypothesis c_plain : man_plain c.

  Definition unskip (a : artifact) : artifact := mkArt (a_cs a) (a_path a) (a_isdir a) (a_norec a) false.

  (* the status of a directory artifact does not look at its skip-cache flag (plain inputs are
     recorded with the flag set) *)
  Lemma status_dir_unskip f a slot s :
    a_isdir a = true -> status_node H f a slot c = Ok s ->
    exists s', status_node H f (unskip a) slot c = Ok s' /\ st_cm s' = st_cm s.
  Proof.
    intros Hd Hs. destruct f as [|f]; [discriminate|].
    assert (Hd' : a_isdir (unskip a) = true) by exact Hd.
    destruct slot as [[b|d|t|es|]|].
    4:{ rewrite (StatusProofs.status_node_dir H f a es c Hd) in Hs.
        rewrite (StatusProofs.status_node_dir H f (unskip a) es c Hd').
        unfold StatusProofs.listed in *. cbn [unskip a_cs a_norec] in *. cbv zeta in *.
        match type of Hs with
        | match ?X with _ => _ end = _ => destruct X as [[[mc kids] cm]|]; [|discriminate]
        end.
        match type of Hs with
        | match ?X with _ => _ end = _ => destruct X as [|u us]
        end.
        - inversion Hs; subst. eexists. split; reflexivity.
        - match type of Hs with
          | match ?X with _ => _ end = _ => destruct X as [l|]; [|discriminate]
          end.
          inversion Hs; subst. eexists. split; reflexivity. }
    all: match type of Hs with
         | status_node _ _ _ ?sl _ = _ =>
           (destruct (StatusProofs.status_node_dir_other H f a sl c Hd) as [s1 [Hs1 Hc1]];
            [intros es; discriminate|]);
           (destruct (StatusProofs.status_node_dir_other H f (unskip a) sl c Hd') as [s2 [Hs2 Hc2]];
            [intros es; discriminate|]);
           rewrite Hs in Hs1; inversion Hs1; subst s1; exists s2; split; [exact Hs2|congruence]
         end.
  Qed.

  (* what a matching directory artifact says about the workspace *)
  Lemma short_top_dir_rhs a root :
    a_isdir a = true -> StatusProofs.norec_flat (unskip a) c ->
    sorted_tree root -> short_top H a root c = Ok true ->
    blocked root (comps (a_path a)) = false /\
    exists n, get root (comps (a_path a)) = Some n /\
              StatusProofs.status_rhs 64 (unskip a) n c.
  Proof.
    intros Hd Hflat Hsr Hst. unfold short_top, slot_of in Hst.
    destruct (blocked root (comps (a_path a))) eqn:Hbl; [discriminate|]. split; [reflexivity|].
    unfold status_short in Hst. rewrite Hd in Hst. unfold quick in Hst.
    destruct (negb (has_cs (a_cs a) && (has_cs (a_cs a) && in_cache c (a_cs a)))); [discriminate|].
    destruct (status_node H 64 a (get root (comps (a_path a))) c) as [s|] eqn:Hs; [|discriminate].
    inversion Hst as [Hcm]. clear Hst.
    destruct (get root (comps (a_path a))) as [n|] eqn:Hg.
    2:{ rewrite (StatusProofs.status_none H 64 a c s Hs) in Hcm. discriminate. }
    exists n. split; [reflexivity|].
    destruct (status_dir_unskip 64 a (Some n) s Hd Hs) as [s' [Hs' Hcm']].
    eapply (StatusProofs.status_sound H 64 (unskip a) n c s' c_ok c_plain);
      [eapply sorted_tree_get; eassumption|reflexivity|exact Hflat|exact Hs'|congruence].
  Qed.

  (* two sorted workspaces in which a directory artifact matches show the same tracked view *)
  Theorem short_top_dir_tracked a r1 r2 :
    a_isdir a = true -> StatusProofs.norec_flat (unskip a) c ->
    sorted_tree r1 -> sorted_tree r2 ->
    short_top H a r1 c = Ok true -> short_top H a r2 c = Ok true ->
    blocked r1 (comps (a_path a)) = blocked r2 (comps (a_path a)) /\
    exists n1 n2, get r1 (comps (a_path a)) = Some n1 /\ get r2 (comps (a_path a)) = Some n2 /\
                  tracked_view a (logical c n1) = tracked_view a (logical c n2).
  Proof.
    intros Hd Hflat Hs1 Hs2 H1 H2.
    destruct (short_top_dir_rhs a r1 Hd Hflat Hs1 H1) as [Hb1 [n1 [Hg1 [t1 [He1 [Ht1 _]]]]]].
    destruct (short_top_dir_rhs a r2 Hd Hflat Hs2 H2) as [Hb2 [n2 [Hg2 [t2 [He2 [Ht2 _]]]]]].
    split; [congruence|]. exists n1, n2. split; [exact Hg1|]. split; [exact Hg2|].
    assert (Htv : forall n, tracked_view a n = tracked_view (unskip a) n) by (intros n; reflexivity).
    rewrite !Htv. congruence.
  Qed.

  (* recursive directory artifacts: the contents at the path of the artifact are the same *)
  Theorem short_top_dir_determines a r1 r2 :
    a_isdir a = true -> a_norec a = false ->
    sorted_tree r1 -> sorted_tree r2 ->
    short_top H a r1 c = Ok true -> short_top H a r2 c = Ok true ->
    same_at c r1 r2 (comps (a_path a)).
  Proof.
    intros Hd Hnr Hs1 Hs2 H1 H2.
    assert (Hflat : StatusProofs.norec_flat (unskip a) c).
    { intros Hx. cbn [unskip a_norec] in Hx. congruence. }
    destruct (short_top_dir_tracked a r1 r2 Hd Hflat Hs1 Hs2 H1 H2) as [Hb [n1 [n2 [Hg1 [Hg2 Ht]]]]].
    rewrite !(StatusProofs.tracked_view_rec a _ Hnr) in Ht.
    split; [|exact Hb]. rewrite (view_some c r1 _ n1 Hg1), (view_some c r2 _ n2 Hg2), Ht. reflexivity.
  Qed.
End DirDetermines.

(* [cs_determines] relativised to a class of workspaces *)
Definition cs_determines_on (P : node -> Prop) (H : bytes -> bytes) (idx : index) (c : cache) : Prop :=
  forall sp stg b r1 r2,
    P r1 -> P r2 ->
    alookup sp idx = Some stg ->
    (In b (s_outputs stg) \/ (In b (s_inputs stg) /\ find_owner idx (a_path b) = None)) ->
    short_top H b r1 c = Ok true -> short_top H b r2 c = Ok true ->
    same_at c r1 r2 (comps (a_path b)).

Lemma cs_determines_on_weaken P H idx c : cs_determines H idx c -> cs_determines_on P H idx c.
Proof. intros Hd sp stg b r1 r2 _ _. apply Hd. Qed.

(* every artifact: files (FreshProofs.short_top_file_determines) and recursive directories *)
Theorem cs_determines_all H idx c :
  (forall x y, H x = H y -> x = y) -> CacheDefs.cache_ok H c -> man_plain c ->
  (forall sp stg b, alookup sp idx = Some stg -> In b (s_outputs stg ++ s_inputs stg) ->
                    a_isdir b = true -> a_norec b = false) ->
  cs_determines_on sorted_tree H idx c.
Proof.
  intros Hinj Hck Hmp Hrec sp stg b r1 r2 Hs1 Hs2 Hstg Hb H1 H2.
  destruct (a_isdir b) eqn:Hd.
  - eapply (short_top_dir_determines H c Hck Hmp); try eassumption.
    eapply Hrec; [exact Hstg| |exact Hd].
    apply in_or_app. destruct Hb as [Hb|[Hb _]]; [left|right]; exact Hb.
  - eapply short_top_file_determines; try eassumption. apply cache_ok_fresh. exact Hck.
Qed.


(* ------------------------------------------------------------------------------------------ *)
(* Part C: FreshProofs relativised to a class P of workspaces (P := sorted_tree below)          *)
(* ------------------------------------------------------------------------------------------ *)
Section FreshOn.
  Variable P : node -> Prop.
  Variable H : bytes -> bytes.
  Variable exec : bytes -> stage -> node -> cache -> res node.
  Variable idx : index.
  Variable c : cache.

  Definition committed_fresh_on : Prop :=
    forall sp stg root,
      P root -> alookup sp idx = Some stg -> s_cmd stg <> [] ->
      (forall s ss, upstream idx s sp -> alookup s idx = Some ss -> clean0 H idx c root ss) ->
      fresh exec c sp stg root.

  Lemma committed_fresh_on_weaken : committed_fresh H exec idx c -> committed_fresh_on.
  Proof. intros Hcf sp stg root _. apply Hcf. Qed.

  Theorem run_outputs_produced_on fuel ts root root' ran' log' :
    exec_framed exec idx c -> idx_wf idx -> inputs_wf idx -> committed_fresh_on ->
    run_targets H exec idx c true fuel ts (Ok (root, [], [])) = Ok (root', ran', log') ->
    P root' ->
    forall sp stg b,
      alookup sp ran' = Some b -> alookup sp idx = Some stg -> s_cmd stg <> [] ->
      produced exec c sp stg root'.
  Proof.
    intros framed wf inwf Hcf Hrun HP sp stg b Hb Hstg Hcmd.
    pose proof (C09_inv_preserved H exec idx c framed wf fuel ts root [] [] root' ran' log'
                                  (run_inv_init idx) (Inv_nil H idx c root) Hrun) as HI.
    destruct b.
    - apply made_produced.
      eapply (run_executed_made H exec idx c framed wf inwf); [exact Hrun| |exact Hstg].
      eapply (I_ran _ _ _ _ _ _ HI); eassumption.
    - apply fresh_produced. apply Hcf; [exact HP|exact Hstg|exact Hcmd|].
      intros s ss Hup Hss.
      assert (Hs : alookup s ran' = Some false).
      { destruct Hup as [Heq|Hp]; [subst s; exact Hb|]. eapply upstream_not_run; eassumption. }
      eapply clean_at_clean0. eapply (I_clean _ _ _ _ _ _ HI); eassumption.
  Qed.

  Theorem run_outputs_fresh_on fuel ts root root' ran' log' :
    exec_framed exec idx c -> idx_wf idx -> inputs_wf idx ->
    exec_functional exec idx c -> committed_fresh_on ->
    run_targets H exec idx c true fuel ts (Ok (root, [], [])) = Ok (root', ran', log') ->
    P root' ->
    forall sp stg b,
      alookup sp ran' = Some b -> alookup sp idx = Some stg -> s_cmd stg <> [] ->
      fresh exec c sp stg root'.
  Proof.
    intros framed wf inwf Hfun Hcf Hrun HP sp stg b Hb Hstg Hcmd.
    apply (produced_fresh exec idx c); [exact Hfun|exact Hstg|].
    eapply run_outputs_produced_on; eassumption.
  Qed.

  Hypothesis keys_nodup : NoDup (map fst idx).
  Hypothesis below : owned_below idx.
  Hypothesis determined : cs_determines_on P H idx c.

  Lemma clean0_same_on sp stg r1 r2 :
    P r1 -> P r2 ->
    alookup sp idx = Some stg ->
    (forall s ss, upstream idx s sp -> alookup s idx = Some ss -> clean0 H idx c r1 ss) ->
    (forall s ss, upstream idx s sp -> alookup s idx = Some ss -> clean0 H idx c r2 ss) ->
    (forall a, In a (s_inputs stg) -> same_at c r1 r2 (comps (a_path a))) /\
    (forall o, In o (s_outputs stg) -> same_at c r1 r2 (comps (a_path o))).
  Proof.
    intros HP1 HP2 Hstg H1 H2.
    pose proof (H1 sp stg (or_introl eq_refl) Hstg) as Hc1.
    pose proof (H2 sp stg (or_introl eq_refl) Hstg) as Hc2.
    split.
    - intros a Ha. destruct (find_owner idx (a_path a)) as [[op up]|] eqn:Hfo.
      + destruct (find_owner_lookup idx _ op up keys_nodup Hfo) as [sop [Hsop Hup]].
        assert (He : upstream idx op sp).
        { right. apply path_one. exists stg, a, up. split; [exact Hstg|]. split; assumption. }
        eapply same_at_below; [exact (below sp stg a op up Hstg Ha Hfo)|].
        eapply (determined op sop up r1 r2 HP1 HP2 Hsop); [left; exact Hup| |].
        * apply (c0_out _ _ _ _ _ (H1 op sop He Hsop)). exact Hup.
        * apply (c0_out _ _ _ _ _ (H2 op sop He Hsop)). exact Hup.
      + eapply (determined sp stg a r1 r2 HP1 HP2 Hstg); [right; split; assumption| |].
        * apply (c0_plain _ _ _ _ _ Hc1); assumption.
        * apply (c0_plain _ _ _ _ _ Hc2); assumption.
    - intros o Ho. eapply (determined sp stg o r1 r2 HP1 HP2 Hstg); [left; exact Ho| |].
      + apply (c0_out _ _ _ _ _ Hc1). exact Ho.
      + apply (c0_out _ _ _ _ _ Hc2). exact Ho.
  Qed.

  Theorem committed_fresh_intro_on snap :
    exec_functional exec idx c -> P snap ->
    (forall sp stg, alookup sp idx = Some stg -> clean0 H idx c snap stg) ->
    (forall sp stg, alookup sp idx = Some stg -> s_cmd stg <> [] -> fresh exec c sp stg snap) ->
    committed_fresh_on.
  Proof.
    intros Hfun HPs Hclean Hfresh sp stg root HPr Hstg Hcmd Hup.
    destruct (clean0_same_on sp stg snap root HPs HPr Hstg (fun s ss _ Hss => Hclean s ss Hss) Hup)
      as [Hin Hout].
    destruct (Hfresh sp stg Hstg Hcmd) as [r2 [Hex Hsame]].
    pose proof (Hfun sp stg snap root Hstg Hin) as Hf. rewrite Hex in Hf.
    destruct (exec sp stg root c) as [r2'|] eqn:Hex2; [|destruct Hf].
    exists r2'. split; [exact Hex2|]. intros o Ho.
    eapply same_at_trans; [apply same_at_sym; apply Hf; exact Ho|].
    eapply same_at_trans; [apply Hsame; exact Ho|apply Hout; exact Ho].
  Qed.
End FreshOn.


(* ------------------------------------------------------------------------------------------ *)
(* Part D: `dud commit` keeps the contents of the whole workspace                              *)
(* ------------------------------------------------------------------------------------------ *)
Lemma sorted_tree_Dir es :
  sorted_tree (Dir es) <-> StronglySorted key_lt es /\ Forall (fun e => sorted_tree (snd e)) es.
Proof.
  cbn [sorted_tree]. unfold sorted_entries.
  assert (Hall : (fix all (l : list (bytes * node)) : Prop :=
                    match l with [] => True | (_, ch) :: r => sorted_tree ch /\ all r end) es <->
                 Forall (fun e => sorted_tree (snd e)) es).
  { induction es as [|[k m] r IH].
    - split; [constructor|intros _; exact I].
    - split.
      + intros [Hm Hr]. constructor; [exact Hm|apply IH; exact Hr].
      + intros Hf. inversion Hf as [|e l Hm Hr]; subst. split; [exact Hm|apply IH; exact Hr]. }
  rewrite Hall. reflexivity.
Qed.

Lemma SS_keys (es es' : list (bytes * node)) :
  map fst es = map fst es' -> StronglySorted key_lt es -> StronglySorted key_lt es'.
Proof.
  revert es'. induction es as [|[k m] r IH]; intros [|[k' m'] r'] Hk Hs; try discriminate; [constructor|].
  cbn [map fst] in Hk. inversion Hk as [[Hk1 Hk2]]. subst k'.
  inversion Hs as [|e l Hr Hall]; subst. constructor; [apply IH; assumption|].
  apply Forall_forall. intros [k2 m2] Hin. unfold key_lt. cbn [fst].
  assert (Hin2 : In k2 (map fst r')) by (apply (in_map fst) in Hin; exact Hin).
  rewrite <- Hk2 in Hin2. apply in_map_iff in Hin2 as [[k3 m3] [Hk3 Hin3]]. cbn [fst] in Hk3. subst k3.
  rewrite Forall_forall in Hall. exact (Hall _ Hin3).
Qed.

Lemma sorted_tree_logical c : forall n, sorted_tree (logical c n) <-> sorted_tree n.
Proof.
  induction n as [b|d|t| |es IH] using CommitProofs.node_ind2; try reflexivity.
  - cbn [logical]. destruct (cget c d); split; intros _; exact I.
  - cbn [logical]. rewrite !sorted_tree_Dir.
    assert (Hk : map fst (map (fun e => (fst e, logical c (snd e))) es) = map fst es).
    { rewrite map_map. reflexivity. }
    assert (Hfa : Forall (fun e => sorted_tree (snd e)) (map (fun e => (fst e, logical c (snd e))) es) <->
                  Forall (fun e => sorted_tree (snd e)) es).
    { clear Hk. induction IH as [|e r He _ IHr]; [split; constructor|]. cbn [map]. split; intros Hf.
      - inversion Hf as [|e' l Hm Hr]; subst. cbn [snd] in Hm.
        constructor; [apply He; exact Hm|apply IHr; exact Hr].
      - inversion Hf as [|e' l Hm Hr]; subst.
        constructor; [cbn [snd]; apply He; exact Hm|apply IHr; exact Hr]. }
    split; intros [Hs Hf]; split.
    + eapply SS_keys; [exact Hk|exact Hs].
    + apply Hfa. exact Hf.
    + eapply SS_keys; [symmetry; exact Hk|exact Hs].
    + apply Hfa. exact Hf.
Qed.

(* replacing, in a sorted entry list, the entry of a name by one with the same logical tree *)
Lemma lmap_ins_same c x m m' : forall es,
  StronglySorted key_lt es -> alookup x es = Some m -> logical c m' = logical c m ->
  map (fun e => (fst e, logical c (snd e))) (ins_sorted x m' es) =
  map (fun e => (fst e, logical c (snd e))) es.
Proof.
  induction es as [|[k v] r IH]; intros Hs Hl Heq; [discriminate|].
  cbn [alookup] in Hl. cbn [ins_sorted]. inversion Hs as [|e l Hr Hall]; subst.
  destruct (beqb x k) eqn:Hxk.
  - apply beqb_eq in Hxk. subst k. inversion Hl; subst v. cbn [map fst snd]. rewrite Heq. reflexivity.
  - destruct (bltb x k) eqn:Hlt.
    + exfalso. apply StatusProofs.alookup_In in Hl. rewrite Forall_forall in Hall.
      specialize (Hall _ Hl). unfold key_lt in Hall. cbn [fst] in Hall.
      rewrite (CommitProofs.bltb_asym _ _ Hall) in Hlt. discriminate.
    + cbn [map]. rewrite (IH Hr Hl Heq). reflexivity.
Qed.

Lemma logical_put c n' : forall p root n root',
  sorted_tree root -> get root p = Some n -> put root p (Some n') = Some root' ->
  logical c n' = logical c n -> logical c root' = logical c root.
Proof.
  induction p as [|x q IH]; intros root n root' Hs Hg Hp Heq.
  - cbn [get] in Hg. cbn [put] in Hp. inversion Hg; inversion Hp; subst. exact Heq.
  - destruct root as [b|d|t|es|]; cbn [get] in Hg; try discriminate.
    destruct (alookup x es) as [m|] eqn:Hm; [|discriminate].
    apply sorted_tree_Dir in Hs as [Hss Hsf].
    assert (Hsm : sorted_tree m).
    { rewrite Forall_forall in Hsf. apply (Hsf (x, m)). apply StatusProofs.alookup_In. exact Hm. }
    assert (Hgo : exists m', root' = Dir (ins_sorted x m' es) /\ logical c m' = logical c m).
    { cbn [put] in Hp. rewrite Hm in Hp. destruct q as [|y q].
      - cbn [get] in Hg. inversion Hg; subst m. inversion Hp; subst. exists n'. split; [reflexivity|exact Heq].
      - destruct (put m (y :: q) (Some n')) as [m'|] eqn:Hpm; [|discriminate].
        inversion Hp; subst. exists m'. split; [reflexivity|]. eapply IH; eassumption. }
    destruct Hgo as [m' [Hr' Hlm]]. subst root'. cbn [logical]. f_equal.
    eapply lmap_ins_same; eassumption.
Qed.

Lemma resolved_get c : forall p root n,
  CommitProofs.resolved c root -> get root p = Some n -> CommitProofs.resolved c n.
Proof.
  induction p as [|x q IH]; intros root n Hr Hg.
  - cbn [get] in Hg. inversion Hg; subst. exact Hr.
  - destruct root as [b|d|t|es|]; cbn [get] in Hg; try discriminate.
    destruct (alookup x es) as [m|] eqn:Hm; [|discriminate].
    inversion Hr as [| | | |es' Hes]; subst. rewrite Forall_forall in Hes.
    eapply IH; [|exact Hg]. apply (Hes (x, m)). apply StatusProofs.alookup_In. exact Hm.
Qed.

Lemma resolved_put c n' : forall p root n root',
  CommitProofs.resolved c root -> CommitProofs.resolved c n' ->
  get root p = Some n -> put root p (Some n') = Some root' -> CommitProofs.resolved c root'.
Proof.
  induction p as [|x q IH]; intros root n root' Hr Hn Hg Hp.
  - cbn [put] in Hp. inversion Hp; subst. exact Hn.
  - destruct root as [b|d|t|es|]; cbn [get] in Hg; try discriminate.
    destruct (alookup x es) as [m|] eqn:Hm; [|discriminate].
    inversion Hr as [| | | |es' Hes]; subst.
    assert (Hrm : CommitProofs.resolved c m).
    { rewrite Forall_forall in Hes. apply (Hes (x, m)). apply StatusProofs.alookup_In. exact Hm. }
    assert (Hgo : exists m', root' = Dir (ins_sorted x m' es) /\ CommitProofs.resolved c m').
    { cbn [put] in Hp. rewrite Hm in Hp. destruct q as [|y q].
      - inversion Hp; subst. exists n'. split; [reflexivity|exact Hn].
      - destruct (put m (y :: q) (Some n')) as [m'|] eqn:Hpm; [|discriminate].
        inversion Hp; subst. exists m'. split; [reflexivity|]. eapply IH; eassumption. }
    destruct Hgo as [m' [Hr' Hrm']]. subst root'. constructor. apply Forall_forall.
    intros e He. apply CommitProofs.in_ins_sorted in He as [He|He]; [subst e; exact Hrm'|].
    rewrite Forall_forall in Hes. apply Hes. exact He.
Qed.

Definition stage_like (s s' : stage) : Prop :=
  s_cmd s = s_cmd s' /\ s_wd s = s_wd s' /\
  map a_path (s_inputs s) = map a_path (s_inputs s') /\
  map a_path (s_outputs s) = map a_path (s_outputs s').

Lemma stage_like_refl s : stage_like s s.
Proof. repeat split. Qed.
Lemma stage_like_trans s1 s2 s3 : stage_like s1 s2 -> stage_like s2 s3 -> stage_like s1 s3.
Proof. intros [A [B [C D]]] [A' [B' [C' D']]]. repeat split; congruence. Qed.
Lemma stage_like_sym s1 s2 : stage_like s1 s2 -> stage_like s2 s1.
Proof. intros [A [B [C D]]]. repeat split; congruence. Qed.

(* every stage of idx' is a stage of idx, up to recorded checksums and flags *)
Definition idx_rel (idx idx' : index) : Prop :=
  forall sp stg', alookup sp idx' = Some stg' ->
                  exists stg, alookup sp idx = Some stg /\ stage_like stg stg'.

Lemma idx_rel_refl idx : idx_rel idx idx.
Proof. intros sp stg Hs. exists stg. split; [exact Hs|apply stage_like_refl]. Qed.
Lemma idx_rel_trans i1 i2 i3 : idx_rel i1 i2 -> idx_rel i2 i3 -> idx_rel i1 i3.
Proof.
  intros H12 H23 sp s3 Hs3. destruct (H23 sp s3 Hs3) as [s2 [Hs2 L23]].
  destruct (H12 sp s2 Hs2) as [s1 [Hs1 L12]]. exists s1. split; [exact Hs1|].
  eapply stage_like_trans; eassumption.
Qed.

Section CommitKeeps.
  Variable H : bytes -> bytes.
  Variable strat : strategy.
  Hypothesis Hinj : H_inj H.

  (* relative to a state that is content-addressed, without dangling links, and sorted *)
  Definition keeps (c : cache) (root : node) (c' : cache) (root' : node) : Prop :=
    CacheDefs.cache_ok H c -> CommitProofs.resolved c root -> sorted_tree root ->
    CacheDefs.cache_ok H c' /\ cache_le c c' /\ CommitProofs.resolved c' root' /\ sorted_tree root' /\
    logical c' root' = logical c root.

  Lemma keeps_refl c root : keeps c root c root.
  Proof.
    intros Hc Hr Hs. split; [exact Hc|]. split; [apply CommitProofs.cache_le_refl|].
    split; [exact Hr|]. split; [exact Hs|reflexivity].
  Qed.

  Lemma keeps_trans c1 r1 c2 r2 c3 r3 : keeps c1 r1 c2 r2 -> keeps c2 r2 c3 r3 -> keeps c1 r1 c3 r3.
  Proof.
    intros K12 K23 Hc Hr Hs. destruct (K12 Hc Hr Hs) as [Hc2 [L12 [Hr2 [Hs2 E12]]]].
    destruct (K23 Hc2 Hr2 Hs2) as [Hc3 [L23 [Hr3 [Hs3 E23]]]].
    split; [exact Hc3|]. split; [eapply CommitProofs.cache_le_trans; eassumption|].
    split; [exact Hr3|]. split; [exact Hs3|congruence].
  Qed.

  Lemma commit_top_keeps a root c root' c' a' :
    commit_top H a root c strat = Ok (root', c', a') -> keeps c root c' root'.
  Proof.
    unfold commit_top, slot_of. destruct (blocked root (comps (a_path a))); [discriminate|].
    destruct (get root (comps (a_path a))) as [n|] eqn:Hg; [|discriminate].
    cbn [commit_art]. destruct (commit_node H a n c strat) as [[[n' c1] a1]|] eqn:Hn; [|discriminate].
    destruct (put root (comps (a_path a)) (Some n')) as [root1|] eqn:Hp; [|discriminate].
    intros Hok. inversion Hok; subst root1 c1 a1. clear Hok. intros Hc Hr Hs.
    pose proof (resolved_get c _ _ _ Hr Hg) as Hrn.
    destruct (CommitProofs.commit_logical_resolved H Hinj _ _ _ _ _ _ _ Hc Hrn Hn) as [El Rn'].
    destruct (CommitProofs.commit_cache_ok H Hinj _ _ _ _ _ _ _ Hc Hn) as [Hc' Hle].
    assert (Elog : logical c' root' = logical c root).
    { rewrite <- (CommitProofs.logical_le c c' root Hle Hr).
      eapply logical_put; [exact Hs|exact Hg|exact Hp|].
      rewrite El. symmetry. apply CommitProofs.logical_le; assumption. }
    split; [exact Hc'|]. split; [exact Hle|]. split.
    - eapply resolved_put; [exact (CommitProofs.resolved_le _ _ _ Hle Hr)|exact Rn'|exact Hg|exact Hp].
    - split; [|exact Elog]. apply (sorted_tree_logical c'). rewrite Elog. apply sorted_tree_logical. exact Hs.
  Qed.

  Lemma commit_arts_keeps : forall arts fs root c l root' c',
    commit_arts H arts fs root c strat = Ok (l, root', c') -> keeps c root c' root'.
  Proof.
    induction arts as [|a r IH]; intros fs root c l root' c'; cbn [commit_arts].
    - intros Hok. inversion Hok; subst. apply keeps_refl.
    - match goal with |- match ?X with _ => _ end = _ -> _ => destruct X as [[[root1 c1] a1]|] eqn:Et end;
        [|discriminate].
      destruct (commit_arts H r fs root1 c1 strat) as [[[l2 root2] c2]|] eqn:Er; [|discriminate].
      intros Hok. inversion Hok; subst.
      eapply keeps_trans; [eapply commit_top_keeps; exact Et|eapply IH; exact Er].
  Qed.

  Definition K (st st' : istate) : Prop :=
    keeps (i_cache st) (i_root st) (i_cache st') (i_root st') /\ idx_rel (i_idx st) (i_idx st').

  Lemma K_refl st : K st st.
  Proof. split; [apply keeps_refl|apply idx_rel_refl]. Qed.
  Lemma K_trans s1 s2 s3 : K s1 s2 -> K s2 s3 -> K s1 s3.
  Proof. intros [A B] [A' B']. split; [eapply keeps_trans; eassumption|eapply idx_rel_trans; eassumption]. Qed.

  Definition K_spec (f : nat) (stack : list bytes) : Prop :=
    forall st done sp st' done', commit_stage H f st strat done stack sp = Ok (st', done') -> K st st'.

  Lemma cm_ins_K f stack : K_spec f stack ->
    forall arts st done owned plain st' done',
      cm_ins H strat f stack arts st done = Ok (owned, plain, st', done') -> K st st'.
  Proof.
    intros IH. induction arts as [|a r IHr]; intros st done owned plain st' done' Hrun; cbn [cm_ins] in Hrun.
    - inversion Hrun; subst. apply K_refl.
    - destruct (find_owner (i_idx st) (a_path a)) as [[op up]|].
      + destruct (commit_stage H f st strat done stack op) as [[st1 done1]|] eqn:Hsub; [|discriminate].
        destruct (cm_ins H strat f stack r st1 done1) as [[[[o2 p2] st2] done2]|] eqn:Hrest; [|discriminate].
        inversion Hrun; subst. eapply K_trans; [eapply IH; exact Hsub|eapply IHr; exact Hrest].
      + destruct (cm_ins H strat f stack r st done) as [[[[o2 p2] st2] done2]|] eqn:Hrest; [|discriminate].
        inversion Hrun; subst. eapply IHr; exact Hrest.
  Qed.

  Lemma K_post : forall f stack, K_spec f stack.
  Proof.
    induction f as [|f IH]; intros stack st done sp st' done' Hrun; [discriminate|].
    rewrite commit_stage_S in Hrun.
    destruct (mem sp done). { inversion Hrun; subst. apply K_refl. }
    destruct (mem sp stack); [discriminate|].
    destruct (alookup sp (i_idx st)) as [stg|] eqn:Hstg; [|discriminate].
    unfold cm_finish in Hrun.
    destruct (cm_ins H strat f (sp :: stack) (s_inputs stg) st done) as [[[[owned plain] st1] done1]|] eqn:Hins;
      [|discriminate].
    destruct (commit_arts H plain true (i_root st1) (i_cache st1) strat) as [[[plain' root2] c2]|] eqn:E1;
      [|discriminate].
    destruct (commit_arts H (s_outputs stg) false root2 c2 strat) as [[[outs' root3] c3]|] eqn:E2;
      [|discriminate].
    cbv zeta in Hrun. inversion Hrun; subst st' done'. clear Hrun.
    destruct (cm_ins_K f (sp :: stack) (IH (sp :: stack)) _ _ _ _ _ _ _ Hins) as [Kc Ki].
    split; cbn [i_cache i_root i_idx].
    - eapply keeps_trans; [exact Kc|].
      eapply keeps_trans; [eapply commit_arts_keeps; exact E1|eapply commit_arts_keeps; exact E2].
    - intros sp' stg' Hl. unfold set_stage in Hl. rewrite PipelineProofs.alookup_ins_sorted in Hl.
      destruct (beqb sp' sp) eqn:Hb.
      + apply beqb_eq in Hb. subst sp'. inversion Hl; subst stg'. exists stg. split; [exact Hstg|].
        split; [reflexivity|]. split; [reflexivity|]. cbn [s_inputs s_outputs]. split.
        * symmetry. apply fold_art_set_paths.
        * pose proof (commit_arts_shape H strat _ _ _ _ _ _ _ E2) as Hsh.
          unfold oshape in Hsh. apply (f_equal (map fst)) in Hsh. rewrite !map_map in Hsh.
          cbn [fst] in Hsh. symmetry. exact Hsh.
      + apply Ki. exact Hl.
  Qed.

  Lemma commit_targets_K fuel : forall ts st done st' done',
    commit_targets H strat fuel ts (Ok (st, done)) = Ok (st', done') -> K st st'.
  Proof.
    induction ts as [|t r IH]; intros st done st' done' Hrun.
    - inversion Hrun; subst. apply K_refl.
    - rewrite commit_targets_cons in Hrun.
      destruct (commit_stage H fuel st strat done [] t) as [[st1 done1]|] eqn:Hone.
      2:{ rewrite commit_targets_Err in Hrun. discriminate. }
      eapply K_trans; [eapply K_post; exact Hone|eapply IH; exact Hrun].
  Qed.

  (* `dud commit`: same contents at every path, the cache only grows *)
  Theorem commit_targets_keeps_contents fuel ts idx root c idx' snap c' done :
    CacheDefs.cache_ok H c -> CommitProofs.resolved c root -> sorted_tree root ->
    commit_targets H strat fuel ts (Ok (mkI idx root c, [])) = Ok (mkI idx' snap c', done) ->
    CacheDefs.cache_ok H c' /\ cache_le c c' /\ sorted_tree snap /\ idx_rel idx idx' /\
    forall p, view c' snap p = view c root p /\ blocked snap p = blocked root p.
  Proof.
    intros Hc Hr Hs Hrun. destruct (commit_targets_K fuel ts _ _ _ _ Hrun) as [Kc Ki].
    cbn [i_cache i_root i_idx] in Kc, Ki.
    destruct (Kc Hc Hr Hs) as [Hc' [Hle [_ [Hs' El]]]].
    split; [exact Hc'|]. split; [exact Hle|]. split; [exact Hs'|]. split; [exact Ki|].
    intros p. split.
    - rewrite !view_logical, El. reflexivity.
    - rewrite <- (blocked_logical c' snap), <- (blocked_logical c root), El. reflexivity.
  Qed.
End CommitKeeps.

(* ------------------------------------------------------------------------------------------ *)
(* Part E: after `run; commit` every stage with a command is fresh in the committed workspace   *)
(* ------------------------------------------------------------------------------------------ *)
(* the same contents at p, each workspace read through its own cache *)
Definition same_at2 (c1 : cache) (r1 : node) (c2 : cache) (r2 : node) (p : list bytes) : Prop :=
  view c1 r1 p = view c2 r2 p /\ blocked r1 p = blocked r2 p.

(* the command of a stage of idx looks at the project only through the CONTENTS of its inputs:
   not at the cache (except by following links), not at the recorded checksums or flags *)
Definition exec_content_only (exec : bytes -> stage -> node -> cache -> res node) (idx : index) : Prop :=
  forall sp s1 s2 r1 r2 c1 c2,
    alookup sp idx = Some s1 -> stage_like s1 s2 ->
    (forall p, In p (map a_path (s_inputs s1)) -> same_at2 c1 r1 c2 r2 (comps p)) ->
    match exec sp s1 r1 c1, exec sp s2 r2 c2 with
    | Ok r1', Ok r2' => forall p, In p (map a_path (s_outputs s1)) -> same_at2 c1 r1' c2 r2' (comps p)
    | Err, Err => True
    | _, _ => False
    end.

Lemma content_only_functional exec idx idx' c :
  exec_content_only exec idx -> idx_rel idx idx' -> exec_functional exec idx' c.
Proof.
  intros Hco Hrel sp s' r1 r2 Hs' Hin.
  destruct (Hrel sp s' Hs') as [s [Hs Hlike]].
  pose proof Hlike as [_ [_ [Hpi Hpo]]].
  pose proof (Hco sp s s' r1 r1 c c Hs Hlike (fun p _ => conj eq_refl eq_refl)) as HA.
  assert (Hin2 : forall p, In p (map a_path (s_inputs s)) -> same_at2 c r1 c r2 (comps p)).
  { intros p Hp. rewrite Hpi in Hp. apply in_map_iff in Hp as [a [Hpa Ha]]. subst p. apply Hin. exact Ha. }
  pose proof (Hco sp s s' r1 r2 c c Hs Hlike Hin2) as HB.
  destruct (exec sp s r1 c) as [q|]; destruct (exec sp s' r1 c) as [q1|]; try contradiction;
    destruct (exec sp s' r2 c) as [q2|]; try contradiction; try exact I.
  intros o Ho. assert (Hp : In (a_path o) (map a_path (s_outputs s))).
  { rewrite Hpo. apply in_map. exact Ho. }
  destruct (HA _ Hp) as [Va Ba]. destruct (HB _ Hp) as [Vb Bb]. split; congruence.
Qed.

(* when the targets of the run cover the index (`dud run` without arguments) every stage is visited;
   so is everything upstream of a target (PipelineProofs.C08_scope is the converse) *)
Lemma targets_cover_visited H exec idx c fuel ts root root1 ran1 log1 :
  (forall sp, In sp (map fst idx) -> In sp ts) ->
  run_targets H exec idx c true fuel ts (Ok (root, [], [])) = Ok (root1, ran1, log1) ->
  forall sp stg, alookup sp idx = Some stg -> alookup sp ran1 <> None.
Proof.
  intros Hall Hrun sp stg Hstg.
  destruct (run_targets_post H exec idx c true True fuel ts _ _ _ _ _ _ _ (W_nil idx true True) Hrun)
    as [fin [Hpost Hts]].
  apply (W_dom _ _ _ _ _ _ (P_W _ _ _ _ _ _ _ _ _ _ _ Hpost)). apply Hts. apply Hall.
  eapply alookup_Some_In. exact Hstg.
Qed.

Section RunCommit.
  Variable H : bytes -> bytes.
  Variable exec : bytes -> stage -> node -> cache -> res node.
  Variable strat : strategy.
  Variable P : node -> Prop.
  Variable idx : index.
  Variable c : cache.

  Hypothesis Hinj : H_inj H.
  Hypothesis content_only : exec_content_only exec idx.
  Hypothesis framed : exec_framed exec idx c.
  Hypothesis wf : idx_wf idx.
  Hypothesis inwf : inputs_wf idx.
  Hypothesis before : committed_fresh_on P H exec idx c.

  Theorem run_commit_fresh fuel ts root root1 ran1 log1 fuel2 ts2 idx' snap c' done :
    (forall sp stg, alookup sp idx = Some stg -> s_cmd stg <> [] -> alookup sp ran1 <> None) ->
    run_targets H exec idx c true fuel ts (Ok (root, [], [])) = Ok (root1, ran1, log1) ->
    P root1 -> CacheDefs.cache_ok H c -> CommitProofs.resolved c root1 -> sorted_tree root1 ->
    commit_targets H strat fuel2 ts2 (Ok (mkI idx root1 c, [])) = Ok (mkI idx' snap c', done) ->
    forall sp stg', alookup sp idx' = Some stg' -> s_cmd stg' <> [] -> fresh exec c' sp stg' snap.
  Proof.
    intros Hall Hrun HP Hc Hres Hsort Hcommit sp stg' Hstg' Hcmd'.
    destruct (commit_targets_keeps_contents H strat Hinj _ _ _ _ _ _ _ _ _ Hc Hres Hsort Hcommit)
      as [Hc' [Hle [Hs' [Hrel Hview]]]].
    destruct (Hrel sp stg' Hstg') as [stg [Hstg Hlike]].
    pose proof Hlike as [Hcmd [_ [Hpi Hpo]]].
    (* the stage was visited by the run *)
    assert (Hvis : alookup sp ran1 <> None).
    { eapply Hall; [exact Hstg|]. rewrite Hcmd. exact Hcmd'. }
    destruct (alookup sp ran1) as [b|] eqn:Hb; [|congruence].
    assert (Hprod : produced exec c sp stg root1).
    { eapply (run_outputs_produced_on P H exec idx c); try eassumption. rewrite Hcmd. exact Hcmd'. }
    destruct Hprod as [r0 [r0' [Hex [Hin Hout]]]].
    assert (Hin2 : forall p, In p (map a_path (s_inputs stg)) -> same_at2 c r0 c' snap (comps p)).
    { intros p Hp. apply in_map_iff in Hp as [a [Hpa Ha]]. subst p.
      destruct (Hin a Ha) as [Hv Hbl]. destruct (Hview (comps (a_path a))) as [Hv2 Hb2].
      split; congruence. }
    pose proof (content_only sp stg stg' r0 snap c c' Hstg Hlike Hin2) as Hf. rewrite Hex in Hf.
    destruct (exec sp stg' snap c') as [r2|] eqn:Hex2; [|destruct Hf].
    exists r2. split; [exact Hex2|]. intros o' Ho'.
    assert (Hp : In (a_path o') (map a_path (s_outputs stg))).
    { rewrite Hpo. apply in_map. exact Ho'. }
    destruct (Hf _ Hp) as [Hv1 Hb1].
    apply in_map_iff in Hp as [o [Hpo' Ho]].
    destruct (Hout o Ho) as [Hv2 Hb2]. rewrite Hpo' in Hv2, Hb2.
    destruct (Hview (comps (a_path o'))) as [Hv3 Hb3].
    split; congruence.
  Qed.
End RunCommit.

(* ------------------------------------------------------------------------------------------ *)
(* Part F: `run; commit` establishes committed_fresh                                            *)
(* ------------------------------------------------------------------------------------------ *)
(* what `dud status` reports right after `dud commit`: every recorded output and every recorded
   un-owned input matches the workspace *)
Definition arts_match (H : bytes -> bytes) (idx : index) (c : cache) (root : node) : Prop :=
  forall sp stg b,
    alookup sp idx = Some stg ->
    (In b (s_outputs stg) \/ (In b (s_inputs stg) /\ find_owner idx (a_path b) = None)) ->
    short_top H b root c = Ok true.

Lemma all_clean_arts_match H idx c root :
  (forall sp stg, alookup sp idx = Some stg -> clean0 H idx c root stg) -> arts_match H idx c root.
Proof.
  intros Hall sp stg b Hstg [Hb|[Hb Hfo]].
  - apply (c0_out _ _ _ _ _ (Hall sp stg Hstg)). exact Hb.
  - apply (c0_plain _ _ _ _ _ (Hall sp stg Hstg)); assumption.
Qed.

Section IntroMatch.
  Variable P : node -> Prop.
  Variable H : bytes -> bytes.
  Variable exec : bytes -> stage -> node -> cache -> res node.
  Variable idx : index.
  Variable c : cache.
  Hypothesis keys_nodup : NoDup (map fst idx).
  Hypothesis below : owned_below idx.
  Hypothesis determined : cs_determines_on P H idx c.

  (* committed_fresh_intro_on with the snapshot premise reduced to [arts_match] (the recorded
     definition checksums and the checksums recorded for owned inputs play no role) *)
  Theorem committed_fresh_intro_match snap :
    exec_functional exec idx c -> P snap -> arts_match H idx c snap ->
    (forall sp stg, alookup sp idx = Some stg -> s_cmd stg <> [] -> fresh exec c sp stg snap) ->
    committed_fresh_on P H exec idx c.
  Proof.
    intros Hfun HPs Hmatch Hfresh sp stg root HPr Hstg Hcmd Hup.
    pose proof (Hup sp stg (or_introl eq_refl) Hstg) as Hc2.
    assert (Hin : forall a, In a (s_inputs stg) -> same_at c snap root (comps (a_path a))).
    { intros a Ha. destruct (find_owner idx (a_path a)) as [[op up]|] eqn:Hfo.
      - destruct (find_owner_lookup idx _ op up keys_nodup Hfo) as [sop [Hsop Hupo]].
        assert (He : upstream idx op sp).
        { right. apply path_one. exists stg, a, up. split; [exact Hstg|]. split; assumption. }
        eapply same_at_below; [exact (below sp stg a op up Hstg Ha Hfo)|].
        eapply (determined op sop up snap root HPs HPr Hsop); [left; exact Hupo| |].
        + apply (Hmatch op sop up Hsop). left. exact Hupo.
        + apply (c0_out _ _ _ _ _ (Hup op sop He Hsop)). exact Hupo.
      - eapply (determined sp stg a snap root HPs HPr Hstg); [right; split; assumption| |].
        + apply (Hmatch sp stg a Hstg). right. split; assumption.
        + apply (c0_plain _ _ _ _ _ Hc2); assumption. }
    assert (Hout : forall o, In o (s_outputs stg) -> same_at c snap root (comps (a_path o))).
    { intros o Ho. eapply (determined sp stg o snap root HPs HPr Hstg); [left; exact Ho| |].
      - apply (Hmatch sp stg o Hstg). left. exact Ho.
      - apply (c0_out _ _ _ _ _ Hc2). exact Ho. }
    destruct (Hfresh sp stg Hstg Hcmd) as [r2 [Hex Hsame]].
    pose proof (Hfun sp stg snap root Hstg Hin) as Hf. rewrite Hex in Hf.
    destruct (exec sp stg root c) as [r2'|] eqn:Hex2; [|destruct Hf].
    exists r2'. split; [exact Hex2|]. intros o Ho.
    eapply same_at_trans; [apply same_at_sym; apply Hf; exact Ho|].
    eapply same_at_trans; [apply Hsame; exact Ho|apply Hout; exact Ho].
  Qed.
End IntroMatch.

(* sorted stage paths are distinct *)
Lemma ksorted_NoDup ks : PipelineProofs.ksorted ks -> NoDup ks.
Proof.
  induction ks as [|k r IH]; intros Hs; [constructor|]. destruct Hs as [Hlt Hr].
  constructor; [|apply IH; exact Hr]. intros Hin. specialize (Hlt k Hin).
  rewrite CommitProofs.bltb_irrefl in Hlt. discriminate.
Qed.

Section Establish2.
  Variable H : bytes -> bytes.
  Variable exec : bytes -> stage -> node -> cache -> res node.
  Variable strat : strategy.
  Variable idx : index.
  Variable c : cache.

  Hypothesis Hinj : H_inj H.
  Hypothesis content_only : exec_content_only exec idx.
  Hypothesis framed : exec_framed exec idx c.
  Hypothesis wf : idx_wf idx.
  Hypothesis inwf : inputs_wf idx.
  Hypothesis keys_sorted : PipelineProofs.ksorted (map fst idx).
  (* the induction hypothesis: the previous commit was made after a successful run (for an index
     without recorded checksums it holds vacuously: [committed_fresh_initial]) *)
  Hypothesis before : committed_fresh_on sorted_tree H exec idx c.

  (* PARTIAL: the premises marked [*] speak about the RESULT of the commit; see the end of the file
     for what is proved about them *)
  Theorem run_commit_establishes_committed_fresh_partial
          fuel ts root root1 ran1 log1 fuel2 ts2 idx' snap c' done :
    (forall sp stg, alookup sp idx = Some stg -> s_cmd stg <> [] -> alookup sp ran1 <> None) ->
    run_targets H exec idx c true fuel ts (Ok (root, [], [])) = Ok (root1, ran1, log1) ->
    CacheDefs.cache_ok H c -> CommitProofs.resolved c root1 -> sorted_tree root1 ->
    commit_targets H strat fuel2 ts2 (Ok (mkI idx root1 c, [])) = Ok (mkI idx' snap c', done) ->
    arts_match H idx' c' snap ->                                   (* the missing link *)
    owned_below idx' ->                                            (* [*] *)
    cs_determines_on sorted_tree H idx' c' ->                      (* [*] cs_determines_all *)
    committed_fresh_on sorted_tree H exec idx' c'.
  Proof.
    intros Hall Hrun Hc Hres Hsort Hcommit Hmatch Hbelow Hdet.
    destruct (commit_targets_keeps_contents H strat Hinj _ _ _ _ _ _ _ _ _ Hc Hres Hsort Hcommit)
      as [Hc' [Hle [Hs' [Hrel _]]]].
    assert (Hkeys : NoDup (map fst idx')).
    { assert (Hinv0 : cm_inv idx (mkI idx root1 c) []) by (split; [apply ishape_refl|apply core_nil]).
      destruct (commit_targets_post H strat idx keys_sorted fuel2 ts2 _ _ _ _ Hinv0 Hcommit) as [[Hish _] _].
      cbn [i_idx] in Hish. rewrite <- (ishape_keys _ _ Hish). apply ksorted_NoDup. exact keys_sorted. }
    apply (committed_fresh_intro_match sorted_tree H exec idx' c' Hkeys Hbelow Hdet snap).
    - eapply content_only_functional; eassumption.
    - exact Hs'.
    - exact Hmatch.
    - eapply (run_commit_fresh H exec strat sorted_tree idx c Hinj content_only framed wf inwf before);
        eassumption.
  Qed.

  (* run; commit; ANY later workspace (source files edited, files deleted ...); run: every
     visited stage that has a command is fresh in the final workspace *)
  Corollary run_commit_run_outputs_fresh_partial
            fuel ts root root1 ran1 log1 fuel2 ts2 idx' snap c' done
            fuel3 ts3 root2 root3 ran3 log3 :
    (forall sp stg, alookup sp idx = Some stg -> s_cmd stg <> [] -> alookup sp ran1 <> None) ->
    run_targets H exec idx c true fuel ts (Ok (root, [], [])) = Ok (root1, ran1, log1) ->
    CacheDefs.cache_ok H c -> CommitProofs.resolved c root1 -> sorted_tree root1 ->
    commit_targets H strat fuel2 ts2 (Ok (mkI idx root1 c, [])) = Ok (mkI idx' snap c', done) ->
    arts_match H idx' c' snap -> owned_below idx' -> cs_determines_on sorted_tree H idx' c' ->
    exec_framed exec idx' c' -> idx_wf idx' -> inputs_wf idx' ->
    run_targets H exec idx' c' true fuel3 ts3 (Ok (root2, [], [])) = Ok (root3, ran3, log3) ->
    sorted_tree root3 ->
    forall sp stg b,
      alookup sp ran3 = Some b -> alookup sp idx' = Some stg -> s_cmd stg <> [] ->
      fresh exec c' sp stg root3.
  Proof.
    intros Hall Hrun Hc Hres Hsort Hcommit Hmatch Hbelow Hdet Hfr' Hwf' Hinwf' Hrun3 Hs3.
    destruct (commit_targets_keeps_contents H strat Hinj _ _ _ _ _ _ _ _ _ Hc Hres Hsort Hcommit)
      as [_ [_ [_ [Hrel _]]]].
    eapply (run_outputs_fresh_on sorted_tree H exec idx' c'); try eassumption.
    - eapply content_only_functional; eassumption.
    - eapply run_commit_establishes_committed_fresh_partial; eassumption.
  Qed.
End Establish2.

(* the base case: no stage has a recorded definition checksum yet *)
Lemma committed_fresh_initial P H exec idx c :
  (forall sp stg, alookup sp idx = Some stg -> s_cs stg = []) -> committed_fresh_on P H exec idx c.
Proof.
  intros Hno sp stg root _ Hstg _ Hup. exfalso.
  destruct (c0_def _ _ _ _ _ (Hup sp stg (or_introl eq_refl) Hstg)) as [Hne _].
  apply Hne. eapply Hno. exact Hstg.
Qed.

(* ------------------------------------------------------------------------------------------ *)
(* Part F2: the premises about the new index that only depend on paths follow from the same    *)
(* premises about the old index                                                                *)
(* ------------------------------------------------------------------------------------------ *)
Lemma like_outputs s s' o' :
  stage_like s s' -> In o' (s_outputs s') -> exists o, In o (s_outputs s) /\ a_path o = a_path o'.
Proof.
  intros [_ [_ [_ Hpo]]] Ho. apply (in_map a_path) in Ho. rewrite <- Hpo in Ho.
  apply in_map_iff in Ho as [o [Hp Hin]]. exists o. split; assumption.
Qed.

Lemma like_inputs s s' a' :
  stage_like s s' -> In a' (s_inputs s') -> exists a, In a (s_inputs s) /\ a_path a = a_path a'.
Proof.
  intros [_ [_ [Hpi _]]] Ha. apply (in_map a_path) in Ha. rewrite <- Hpi in Ha.
  apply in_map_iff in Ha as [a [Hp Hin]]. exists a. split; assumption.
Qed.

Lemma own_none idx idx' p : ishape idx idx' -> find_owner idx' p = None -> find_owner idx p = None.
Proof.
  intros Hish Hn. pose proof (ishape_own idx idx' p Hish) as Ho. unfold own in Ho. rewrite Hn in Ho.
  destruct (find_owner idx p); [discriminate|reflexivity].
Qed.

Lemma own_some idx idx' p op up :
  ishape idx idx' -> find_owner idx p = Some (op, up) -> exists up', find_owner idx' p = Some (op, up').
Proof.
  intros Hish Hs. pose proof (ishape_own idx idx' p Hish) as Ho. unfold own in Ho. rewrite Hs in Ho.
  destruct (find_owner idx' p) as [[op' up']|]; [|discriminate]. cbn in Ho. inversion Ho; subst.
  exists up'. reflexivity.
Qed.

Lemma idx_wf_shape idx idx' : ishape idx idx' -> idx_rel idx idx' -> idx_wf idx -> idx_wf idx'.
Proof.
  intros Hish Hrel Hwf X sx' Y sy' o' b' Hne HX HY Ho Hb.
  destruct (Hrel X sx' HX) as [sx [HX0 Lx]]. destruct (Hrel Y sy' HY) as [sy [HY0 Ly]].
  destruct (like_outputs _ _ _ Lx Ho) as [o [Ho0 Hpo]].
  destruct Hb as [Hb|[Hb Hfo]].
  - destruct (like_outputs _ _ _ Ly Hb) as [b [Hb0 Hpb]]. rewrite <- Hpo, <- Hpb.
    eapply Hwf; [exact Hne|exact HX0|exact HY0|exact Ho0|left; exact Hb0].
  - destruct (like_inputs _ _ _ Ly Hb) as [b [Hb0 Hpb]]. rewrite <- Hpo, <- Hpb.
    eapply Hwf; [exact Hne|exact HX0|exact HY0|exact Ho0|right; split; [exact Hb0|]].
    rewrite Hpb. eapply own_none; eassumption.
Qed.

Lemma inputs_wf_shape idx idx' : ishape idx idx' -> idx_rel idx idx' -> inputs_wf idx -> inputs_wf idx'.
Proof.
  intros Hish Hrel Hwf X sx' Y sy' o' a' HX HY Ho Ha Hown.
  destruct (Hrel X sx' HX) as [sx [HX0 Lx]]. destruct (Hrel Y sy' HY) as [sy [HY0 Ly]].
  destruct (like_outputs _ _ _ Lx Ho) as [o [Ho0 Hpo]].
  destruct (like_inputs _ _ _ Ly Ha) as [a [Ha0 Hpa]]. rewrite <- Hpo, <- Hpa.
  eapply Hwf; [exact HX0|exact HY0|exact Ho0|exact Ha0|].
  rewrite Hpa. destruct (find_owner idx (a_path a')) as [[op up]|] eqn:Hfo; [|exact I].
  destruct (own_some idx idx' _ op up Hish Hfo) as [up' Hfo']. rewrite Hfo' in Hown. exact Hown.
Qed.

(* the artifact find_owner answers with has a path that only depends on the shape *)
Lemma art_lookup_path p arts a : art_lookup p arts = Some a -> a_path a = p.
Proof. unfold art_lookup. intros Hf. apply find_some in Hf as [_ Hb]. apply beqb_eq in Hb. exact Hb. Qed.

Lemma fdo_walk_path arts arts' full :
  oshape arts = oshape arts' ->
  forall parts d,
    match fdo_walk parts d full arts, fdo_walk parts d full arts' with
    | Some a, Some a' => a_path a = a_path a'
    | None, None => True
    | _, _ => False
    end.
Proof.
  intros Hsh. induction parts as [|part r IH]; intros d; cbn [fdo_walk]; [exact I|].
  pose proof (art_lookup_shape (join2 d part) arts arts' Hsh) as Hl.
  destruct (art_lookup (join2 d part) arts) as [o|] eqn:E1;
    destruct (art_lookup (join2 d part) arts') as [o'|] eqn:E2; try contradiction.
  - rewrite Hl. destruct (negb (a_norec o') || beqb (join2 d part) full); [|apply IH].
    rewrite (art_lookup_path _ _ _ E1), (art_lookup_path _ _ _ E2). reflexivity.
  - apply IH.
Qed.

Lemma find_owner_path_shape idx idx' p :
  ishape idx idx' ->
  match find_owner idx p, find_owner idx' p with
  | Some (op, up), Some (op', up') => op = op' /\ a_path up = a_path up'
  | None, None => True
  | _, _ => False
  end.
Proof.
  intros Hs. induction Hs as [|[k v] [k' v'] r r' [Hk [Hout _]] Hr IH]; cbn [find_owner]; [exact I|].
  cbn [fst snd] in Hk, Hout. subst k'.
  pose proof (art_lookup_shape p _ _ Hout) as Hl.
  destruct (art_lookup p (s_outputs v)) as [o|] eqn:E1; destruct (art_lookup p (s_outputs v')) as [o'|] eqn:E2;
    try contradiction.
  - split; [reflexivity|]. rewrite (art_lookup_path _ _ _ E1), (art_lookup_path _ _ _ E2). reflexivity.
  - unfold find_dir_owner.
    pose proof (fdo_walk_path _ _ (dir p) Hout (split (dir p)) []) as Hf.
    destruct (fdo_walk (split (dir p)) [] (dir p) (s_outputs v)) as [o|];
      destruct (fdo_walk (split (dir p)) [] (dir p) (s_outputs v')) as [o'|]; try contradiction.
    + split; [reflexivity|exact Hf].
    + exact IH.
Qed.

Lemma owned_below_shape idx idx' : ishape idx idx' -> idx_rel idx idx' -> owned_below idx -> owned_below idx'.
Proof.
  intros Hish Hrel Hb sp stg' a' op up' Hstg Ha Hfo.
  destruct (Hrel sp stg' Hstg) as [stg [Hstg0 L]].
  destruct (like_inputs _ _ _ L Ha) as [a [Ha0 Hpa]].
  pose proof (find_owner_path_shape idx idx' (a_path a') Hish) as Hp. rewrite Hfo in Hp.
  destruct (find_owner idx (a_path a')) as [[op0 up]|] eqn:Hfo0; [|contradiction].
  destruct Hp as [Hop Hpu]. subst op0. rewrite <- Hpa in Hfo0.
  rewrite <- Hpu, <- Hpa. eapply Hb; eassumption.
Qed.

(* the frame premise for every stage record that is like a stage of idx, under every cache *)
Definition exec_framed_like (exec : bytes -> stage -> node -> cache -> res node) (idx : index) : Prop :=
  forall sp s1 s2 c root root',
    alookup sp idx = Some s1 -> stage_like s1 s2 -> exec sp s2 root c = Ok root' ->
    forall p, (forall o, In o (s_outputs s2) -> incomp (comps (a_path o)) p) -> slot_eq root root' p.

Lemma framed_like_framed exec idx idx' c :
  exec_framed_like exec idx -> idx_rel idx idx' -> exec_framed exec idx' c.
Proof.
  intros Hfl Hrel sp stg' root root' Hstg Hex p Hp.
  destruct (Hrel sp stg' Hstg) as [stg [Hstg0 L]]. eapply Hfl; eassumption.
Qed.

(* ------------------------------------------------------------------------------------------ *)
(* Part F3: the missing link for indexes whose artifacts are all FILES: right after            *)
(* `dud commit` every recorded output and un-owned input matches the workspace                 *)
(* ------------------------------------------------------------------------------------------ *)
Lemma get_put_same v : forall p root root',
  put root p (Some v) = Some root' -> get root' p = Some v /\ blocked root' p = false.
Proof.
  induction p as [|x q IH]; intros root root' Hp.
  - cbn [put] in Hp. inversion Hp; subst. split; reflexivity.
  - destruct root as [b|d|t|es|]; cbn [put] in Hp; try discriminate.
    assert (Hgo : exists m', root' = Dir (ins_sorted x m' es) /\ get m' q = Some v /\ blocked m' q = false).
    { destruct (alookup x es) as [m|].
      - destruct q as [|y q].
        + inversion Hp; subst. exists v. split; [reflexivity|]. split; reflexivity.
        + destruct (put m (y :: q) (Some v)) as [m'|] eqn:Hpm; [|discriminate].
          inversion Hp; subst. exists m'. split; [reflexivity|]. eapply IH. exact Hpm.
      - destruct q as [|y q].
        + inversion Hp; subst. exists v. split; [reflexivity|]. split; reflexivity.
        + destruct (put (Dir []) (y :: q) (Some v)) as [m'|] eqn:Hpm; [|discriminate].
          inversion Hp; subst. exists m'. split; [reflexivity|]. eapply IH. exact Hpm. }
    destruct Hgo as [m' [Hr [Hg Hb]]]. subst root'. cbn [get blocked].
    rewrite alookup_ins_same. split; assumption.
Qed.

Definition apart (p q : bytes) : Prop := comps p = comps q \/ incomp (comps p) (comps q).

Section FileMatch.
  Variable H : bytes -> bytes.
  Variable strat : strategy.
  Hypothesis Hinj : H_inj H.
  Hypothesis Hhas : H_has H.

  Definition fmatch (b : artifact) (n : node) (c : cache) : Prop :=
    st_cm (status_file H b (Some n) c) = true.

  Lemma short_top_file b root c :
    a_isdir b = false ->
    (short_top H b root c = Ok true <->
     blocked root (comps (a_path b)) = false /\
     exists n, get root (comps (a_path b)) = Some n /\ fmatch b n c).
  Proof.
    intros Hd. unfold short_top, slot_of, status_short, fmatch. rewrite Hd.
    destruct (blocked root (comps (a_path b))).
    - split; [discriminate|intros [Hx _]; discriminate].
    - destruct (get root (comps (a_path b))) as [n|].
      + split.
        * intros Hs. inversion Hs as [Hcm]. split; [reflexivity|]. exists n. split; [reflexivity|].
          rewrite Hcm. reflexivity.
        * intros [_ [n' [Hn Hcm]]]. inversion Hn; subst n'. rewrite Hcm. reflexivity.
      + split.
        * intros Hs. exfalso.
          assert (Hcm : st_cm (status_file H b None c) = true) by (injection Hs; auto).
          rewrite (StatusProofs.status_file_nonfile H b None c) in Hcm by (intros x; discriminate).
          apply StatusProofs.qmatch_true in Hcm as [_ [_ Hx]]. discriminate.
        * intros [_ [n' [Hn _]]]. discriminate.
  Qed.

  (* a file artifact that matches an entry still matches after ANY file commit at that entry *)
  Lemma commit_file_keep a0 n c n' c' a' b :
    CacheDefs.cache_ok H c -> commit_file H a0 n c strat = Ok (n', c', a') ->
    fmatch b n c -> fmatch b n' c'.
  Proof.
    intros Hc Hcm Hm.
    apply CommitProofs.commit_file_inv in Hcm
      as [(_ & -> & -> & _)|[(_ & x & -> & _ & [(_ & -> & ->)|(Hns & -> & Hn')])|(d & o & -> & _ & -> & -> & _)]];
      try exact Hm.
    assert (Hle : cache_le c (cput c (H x) x)) by (apply CommitProofs.cput_le; assumption).
    destruct strat; subst n'.
    - (* Link: the file is replaced by the link to its object *)
      assert (Hcs : a_cs b = H x /\ has_cs (a_cs b) = true).
      { unfold fmatch in Hm. destruct (a_skip b) eqn:Hsk.
        - rewrite (StatusProofs.status_file_skip_file H b x c Hsk) in Hm.
          apply andb_true_iff in Hm as [Hh He]. apply beqb_eq in He. split; [symmetry; exact He|exact Hh].
        - rewrite (StatusProofs.status_file_file H b x c Hsk) in Hm.
          destruct (cget c (a_cs b)) as [o|] eqn:Ho; [|discriminate].
          apply andb_true_iff in Hm as [Hh He]. apply beqb_eq in He. subst x.
          destruct (Hc _ _ Ho) as [Hd _]. split; [exact Hd|exact Hh]. }
      destruct Hcs as [Hcs Hh]. unfold fmatch.
      rewrite (StatusProofs.status_file_nonfile H b _ _) by (intros y; discriminate).
      apply StatusProofs.qmatch_true. split; [exact Hh|]. split.
      + rewrite Hcs, CommitProofs.cget_cput, beqb_refl. eexists. reflexivity.
      + rewrite Hcs. reflexivity.
    - (* Copy *)
      eapply StatusProofs.status_file_le; [exact Hle|exact Hm].
  Qed.

  (* ... and the committed artifact matches the committed entry *)
  Lemma commit_file_new a0 n c n' c' a' :
    CacheDefs.cache_ok H c -> commit_file H a0 n c strat = Ok (n', c', a') -> fmatch a' n' c'.
  Proof.
    intros Hc Hcm. unfold fmatch.
    apply CommitProofs.commit_file_inv in Hcm
      as [(Hq & -> & -> & ->)|[(_ & x & -> & -> & [(Hsk & -> & ->)|(Hns & -> & Hn')])|(d & o & -> & Ho & -> & -> & ->)]].
    - pose proof Hq as Hq'. apply StatusProofs.qmatch_true in Hq' as [_ [_ Hn]]. inversion Hn; subst n.
      rewrite (StatusProofs.status_file_nonfile H a0 _ _) by (intros y; discriminate). exact Hq.
    - rewrite (StatusProofs.status_file_skip_file H (set_cs a0 (H x)) x c Hsk). cbn [set_cs a_cs].
      rewrite Hhas, beqb_refl. reflexivity.
    - destruct strat; subst n'.
      + rewrite (StatusProofs.status_file_nonfile H _ _ _) by (intros y; discriminate).
        apply StatusProofs.qmatch_true. cbn [set_cs a_cs]. split; [apply Hhas|]. split; [|reflexivity].
        rewrite CommitProofs.cget_cput, beqb_refl. eexists. reflexivity.
      + rewrite (StatusProofs.status_file_file H (set_cs a0 (H x)) x _ Hns). cbn [set_cs a_cs].
        rewrite CommitProofs.cget_cput, beqb_refl. cbn [o_data]. rewrite Hhas, beqb_refl. reflexivity.
    - rewrite (StatusProofs.status_file_nonfile H _ _ _) by (intros y; discriminate).
      apply StatusProofs.qmatch_true. cbn [set_cs a_cs]. split; [|split; [exists o; exact Ho|reflexivity]].
      destruct (Hc _ _ Ho) as [Hd _]. rewrite Hd. apply Hhas.
  Qed.

  Lemma commit_node_file a n c : a_isdir a = false -> commit_node H a n c strat = commit_file H a n c strat.
  Proof.
    intros Hd. destruct n as [b|d|t|es|]; try (rewrite CommitProofs.commit_node_leaf by reflexivity; rewrite Hd; reflexivity).
    rewrite CommitProofs.commit_node_dir, Hd. reflexivity.
  Qed.

  Lemma commit_top_inv a root c root' c' a' :
    a_isdir a = false -> commit_top H a root c strat = Ok (root', c', a') ->
    exists n n', blocked root (comps (a_path a)) = false /\ get root (comps (a_path a)) = Some n /\
                 commit_file H a n c strat = Ok (n', c', a') /\
                 put root (comps (a_path a)) (Some n') = Some root'.
  Proof.
    intros Hd. unfold commit_top, slot_of. destruct (blocked root (comps (a_path a))); [discriminate|].
    destruct (get root (comps (a_path a))) as [n|]; [|discriminate]. cbn [commit_art].
    rewrite (commit_node_file a n c Hd).
    destruct (commit_file H a n c strat) as [[[n' c1] a1]|] eqn:Hn; [|discriminate].
    destruct (put root (comps (a_path a)) (Some n')) as [root1|] eqn:Hp; [|discriminate].
    intros Hok. inversion Hok; subst. exists n, n'. repeat split; assumption.
  Qed.

  Lemma commit_file_art a n c n' c' a' :
    commit_file H a n c strat = Ok (n', c', a') ->
    a_path a' = a_path a /\ a_isdir a' = a_isdir a /\ a_skip a' = a_skip a.
  Proof.
    intros Hcm. apply CommitProofs.commit_file_inv in Hcm
      as [(_ & _ & _ & ->)|[(_ & x & _ & -> & _)|(d & o & _ & _ & _ & _ & ->)]]; repeat split.
  Qed.

  (* one artifact committed: it matches; what matched at an equal or incomparable path still does *)
  Lemma commit_top_match a root c root' c' a' :
    a_isdir a = false -> CacheDefs.cache_ok H c ->
    commit_top H a root c strat = Ok (root', c', a') ->
    CacheDefs.cache_ok H c' /\ a_path a' = a_path a /\ a_isdir a' = false /\
    short_top H a' root' c' = Ok true /\
    forall b, a_isdir b = false -> apart (a_path a) (a_path b) ->
              short_top H b root c = Ok true -> short_top H b root' c' = Ok true.
  Proof.
    intros Hd Hc Htop.
    destruct (commit_top_inv _ _ _ _ _ _ Hd Htop) as [n [n' [Hbl [Hg [Hcf Hp]]]]].
    destruct (commit_file_art _ _ _ _ _ _ Hcf) as [Hpa [Hda _]].
    destruct (get_put_same n' _ _ _ Hp) as [Hg' Hb'].
    assert (Hcc : CacheDefs.cache_ok H c' /\ cache_le c c').
    { apply (CommitProofs.commit_cache_ok H Hinj a n c strat n' c' a' Hc). rewrite (commit_node_file a n c Hd). exact Hcf. }
    destruct Hcc as [Hc' Hle].
    split; [exact Hc'|]. split; [exact Hpa|]. split; [congruence|]. split.
    - apply short_top_file; [congruence|]. rewrite Hpa. split; [exact Hb'|]. exists n'. split; [exact Hg'|].
      exact (commit_file_new a n c n' c' a' Hc Hcf).
    - intros b Hdb Hap Hst. apply (short_top_file b root c Hdb) in Hst as [Hbb [m [Hgm Hm]]].
      apply short_top_file; [exact Hdb|]. destruct Hap as [Heq|Hinc].
      + rewrite <- Heq. split; [exact Hb'|]. exists n'. split; [exact Hg'|].
        rewrite <- Heq in Hgm. rewrite Hg in Hgm. inversion Hgm; subst m.
        exact (commit_file_keep a n c n' c' a' b Hc Hcf Hm).
      + destruct (put_frame _ _ _ _ _ Hp Hinc) as [Hg2 Hb2]. rewrite Hg2, Hb2.
        split; [exact Hbb|]. exists m. split; [exact Hgm|].
        eapply StatusProofs.status_file_le; [exact Hle|exact Hm].
  Qed.

  Lemma commit_arts_match : forall arts fs root c l root' c',
    (forall a, In a arts -> a_isdir a = false) ->
    (forall a1 a2, In a1 arts -> In a2 arts -> apart (a_path a1) (a_path a2)) ->
    CacheDefs.cache_ok H c ->
    commit_arts H arts fs root c strat = Ok (l, root', c') ->
    CacheDefs.cache_ok H c' /\
    (forall b, In b l -> a_isdir b = false /\ short_top H b root' c' = Ok true) /\
    (forall b, a_isdir b = false -> (forall a, In a arts -> apart (a_path a) (a_path b)) ->
               short_top H b root c = Ok true -> short_top H b root' c' = Ok true).
  Proof.
    induction arts as [|a r IH]; intros fs root c l root' c' Hfiles Hap Hc Hrun; cbn [commit_arts] in Hrun.
    - inversion Hrun; subst. split; [exact Hc|]. split; [intros b []|]. intros b _ _ Hst. exact Hst.
    - match type of Hrun with match commit_top H ?A0 _ _ _ with _ => _ end = _ =>
        set (a0 := A0) in *; destruct (commit_top H a0 root c strat) as [[[root1 c1] a1]|] eqn:Et end;
        [|discriminate].
      destruct (commit_arts H r fs root1 c1 strat) as [[[l2 root2] c2]|] eqn:Er; [|discriminate].
      inversion Hrun; subst l root' c'. clear Hrun.
      assert (Hp0 : a_path a0 = a_path a) by (subst a0; destruct fs; reflexivity).
      assert (Hd0 : a_isdir a0 = false).
      { assert (Hx : a_isdir a0 = a_isdir a) by (subst a0; destruct fs; reflexivity).
        rewrite Hx. apply Hfiles. left. reflexivity. }
      destruct (commit_top_match a0 root c root1 c1 a1 Hd0 Hc Et) as [Hc1 [Hp1 [Hd1 [Hm1 Hk1]]]].
      destruct (IH fs root1 c1 l2 root2 c2) as [Hc2 [Hnew Hkeep]].
      + intros x Hx. apply Hfiles. right. exact Hx.
      + intros x y Hx Hy. apply Hap; right; assumption.
      + exact Hc1.
      + exact Er.
      + split; [exact Hc2|]. split.
        * intros b [Hb|Hb]; [|apply Hnew; exact Hb]. subst b. split; [exact Hd1|].
          apply Hkeep; [exact Hd1| |exact Hm1].
          intros x Hx. rewrite Hp1, Hp0. apply Hap; [right; exact Hx|left; reflexivity].
        * intros b Hdb Hapb Hst. apply Hkeep; [exact Hdb| |].
          -- intros x Hx. apply Hapb. right. exact Hx.
          -- apply Hk1; [exact Hdb| |exact Hst]. rewrite Hp0. apply Hapb. left. reflexivity.
  Qed.
End FileMatch.

Lemma art_set_In arts a b :
  In b (art_set arts a) -> b = a \/ (In b arts /\ a_path b <> a_path a).
Proof.
  unfold art_set. intros Hin. apply in_map_iff in Hin as [x [Hx Hin]].
  destruct (beqb (a_path x) (a_path a)) eqn:Hb.
  - left. symmetry. exact Hx.
  - right. subst x. split; [exact Hin|]. apply beqb_neq. exact Hb.
Qed.

Lemma fold_art_set_In : forall l arts b,
  In b (fold_left art_set l arts) ->
  In b l \/ (In b arts /\ forall x, In x l -> a_path b <> a_path x).
Proof.
  induction l as [|a r IH]; intros arts b Hin; cbn [fold_left] in Hin.
  - right. split; [exact Hin|]. intros x [].
  - destruct (IH _ _ Hin) as [Hr|[Hs Hno]].
    + left. right. exact Hr.
    + apply art_set_In in Hs as [Heq|[Hb Hne]].
      * left. left. symmetry. exact Heq.
      * right. split; [exact Hb|]. intros x [Hx|Hx]; [subst x; exact Hne|apply Hno; exact Hx].
Qed.

Lemma commit_arts_paths H st arts fs root c l root' c' :
  commit_arts H arts fs root c st = Ok (l, root', c') -> map a_path l = map a_path arts.
Proof.
  intros Hc. pose proof (commit_arts_shape H st _ _ _ _ _ _ _ Hc) as Hsh.
  unfold oshape in Hsh. apply (f_equal (map fst)) in Hsh. rewrite !map_map in Hsh. exact Hsh.
Qed.

Lemma own_none_rev idx idx' p : ishape idx idx' -> find_owner idx p = None -> find_owner idx' p = None.
Proof. intros Hish. apply own_none. apply ishape_sym. exact Hish. Qed.

Section FilesTraversal.
  Variable H : bytes -> bytes.
  Variable strat : strategy.
  Hypothesis Hinj : H_inj H.
  Hypothesis Hhas : H_has H.
  Variable idx0 : index.
  Hypothesis sorted0 : PipelineProofs.ksorted (map fst idx0).

  (* what `dud commit` commits of a stage: its outputs and its un-owned inputs *)
  Definition committed (idx : index) (stg : stage) (b : artifact) : Prop :=
    In b (s_outputs stg) \/ (In b (s_inputs stg) /\ find_owner idx (a_path b) = None).
  Definition cpath (idx : index) (p : bytes) : Prop :=
    exists sp stg b, alookup sp idx = Some stg /\ committed idx stg b /\ a_path b = p.

  (* every artifact is a file; committed paths are pairwise equal or incomparable *)
  Definition files_only (idx : index) : Prop :=
    forall sp stg b, alookup sp idx = Some stg -> In b (s_outputs stg ++ s_inputs stg) -> a_isdir b = false.
  Definition cpaths_apart (idx : index) : Prop :=
    forall p q, cpath idx p -> cpath idx q -> apart p q.

  Hypothesis files0 : files_only idx0.
  Hypothesis apart0 : cpaths_apart idx0.

  Lemma cp_in i sp stg a :
    idx_rel idx0 i -> alookup sp i = Some stg -> In a (s_inputs stg) ->
    find_owner idx0 (a_path a) = None -> cpath idx0 (a_path a).
  Proof.
    intros Hrel Hstg Ha Hfo. destruct (Hrel sp stg Hstg) as [stg0 [Hstg0 L]].
    destruct (like_inputs _ _ _ L Ha) as [a0 [Ha0 Hp]].
    exists sp, stg0, a0. split; [exact Hstg0|]. split; [|exact Hp]. right. split; [exact Ha0|].
    rewrite Hp. exact Hfo.
  Qed.

  Lemma cp_out i sp stg o :
    idx_rel idx0 i -> alookup sp i = Some stg -> In o (s_outputs stg) -> cpath idx0 (a_path o).
  Proof.
    intros Hrel Hstg Ho. destruct (Hrel sp stg Hstg) as [stg0 [Hstg0 L]].
    destruct (like_outputs _ _ _ L Ho) as [o0 [Ho0 Hp]].
    exists sp, stg0, o0. split; [exact Hstg0|]. split; [left; exact Ho0|exact Hp].
  Qed.

  Lemma cpath_shape i p : ishape idx0 i -> idx_rel idx0 i -> cpath i p -> cpath idx0 p.
  Proof.
    intros Hish Hrel [sp [stg [b [Hstg [[Hb|[Hb Hfo]] Hp]]]]]; subst p.
    - eapply cp_out; eassumption.
    - eapply cp_in; [exact Hrel|exact Hstg|exact Hb|]. eapply own_none; eassumption.
  Qed.

  Record J (st : istate) (done : list bytes) : Prop := {
    J_cache : CacheDefs.cache_ok H (i_cache st);
    J_shape : ishape idx0 (i_idx st);
    J_rel : idx_rel idx0 (i_idx st);
    J_files : files_only (i_idx st);
    J_match : forall sp stg b, In sp done -> alookup sp (i_idx st) = Some stg ->
                               committed (i_idx st) stg b ->
                               short_top H b (i_root st) (i_cache st) = Ok true }.

  Definition J_spec (f : nat) (stack : list bytes) : Prop :=
    forall st done sp st' done',
      J st done -> commit_stage H f st strat done stack sp = Ok (st', done') ->
      J st' done' /\ (forall s, In s done -> In s done') /\ In sp done'.

  Lemma J_done_mono st done done' : (forall s, In s done' -> In s done) -> J st done -> J st done'.
  Proof.
    intros Hsub HJ. split; try apply HJ. intros sp stg b Hin. apply (J_match _ _ HJ). apply Hsub. exact Hin.
  Qed.

  Lemma cm_ins_J f stack : J_spec f stack ->
    forall arts st done owned plain st' done',
      J st done -> cm_ins H strat f stack arts st done = Ok (owned, plain, st', done') ->
      J st' done' /\ (forall s, In s done -> In s done') /\
      (forall a, In a plain -> In a arts /\ find_owner idx0 (a_path a) = None) /\
      (forall a, In a arts -> find_owner idx0 (a_path a) = None -> In a plain) /\
      (forall b, In b owned -> exists a, In a arts /\ a_path b = a_path a /\ a_isdir b = a_isdir a /\
                                         find_owner idx0 (a_path a) <> None).
  Proof.
    intros IH. induction arts as [|a r IHr]; intros st done owned plain st' done' HJ Hrun; cbn [cm_ins] in Hrun.
    - inversion Hrun; subst. split; [exact HJ|]. split; [auto|]. split; [intros a []|].
      split; [intros a []|intros b []].
    - destruct (find_owner (i_idx st) (a_path a)) as [[op up]|] eqn:Hfo.
      + destruct (commit_stage H f st strat done stack op) as [[st1 done1]|] eqn:Hsub; [|discriminate].
        destruct (cm_ins H strat f stack r st1 done1) as [[[[o2 p2] st2] done2]|] eqn:Hrest; [|discriminate].
        inversion Hrun; subst owned plain st' done'. clear Hrun.
        destruct (IH _ _ _ _ _ HJ Hsub) as [HJ1 [Hm1 _]].
        destruct (IHr _ _ _ _ _ _ HJ1 Hrest) as [HJ2 [Hm2 [Hpl [Hpl2 Hown]]]].
        assert (Hne : find_owner idx0 (a_path a) <> None).
        { intros Hn. rewrite (own_none_rev _ _ _ (J_shape _ _ HJ) Hn) in Hfo. discriminate. }
        split; [exact HJ2|]. split; [auto|]. split; [|split].
        * intros x Hx. destruct (Hpl x Hx) as [Hi Hf]. split; [right; exact Hi|exact Hf].
        * intros x [Hx|Hx] Hf; [subst x; contradiction|apply Hpl2; assumption].
        * intros b [Hb|Hb].
          -- subst b. exists a. split; [left; reflexivity|]. split; [reflexivity|]. split; [reflexivity|exact Hne].
          -- destruct (Hown b Hb) as [x [Hx Hrest']]. exists x. split; [right; exact Hx|exact Hrest'].
      + destruct (cm_ins H strat f stack r st done) as [[[[o2 p2] st2] done2]|] eqn:Hrest; [|discriminate].
        inversion Hrun; subst owned plain st' done'. clear Hrun.
        destruct (IHr _ _ _ _ _ _ HJ Hrest) as [HJ2 [Hm2 [Hpl [Hpl2 Hown]]]].
        assert (Hn0 : find_owner idx0 (a_path a) = None) by (eapply own_none; [apply (J_shape _ _ HJ)|exact Hfo]).
        split; [exact HJ2|]. split; [exact Hm2|]. split; [|split].
        * intros x [Hx|Hx]; [subst x; split; [left; reflexivity|exact Hn0]|].
          destruct (Hpl x Hx) as [Hi Hf]. split; [right; exact Hi|exact Hf].
        * intros x [Hx|Hx] Hf; [left; exact Hx|right; apply Hpl2; assumption].
        * intros b Hb. destruct (Hown b Hb) as [x [Hx Hrest']]. exists x. split; [right; exact Hx|exact Hrest'].
  Qed.

  Lemma J_post : forall f stack, J_spec f stack.
  Proof.
    induction f as [|f IH]; intros stack st done sp st' done' HJ Hrun; [discriminate|].
    rewrite commit_stage_S in Hrun.
    destruct (mem sp done) eqn:Hdone.
    { inversion Hrun; subst. split; [exact HJ|]. split; [auto|apply mem_In; exact Hdone]. }
    destruct (mem sp stack); [discriminate|].
    destruct (alookup sp (i_idx st)) as [stg|] eqn:Hstg; [|discriminate].
    unfold cm_finish in Hrun.
    destruct (cm_ins H strat f (sp :: stack) (s_inputs stg) st done) as [[[[owned plain] st1] done1]|] eqn:Hins;
      [|discriminate].
    destruct (commit_arts H plain true (i_root st1) (i_cache st1) strat) as [[[plain' root2] c2]|] eqn:E1;
      [|discriminate].
    destruct (commit_arts H (s_outputs stg) false root2 c2 strat) as [[[outs' root3] c3]|] eqn:E2;
      [|discriminate].
    cbv zeta in Hrun. inversion Hrun; subst st' done'. clear Hrun.
    destruct (cm_ins_J f (sp :: stack) (IH (sp :: stack)) _ _ _ _ _ _ _ HJ Hins)
      as [HJ1 [Hm1 [Hpl [Hpl2 Hown]]]].
    set (inputs' := fold_left art_set (owned ++ plain') (s_inputs stg)).
    set (stg2 := mkStage (def_checksum H (mkStage (s_cs stg) (s_cmd stg) (s_wd stg) inputs' outs'))
                         (s_cmd stg) (s_wd stg) inputs' outs').
    (* the two batches of commits *)
    assert (HfilesP : forall a, In a plain -> a_isdir a = false).
    { intros a Ha. apply (J_files _ _ HJ sp stg a Hstg). apply in_or_app. right. apply Hpl. exact Ha. }
    assert (HcpP : forall a, In a plain -> cpath idx0 (a_path a)).
    { intros a Ha. destruct (Hpl a Ha) as [Hi Hf]. eapply cp_in; [apply (J_rel _ _ HJ)|exact Hstg|exact Hi|exact Hf]. }
    assert (HcpO : forall o, In o (s_outputs stg) -> cpath idx0 (a_path o)).
    { intros o Ho. eapply cp_out; [apply (J_rel _ _ HJ)|exact Hstg|exact Ho]. }
    destruct (commit_arts_match H strat Hinj Hhas plain true _ _ _ _ _ HfilesP
                (fun a1 a2 H1 H2 => apart0 _ _ (HcpP a1 H1) (HcpP a2 H2)) (J_cache _ _ HJ1) E1)
      as [Hc2 [HnewA HkeepA]].
    assert (HfilesO : forall o, In o (s_outputs stg) -> a_isdir o = false).
    { intros o Ho. apply (J_files _ _ HJ sp stg o Hstg). apply in_or_app. left. exact Ho. }
    destruct (commit_arts_match H strat Hinj Hhas (s_outputs stg) false _ _ _ _ _ HfilesO
                (fun a1 a2 H1 H2 => apart0 _ _ (HcpO a1 H1) (HcpO a2 H2)) Hc2 E2)
      as [Hc3 [HnewB HkeepB]].
    (* the new index *)
    pose proof (J_shape _ _ HJ) as Hish. pose proof (J_shape _ _ HJ1) as Hish1.
    destruct (ishape_alookup _ _ _ _ (ishape_sym _ _ Hish) Hstg) as [stg0 [Hstg0 Hsh0]].
    destruct (ishape_alookup _ _ _ _ Hish1 Hstg0) as [stgc [Hstgc Hshc]].
    assert (Hsh2 : sshape stg stg2).
    { split; cbn [stg2 s_outputs s_inputs].
      - symmetry. eapply commit_arts_shape. exact E2.
      - symmetry. apply fold_art_set_paths. }
    assert (HishN : ishape idx0 (ins_sorted sp stg2 (i_idx st1))).
    { eapply ishape_trans; [exact Hish1|]. apply (ishape_set (i_idx st1) sp stgc stg2).
      - rewrite <- (ishape_keys _ _ Hish1). exact sorted0.
      - exact Hstgc.
      - eapply sshape_trans; [apply sshape_sym; exact Hshc|].
        eapply sshape_trans; [apply sshape_sym; exact Hsh0|exact Hsh2]. }
    assert (Hpaths' : map a_path plain' = map a_path plain).
    { rewrite (commit_arts_paths _ _ _ _ _ _ _ _ _ E1). reflexivity. }
    assert (HfilesI : forall b, In b inputs' -> a_isdir b = false).
    { intros b Hb. apply fold_art_set_In in Hb as [Hl|[Hs _]].
      - apply in_app_or in Hl as [Ho|Hp'].
        + destruct (Hown b Ho) as [a [Ha [_ [Hd _]]]]. rewrite Hd.
          apply (J_files _ _ HJ sp stg a Hstg). apply in_or_app. right. exact Ha.
        + apply HnewA. exact Hp'.
      - apply (J_files _ _ HJ sp stg b Hstg). apply in_or_app. right. exact Hs. }
    split; [|split; [intros s Hs; right; apply Hm1; exact Hs|left; reflexivity]].
    split; cbn [i_cache i_root i_idx]; unfold set_stage.
    - exact Hc3.
    - exact HishN.
    - intros sp' stg' Hl. rewrite PipelineProofs.alookup_ins_sorted in Hl.
      destruct (beqb sp' sp) eqn:Hb.
      + apply beqb_eq in Hb. subst sp'. inversion Hl; subst stg'.
        destruct (J_rel _ _ HJ sp stg Hstg) as [s0 [Hs0 L0]]. exists s0. split; [exact Hs0|].
        eapply stage_like_trans; [exact L0|]. split; [reflexivity|]. split; [reflexivity|].
        cbn [stg2 s_inputs s_outputs]. split.
        * symmetry. apply fold_art_set_paths.
        * symmetry. eapply commit_arts_paths. exact E2.
      + apply (J_rel _ _ HJ1). exact Hl.
    - intros sp' stg' b Hl Hb. rewrite PipelineProofs.alookup_ins_sorted in Hl.
      destruct (beqb sp' sp) eqn:Hbq.
      + inversion Hl; subst stg'. cbn [stg2 s_inputs s_outputs] in Hb.
        apply in_app_or in Hb as [Hb|Hb]; [apply HnewB; exact Hb|apply HfilesI; exact Hb].
      + eapply (J_files _ _ HJ1); eassumption.
    - intros sp' stg' b Hind Hl Hcm. rewrite PipelineProofs.alookup_ins_sorted in Hl.
      destruct (beqb sp' sp) eqn:Hbq.
      + (* the stage just committed *)
        inversion Hl; subst stg'. destruct Hcm as [Hb|[Hb Hfo]]; cbn [stg2 s_inputs s_outputs] in Hb.
        * apply HnewB. exact Hb.
        * assert (Hfo0 : find_owner idx0 (a_path b) = None) by (eapply own_none; eassumption).
          apply fold_art_set_In in Hb as [Hlb|[Hs Hno]].
          -- apply in_app_or in Hlb as [Ho|Hp'].
             ++ exfalso. destruct (Hown b Ho) as [a [_ [Hp [_ Hne]]]]. apply Hne. rewrite <- Hp. exact Hfo0.
             ++ destruct (HnewA b Hp') as [Hd Hst]. apply HkeepB; [exact Hd| |exact Hst].
                intros o Ho. apply apart0; [apply HcpO; exact Ho|].
                assert (Hin : In (a_path b) (map a_path plain)) by (rewrite <- Hpaths'; apply in_map; exact Hp').
                apply in_map_iff in Hin as [a [Hpa Ha]]. rewrite <- Hpa. apply HcpP. exact Ha.
          -- exfalso. pose proof (Hpl2 b Hs Hfo0) as Hbp.
             assert (Hin : In (a_path b) (map a_path plain')) by (rewrite Hpaths'; apply in_map; exact Hbp).
             apply in_map_iff in Hin as [x [Hpx Hx]].
             apply (Hno x); [apply in_or_app; right; exact Hx|symmetry; exact Hpx].
      + (* a stage committed earlier: its record is unchanged, the commits were made elsewhere *)
        assert (Hne : sp' <> sp) by (apply beqb_neq; exact Hbq).
        destruct Hind as [Hx|Hind]; [congruence|].
        assert (Hcm1 : committed (i_idx st1) stg' b).
        { destruct Hcm as [Hb|[Hb Hfo]]; [left; exact Hb|right; split; [exact Hb|]].
          eapply own_none_rev; [exact Hish1|]. eapply own_none; eassumption. }
        pose proof (J_match _ _ HJ1 sp' stg' b Hind Hl Hcm1) as Hst.
        assert (Hd : a_isdir b = false).
        { apply (J_files _ _ HJ1 sp' stg' b Hl). apply in_or_app. destruct Hcm1 as [Hb|[Hb _]]; [left|right]; exact Hb. }
        assert (Hcp : cpath idx0 (a_path b)).
        { apply (cpath_shape (i_idx st1)); [exact Hish1|apply (J_rel _ _ HJ1)|].
          exists sp', stg', b. split; [exact Hl|]. split; [exact Hcm1|reflexivity]. }
        apply HkeepB; [exact Hd| |].
        * intros o Ho. apply apart0; [apply HcpO; exact Ho|exact Hcp].
        * apply HkeepA; [exact Hd| |exact Hst].
          intros a Ha. apply apart0; [apply HcpP; exact Ha|exact Hcp].
  Qed.

  Lemma commit_targets_J fuel : forall ts st done st' done',
    J st done -> commit_targets H strat fuel ts (Ok (st, done)) = Ok (st', done') ->
    J st' done' /\ (forall s, In s done -> In s done') /\ (forall t, In t ts -> In t done').
  Proof.
    induction ts as [|t r IH]; intros st done st' done' HJ Hrun.
    - inversion Hrun; subst. split; [exact HJ|]. split; [auto|intros t []].
    - rewrite commit_targets_cons in Hrun.
      destruct (commit_stage H fuel st strat done [] t) as [[st1 done1]|] eqn:Hone.
      2:{ rewrite commit_targets_Err in Hrun. discriminate. }
      destruct (J_post fuel [] _ _ _ _ _ HJ Hone) as [HJ1 [Hm1 Ht1]].
      destruct (IH _ _ _ _ HJ1 Hrun) as [HJ2 [Hm2 Hts]].
      split; [exact HJ2|]. split; [auto|]. intros t' [Ht'|Ht']; [subst t'; apply Hm2; exact Ht1|apply Hts; exact Ht'].
  Qed.

  (* `dud commit` of all the stages of an index whose artifacts are files: afterwards every
     recorded output and un-owned input matches the workspace (and they are still files) *)
  Theorem commit_targets_arts_match_files fuel ts root c idx' snap c' done :
    CacheDefs.cache_ok H c ->
    (forall sp, In sp (map fst idx0) -> In sp ts) ->
    commit_targets H strat fuel ts (Ok (mkI idx0 root c, [])) = Ok (mkI idx' snap c', done) ->
    arts_match H idx' c' snap /\ files_only idx'.
  Proof.
    intros Hc Hall Hrun.
    assert (HJ0 : J (mkI idx0 root c) []).
    { split; cbn [i_cache i_root i_idx]; [exact Hc|apply ishape_refl|apply idx_rel_refl|exact files0|].
      intros sp stg b []. }
    destruct (commit_targets_J fuel ts _ _ _ _ HJ0 Hrun) as [HJ [_ Hts]].
    split; [|apply (J_files _ _ HJ)].
    intros sp stg b Hstg Hb. apply (J_match _ _ HJ sp stg b); [|exact Hstg|exact Hb].
    apply Hts. apply Hall. rewrite (ishape_keys _ _ (J_shape _ _ HJ)). cbn [i_idx].
    eapply alookup_Some_In. exact Hstg.
  Qed.
End FilesTraversal.

(* ------------------------------------------------------------------------------------------ *)
(* Part F4: the complete chain for indexes whose artifacts are files                           *)
(* ------------------------------------------------------------------------------------------ *)
Lemma cpaths_apart_shape idx idx' :
  ishape idx idx' -> idx_rel idx idx' -> cpaths_apart idx -> cpaths_apart idx'.
Proof.
  intros Hish Hrel Hap p q Hp Hq. apply Hap; eapply cpath_shape; eassumption.
Qed.

Section EstablishFiles.
  Variable H : bytes -> bytes.
  Variable exec : bytes -> stage -> node -> cache -> res node.
  Variable strat : strategy.
  Variable idx : index.
  Variable c : cache.

  Hypothesis Hinj : H_inj H.
  Hypothesis Hhas : H_has H.
  Hypothesis content_only : exec_content_only exec idx.
  Hypothesis framed_like : exec_framed_like exec idx.
  Hypothesis wf : idx_wf idx.
  Hypothesis inwf : inputs_wf idx.
  Hypothesis below : owned_below idx.
  Hypothesis keys_sorted : PipelineProofs.ksorted (map fst idx).
  Hypothesis files : files_only idx.
  Hypothesis paths_apart : cpaths_apart idx.
  Hypothesis before : committed_fresh_on sorted_tree H exec idx c.

  (* No premise about the result of the commit is left.  The conclusion restates, for the new
     index and cache, every premise that speaks about the index: the theorem can be iterated
     (run; commit; edit; run; commit; ...). *)
  Theorem run_commit_establishes_committed_fresh_files
          fuel ts root root1 ran1 log1 fuel2 ts2 idx' snap c' done :
    (forall sp stg, alookup sp idx = Some stg -> s_cmd stg <> [] -> alookup sp ran1 <> None) ->
    run_targets H exec idx c true fuel ts (Ok (root, [], [])) = Ok (root1, ran1, log1) ->
    CacheDefs.cache_ok H c -> CommitProofs.resolved c root1 -> sorted_tree root1 ->
    (forall sp, In sp (map fst idx) -> In sp ts2) ->
    commit_targets H strat fuel2 ts2 (Ok (mkI idx root1 c, [])) = Ok (mkI idx' snap c', done) ->
    committed_fresh_on sorted_tree H exec idx' c' /\
    CacheDefs.cache_ok H c' /\ sorted_tree snap /\ idx_rel idx idx' /\
    idx_wf idx' /\ inputs_wf idx' /\ owned_below idx' /\
    PipelineProofs.ksorted (map fst idx') /\ files_only idx' /\ cpaths_apart idx' /\
    exec_framed exec idx' c' /\ exec_functional exec idx' c'.
  Proof.
    intros Hvis Hrun Hc Hres Hsort Hall2 Hcommit.
    destruct (commit_targets_keeps_contents H strat Hinj _ _ _ _ _ _ _ _ _ Hc Hres Hsort Hcommit)
      as [Hc' [Hle [Hs' [Hrel _]]]].
    assert (Hinv0 : cm_inv idx (mkI idx root1 c) []) by (split; [apply ishape_refl|apply core_nil]).
    destruct (commit_targets_post H strat idx keys_sorted fuel2 ts2 _ _ _ _ Hinv0 Hcommit) as [[Hish _] _].
    cbn [i_idx] in Hish.
    destruct (commit_targets_arts_match_files H strat Hinj Hhas idx keys_sorted files paths_apart
                                              fuel2 ts2 root1 c idx' snap c' done Hc Hall2 Hcommit)
      as [Hmatch Hfiles'].
    assert (Hbelow' : owned_below idx') by (eapply owned_below_shape; eassumption).
    assert (Hdet : cs_determines_on sorted_tree H idx' c').
    { apply cs_determines_on_weaken. apply cs_determines_files; [exact Hinj|apply cache_ok_fresh; exact Hc'|exact Hfiles']. }
    assert (Hfr : exec_framed exec idx c) by (eapply framed_like_framed; [exact framed_like|apply idx_rel_refl]).
    split.
    { eapply (run_commit_establishes_committed_fresh_partial H exec strat idx c Hinj content_only Hfr wf inwf
                keys_sorted before); eassumption. }
    split; [exact Hc'|]. split; [exact Hs'|]. split; [exact Hrel|].
    split; [eapply idx_wf_shape; eassumption|]. split; [eapply inputs_wf_shape; eassumption|].
    split; [exact Hbelow'|]. split; [rewrite <- (ishape_keys _ _ Hish); exact keys_sorted|].
    split; [exact Hfiles'|]. split; [eapply cpaths_apart_shape; eassumption|].
    split; [eapply framed_like_framed; eassumption|eapply content_only_functional; eassumption].
  Qed.

  (* run; commit; the workspace is changed in any way (sources edited ...); run: every visited
     stage that has a command is fresh in the final workspace *)
  Corollary run_commit_run_outputs_fresh_files
            fuel ts root root1 ran1 log1 fuel2 ts2 idx' snap c' done
            fuel3 ts3 root2 root3 ran3 log3 :
    (forall sp stg, alookup sp idx = Some stg -> s_cmd stg <> [] -> alookup sp ran1 <> None) ->
    run_targets H exec idx c true fuel ts (Ok (root, [], [])) = Ok (root1, ran1, log1) ->
    CacheDefs.cache_ok H c -> CommitProofs.resolved c root1 -> sorted_tree root1 ->
    (forall sp, In sp (map fst idx) -> In sp ts2) ->
    commit_targets H strat fuel2 ts2 (Ok (mkI idx root1 c, [])) = Ok (mkI idx' snap c', done) ->
    run_targets H exec idx' c' true fuel3 ts3 (Ok (root2, [], [])) = Ok (root3, ran3, log3) ->
    sorted_tree root3 ->
    forall sp stg b,
      alookup sp ran3 = Some b -> alookup sp idx' = Some stg -> s_cmd stg <> [] ->
      fresh exec c' sp stg root3.
  Proof.
    intros Hvis Hrun Hc Hres Hsort Hall2 Hcommit Hrun3 Hs3.
    destruct (run_commit_establishes_committed_fresh_files _ _ _ _ _ _ _ _ _ _ _ _
                Hvis Hrun Hc Hres Hsort Hall2 Hcommit)
      as [Hcf [_ [_ [_ [Hwf' [Hinwf' [_ [_ [_ [_ [Hfr' Hfun']]]]]]]]]]].
    eapply (run_outputs_fresh_on sorted_tree H exec idx' c'); eassumption.
  Qed.
End EstablishFiles.

Ltac sorted_tac :=
  lazymatch goal with
  | |- sorted_tree (Dir _) =>
      apply sorted_tree_Dir; split;
      [repeat constructor
      |repeat (first [apply Forall_nil | apply Forall_cons; [cbn [snd]; sorted_tac|]])]
  | |- sorted_tree _ => exact I
  end.

(* ------------------------------------------------------------------------------------------ *)
(* Part G: examples and counterexamples                                                        *)
(* ------------------------------------------------------------------------------------------ *)
Module DetCex.
  Local Open Scope N_scope.
  Definition idH : bytes -> bytes := fun b => b.
  Definition dd : bytes := [100].
  Definition ff : bytes := [102]. Definition gg : bytes := [103]. Definition ss : bytes := [115].
  Definition hello : bytes := [104; 101; 108; 108; 111].
  Definition tree1 : node := Dir [(ff, File hello)].
  (* d committed as a recursive / as a disable-recursion directory artifact *)
  Definition cmR := Eval vm_compute in commit_node idH (mkArt [] dd true false false) tree1 [] Copy.
  Definition cmN := Eval vm_compute in commit_node idH (mkArt [] dd true true false) tree1 [] Copy.
  Definition cR := Eval vm_compute in match cmR with Ok (_, c, _) => c | Err => [] end.
  Definition aR := Eval vm_compute in match cmR with Ok (_, _, a) => a | Err => mkArt [] dd true false false end.
  Definition cN := Eval vm_compute in match cmN with Ok (_, c, _) => c | Err => [] end.
  Definition aN := Eval vm_compute in match cmN with Ok (_, _, a) => a | Err => mkArt [] dd true true false end.
  Definition r1 : node := Dir [(dd, tree1)].
  Definition r2n : node := Dir [(dd, Dir [(ff, File hello); (ss, Dir [(gg, File hello)])])].
  Definition r2u : node := Dir [(dd, Dir [(ff, File hello); (ff, File [1; 2; 3])])].

  (* a disable-recursion directory artifact matches both workspaces (both sorted); they differ
     below d: the sub-directory d/s is not tracked *)
  Example norec_not_determined :
    a_isdir aN = true /\ a_norec aN = true /\ sorted_tree r1 /\ sorted_tree r2n /\
    short_top idH aN r1 cN = Ok true /\ short_top idH aN r2n cN = Ok true /\
    ~ same_at cN r1 r2n (comps (a_path aN)).
  Proof.
    split; [reflexivity|]. split; [reflexivity|].
    split; [unfold r1, tree1; sorted_tac|]. split; [unfold r2n; sorted_tac|].
    split; [vm_compute; reflexivity|]. split; [vm_compute; reflexivity|].
    intros [Hv _]. vm_compute in Hv. discriminate Hv.
  Qed.

  (* a recursive directory artifact matches a workspace whose entry list names f twice *)
  Example unsorted_not_determined :
    a_isdir aR = true /\ a_norec aR = false /\ sorted_tree r1 /\
    short_top idH aR r1 cR = Ok true /\ short_top idH aR r2u cR = Ok true /\
    ~ same_at cR r1 r2u (comps (a_path aR)).
  Proof.
    split; [reflexivity|]. split; [reflexivity|]. split; [unfold r1, tree1; sorted_tac|].
    split; [vm_compute; reflexivity|]. split; [vm_compute; reflexivity|].
    intros [Hv _]. vm_compute in Hv. discriminate Hv.
  Qed.

  (* hence FreshProofs.cs_determines, which quantifies over all trees, fails for an index with
     a directory artifact *)
  Example cs_determines_all_trees_false :
    ~ cs_determines idH [([97], mkStage [] [116] [] [] [aR])] cR.
  Proof.
    intros Hd. destruct unsorted_not_determined as [_ [_ [_ [H1 [H2 Hn]]]]]. apply Hn.
    eapply (Hd [97] _ aR r1 r2u); [reflexivity|left; left; reflexivity|exact H1|exact H2].
  Qed.
End DetCex.

(* cat_exec looks at the project through the contents of its input only *)
Lemma cat_exec_content_only_stage sp s1 s2 a o i on :
  s_inputs s1 = [a] -> s_outputs s1 = [o] -> comps (a_path a) = [i] -> comps (a_path o) = [on] ->
  stage_like s1 s2 ->
  forall r1 r2 c1 c2,
    (forall p, In p (map a_path (s_inputs s1)) -> same_at2 c1 r1 c2 r2 (comps p)) ->
    match cat_exec sp s1 r1 c1, cat_exec sp s2 r2 c2 with
    | Ok r1', Ok r2' => forall p, In p (map a_path (s_outputs s1)) -> same_at2 c1 r1' c2 r2' (comps p)
    | Err, Err => True
    | _, _ => False
    end.
Proof.
  intros Hi Ho Hci Hco [Hcmd [_ [Hpi Hpo]]] r1 r2 c1 c2 Hin.
  rewrite Hi in Hpi. rewrite Ho in Hpo. cbn [map] in Hpi, Hpo.
  destruct (s_inputs s2) as [|a2 [|a3 l]] eqn:Hi2; try discriminate Hpi.
  destruct (s_outputs s2) as [|o2 [|o3 l2]] eqn:Ho2; try discriminate Hpo.
  cbn [map] in Hpi, Hpo. inversion Hpi as [Hpa]. inversion Hpo as [Hpo'].
  assert (Hs : same_at2 c1 r1 c2 r2 [i]).
  { rewrite <- Hci. apply Hin. rewrite Hi. left. reflexivity. }
  destruct Hs as [Hv _]. unfold cat_exec. rewrite Hi, Ho, Hi2, Ho2, <- Hpa, <- Hpo', Hci, Hco, Hv, <- Hcmd.
  destruct (view c2 r2 [i]) as [[b|d|t|es|]|] eqn:Hv2; try exact I.
  assert (Hdir : forall cc r, view cc r [i] = Some (File b) -> exists es, r = Dir es).
  { intros cc r Hr. unfold view in Hr. destruct r as [b0|d0|t0|es0|]; cbn [get option_map] in Hr; try discriminate.
    exists es0. reflexivity. }
  destruct (Hdir c1 r1 Hv) as [es1 He1]. destruct (Hdir c2 r2 Hv2) as [es2 He2]. subst r1 r2.
  rewrite !put_top. intros p [Hp|[]]. subst p. rewrite Hco.
  unfold same_at2, view. cbn [get blocked]. rewrite !alookup_ins_same. split; reflexivity.
Qed.

Module FreshCommitExamples.
  Import FreshExamples.
  Local Open Scope N_scope.

  (* the chain A: in -> x, B: x -> y of FreshProofs.FreshExamples, BEFORE the commit *)
  Example chain0_content_only : exec_content_only cat_exec idx0.
  Proof.
    intros sp s1 s2 r1 r2 c1 c2 Hs1 Hlike Hin. apply alookup_In in Hs1.
    destruct Hs1 as [Hs|[Hs|[]]]; inversion Hs; subst sp s1;
      (eapply cat_exec_content_only_stage;
       [reflexivity|reflexivity|vm_compute; reflexivity|vm_compute; reflexivity|exact Hlike|exact Hin]).
  Qed.

  Example chain0_wf : idx_wf idx0 /\ inputs_wf idx0 /\ PipelineProofs.ksorted (map fst idx0).
  Proof.
    split; [apply idx_wfb_sound; vm_compute; reflexivity|].
    split; [apply inputs_wfb_sound; vm_compute; reflexivity|].
    cbn. split; [intros k2 [Hk|[]]; subst k2; reflexivity|]. split; [intros k2 []|exact I].
  Qed.

  Example chain0_before : committed_fresh_on sorted_tree idH cat_exec idx0 [].
  Proof.
    apply committed_fresh_initial. intros sp stg Hs. apply alookup_In in Hs.
    destruct Hs as [Hs|[Hs|[]]]; inversion Hs; reflexivity.
  Qed.

  Example chain0_root1 : CommitProofs.resolved [] root1 /\ sorted_tree root1.
  Proof.
    split.
    - unfold root1. constructor. repeat constructor.
    - unfold root1. sorted_tac.
  Qed.

  Example idH_inj : H_inj idH.
  Proof. intros a b Hab. exact Hab. Qed.

  Example chain_first_run' :
    run_targets idH cat_exec idx0 [] true 3 [sB] (Ok (root0, [], [])) = Ok (root1, [(sA, true); (sB, true)], [sB; sA]).
  Proof. vm_compute. reflexivity. Qed.

  (* run_commit_establishes_committed_fresh_partial on the chain: the run and the commit are the
     ones of FreshExamples ([chain_first_run], [chain_commit]); the premises about the result are
     [chain_all_clean] (status after commit), [chain_below], [chain_determined] *)
  Example chain_establishes : committed_fresh_on sorted_tree idH cat_exec idx1 c2.
  Proof.
    destruct chain0_wf as [Hwf [Hin Hks]]. destruct chain0_root1 as [Hres Hsort].
    eapply (run_commit_establishes_committed_fresh_partial idH cat_exec Link idx0 [] idH_inj
              chain0_content_only (cat_exec_framed idx0 []) Hwf Hin Hks chain0_before
              3 [sB] root0 root1 [(sA, true); (sB, true)] [sB; sA] 3 [sB] idx1 root2 c2 [sB; sA]).
    - intros sp stg Hs _. apply alookup_In in Hs.
      destruct Hs as [Hs|[Hs|[]]]; inversion Hs; subst sp stg; intros Hx; vm_compute in Hx; discriminate Hx.
    - exact chain_first_run'.
    - apply StatusProofs.cache_ok_nil.
    - exact Hres.
    - exact Hsort.
    - exact (proj1 chain_commit).
    - apply all_clean_arts_match. exact chain_all_clean.
    - exact chain_below.
    - apply cs_determines_on_weaken. exact chain_determined.
  Qed.

  (* run; commit; the source file is edited; run: by the corollary *)
  Example chain_edited_fresh sp stg b :
    alookup sp [(sA, true); (sB, true)] = Some b -> alookup sp idx1 = Some stg -> s_cmd stg <> [] ->
    fresh cat_exec c2 sp stg root4.
  Proof.
    destruct chain0_wf as [Hwf [Hin Hks]]. destruct chain0_root1 as [Hres Hsort].
    eapply (run_commit_run_outputs_fresh_partial idH cat_exec Link idx0 [] idH_inj
              chain0_content_only (cat_exec_framed idx0 []) Hwf Hin Hks chain0_before
              3 [sB] root0 root1 [(sA, true); (sB, true)] [sB; sA] 3 [sB] idx1 root2 c2 [sB; sA]
              3 [sB] root3 root4 [(sA, true); (sB, true)] [sB; sA]).
    - intros sp' stg' Hs _. apply alookup_In in Hs.
      destruct Hs as [Hs|[Hs|[]]]; inversion Hs; subst sp' stg'; intros Hx; vm_compute in Hx; discriminate Hx.
    - exact chain_first_run'.
    - apply StatusProofs.cache_ok_nil.
    - exact Hres.
    - exact Hsort.
    - exact (proj1 chain_commit).
    - apply all_clean_arts_match. exact chain_all_clean.
    - exact chain_below.
    - apply cs_determines_on_weaken. exact chain_determined.
    - exact chain_framed.
    - exact chain_wf.
    - exact chain_inputs_wf.
    - exact chain_edited_run.
    - unfold root4. sorted_tac.
  Qed.
End FreshCommitExamples.

(* cat_exec is framed for every stage record and every cache *)
Lemma cat_exec_framed_like idx : exec_framed_like cat_exec idx.
Proof.
  intros sp s1 s2 c root root' _ _ Hex p Hp.
  apply (cat_exec_framed [(sp, s2)] c sp s2 root root'); [cbn [alookup]; rewrite beqb_refl; reflexivity|exact Hex|exact Hp].
Qed.

(* the complete chain on the example, with a hash whose digests have >= 3 characters
   (CommitProofs.Ht: "abc" ++ data; injective): no premise is computed on the result of the commit *)
Module FilesExample.
  Import FreshExamples.
  Local Open Scope N_scope.
  Definition Ht := CommitProofs.Ht.

  Definition cmt := Eval vm_compute in commit_targets Ht Link 3 [sA; sB] (Ok (mkI idx0 root1 [], [])).
  Definition idx1t := Eval vm_compute in match cmt with Ok (st, _) => i_idx st | Err => [] end.
  Definition root2t := Eval vm_compute in match cmt with Ok (st, _) => i_root st | Err => Other end.
  Definition c2t := Eval vm_compute in match cmt with Ok (st, _) => i_cache st | Err => [] end.
  Definition root3t : node :=
    Dir [(f_in, File [7; 8; 9]); (fx, LinkC (Ht (cmd ++ [1; 2; 3]))); (fy, LinkC (Ht (cmd ++ cmd ++ [1; 2; 3])))].

  Example t_run1 :
    run_targets Ht cat_exec idx0 [] true 3 [sB] (Ok (root0, [], [])) = Ok (root1, [(sA, true); (sB, true)], [sB; sA]).
  Proof. vm_compute. reflexivity. Qed.

  Example t_commit :
    commit_targets Ht Link 3 [sA; sB] (Ok (mkI idx0 root1 [], [])) = Ok (mkI idx1t root2t c2t, [sB; sA]).
  Proof. vm_compute. reflexivity. Qed.

  Example t_run2 :
    run_targets Ht cat_exec idx1t c2t true 3 [sB] (Ok (root3t, [], [])) = Ok (root4, [(sA, true); (sB, true)], [sB; sA]).
  Proof. vm_compute. reflexivity. Qed.

  Example t_files : files_only idx0.
  Proof.
    intros sp stg b Hs Hb. apply alookup_In in Hs.
    destruct Hs as [Hs|[Hs|[]]]; inversion Hs; subst sp stg; destruct Hb as [Hb|[Hb|[]]]; subst b; reflexivity.
  Qed.

  Example t_below : owned_below idx0.
  Proof.
    intros sp stg a op up Hstg Ha Hfo. apply alookup_In in Hstg.
    destruct Hstg as [Hs|[Hs|[]]]; inversion Hs; subst sp stg; destruct Ha as [Ha|[]]; subst a;
      vm_compute in Hfo; [discriminate Hfo|]. inversion Hfo; subst op up. vm_compute. reflexivity.
  Qed.

  Example t_apart : cpaths_apart idx0.
  Proof.
    assert (Hcp : forall p, cpath idx0 p -> p = f_in \/ p = fx \/ p = fy).
    { intros p [sp [stg [b [Hs [Hc Hp]]]]]. apply alookup_In in Hs.
      destruct Hs as [Hs|[Hs|[]]]; inversion Hs; subst sp stg; destruct Hc as [[Hb|[]]|[[Hb|[]] Hfo]]; subst b p;
        cbn [art a_path]; auto. }
    intros p q Hp Hq. unfold apart.
    destruct (Hcp p Hp) as [ -> | [ -> | -> ] ]; destruct (Hcp q Hq) as [ -> | [ -> | -> ] ];
      first [left; reflexivity|right; split; vm_compute; reflexivity].
  Qed.

  (* run; commit; edit the source; run: both stages are fresh, by the theorem *)
  Example t_fresh sp stg b :
    alookup sp [(sA, true); (sB, true)] = Some b -> alookup sp idx1t = Some stg -> s_cmd stg <> [] ->
    fresh cat_exec c2t sp stg root4.
  Proof.
    destruct FreshCommitExamples.chain0_wf as [Hwf [Hin Hks]].
    destruct FreshCommitExamples.chain0_root1 as [Hres Hsort].
    eapply (run_commit_run_outputs_fresh_files Ht cat_exec Link idx0 []
              CommitProofs.Ht_inj CommitProofs.Ht_has FreshCommitExamples.chain0_content_only
              (cat_exec_framed_like idx0) Hwf Hin t_below Hks t_files t_apart
              (committed_fresh_initial sorted_tree Ht cat_exec idx0 []
                 (fun sp0 stg0 Hs => match alookup_In _ _ _ Hs with
                                     | or_introl He => f_equal (fun e => s_cs (snd e)) (eq_sym He)
                                     | or_intror (or_introl He) => f_equal (fun e => s_cs (snd e)) (eq_sym He)
                                     | or_intror (or_intror F) => match F with end
                                     end))
              3 [sB] root0 root1 [(sA, true); (sB, true)] [sB; sA] 3 [sA; sB] idx1t root2t c2t [sB; sA]
              3 [sB] root3t root4 [(sA, true); (sB, true)] [sB; sA]).
    - intros sp' stg' Hs _. apply alookup_In in Hs.
      destruct Hs as [Hs|[Hs|[]]]; inversion Hs; subst sp' stg'; intros Hx; vm_compute in Hx; discriminate Hx.
    - exact t_run1.
    - apply StatusProofs.cache_ok_nil.
    - exact Hres.
    - exact Hsort.
    - intros sp' Hs. exact Hs.
    - exact t_commit.
    - exact t_run2.
    - unfold root4. sorted_tac.
  Qed.
End FilesExample.

Print Assumptions short_top_dir_tracked.
Print Assumptions short_top_dir_determines.
Print Assumptions cs_determines_all.
Print Assumptions run_outputs_fresh_on.
Print Assumptions committed_fresh_intro_on.
Print Assumptions commit_targets_keeps_contents.
Print Assumptions run_commit_fresh.
Print Assumptions committed_fresh_intro_match.
Print Assumptions run_commit_establishes_committed_fresh_partial.
Print Assumptions run_commit_run_outputs_fresh_partial.
Print Assumptions idx_wf_shape.
Print Assumptions inputs_wf_shape.
Print Assumptions owned_below_shape.
Print Assumptions commit_arts_match.
Print Assumptions commit_targets_arts_match_files.
Print Assumptions run_commit_establishes_committed_fresh_files.
Print Assumptions run_commit_run_outputs_fresh_files.
Print Assumptions FilesExample.t_fresh.
Print Assumptions FreshCommitExamples.chain_establishes.
Print Assumptions DetCex.norec_not_determined.
