(* Property C17, last clause: "... so status shows the definition up-to-date right after commit
   and modified after any such edit."

   The theorems of Proofs/StageFileProofs.v are about def_json / def_checksum alone.  Here they
   are connected to the traversals of Model/Index.v (status_stage / commit_stage, folded over the
   targets by PipelineProofs.status_targets / commit_targets exactly as System.step folds them)
   and to System.step itself.

   The definition part of a status entry [ss] (Model/Index.v, status_stage) for a stage [stg] is
       ss_has ss   = (s_cs stg is not empty)
       ss_match ss = ss_has ss && beqb (def_checksum H stg) (s_cs stg).

     status_def_match_iff, status_stage_def_match_iff
         every entry of a status result belongs to a stage of the index and
         ss_match = true <-> s_cs stg <> [] /\ def_checksum H stg = s_cs stg      (= RunProofs.def_ok)
     status_reports_targets
         every target has an entry
     commit_records_def_checksum
         the stage recorded for a committed path has s_cs = def_checksum of itself, the same
         command, working dir, outputs (paths and flags) and input paths as before; and, when
         the inputs of the stage it started from have distinct paths and are skip-cache (wf_in:
         what every loaded stage satisfies, nf_stage_wf_in), the same def_view and def_key
     commit_visits_targets
         every target is committed
     commit_changes_def_key_without_wf_in
         the wf_in premise is necessary: commit forces skip-cache on a plain input, so a stage
         whose plain input is not skip-cache gets another def_key
     status_after_commit_definition_up_to_date
         for a hash that never returns the empty string: status on the committed state reports
         ss_has = ss_match = true for every committed stage
     empty_hash_never_up_to_date
         that premise is necessary (H := fun _ => [])
     status_after_definition_edit_modified
         same recorded checksum, different def_key, injective hash: ss_match = false
     step_status_def_match_iff, step_status_after_commit_definition_up_to_date,
     step_status_after_definition_edit_modified
         the same for System.step (CCommit then CStatus; the stage files written back by commit
         are re-loaded by the status command)
     Module Demo: a closed example with CommitProofs.Ht.

   No axioms; Print Assumptions at the end of the file. *)
From Coq Require Import NArith List Bool Lia String.
From DudV Require Import Base.Bytes Base.Json Base.GoPath Model.Fs Model.Cache Model.Stage Model.Index
  Model.StageFile Model.System.
From DudV Require Import Proofs.ManifestRT Proofs.PipelineProofs Proofs.RunProofs Proofs.ScopeProofs
  Proofs.StageFileProofs.
From DudV Require Proofs.CommitProofs.
Import ListNotations.
Local Open Scope N_scope.

(* ------------------------------------------------------------------------------------------ *)
(* 0. small facts                                                                              *)
(* ------------------------------------------------------------------------------------------ *)

(* "the stage has a recorded checksum": the [has] of status_stage *)
Definition has_rec (stg : stage) : bool := match s_cs stg with [] => false | _ => true end.

Lemma has_rec_true stg : has_rec stg = true <-> s_cs stg <> [].
Proof.
  unfold has_rec. destruct (s_cs stg) as [|x r]; split.
  - discriminate.
  - intros Hn. exfalso. apply Hn. reflexivity.
  - intros _. discriminate.
  - intros _. reflexivity.
Qed.

Lemma a_path_blank a : a_path (blank a) = a_path a.
Proof. reflexivity. Qed.

Lemma a_skip_blank a : a_skip (blank a) = a_skip a.
Proof. reflexivity. Qed.

Lemma blank_set_cs a d : blank (set_cs a d) = blank a.
Proof. reflexivity. Qed.

Lemma blank_path_eq a b : blank a = blank b -> a_path a = a_path b.
Proof. intros E. rewrite <- (a_path_blank a), <- (a_path_blank b), E. reflexivity. Qed.

Lemma blank_skip_eq a b : blank a = blank b -> a_skip a = a_skip b.
Proof. intros E. rewrite <- (a_skip_blank a), <- (a_skip_blank b), E. reflexivity. Qed.

Lemma map_blank_paths l l' : map blank l = map blank l' -> map a_path l = map a_path l'.
Proof.
  intros E. apply (f_equal (map a_path)) in E. rewrite !map_map in E.
  rewrite (map_ext _ a_path a_path_blank l), (map_ext _ a_path a_path_blank l') in E. exact E.
Qed.

Lemma map_blank_in l l' a : map blank l = map blank l' -> In a l -> exists a', In a' l' /\ blank a' = blank a.
Proof.
  intros E Ha. assert (Hin : In (blank a) (map blank l')) by (rewrite <- E; apply in_map; exact Ha).
  apply in_map_iff in Hin as [a' [Hb Ha']]. exists a'. split; assumption.
Qed.

Lemma NoDup_map_inj {A B} (f : A -> B) (l : list A) x y :
  NoDup (map f l) -> In x l -> In y l -> f x = f y -> x = y.
Proof.
  induction l as [|z r IH]; intros Hnd Hx Hy Hf; [destruct Hx|].
  cbn [map] in Hnd. inversion Hnd as [|? ? Hnotin Hnd']; subst.
  destruct Hx as [Hx|Hx]; destruct Hy as [Hy|Hy].
  - congruence.
  - subst z. exfalso. apply Hnotin. rewrite Hf. apply in_map. exact Hy.
  - subst z. exfalso. apply Hnotin. rewrite <- Hf. apply in_map. exact Hx.
  - apply IH; assumption.
Qed.

(* ------------------------------------------------------------------------------------------ *)
(* 1. status: what the definition part of an entry says                                        *)
(* ------------------------------------------------------------------------------------------ *)
Section StatusDef.
  Variable H : bytes -> bytes.

  Definition def_entry (stg : stage) (ss : sstatus) : Prop :=
    ss_has ss = has_rec stg /\
    ss_match ss = has_rec stg && beqb (def_checksum H stg) (s_cs stg).

  Lemma def_entry_has stg ss : def_entry stg ss -> (ss_has ss = true <-> s_cs stg <> []).
  Proof. intros [Hh _]. rewrite Hh. apply has_rec_true. Qed.

  Lemma def_entry_match stg ss :
    def_entry stg ss ->
    (ss_match ss = true <-> s_cs stg <> [] /\ def_checksum H stg = s_cs stg).
  Proof.
    intros [_ Hm]. rewrite Hm, andb_true_iff, has_rec_true, beqb_eq. reflexivity.
  Qed.

  Variable idx : index.
  Variable c : cache.
  Variable root : node.

  Definition out_ok (out : list (bytes * sstatus)) : Prop :=
    forall sp ss, alookup sp out = Some ss -> exists stg, alookup sp idx = Some stg /\ def_entry stg ss.

  Definition grows_to (out out' : list (bytes * sstatus)) : Prop :=
    forall s, alookup s out <> None -> alookup s out' <> None.

  Lemma out_ok_nil : out_ok [].
  Proof. intros sp ss Hl. discriminate Hl. Qed.

  Lemma st_finish_entry sp stg r out' :
    st_finish H c root sp stg r = Ok out' ->
    exists plain out1 ss, r = Ok (plain, out1) /\ out' = ins_sorted sp ss out1 /\ def_entry stg ss.
  Proof.
    unfold st_finish. destruct r as [[plain out1]|]; [|discriminate].
    destruct (status_arts H plain root c) as [l1|]; [|discriminate].
    destruct (status_arts H (s_outputs stg) root c) as [l2|]; [|discriminate].
    intros Heq. inversion Heq. eexists _, _, _. split; [reflexivity|]. split; [reflexivity|].
    split; reflexivity.
  Qed.

  Definition sd_spec (f : nat) : Prop :=
    forall stack out sp out',
      out_ok out -> status_stage H f idx c root out stack sp = Ok out' ->
      out_ok out' /\ grows_to out out' /\ alookup sp out' <> None.

  Lemma sd_ins f stack :
    sd_spec f ->
    forall arts out plain out',
      out_ok out -> st_ins H idx c root f stack arts out = Ok (plain, out') ->
      out_ok out' /\ grows_to out out'.
  Proof.
    intros IH. induction arts as [|a r IHr]; intros out plain out' Hok Hrun; cbn [st_ins] in Hrun.
    - inversion Hrun; subst. split; [exact Hok|]. intros s Hs. exact Hs.
    - destruct (find_owner idx (a_path a)) as [[op up]|].
      + destruct (status_stage H f idx c root out stack op) as [out1|] eqn:Hsub; [|discriminate].
        destruct (IH _ _ _ _ Hok Hsub) as [Hok1 [Hg1 _]].
        destruct (IHr _ _ _ Hok1 Hrun) as [Hok2 Hg2].
        split; [exact Hok2|]. intros s Hs. apply Hg2, Hg1. exact Hs.
      + destruct (st_ins H idx c root f stack r out) as [[plain2 out2]|] eqn:Hrest; [|discriminate].
        inversion Hrun; subst plain out'. exact (IHr _ _ _ Hok Hrest).
  Qed.

  Lemma sd_post : forall f, sd_spec f.
  Proof.
    induction f as [|f IH]; intros stack out sp out' Hok Hrun.
    { cbn [status_stage] in Hrun. discriminate. }
    rewrite status_stage_S in Hrun.
    destruct (alookup sp out) as [b|] eqn:Hout.
    { inversion Hrun; subst out'. split; [exact Hok|]. split; [intros s Hs; exact Hs|].
      rewrite Hout. discriminate. }
    destruct (mem sp stack); [discriminate|].
    destruct (alookup sp idx) as [stg|] eqn:Hstg; [|discriminate].
    apply st_finish_entry in Hrun as [plain [out1 [ss [Hins [Hout' Hent]]]]]. subst out'.
    destruct (sd_ins f (sp :: stack) IH _ _ _ _ Hok Hins) as [Hok1 Hg1].
    split; [|split].
    - intros s ss0 Hl. destruct (bytes_dec s sp) as [Heq|Hne].
      + subst s. rewrite alookup_ins_same in Hl. inversion Hl; subst ss0.
        exists stg. split; [exact Hstg|exact Hent].
      + rewrite alookup_ins_other in Hl by exact Hne. exact (Hok1 _ _ Hl).
    - intros s Hs. destruct (bytes_dec s sp) as [Heq|Hne].
      + subst s. rewrite alookup_ins_same. discriminate.
      + rewrite alookup_ins_other by exact Hne. apply Hg1. exact Hs.
    - rewrite alookup_ins_same. discriminate.
  Qed.

  Lemma sd_targets fuel : forall ts out out',
    out_ok out -> status_targets H idx c root fuel ts (Ok out) = Ok out' ->
    out_ok out' /\ grows_to out out' /\ forall t, In t ts -> alookup t out' <> None.
  Proof.
    induction ts as [|t r IH]; intros out out' Hok Hrun.
    - inversion Hrun; subst out'. split; [exact Hok|]. split; [intros s Hs; exact Hs|].
      intros t Ht. destruct Ht.
    - rewrite status_targets_cons in Hrun.
      destruct (status_stage H fuel idx c root out [] t) as [out1|] eqn:Hone.
      2:{ rewrite status_targets_Err in Hrun. discriminate. }
      destruct (sd_post fuel _ _ _ _ Hok Hone) as [Hok1 [Hg1 Ht1]].
      destruct (IH _ _ Hok1 Hrun) as [Hok2 [Hg2 Hts2]].
      split; [exact Hok2|]. split; [intros s Hs; apply Hg2, Hg1; exact Hs|].
      intros t' [Ht'|Ht']; [subst t'; apply Hg2; exact Ht1|apply Hts2; exact Ht'].
  Qed.
End StatusDef.

(* 1a. the entry the status traversal (the fold System.step performs for CStatus) reports for a
   stage path: it is the entry of the stage [stg] the index holds for that path, its first flag
   says whether a checksum is recorded, and its second flag is true exactly when a checksum is
   recorded and it is the definition checksum of [stg] *)
Theorem status_def_match_iff (H : bytes -> bytes) idx c root fuel ts out sp ss :
  status_targets H idx c root fuel ts (Ok []) = Ok out ->
  alookup sp out = Some ss ->
  exists stg, alookup sp idx = Some stg /\
    (ss_has ss = true <-> s_cs stg <> []) /\
    (ss_match ss = true <-> s_cs stg <> [] /\ def_checksum H stg = s_cs stg).
Proof.
  intros Hrun Hl.
  destruct (sd_targets H idx c root fuel ts [] out (out_ok_nil H idx) Hrun) as [Hok _].
  destruct (Hok sp ss Hl) as [stg [Hstg Hent]]. exists stg. split; [exact Hstg|].
  split; [exact (def_entry_has H stg ss Hent)|exact (def_entry_match H stg ss Hent)].
Qed.

(* the same for one call of status_stage from the empty result *)
Theorem status_stage_def_match_iff (H : bytes -> bytes) idx c root fuel t out sp ss :
  status_stage H fuel idx c root [] [] t = Ok out ->
  alookup sp out = Some ss ->
  exists stg, alookup sp idx = Some stg /\
    (ss_has ss = true <-> s_cs stg <> []) /\
    (ss_match ss = true <-> s_cs stg <> [] /\ def_checksum H stg = s_cs stg).
Proof.
  intros Hrun. apply (status_def_match_iff H idx c root fuel [t] out sp ss).
  rewrite status_targets_cons. rewrite Hrun. reflexivity.
Qed.

(* with RunProofs.def_ok, the notion `dud run` uses for "the definition is unchanged" *)
Corollary status_def_match_def_ok (H : bytes -> bytes) idx c root fuel ts out sp ss :
  status_targets H idx c root fuel ts (Ok []) = Ok out ->
  alookup sp out = Some ss ->
  exists stg, alookup sp idx = Some stg /\ (ss_match ss = true <-> def_ok H stg).
Proof.
  intros Hrun Hl. destruct (status_def_match_iff H idx c root fuel ts out sp ss Hrun Hl) as [stg [Hstg [_ Hm]]].
  exists stg. split; [exact Hstg|exact Hm].
Qed.

Theorem status_reports_targets (H : bytes -> bytes) idx c root fuel ts out t :
  status_targets H idx c root fuel ts (Ok []) = Ok out ->
  In t ts -> exists ss, alookup t out = Some ss.
Proof.
  intros Hrun Ht.
  destruct (sd_targets H idx c root fuel ts [] out (out_ok_nil H idx) Hrun) as [_ [_ Hts]].
  pose proof (Hts t Ht) as Hn. destruct (alookup t out) as [ss|]; [exists ss; reflexivity|].
  exfalso. apply Hn. reflexivity.
Qed.

(* ------------------------------------------------------------------------------------------ *)
(* 2. commit: the recorded checksum is the definition checksum, the definition is kept          *)
(* ------------------------------------------------------------------------------------------ *)

(* what commit keeps of a stage unconditionally *)
Definition same_frame (a b : stage) : Prop :=
  s_cmd b = s_cmd a /\ s_wd b = s_wd a /\
  map blank (s_outputs b) = map blank (s_outputs a) /\
  map a_path (s_inputs b) = map a_path (s_inputs a).

(* the inputs as a loaded stage file has them: distinct paths, all skip-cache *)
Definition wf_in (s : stage) : Prop :=
  NoDup (map a_path (s_inputs s)) /\ forall a, In a (s_inputs s) -> a_skip a = true.

Definition srel (a b : stage) : Prop :=
  same_frame a b /\ (wf_in a -> def_view b = def_view a).

Lemma def_view_inputs a b : def_view b = def_view a -> map blank (s_inputs b) = map blank (s_inputs a).
Proof. unfold def_view. intros E. injection E as _ _ Ei _. exact Ei. Qed.

Lemma wf_in_view a b : def_view b = def_view a -> wf_in a -> wf_in b.
Proof.
  intros E [Hnd Hsk]. apply def_view_inputs in E. split.
  - rewrite (map_blank_paths _ _ E). exact Hnd.
  - intros x Hx. destruct (map_blank_in _ _ x E Hx) as [y [Hy Hb]].
    rewrite <- (blank_skip_eq _ _ Hb). apply Hsk. exact Hy.
Qed.

Lemma srel_refl a : srel a a.
Proof. split; [repeat split|intros _; reflexivity]. Qed.

Lemma srel_trans a b c : srel a b -> srel b c -> srel a c.
Proof.
  intros [[C1 [W1 [O1 I1]]] V1] [[C2 [W2 [O2 I2]]] V2]. split.
  - split; [congruence|]. split; [congruence|]. split; congruence.
  - intros Hwf. rewrite (V2 (wf_in_view a b (V1 Hwf) Hwf)). exact (V1 Hwf).
Qed.

(* every loaded stage (C17_normalise) has such inputs *)
Lemma nf_stage_wf_in s : nf_stage s = true -> wf_in s.
Proof.
  intros Hn. destruct (nf_stage_spec s Hn) as (_ & _ & H3 & _ & H5 & _). split.
  - rewrite strictly_sorted_ssorted in H5. rewrite <- map_fst_keyed.
    generalize (keyed (s_inputs s)) H5. clear. intros L.
    induction L as [|kv r IH]; intros Hs; [constructor|].
    cbn [ssorted] in Hs. apply andb_true_iff in Hs as [Hg Hr]. cbn [map]. constructor; [|exact (IH Hr)].
    intros Hin. apply in_map_iff in Hin as (kv' & E & Hin).
    unfold keys_gt in Hg. rewrite forallb_forall in Hg. pose proof (Hg kv' Hin) as Hlt.
    rewrite E, bltb_irrefl in Hlt. discriminate Hlt.
  - rewrite forallb_forall in H3. intros a Ha.
    exact (proj2 (nf_art_spec true a (H3 a Ha)) eq_refl).
Qed.

Definition orel (o1 o2 : option stage) : Prop :=
  match o1, o2 with
  | Some a, Some b => srel a b
  | None, None => True
  | _, _ => False
  end.

Definition irel (idx0 idx : index) : Prop := forall s, orel (alookup s idx0) (alookup s idx).

Lemma irel_refl idx : irel idx idx.
Proof. intros s. unfold orel. destruct (alookup s idx); [apply srel_refl|exact I]. Qed.

Definition force_skip_art (a : artifact) : artifact :=
  mkArt (a_cs a) (a_path a) (a_isdir a) (a_norec a) true.

Lemma blank_force_skip a : a_skip a = true -> blank (force_skip_art a) = blank a.
Proof. destruct a as [cs p d n k]. cbn. intros ->. reflexivity. Qed.

Section CommitDef.
  Variable H : bytes -> bytes.

  Lemma commit_file_blank a n c st n' c' a' :
    commit_file H a n c st = Ok (n', c', a') -> blank a' = blank a.
  Proof.
    unfold commit_file.
    repeat (match goal with
            | |- (if ?b then _ else _) = _ -> _ => destruct b
            | |- match ?x with _ => _ end = _ -> _ => destruct x
            end);
      try discriminate; intros Heq; inversion Heq; subst; reflexivity.
  Qed.

  Lemma commit_node_blank a n c st n' c' a' :
    commit_node H a n c st = Ok (n', c', a') -> blank a' = blank a.
  Proof.
    destruct n; cbn [commit_node]; destruct (a_isdir a); try discriminate;
      try (apply commit_file_blank).
    destruct (old_contents a c) as [old|]; [|discriminate].
    match goal with
    | |- match ?X with _ => _ end = _ -> _ => destruct X as [[[es' c''] m]|]
    end; [|discriminate].
    intros Heq. inversion Heq; subst. reflexivity.
  Qed.

  Lemma commit_top_blank a root c st root' c' a' :
    commit_top H a root c st = Ok (root', c', a') -> blank a' = blank a.
  Proof.
    unfold commit_top. destruct (slot_of root (a_path a)) as [slot|]; [|discriminate].
    unfold commit_art. destruct slot as [n|]; [|discriminate].
    destruct (commit_node H a n c st) as [[[n1 c1] a1]|] eqn:Hn; [|discriminate].
    destruct (put root (GoPath.comps (a_path a)) (Some n1)); [|discriminate].
    intros Heq. inversion Heq; subst. eapply commit_node_blank. exact Hn.
  Qed.

  Lemma commit_arts_blank st : forall arts fs root c l root' c',
    commit_arts H arts fs root c st = Ok (l, root', c') ->
    map blank l = map blank (if fs then map force_skip_art arts else arts).
  Proof.
    induction arts as [|a r IH]; intros fs root c l root' c'; cbn [commit_arts].
    - intros Heq. inversion Heq. destruct fs; reflexivity.
    - match goal with
      | |- match commit_top H ?A0 root c st with _ => _ end = _ -> _ =>
        destruct (commit_top H A0 root c st) as [[[root1 c1] a1]|] eqn:Htop
      end; [|discriminate].
      destruct (commit_arts H r fs root1 c1 st) as [[[l2 root2] c2]|] eqn:Hrest; [|discriminate].
      intros Heq. inversion Heq; subst. cbn [map]. rewrite (IH _ _ _ _ _ _ Hrest).
      apply commit_top_blank in Htop. rewrite Htop. destruct fs; reflexivity.
  Qed.

  (* art_set with artifacts that are (up to the checksum) members of the list *)
  Lemma art_set_blank L0 arts x :
    NoDup (map a_path L0) -> map blank arts = map blank L0 ->
    (exists a, In a L0 /\ blank x = blank a) ->
    map blank (art_set arts x) = map blank L0.
  Proof.
    intros Hnd Harts [a0 [Ha0 Hx]]. rewrite <- Harts. unfold art_set. rewrite map_map.
    apply map_ext_in. intros b Hb.
    destruct (beqb (a_path b) (a_path x)) eqn:Hp; [|reflexivity].
    apply beqb_eq in Hp.
    destruct (map_blank_in _ _ b Harts Hb) as [b0 [Hb0 Hbb]].
    assert (Heq : b0 = a0).
    { apply (NoDup_map_inj a_path L0 b0 a0 Hnd Hb0 Ha0).
      rewrite (blank_path_eq _ _ Hbb), Hp. apply blank_path_eq. exact Hx. }
    subst b0. rewrite Hx, Hbb. reflexivity.
  Qed.

  Lemma fold_art_set_blank L0 :
    NoDup (map a_path L0) ->
    forall l, (forall x, In x l -> exists a, In a L0 /\ blank x = blank a) ->
    forall arts, map blank arts = map blank L0 ->
    map blank (fold_left art_set l arts) = map blank L0.
  Proof.
    intros Hnd. induction l as [|x r IH]; intros Hl arts Harts; cbn [fold_left]; [exact Harts|].
    apply IH.
    - intros y Hy. apply Hl. right. exact Hy.
    - apply art_set_blank; [exact Hnd|exact Harts|apply Hl; left; reflexivity].
  Qed.

  Variable strat : strategy.

  (* the two lists the input loop hands to the finishing part are made of the stage's inputs *)
  Lemma cm_ins_lists f stack : forall arts st done owned plain st' done',
    cm_ins H strat f stack arts st done = Ok (owned, plain, st', done') ->
    (forall o, In o owned -> exists a, In a arts /\ blank o = blank a) /\
    (forall p, In p plain -> In p arts).
  Proof.
    induction arts as [|a r IHr]; intros st done owned plain st' done' Hrun; cbn [cm_ins] in Hrun.
    - inversion Hrun; subst. split; intros x Hx; destruct Hx.
    - destruct (find_owner (i_idx st) (a_path a)) as [[op up]|].
      + destruct (commit_stage H f st strat done stack op) as [[st1 done1]|]; [|discriminate].
        destruct (cm_ins H strat f stack r st1 done1) as [[[[owned2 plain2] st2] done2]|] eqn:Hrest;
          [|discriminate].
        inversion Hrun; subst owned plain st' done'.
        destruct (IHr _ _ _ _ _ _ Hrest) as [Ho Hp]. split.
        * intros o [Hoo|Hoo].
          -- subst o. exists a. split; [left; reflexivity|apply blank_set_cs].
          -- destruct (Ho o Hoo) as [a' [Ha' Hb]]. exists a'. split; [right; exact Ha'|exact Hb].
        * intros p Hpp. right. apply Hp. exact Hpp.
      + destruct (cm_ins H strat f stack r st done) as [[[[owned2 plain2] st2] done2]|] eqn:Hrest;
          [|discriminate].
        inversion Hrun; subst owned plain st' done'.
        destruct (IHr _ _ _ _ _ _ Hrest) as [Ho Hp]. split.
        * intros o Hoo. destruct (Ho o Hoo) as [a' [Ha' Hb]]. exists a'. split; [right; exact Ha'|exact Hb].
        * intros p [Hpp|Hpp]; [left; exact Hpp|right; apply Hp; exact Hpp].
  Qed.

  (* the stage commit writes for [sp] *)
  Lemma cm_finish_srel sp stg owned plain st1 done1 st' done' :
    (forall o, In o owned -> exists a, In a (s_inputs stg) /\ blank o = blank a) ->
    (forall p, In p plain -> In p (s_inputs stg)) ->
    cm_finish H strat sp stg (Ok (owned, plain, st1, done1)) = Ok (st', done') ->
    exists stg2 root3 c3,
      st' = mkI (set_stage (i_idx st1) sp stg2) root3 c3 /\ done' = sp :: done1 /\
      s_cs stg2 = def_checksum H stg2 /\ srel stg stg2.
  Proof.
    intros Ho Hp. unfold cm_finish.
    destruct (commit_arts H plain true (i_root st1) (i_cache st1) strat) as [[[plain' root2] c2]|] eqn:Hpl;
      [|discriminate].
    destruct (commit_arts H (s_outputs stg) false root2 c2 strat) as [[[outs' root3] c3]|] eqn:Houts;
      [|discriminate].
    intros Heq. inversion Heq. eexists _, _, _.
    split; [reflexivity|]. split; [reflexivity|]. split; [reflexivity|].
    apply commit_arts_blank in Hpl. apply commit_arts_blank in Houts.
    split.
    - split; [reflexivity|]. split; [reflexivity|]. split; [exact Houts|].
      cbn [s_inputs]. apply fold_art_set_paths.
    - intros [Hnd Hsk]. unfold def_view. cbn [s_cmd s_wd s_inputs s_outputs].
      change (map (fun a => set_cs a []) outs') with (map blank outs').
      change (map (fun a => set_cs a []) (s_outputs stg)) with (map blank (s_outputs stg)).
      change (map (fun a => set_cs a []) (s_inputs stg)) with (map blank (s_inputs stg)).
      change (map (fun a => set_cs a []) (fold_left art_set (owned ++ plain') (s_inputs stg)))
        with (map blank (fold_left art_set (owned ++ plain') (s_inputs stg))).
      rewrite Houts.
      rewrite (fold_art_set_blank (s_inputs stg) Hnd (owned ++ plain')); [reflexivity| |reflexivity].
      intros x Hx. apply in_app_or in Hx as [Hx|Hx]; [exact (Ho x Hx)|].
      assert (Hin : In (blank x) (map blank (map force_skip_art plain)))
        by (rewrite <- Hpl; apply in_map; exact Hx).
      apply in_map_iff in Hin as [y [Hy Hin]]. apply in_map_iff in Hin as [p [Hpy Hpin]]. subst y.
      exists p. split; [apply Hp; exact Hpin|].
      rewrite <- Hy. apply blank_force_skip. apply Hsk. apply Hp. exact Hpin.
  Qed.

  Variable idx0 : index.     (* the index the command starts with *)

  Definition recorded (st : istate) (done : list bytes) : Prop :=
    forall s, In s done -> exists stg, alookup s (i_idx st) = Some stg /\ s_cs stg = def_checksum H stg.

  Definition cinv (st : istate) (done : list bytes) : Prop :=
    irel idx0 (i_idx st) /\ recorded st done.

  Definition cd_spec (f : nat) : Prop :=
    forall stack st done sp st' done',
      cinv st done -> commit_stage H f st strat done stack sp = Ok (st', done') ->
      cinv st' done' /\ incl done done' /\ In sp done'.

  Lemma cd_ins f stack :
    cd_spec f ->
    forall arts st done owned plain st' done',
      cinv st done -> cm_ins H strat f stack arts st done = Ok (owned, plain, st', done') ->
      cinv st' done' /\ incl done done'.
  Proof.
    intros IH. induction arts as [|a r IHr]; intros st done owned plain st' done' Hinv Hrun;
      cbn [cm_ins] in Hrun.
    - inversion Hrun; subst. split; [exact Hinv|apply incl_refl].
    - destruct (find_owner (i_idx st) (a_path a)) as [[op up]|].
      + destruct (commit_stage H f st strat done stack op) as [[st1 done1]|] eqn:Hsub; [|discriminate].
        destruct (cm_ins H strat f stack r st1 done1) as [[[[owned2 plain2] st2] done2]|] eqn:Hrest;
          [|discriminate].
        inversion Hrun; subst owned plain st' done'.
        destruct (IH _ _ _ _ _ _ Hinv Hsub) as [Hinv1 [Hincl1 _]].
        destruct (IHr _ _ _ _ _ _ Hinv1 Hrest) as [Hinv2 Hincl2].
        split; [exact Hinv2|]. eapply incl_tran; eassumption.
      + destruct (cm_ins H strat f stack r st done) as [[[[owned2 plain2] st2] done2]|] eqn:Hrest;
          [|discriminate].
        inversion Hrun; subst owned plain st' done'. exact (IHr _ _ _ _ _ _ Hinv Hrest).
  Qed.

  Lemma cd_post : forall f, cd_spec f.
  Proof.
    induction f as [|f IH]; intros stack st done sp st' done' Hinv Hrun.
    { cbn [commit_stage] in Hrun. discriminate. }
    rewrite commit_stage_S in Hrun.
    destruct (mem sp done) eqn:Hdone.
    { inversion Hrun; subst. split; [exact Hinv|]. split; [apply incl_refl|]. apply mem_In. exact Hdone. }
    destruct (mem sp stack); [discriminate|].
    destruct (alookup sp (i_idx st)) as [stg|] eqn:Hstg; [|discriminate].
    destruct (cm_ins H strat f (sp :: stack) (s_inputs stg) st done) as [[[[owned plain] st1] done1]|] eqn:Hins.
    2:{ cbn [cm_finish] in Hrun. discriminate. }
    destruct (cm_ins_lists _ _ _ _ _ _ _ _ _ Hins) as [Ho Hp].
    destruct (cd_ins f (sp :: stack) IH _ _ _ _ _ _ _ Hinv Hins) as [[Hrel1 Hrec1] Hincl1].
    destruct (cm_finish_srel _ _ _ _ _ _ _ _ Ho Hp Hrun) as [stg2 [root3 [c3 [Hst' [Hdone' [Hcs Hsr]]]]]].
    subst st' done'. split; [split|split].
    - intros s. cbn [i_idx]. unfold set_stage. destruct (bytes_dec s sp) as [Heq|Hne].
      + subst s. rewrite alookup_ins_same.
        pose proof (proj1 Hinv sp) as Hs0. rewrite Hstg in Hs0. unfold orel in Hs0 |- *.
        destruct (alookup sp idx0) as [stg0|]; [|contradiction].
        eapply srel_trans; eassumption.
      + rewrite alookup_ins_other by exact Hne. apply Hrel1.
    - intros s Hs. cbn [i_idx]. unfold set_stage. destruct (bytes_dec s sp) as [Heq|Hne].
      + subst s. rewrite alookup_ins_same. exists stg2. split; [reflexivity|exact Hcs].
      + rewrite alookup_ins_other by exact Hne. apply Hrec1.
        destruct Hs as [Hs|Hs]; [congruence|exact Hs].
    - intros s Hs. right. apply Hincl1. exact Hs.
    - left. reflexivity.
  Qed.

  Lemma cd_targets fuel : forall ts st done st' done',
    cinv st done -> commit_targets H strat fuel ts (Ok (st, done)) = Ok (st', done') ->
    cinv st' done' /\ incl done done' /\ forall t, In t ts -> In t done'.
  Proof.
    induction ts as [|t r IH]; intros st done st' done' Hinv Hrun.
    - inversion Hrun; subst. split; [exact Hinv|]. split; [apply incl_refl|]. intros t Ht. destruct Ht.
    - rewrite commit_targets_cons in Hrun.
      destruct (commit_stage H fuel st strat done [] t) as [[st1 done1]|] eqn:Hone.
      2:{ rewrite commit_targets_Err in Hrun. discriminate. }
      destruct (cd_post fuel _ _ _ _ _ _ Hinv Hone) as [Hinv1 [Hincl1 Ht1]].
      destruct (IH _ _ _ _ Hinv1 Hrun) as [Hinv2 [Hincl2 Hts2]].
      split; [exact Hinv2|]. split; [eapply incl_tran; eassumption|].
      intros t' [Ht'|Ht']; [subst t'; apply Hincl2; exact Ht1|apply Hts2; exact Ht'].
  Qed.
End CommitDef.

Lemma cinv_init H idx root c : cinv H idx (mkI idx root c) [].
Proof. split; [apply irel_refl|]. intros s Hs. destruct Hs. Qed.

(* 2a. after a successful commit (the fold System.step performs for CCommit) the stage recorded
   for a visited path [sp] carries the definition checksum of itself; its command, working dir,
   outputs (paths, flags) and input paths are those of the stage the index held for [sp] before;
   and if that stage's inputs have distinct paths and are skip-cache (wf_in), so are the inputs'
   flags: def_view and def_key are unchanged *)
Theorem commit_records_def_checksum (H : bytes -> bytes) strat fuel ts idx root c idx' root' c' done sp :
  commit_targets H strat fuel ts (Ok (mkI idx root c, [])) = Ok (mkI idx' root' c', done) ->
  In sp done ->
  exists stg stg',
    alookup sp idx = Some stg /\ alookup sp idx' = Some stg' /\
    s_cs stg' = def_checksum H stg' /\
    s_cmd stg' = s_cmd stg /\ s_wd stg' = s_wd stg /\
    map blank (s_outputs stg') = map blank (s_outputs stg) /\
    map a_path (s_inputs stg') = map a_path (s_inputs stg) /\
    (wf_in stg -> def_view stg' = def_view stg /\ def_key stg' = def_key stg).
Proof.
  intros Hrun Hsp.
  destruct (cd_targets H strat idx fuel ts _ _ _ _ (cinv_init H idx root c) Hrun) as [[Hrel Hrec] _].
  destruct (Hrec sp Hsp) as [stg' [Hstg' Hcs]]. cbn [i_idx] in Hstg'.
  pose proof (Hrel sp) as Hs. cbn [i_idx] in Hs. rewrite Hstg' in Hs. unfold orel in Hs.
  destruct (alookup sp idx) as [stg|] eqn:Hstg; [|contradiction].
  destruct Hs as [[Hc [Hw [Ho Hi]]] Hv].
  exists stg, stg'. repeat (split; [first [reflexivity|assumption]|]).
  intros Hwf. split; [exact (Hv Hwf)|apply def_view_key; exact (Hv Hwf)].
Qed.

Theorem commit_visits_targets (H : bytes -> bytes) strat fuel ts idx root c st' done t :
  commit_targets H strat fuel ts (Ok (mkI idx root c, [])) = Ok (st', done) ->
  In t ts -> In t done.
Proof.
  intros Hrun Ht.
  destruct (cd_targets H strat idx fuel ts _ _ _ _ (cinv_init H idx root c) Hrun) as [_ [_ Hts]].
  exact (Hts t Ht).
Qed.

(* the stages that are not visited keep their stage (commit writes only what it visits) is
   ScopeProofs.scope_commit_stages; every stage, visited or not, keeps its definition: *)
Theorem commit_preserves_definitions (H : bytes -> bytes) strat fuel ts idx root c idx' root' c' done :
  commit_targets H strat fuel ts (Ok (mkI idx root c, [])) = Ok (mkI idx' root' c', done) ->
  forall sp stg, alookup sp idx = Some stg -> wf_in stg ->
    exists stg', alookup sp idx' = Some stg' /\ def_view stg' = def_view stg /\ def_key stg' = def_key stg.
Proof.
  intros Hrun sp stg Hstg Hwf.
  destruct (cd_targets H strat idx fuel ts _ _ _ _ (cinv_init H idx root c) Hrun) as [[Hrel _] _].
  pose proof (Hrel sp) as Hs. cbn [i_idx] in Hs. rewrite Hstg in Hs. unfold orel in Hs.
  destruct (alookup sp idx') as [stg'|]; [|contradiction].
  exists stg'. split; [reflexivity|]. destruct Hs as [_ Hv].
  split; [exact (Hv Hwf)|apply def_view_key; exact (Hv Hwf)].
Qed.

(* ------------------------------------------------------------------------------------------ *)
(* 3. status right after commit                                                                 *)
(* ------------------------------------------------------------------------------------------ *)

(* a real hash never returns the empty string; with it, whenever the status traversal on the
   committed state succeeds, every committed stage it reports has a recorded checksum that
   matches its definition *)
Theorem status_after_commit_definition_up_to_date
        (H : bytes -> bytes) strat fuel ts idx root c idx' root' c' done fuel2 ts2 out sp ss :
  (forall x, H x <> []) ->
  commit_targets H strat fuel ts (Ok (mkI idx root c, [])) = Ok (mkI idx' root' c', done) ->
  status_targets H idx' c' root' fuel2 ts2 (Ok []) = Ok out ->
  In sp done -> alookup sp out = Some ss ->
  ss_has ss = true /\ ss_match ss = true.
Proof.
  intros Hne Hcommit Hstatus Hsp Hl.
  destruct (commit_records_def_checksum H strat fuel ts idx root c idx' root' c' done sp Hcommit Hsp)
    as [stg [stg' [_ [Hstg' [Hcs _]]]]].
  destruct (status_def_match_iff H idx' c' root' fuel2 ts2 out sp ss Hstatus Hl) as [stg2 [Hstg2 [Hh Hm]]].
  rewrite Hstg' in Hstg2. inversion Hstg2; subst stg2.
  assert (Hn : s_cs stg' <> []) by (rewrite Hcs; unfold def_checksum; apply Hne).
  split; [apply Hh; exact Hn|apply Hm; split; [exact Hn|symmetry; exact Hcs]].
Qed.

(* ------------------------------------------------------------------------------------------ *)
(* 4. status after an edit of the definition                                                    *)
(* ------------------------------------------------------------------------------------------ *)
Theorem status_after_definition_edit_modified (H : bytes -> bytes) idx c root fuel ts out sp ss stg1 stg2 :
  (forall a b, H a = H b -> a = b) ->
  ok_stage stg1 -> ok_stage stg2 ->
  s_cs stg1 = def_checksum H stg1 ->            (* as commit left it *)
  s_cs stg2 = s_cs stg1 ->                      (* the edit keeps the recorded checksum ... *)
  def_key stg2 <> def_key stg1 ->               (* ... and changes the definition *)
  alookup sp idx = Some stg2 ->
  status_targets H idx c root fuel ts (Ok []) = Ok out ->
  alookup sp out = Some ss ->
  ss_match ss = false.
Proof.
  intros Hinj Hok1 Hok2 Hcs1 Hcs2 Hkey Hstg Hrun Hl.
  destruct (status_def_match_iff H idx c root fuel ts out sp ss Hrun Hl) as [stg [Hstg' [_ Hm]]].
  rewrite Hstg in Hstg'. inversion Hstg'; subst stg.
  destruct (ss_match ss) eqn:Hmatch; [|reflexivity].
  exfalso. apply Hkey. destruct (proj1 Hm eq_refl) as [_ Hd].
  apply (C17_def_checksum H stg2 stg1 Hinj Hok2 Hok1). rewrite Hd, Hcs2. exact Hcs1.
Qed.

(* ------------------------------------------------------------------------------------------ *)
(* 5. the same for whole commands (System.step)                                                 *)
(* ------------------------------------------------------------------------------------------ *)

(* a stage of the loaded index is the stage file of its path *)
Lemma load_index_files files : forall lines acc idx sp stg,
  load_index lines files acc = Some idx -> alookup sp idx = Some stg ->
  alookup sp acc = Some stg \/ alookup sp files = Some (Some stg).
Proof.
  induction lines as [|l r IH]; intros acc idx sp stg Hload Hl; cbn [load_index] in Hload.
  - inversion Hload; subst. left. exact Hl.
  - destruct (alookup l files) as [[s|]|] eqn:Hf; try discriminate.
    destruct (validate l s); [|discriminate].
    destruct (add_stage acc l s) as [acc'|] eqn:Hadd; [|discriminate].
    destruct (IH _ _ _ _ Hload Hl) as [Hacc|Hfiles]; [|right; exact Hfiles].
    unfold add_stage in Hadd. destruct (alookup l acc); [discriminate|].
    match type of Hadd with (if ?b then _ else _) = _ => destruct b end; [|discriminate].
    inversion Hadd; subst acc'.
    destruct (bytes_dec sp l) as [Heq|Hne].
    + subst sp. rewrite alookup_ins_same in Hacc. inversion Hacc; subst s. right. exact Hf.
    + rewrite alookup_ins_other in Hacc by exact Hne. left. exact Hacc.
Qed.

Section Steps.
  Variable H : bytes -> bytes.
  Variable sems : list (bytes * cmdsem).

  Lemma step_status_run w ts w' out :
    step H sems w (CStatus ts) = (w', true, OStatus out) ->
    exists idx, w_lock w = false /\ load_index (w_index w) (w_stages w) [] = Some idx /\
      status_targets H idx (w_cache w) (w_root w) (System.fuel_of idx) (all_or ts idx) (Ok []) = Ok out.
  Proof.
    intros Hstep.
    destruct (w_lock w) eqn:Hlock.
    { unfold step in Hstep. rewrite Hlock in Hstep. discriminate. }
    destruct (load_index (w_index w) (w_stages w) []) as [idx|] eqn:Hload.
    2:{ unfold step in Hstep. rewrite Hlock, Hload in Hstep. discriminate. }
    assert (Hidx : idx <> []).
    { intros Heq. unfold step in Hstep. rewrite Hlock, Hload, Heq in Hstep. discriminate. }
    rewrite (step_CStatus H sems w idx Hlock Hload ts Hidx) in Hstep.
    destruct (status_targets H idx (w_cache w) (w_root w) (System.fuel_of idx) (all_or ts idx) (Ok [])) as [out0|]
      eqn:Hrun; [|discriminate].
    inversion Hstep; subst w' out0. exists idx. split; [reflexivity|]. split; [reflexivity|exact Hrun].
  Qed.

  (* the entry `dud status` prints for a stage path is about the stage file of that path *)
  Theorem step_status_def_match_iff w ts w' out sp ss :
    step H sems w (CStatus ts) = (w', true, OStatus out) ->
    alookup sp out = Some ss ->
    exists stg, alookup sp (w_stages w) = Some (Some stg) /\
      (ss_has ss = true <-> s_cs stg <> []) /\
      (ss_match ss = true <-> s_cs stg <> [] /\ def_checksum H stg = s_cs stg).
  Proof.
    intros Hstep Hl. destruct (step_status_run w ts w' out Hstep) as [idx [_ [Hload Hrun]]].
    destruct (status_def_match_iff H idx _ _ _ _ out sp ss Hrun Hl) as [stg [Hstg Hrest]].
    exists stg. split; [|exact Hrest].
    destruct (load_index_files _ _ _ _ _ _ Hload Hstg) as [Hnil|Hf]; [discriminate Hnil|exact Hf].
  Qed.

  Theorem step_status_reports_targets w ts w' out t :
    step H sems w (CStatus ts) = (w', true, OStatus out) -> In t ts -> exists ss, alookup t out = Some ss.
  Proof.
    intros Hstep Ht. destruct (step_status_run w ts w' out Hstep) as [idx [_ [_ Hrun]]].
    apply (status_reports_targets H idx _ _ _ _ out t Hrun).
    destruct ts as [|t0 r]; [destruct Ht|exact Ht].
  Qed.

  (* commit, then status: every stage the commit was asked for (all of them when no target is
     given) that the status prints is printed with its definition up to date *)
  Theorem step_status_after_commit_definition_up_to_date w idx ts copy w' o1 ts2 w'' out sp ss :
    (forall x, H x <> []) ->
    w_lock w = false -> load_index (w_index w) (w_stages w) [] = Some idx ->
    step H sems w (CCommit ts copy) = (w', true, o1) ->
    In sp (all_or ts idx) ->
    step H sems w' (CStatus ts2) = (w'', true, OStatus out) ->
    alookup sp out = Some ss ->
    ss_has ss = true /\ ss_match ss = true.
  Proof.
    intros Hne Hlock Hload Hcommit Hsp Hstatus Hl.
    assert (Hts : all_or ts idx <> []) by (intros Heq; rewrite Heq in Hsp; destruct Hsp).
    rewrite (step_CCommit H sems w idx Hlock Hload ts copy Hts) in Hcommit.
    destruct (commit_targets H (strat_of copy) (System.fuel_of idx) (all_or ts idx) (Ok (mkI idx (w_root w) (w_cache w), [])))
      as [[[idx' root' c'] done]|] eqn:Hrun; [|discriminate].
    inversion Hcommit; subst w' o1. cbn [i_idx i_root i_cache] in *.
    assert (Hdone : In sp done) by (eapply commit_visits_targets; eassumption).
    destruct (commit_records_def_checksum H _ _ _ _ _ _ _ _ _ _ sp Hrun Hdone)
      as [stg [stg' [Hstg [Hstg' [Hcs _]]]]].
    destruct (step_status_def_match_iff _ _ _ _ sp ss Hstatus Hl) as [stg2 [Hfile [Hh Hm]]].
    cbn [w_stages] in Hfile.
    destruct (load_index_files _ _ _ _ _ _ Hload Hstg) as [Hnil|Hf]; [discriminate Hnil|].
    rewrite (alookup_write_back_in _ idx' done sp _ Hdone Hf), Hstg' in Hfile.
    inversion Hfile; subst stg2.
    assert (Hn : s_cs stg' <> []) by (rewrite Hcs; unfold def_checksum; apply Hne).
    split; [apply Hh; exact Hn|apply Hm; split; [exact Hn|symmetry; exact Hcs]].
  Qed.

  (* the stage file of [sp] was edited after a commit: same recorded checksum, other definition *)
  Theorem step_status_after_definition_edit_modified w ts w' out sp ss stg1 stg2 :
    (forall a b, H a = H b -> a = b) ->
    ok_stage stg1 -> ok_stage stg2 ->
    s_cs stg1 = def_checksum H stg1 ->
    s_cs stg2 = s_cs stg1 ->
    def_key stg2 <> def_key stg1 ->
    alookup sp (w_stages w) = Some (Some stg2) ->
    step H sems w (CStatus ts) = (w', true, OStatus out) ->
    alookup sp out = Some ss ->
    ss_match ss = false.
  Proof.
    intros Hinj Hok1 Hok2 Hcs1 Hcs2 Hkey Hfile Hstep Hl.
    destruct (step_status_def_match_iff w ts w' out sp ss Hstep Hl) as [stg [Hfile' [_ Hm]]].
    rewrite Hfile in Hfile'. inversion Hfile'; subst stg.
    destruct (ss_match ss) eqn:Hmatch; [|reflexivity].
    exfalso. apply Hkey. destruct (proj1 Hm eq_refl) as [_ Hd].
    apply (C17_def_checksum H stg2 stg1 Hinj Hok2 Hok1). rewrite Hd, Hcs2. exact Hcs1.
  Qed.
End Steps.

(* ------------------------------------------------------------------------------------------ *)
(* 6. closed examples                                                                           *)
(* ------------------------------------------------------------------------------------------ *)
Module Demo.
  Definition Ht := CommitProofs.Ht.       (* toy hash: prefix "abc"; injective, never empty *)
  Definition s (x : string) : bytes := of_string x.

  Lemma Ht_nonempty : forall x, Ht x <> [].
  Proof. intros x. discriminate. Qed.

  (* one stage as a stage file holds it: plain skip-cache input, cached output *)
  Definition stA : stage :=
    mkStage [] (s "cat src.txt > out.txt") []
            [mkArt [] (s "src.txt") false false true] [mkArt [] (s "out.txt") false false false].
  Definition w0 : world :=
    mkW (Dir [(s "out.txt", File (s "output")); (s "src.txt", File (s "source"))]) []
        [(s "a.yaml", Some stA)] [s "a.yaml"] false.

  Definition def_flags (r : world * bool * output) : option (bool * bool) :=
    match r with
    | (_, true, OStatus out) =>
      match alookup (s "a.yaml") out with Some ss => Some (ss_has ss, ss_match ss) | None => None end
    | _ => None
    end.

  Definition edit_cmd (cmd : bytes) (w : world) : world :=
    mkW (w_root w) (w_cache w)
        (map (fun f => (fst f, option_map (fun st => mkStage (s_cs st) cmd (s_wd st) (s_inputs st) (s_outputs st))
                                          (snd f))) (w_stages w))
        (w_index w) (w_lock w).

  Definition w1 : world := fst (fst (step Ht [] w0 (CCommit [] false))).
  Definition w2 : world := edit_cmd (s "cat src.txt src.txt > out.txt") w1.
  Definition w3 : world := fst (fst (step Ht [] w2 (CCommit [] false))).

  (* never committed: no recorded checksum; committed: up to date; command edited: modified;
     committed again: up to date *)
  Example demo_commit_edit_commit :
    def_flags (step Ht [] w0 (CStatus [])) = Some (false, false) /\
    snd (fst (step Ht [] w0 (CCommit [] false))) = true /\
    def_flags (step Ht [] w1 (CStatus [])) = Some (true, true) /\
    def_flags (step Ht [] w2 (CStatus [])) = Some (true, false) /\
    snd (fst (step Ht [] w2 (CCommit [] false))) = true /\
    def_flags (step Ht [] w3 (CStatus [])) = Some (true, true).
  Proof. vm_compute. repeat split. Qed.

  (* the edit kept the recorded checksum, and the second commit recorded another one *)
  Example demo_recorded_checksums :
    match alookup (s "a.yaml") (w_stages w1), alookup (s "a.yaml") (w_stages w2),
          alookup (s "a.yaml") (w_stages w3) with
    | Some (Some s1), Some (Some s2), Some (Some s3) =>
      s_cs s1 = def_checksum Ht s1 /\ s_cs s2 = s_cs s1 /\ beqb (def_checksum Ht s2) (s_cs s2) = false /\
      s_cs s3 = def_checksum Ht s3 /\ beqb (s_cs s3) (s_cs s1) = false
    | _, _, _ => False
    end.
  Proof. vm_compute. repeat split. Qed.

  (* the general theorems apply to this world *)
  Example demo_theorem_applies ss out w'' :
    step Ht [] w1 (CStatus []) = (w'', true, OStatus out) ->
    alookup (s "a.yaml") out = Some ss -> ss_has ss = true /\ ss_match ss = true.
  Proof.
    intros Hstatus Hl.
    destruct (step Ht [] w0 (CCommit [] false)) as [[w' ok] o1] eqn:Hstep.
    assert (Hok : ok = true).
    { change ok with (snd (fst (w', ok, o1))). rewrite <- Hstep. vm_compute. reflexivity. }
    subst ok.
    assert (Hw : w' = w1) by (unfold w1; rewrite Hstep; reflexivity). subst w'.
    apply (step_status_after_commit_definition_up_to_date Ht [] w0 [(s "a.yaml", stA)] [] false w1 o1 []
             w'' out (s "a.yaml") ss Ht_nonempty eq_refl).
    - vm_compute. reflexivity.
    - exact Hstep.
    - left. reflexivity.
    - exact Hstatus.
    - exact Hl.
  Qed.

  (* why wf_in is a premise of the "same definition" part of commit_records_def_checksum: a
     stage (never produced by the loader) whose plain input is NOT skip-cache; commit forces the
     flag, so the committed stage has another def_key *)
  Definition stB : stage :=
    mkStage [] (s "cmd") [] [mkArt [] (s "src.txt") false false false] [mkArt [] (s "out.txt") false false false].
  Definition idxB : index := [(s "b.yaml", stB)].
  Definition rootB : node := Dir [(s "out.txt", File (s "output")); (s "src.txt", File (s "source"))].

  Example commit_changes_def_key_without_wf_in :
    match commit_targets Ht Link 2 [s "b.yaml"] (Ok (mkI idxB rootB [], [])) with
    | Ok (st, done) =>
      done = [s "b.yaml"] /\
      match alookup (s "b.yaml") (i_idx st) with
      | Some stg' =>
        s_cs stg' = def_checksum Ht stg' /\
        map a_skip (s_inputs stB) = [false] /\ map a_skip (s_inputs stg') = [true] /\
        beqb (def_checksum Ht stg') (def_checksum Ht stB) = false /\
        (def_key stg' = def_key stB -> False)
      | None => False
      end
    | Err => False
    end.
  Proof.
    vm_compute. repeat split. intros E. discriminate E.
  Qed.

  (* why "the hash never returns the empty string" is a premise of
     status_after_commit_definition_up_to_date: with H := fun _ => [] the commit succeeds and
     records the empty checksum, which status reads as "no recorded checksum" *)
  Definition H0 : bytes -> bytes := fun _ => [].
  Definition stC : stage := mkStage [] (s "cmd") [] [] [mkArt [] (s "out.txt") false false true].
  Example empty_hash_never_up_to_date :
    match commit_targets H0 Link 2 [s "c.yaml"] (Ok (mkI [(s "c.yaml", stC)] rootB [], [])) with
    | Ok (st, done) =>
      done = [s "c.yaml"] /\
      match status_targets H0 (i_idx st) (i_cache st) (i_root st) 2 [s "c.yaml"] (Ok []) with
      | Ok out => match alookup (s "c.yaml") out with
                  | Some ss => ss_has ss = false /\ ss_match ss = false
                  | None => False
                  end
      | Err => False
      end
    | Err => False
    end.
  Proof. vm_compute. repeat split. Qed.
End Demo.

Print Assumptions status_def_match_iff.
Print Assumptions status_stage_def_match_iff.
Print Assumptions status_def_match_def_ok.
Print Assumptions status_reports_targets.
Print Assumptions nf_stage_wf_in.
Print Assumptions commit_records_def_checksum.
Print Assumptions commit_visits_targets.
Print Assumptions commit_preserves_definitions.
Print Assumptions status_after_commit_definition_up_to_date.
Print Assumptions status_after_definition_edit_modified.
Print Assumptions step_status_def_match_iff.
Print Assumptions step_status_reports_targets.
Print Assumptions step_status_after_commit_definition_up_to_date.
Print Assumptions step_status_after_definition_edit_modified.
Print Assumptions Demo.demo_commit_edit_commit.
Print Assumptions Demo.demo_recorded_checksums.
Print Assumptions Demo.demo_theorem_applies.
Print Assumptions Demo.commit_changes_def_key_without_wf_in.
Print Assumptions Demo.empty_hash_never_up_to_date.
