(* fsutil.SameContents (src/fsutil/same.go) is byte equality.

   The Go code allocates two buffers of B = 8 MB, and in each round reads into both, then compares
   the number of bytes read, then THE WHOLE BUFFERS (bytes.Equal(bytesA, bytesB), stale tail of the
   previous rounds included, not just the n bytes read), then the EOF flags.  A Read overwrites the
   first n cells of its buffer only.

   Two read models:
   - full reads (regular files, what the kernel does): a Read returns min(B, remaining) bytes and,
     once nothing remains, (0, EOF).  Result = equality, for every B >= 1  [same_contents_correct];
   - arbitrary short reads: the k-th Read of each file returns between 1 and B bytes as dictated by
     an arbitrary schedule.  A [true] answer still implies equality
     [same_contents_sound_short_reads]; ([false] may then be wrong: reads of different sizes).

   This justifies [beqb b (o_data o)] in Model/Cache.v [status_file]. *)
From Coq Require Import NArith List Lia Arith Bool.
From DudV Require Import Base.Bytes.
Import ListNotations.

(* overwrite the first |new| cells of a buffer *)
Definition overwrite (new buf : bytes) : bytes := new ++ skipn (length new) buf.

(* one Read asking for at most [n] bytes: data returned, rest of the file, EOF flag (true only on
   the empty read at the end) *)
Definition read_n (n : nat) (file : bytes) : bytes * bytes * bool :=
  match file with
  | [] => ([], [], true)
  | _ => (firstn n file, skipn n file, false)
  end.

(* the loop of SameContents; [sa k], [sb k] = size of the k-th read of file A / B *)
Fixpoint loop (sa sb : nat -> nat) (k fuel : nat) (fa fb bufA bufB : bytes) : bool :=
  match fuel with
  | O => false
  | S f =>
    let '(da, fa', eofA) := read_n (sa k) fa in
    let '(db, fb', eofB) := read_n (sb k) fb in
    let bufA' := overwrite da bufA in
    let bufB' := overwrite db bufB in
    if negb (length da =? length db) then false
    else if negb (beqb bufA' bufB') then false
    else if negb (Bool.eqb eofA eofB) then false
    else if eofA then true
    else loop sa sb (S k) f fa' fb' bufA' bufB'
  end.

(* make([]byte, B): zero-filled *)
Definition zeros (B : nat) : bytes := repeat 0%N B.

(* full reads: every Read asks for (and gets) B bytes while something remains *)
Definition same_contents (B : nat) (a b : bytes) : bool :=
  loop (fun _ => B) (fun _ => B) 0 (S (length a)) a b (zeros B) (zeros B).

(* short reads: the k-th read returns min(max 1 (s k), B) bytes (at least one: a Read that returns
   0 bytes without EOF makes no progress and the loop just repeats) *)
Definition clampB (B : nat) (s : nat -> nat) (k : nat) : nat := Nat.min (Nat.max 1 (s k)) B.
Definition same_contents_short (B : nat) (sa sb : nat -> nat) (a b : bytes) : bool :=
  loop (clampB B sa) (clampB B sb) 0 (S (length a)) a b (zeros B) (zeros B).

Lemma overwrite_length new buf : length new <= length buf -> length (overwrite new buf) = length buf.
Proof. intros Hle. unfold overwrite. rewrite app_length, skipn_length. lia. Qed.

Lemma app_eq_len_inv (x y u v : bytes) : length x = length y -> x ++ u = y ++ v -> x = y /\ u = v.
Proof.
  revert y; induction x as [|a x IH]; intros [|b y] Hl He; cbn [length app] in *; try discriminate.
  - split; [reflexivity|exact He].
  - injection He as -> He. destruct (IH y) as [-> ->]; [lia|exact He|]. split; reflexivity.
Qed.

(* comparing whole buffers after reads of the same size implies the data read is the same,
   whatever the stale contents *)
Lemma overwrite_inv da db bufA bufB :
  length da = length db -> overwrite da bufA = overwrite db bufB -> da = db.
Proof. intros Hl He. unfold overwrite in He. apply app_eq_len_inv in He; [tauto|exact Hl]. Qed.

(* with equal stale buffers, comparing whole buffers = comparing the data read *)
Lemma overwrite_eq da db buf :
  length da = length db -> (overwrite da buf = overwrite db buf <-> da = db).
Proof.
  intros Hl. split; [apply overwrite_inv; exact Hl|congruence].
Qed.

Lemma beqb_false a b : beqb a b = false <-> a <> b.
Proof.
  split.
  - intros Hf He. apply beqb_eq in He. congruence.
  - intros Hn. destruct (beqb a b) eqn:E; [|reflexivity]. apply beqb_eq in E. contradiction.
Qed.

(* ---------- full reads: the result is equality ---------- *)
Theorem loop_full_correct B : 1 <= B -> forall fuel k fa fb buf,
  length fa < fuel -> length buf = B ->
  loop (fun _ => B) (fun _ => B) k fuel fa fb buf buf = beqb fa fb.
Proof.
  intros B_pos. induction fuel as [|f IH]; intros k fa fb buf Hf Hb; [lia|].
  cbn [loop]. unfold read_n.
  destruct fa as [|x fa]; destruct fb as [|y fb].
  - (* both exhausted: both EOF, buffers untouched *)
    cbn [length Nat.eqb negb overwrite app skipn]. rewrite beqb_refl. reflexivity.
  - (* a exhausted, b not: sizes of the reads differ (0 vs >= 1) *)
    destruct B as [|B']; [lia|]. reflexivity.
  - destruct B as [|B']; [lia|]. reflexivity.
  - set (da := firstn B (x :: fa)). set (db := firstn B (y :: fb)).
    destruct (length da =? length db) eqn:El; cbn [negb].
    2:{ (* different read sizes => different file lengths => files differ *)
      symmetry. apply beqb_false. intros He.
      apply Nat.eqb_neq in El. apply El. subst da db. now rewrite He. }
    apply Nat.eqb_eq in El.
    destruct (beqb (overwrite da buf) (overwrite db buf)) eqn:Eq; cbn [negb].
    2:{ symmetry. apply beqb_false. intros He.
        apply beqb_false in Eq. apply Eq. subst da db. now rewrite He. }
    apply beqb_eq in Eq. pose proof Eq as Eq'. apply overwrite_eq in Eq'; [|exact El].
    cbn [Bool.eqb negb]. rewrite Eq.
    rewrite IH.
    + (* the remainders decide *)
      destruct (beqb (skipn B (x :: fa)) (skipn B (y :: fb))) eqn:Er.
      * apply beqb_eq in Er. symmetry. apply beqb_eq.
        rewrite <- (firstn_skipn B (x :: fa)), <- (firstn_skipn B (y :: fb)).
        fold da db. now rewrite Eq', Er.
      * symmetry. apply beqb_false. intros He. apply beqb_false in Er. apply Er. now rewrite He.
    + rewrite skipn_length. cbn [length] in *. lia.
    + rewrite <- Eq. rewrite overwrite_length; [exact Hb|]. subst da. rewrite firstn_length. lia.
Qed.

Theorem same_contents_correct : forall B a b, 1 <= B -> same_contents B a b = true <-> a = b.
Proof.
  intros B a b HB. unfold same_contents.
  rewrite loop_full_correct; [apply beqb_eq|exact HB|lia|apply repeat_length].
Qed.

(* ---------- arbitrary read sizes: a positive answer is right ---------- *)
(* no assumption at all on the schedules, the fuel or the buffers *)
Theorem loop_sound sa sb : forall fuel k fa fb bufA bufB,
  loop sa sb k fuel fa fb bufA bufB = true -> fa = fb.
Proof.
  induction fuel as [|f IH]; intros k fa fb bufA bufB Hl; [discriminate|].
  cbn [loop] in Hl. unfold read_n in Hl.
  destruct fa as [|x fa]; destruct fb as [|y fb].
  - reflexivity.
  - destruct (length (@nil N) =? length (firstn (sb k) (y :: fb))); cbn [negb] in Hl; [|discriminate].
    destruct (beqb _ _); cbn [negb Bool.eqb] in Hl; discriminate.
  - destruct (length (firstn (sa k) (x :: fa)) =? length (@nil N)); cbn [negb] in Hl; [|discriminate].
    destruct (beqb _ _); cbn [negb Bool.eqb] in Hl; discriminate.
  - set (da := firstn (sa k) (x :: fa)) in *. set (db := firstn (sb k) (y :: fb)) in *.
    destruct (length da =? length db) eqn:El; cbn [negb] in Hl; [|discriminate].
    apply Nat.eqb_eq in El.
    destruct (beqb (overwrite da bufA) (overwrite db bufB)) eqn:Eq; cbn [negb Bool.eqb] in Hl; [|discriminate].
    apply beqb_eq in Eq. pose proof (overwrite_inv _ _ _ _ El Eq) as Hd.
    apply IH in Hl.
    rewrite <- (firstn_skipn (sa k) (x :: fa)), <- (firstn_skipn (sb k) (y :: fb)).
    fold da db. rewrite Hd, Hl. reflexivity.
Qed.

Theorem same_contents_sound_short_reads : forall B sa sb a b,
  same_contents_short B sa sb a b = true -> a = b.
Proof. intros B sa sb a b. unfold same_contents_short. apply loop_sound. Qed.

(* full reads are the special case of the constant schedule *)
Lemma same_contents_short_full B a b : 1 <= B ->
  same_contents_short B (fun _ => B) (fun _ => B) a b = same_contents B a b.
Proof.
  intros HB. unfold same_contents_short, same_contents, clampB.
  replace (Nat.min (Nat.max 1 B) B) with B by lia. reflexivity.
Qed.

(* the answer can be a false negative under short reads: same file, different read sizes *)
Example short_reads_false_negative :
  same_contents_short 4 (fun _ => 1) (fun _ => 2) [1;2;3]%N [1;2;3]%N = false.
Proof. vm_compute. reflexivity. Qed.

(* stale tails are compared too, and it does not matter: B = 4, files of 6 bytes *)
Example stale_tail :
  same_contents 4 [1;2;3;4;5;6]%N [1;2;3;4;5;6]%N = true /\
  same_contents 4 [1;2;3;4;5;6]%N [1;2;3;4;5;7]%N = false /\
  same_contents 4 [1;2;3;4;5;6]%N [1;2;3;4;5]%N = false.
Proof. vm_compute. repeat split. Qed.

Print Assumptions same_contents_correct.
Print Assumptions same_contents_sound_short_reads.
