(* C15, last sentence: re-running `dud init` inside an initialised project never discards its index,
   configuration or cache: it refuses and leaves them untouched. *)
From Coq Require Import NArith List Bool.
From DudV Require Import Base.Bytes Model.Init.
Import ListNotations.
Local Open Scope N_scope.

Lemma init_initialised_refuses cfg rcl m i :
  m_index m = Some i -> init_cmd cfg rcl m = (m, false).
Proof. intros Hi; unfold init_cmd; rewrite Hi; reflexivity. Qed.

(* in every case: nothing that exists in an initialised project is replaced or removed *)
Lemma init_never_discards cfg rcl m :
  m_index m <> None ->
  let m' := fst (init_cmd cfg rcl m) in
  m_index m' = m_index m /\ m_config m' = m_config m /\ m_ignore m' = m_ignore m /\
  m_rclone m' = m_rclone m /\ m_cache m' = m_cache m /\ snd (init_cmd cfg rcl m) = false.
Proof.
  intros Hi; unfold init_cmd; destruct (m_index m) as [i|] eqn:E; [|contradiction].
  cbn; repeat split; auto.
Qed.

(* init succeeds exactly when there is no index, and then the project is initialised: a second
   init refuses and changes nothing (idempotence in the property's sense) *)
Lemma init_ok_iff cfg rcl m : snd (init_cmd cfg rcl m) = true <-> m_index m = None.
Proof. unfold init_cmd; destruct (m_index m); cbn; split; intros H; congruence. Qed.

Lemma init_twice cfg rcl cfg' rcl' m :
  init_cmd cfg' rcl' (fst (init_cmd cfg rcl m)) = (fst (init_cmd cfg rcl m), false).
Proof. unfold init_cmd; destruct (m_index m) as [i|] eqn:E; cbn; [rewrite E|]; reflexivity. Qed.

(* a fresh project: empty index, the given texts, the cache directory *)
Lemma init_fresh cfg rcl m :
  m_index m = None ->
  init_cmd cfg rcl m = (mkMeta (Some []) (Some cfg) (Some ignore_text) (Some rcl) true, true).
Proof. intros Hi; unfold init_cmd; rewrite Hi; reflexivity. Qed.

(* non-vacuity *)
Example init_example :
  let m0 := mkMeta None None None None false in
  let m1 := fst (init_cmd [35; 32; 99; 10] [35; 10] m0) in
  snd (init_cmd [35; 32; 99; 10] [35; 10] m0) = true /\ m_index m1 = Some [] /\
  init_cmd [1] [2] m1 = (m1, false) /\ comment_only [35; 32; 99; 10; 10; 35; 10] = true /\
  comment_only [35; 10; 99; 58; 32; 120; 10] = false.
Proof. vm_compute; repeat split. Qed.
