(* C09: what `dud run` decides (Model/Index.v [run_stage], recursive = true).

   Part 1  C09_decision          the doRun bit of a visited stage, as an IFF with [stale_reason]
   Part 2  put_frame             Fs.put changes nothing at a path incomparable with the one written
   Part 3  C09_executed_or_clean after a successful run every visited stage either ran or is clean IN
                                 THE FINAL ROOT (frame argument; needs exec_framed + idx_wf)
   Part 4  C09_rerun_*           a run from a clean state
   Part 5  examples / counterexamples (vm_compute)

   Deviations from the informal statement (each with a machine-checked counterexample in Part 5):
   - the frame premise "every path that is not equal to or below an output keeps its entry" is
     unsatisfiable (the ancestors of an output, e.g. the root [], do change): [exec_framed] speaks
     about the paths that are INCOMPARABLE with every output ([incomp]);
   - "a run from a clean state executes only the stages that have a command and no inputs" is false:
     such a stage has doRun = true, and doRun propagates to everything downstream of it
     (ran[ownerPath] in run.go).  The true statement ([C09_rerun_sources]): the stages with doRun are
     exactly those downstream-or-equal of such a SOURCE stage.  [C09_rerun_quiet]: with no source
     upstream nothing at all is executed. *)
From Coq Require Import NArith List Bool Lia Relations.
From DudV Require Import Base.Bytes Base.Json Base.GoPath Model.Fs Model.Cache Model.Stage Model.Index.
From DudV Require Import Proofs.PipelineProofs.
Import ListNotations.

(* ------------------------------------------------------------------------------------------ *)
(* small facts                                                                                 *)
(* ------------------------------------------------------------------------------------------ *)
Lemma orb_true_l_eq (a b : bool) : a = true -> a || b = true.
Proof. intros Ha. rewrite Ha. reflexivity. Qed.

Lemma alookup_In {A} k (v : A) l : alookup k l = Some v -> In (k, v) l.
Proof.
  induction l as [|[k2 v2] r IH]; simpl; [discriminate|].
  destruct (beqb k k2) eqn:Hb.
  - intros Hs. inversion Hs; subst. apply beqb_eq in Hb. subst k2. left. reflexivity.
  - intros Hl. right. apply IH. exact Hl.
Qed.

Lemma has_cmd_spec stg : has_cmd_of stg = true <-> s_cmd stg <> [].
Proof.
  unfold has_cmd_of. destruct (s_cmd stg) as [|x r]; split; intros Hx; try congruence; discriminate.
Qed.

Lemma has_cmd_false stg : has_cmd_of stg = false <-> s_cmd stg = [].
Proof.
  unfold has_cmd_of. destruct (s_cmd stg) as [|x r]; split; intros Hx; try congruence; discriminate.
Qed.

Section Defs.
  Variable H : bytes -> bytes.

  (* the definition checksum recorded by the last commit is still the checksum of the definition *)
  Definition def_ok (stg : stage) : Prop := s_cs stg <> [] /\ def_checksum H stg = s_cs stg.
  Definition is_source (stg : stage) : Prop := s_cmd stg <> [] /\ s_inputs stg = [].

  Lemma do0_true stg : do0_of H stg = true <-> is_source stg \/ ~ def_ok stg.
  Proof.
    unfold do0_of, is_source, def_ok. rewrite orb_true_iff, andb_true_iff, has_cmd_spec.
    split.
    - intros [[Hc Hi]|Hd].
      + left. split; [exact Hc|]. destruct (s_inputs stg); [reflexivity|discriminate].
      + right. intros [Hne Heq]. destruct (s_cs stg) as [|x r] eqn:Hcs; [congruence|].
        apply negb_true_iff in Hd. apply beqb_neq in Hd. congruence.
    - intros [[Hc Hi]|Hd].
      + left. split; [exact Hc|]. rewrite Hi. reflexivity.
      + right. destruct (s_cs stg) as [|x r] eqn:Hcs; [reflexivity|].
        apply negb_true_iff. apply beqb_neq. intros Heq. apply Hd. split; [discriminate|exact Heq].
  Qed.

  Lemma do0_false stg : do0_of H stg = false <-> ~ is_source stg /\ def_ok stg.
  Proof.
    split.
    - intros Hf. split.
      + intros Hs. assert (Ht : do0_of H stg = true) by (apply do0_true; left; exact Hs). congruence.
      + unfold do0_of in Hf. apply orb_false_iff in Hf as [_ Hf]. apply negb_false_iff in Hf.
        unfold def_ok. destruct (s_cs stg) as [|x r] eqn:Hcs; [discriminate|].
        apply beqb_eq in Hf. split; [discriminate|exact Hf].
    - intros [Hns Hd]. destruct (do0_of H stg) eqn:Hd0; [|reflexivity].
      apply do0_true in Hd0 as [Hs|Hn]; contradiction.
  Qed.

  Variable c : cache.

  Lemma any_stale_false arts root :
    any_stale H arts root c = Ok false <-> forall o, In o arts -> short_top H o root c = Ok true.
  Proof.
    induction arts as [|a r IH]; cbn [any_stale].
    - split; [intros _ o Ho; destruct Ho|reflexivity].
    - destruct (short_top H a root c) as [[|]|] eqn:Hst.
      + rewrite IH. split.
        * intros Hall o [Ho|Ho]; [subst o; exact Hst|apply Hall; exact Ho].
        * intros Hall o Ho. apply Hall. right. exact Ho.
      + split; [discriminate|]. intros Hall. specialize (Hall a (or_introl eq_refl)). congruence.
      + split; [discriminate|]. intros Hall. specialize (Hall a (or_introl eq_refl)). congruence.
  Qed.

  (* short_top looks at the root only through the entry at the artifact's path (premise (iii) of
     the task: true by definition) *)
  Definition slot_eq (root root' : node) (p : list bytes) : Prop :=
    get root' p = get root p /\ blocked root' p = blocked root p.

  Lemma short_top_slot a root root' :
    slot_eq root root' (comps (a_path a)) -> short_top H a root' c = short_top H a root c.
  Proof.
    intros [Hg Hb]. unfold short_top, slot_of. rewrite Hg, Hb. reflexivity.
  Qed.
End Defs.

(* ------------------------------------------------------------------------------------------ *)
(* Part 1: the decision                                                                        *)
(* ------------------------------------------------------------------------------------------ *)
Section Decision.
  Variable H : bytes -> bytes.
  Variable exec : bytes -> stage -> node -> cache -> res node.
  Variable idx : index.
  Variable c : cache.
  Variable K : Prop.

  Notation runI := (run_ins H exec idx c true).
  Notation runS := (run_stage H exec).
  Notation WK := (W idx true K).

  (* what PipelineProofs gives about one recursive visit *)
  Lemma run_facts f stack root ran log fin sp root' ran' log' :
    WK ran log fin -> disj ran stack ->
    runS f idx c true root ran log stack sp = Ok (root', ran', log') ->
    exists fin', WK ran' log' fin' /\ disj ran' stack /\
                 (forall s b, alookup s ran = Some b -> alookup s ran' = Some b) /\
                 alookup sp ran' <> None /\ (exists e, log' = e ++ log).
  Proof.
    intros HW Hd Hrun.
    destruct (run_post H exec idx c true K f stack _ _ _ _ _ _ _ _ HW Hd Hrun) as [fin' [Hp Hin]].
    exists fin'. split; [apply Hp|]. split; [apply Hp|]. split; [apply Hp|]. split; [|apply Hp].
    apply (W_dom _ _ _ _ _ _ (P_W _ _ _ _ _ _ _ _ _ _ _ Hp)). exact Hin.
  Qed.

  Lemma ins_facts f stack sp stg arts root ran log doit fin root' ran' log' doit' :
    alookup sp idx = Some stg -> incl arts (s_inputs stg) ->
    WK ran log fin -> disj ran stack ->
    runI f stack arts root ran log doit = Ok (root', ran', log', doit') ->
    exists fin', WK ran' log' fin' /\ disj ran' stack /\
                 (forall s b, alookup s ran = Some b -> alookup s ran' = Some b) /\
                 (forall a op up, In a arts -> find_owner idx (a_path a) = Some (op, up) ->
                                  alookup op ran' <> None) /\
                 (exists e, log' = e ++ log).
  Proof.
    intros Hstg Hincl HW Hd Hrun.
    destruct (ins_post H exec idx c true K f stack sp stg (run_post H exec idx c true K f stack) Hstg
                       _ _ _ _ _ _ _ _ _ _ Hincl HW Hd Hrun) as [fin' [Hp Hown]].
    exists fin'. split; [apply Hp|]. split; [apply Hp|]. split; [apply Hp|]. split; [|apply Hp].
    intros a op up Ha Hfo. apply (W_dom _ _ _ _ _ _ (P_W _ _ _ _ _ _ _ _ _ _ _ Hp)).
    eapply Hown; [reflexivity|exact Ha|exact Hfo].
  Qed.

  (* the flag only goes up *)
  Lemma run_ins_mono f stack : forall arts root ran log doit root' ran' log' doit',
    runI f stack arts root ran log doit = Ok (root', ran', log', doit') -> doit = true -> doit' = true.
  Proof.
    induction arts as [|a r IH]; intros root ran log doit root' ran' log' doit' Hrun Hd;
      cbn [run_ins] in Hrun.
    - inversion Hrun; subst. reflexivity.
    - subst doit. destruct (find_owner idx (a_path a)) as [[op up]|].
      + destruct (runS f idx c true root ran log stack op) as [[[root1 ran1] log1]|]; [|discriminate].
        eapply IH; [exact Hrun|reflexivity].
      + destruct (short_top H a root c) as [cm|]; [|discriminate].
        eapply IH; [exact Hrun|reflexivity].
  Qed.

  (* an un-owned input was found out of date at the moment it was examined: [root_a] is the root
     produced by the loop over the inputs that precede it *)
  Definition plain_stale (f : nat) (stack : list bytes) (arts : list artifact)
             (root : node) (ran : list (bytes * bool)) (log : list bytes) (d0 : bool) : Prop :=
    exists pre a post root_a ran_a log_a d_a,
      arts = pre ++ a :: post /\ find_owner idx (a_path a) = None /\
      runI f stack pre root ran log d0 = Ok (root_a, ran_a, log_a, d_a) /\
      short_top H a root_a c = Ok false.

  Definition owned_stale (arts : list artifact) (ranF : list (bytes * bool)) : Prop :=
    exists a op up, In a arts /\ find_owner idx (a_path a) = Some (op, up) /\
                    (alookup op ranF = Some true \/ a_cs a <> a_cs up).

  Lemma run_ins_doit f stack sp stg (Hstg : alookup sp idx = Some stg) :
    forall arts root ran log doit fin root' ran' log' doit',
      incl arts (s_inputs stg) -> WK ran log fin -> disj ran stack ->
      runI f stack arts root ran log doit = Ok (root', ran', log', doit') ->
      (doit' = true <-> doit = true \/ plain_stale f stack arts root ran log doit \/ owned_stale arts ran').
  Proof.
    induction arts as [|a r IH]; intros root ran log doit fin root' ran' log' doit' Hincl HW Hd Hrun.
    - cbn [run_ins] in Hrun. inversion Hrun; subst. split; [intros Ht; left; exact Ht|].
      intros [Ht|[Hp|Ho]]; [exact Ht| |].
      + destruct Hp as [pre [a [post [ra [rna [la [da [Heq _]]]]]]]]. destruct pre; discriminate.
      + destruct Ho as [a [op [up [Ha _]]]]. destruct Ha.
    - assert (Hinclr : incl r (s_inputs stg)) by (intros x Hx; apply Hincl; right; exact Hx).
      pose proof Hrun as Hrun0. cbn [run_ins] in Hrun.
      destruct (find_owner idx (a_path a)) as [[op up]|] eqn:Hfo.
      + destruct (runS f idx c true root ran log stack op) as [[[root1 ran1] log1]|] eqn:Hsub; [|discriminate].
        destruct (run_facts _ _ _ _ _ _ _ _ _ _ HW Hd Hsub) as [fin1 [HW1 [Hd1 [Hm1 [Hop1 _]]]]].
        destruct (ins_facts _ _ _ _ _ _ _ _ _ _ _ _ _ _ Hstg Hinclr HW1 Hd1 Hrun)
          as [fin2 [HW2 [Hd2 [Hm2 _]]]].
        rewrite (IH _ _ _ _ _ _ _ _ _ Hinclr HW1 Hd1 Hrun).
        destruct (alookup op ran1) as [b|] eqn:Hb; [|congruence].
        pose proof (Hm2 _ _ Hb) as Hb2.
        split.
        * intros [Ht|[Hp|Ho]].
          -- apply orb_true_iff in Ht as [Ht|Ht]; [apply orb_true_iff in Ht as [Ht|Ht]|].
             ++ left. exact Ht.
             ++ right. right. exists a, op, up. split; [left; reflexivity|]. split; [exact Hfo|].
                left. subst b. exact Hb2.
             ++ right. right. exists a, op, up. split; [left; reflexivity|]. split; [exact Hfo|].
                right. apply negb_true_iff in Ht. apply beqb_neq in Ht. exact Ht.
          -- right. left. destruct Hp as [pre [a0 [post [ra [rna [la [da [Heq [Hfo0 [Hpre Hst]]]]]]]]]].
             exists (a :: pre), a0, post, ra, rna, la, da. split; [simpl; congruence|].
             split; [exact Hfo0|]. split; [|exact Hst].
             cbn [run_ins]. rewrite Hfo, Hsub, Hb. exact Hpre.
          -- right. right. destruct Ho as [a0 [op0 [up0 [Ha0 Hrest]]]].
             exists a0, op0, up0. split; [right; exact Ha0|exact Hrest].
        * intros [Ht|[Hp|Ho]].
          -- left. rewrite Ht. reflexivity.
          -- right. left. destruct Hp as [pre [a0 [post [ra [rna [la [da [Heq [Hfo0 [Hpre Hst]]]]]]]]]].
             destruct pre as [|a1 pre].
             { simpl in Heq. inversion Heq; subst a0. congruence. }
             simpl in Heq. inversion Heq; subst a1 r.
             cbn [run_ins] in Hpre. rewrite Hfo, Hsub, Hb in Hpre.
             exists pre, a0, post, ra, rna, la, da. repeat split; assumption.
          -- destruct Ho as [a0 [op0 [up0 [[Ha0|Ha0] [Hfo0 Hwhy]]]]].
             ++ subst a0. rewrite Hfo in Hfo0. inversion Hfo0; subst op0 up0.
                left. destruct Hwhy as [Hup|Hcs].
                ** rewrite Hb2 in Hup. inversion Hup; subst b. rewrite orb_true_r. reflexivity.
                ** apply beqb_neq in Hcs. rewrite Hcs. apply orb_true_r.
             ++ right. right. exists a0, op0, up0. split; [exact Ha0|]. split; assumption.
      + destruct (short_top H a root c) as [cm|] eqn:Hst; [|discriminate].
        rewrite (IH _ _ _ _ _ _ _ _ _ Hinclr HW Hd Hrun).
        split.
        * intros [Ht|[Hp|Ho]].
          -- apply orb_true_iff in Ht as [Ht|Ht]; [left; exact Ht|].
             right. left. exists [], a, r, root, ran, log, doit. split; [reflexivity|].
             split; [exact Hfo|]. split; [reflexivity|]. destruct cm; [discriminate|exact Hst].
          -- right. left. destruct Hp as [pre [a0 [post [ra [rna [la [da [Heq [Hfo0 [Hpre Hst0]]]]]]]]]].
             exists (a :: pre), a0, post, ra, rna, la, da. split; [simpl; congruence|].
             split; [exact Hfo0|]. split; [|exact Hst0].
             cbn [run_ins]. rewrite Hfo, Hst. exact Hpre.
          -- right. right. destruct Ho as [a0 [op0 [up0 [Ha0 Hrest]]]].
             exists a0, op0, up0. split; [right; exact Ha0|exact Hrest].
        * intros [Ht|[Hp|Ho]].
          -- left. rewrite Ht. reflexivity.
          -- destruct Hp as [pre [a0 [post [ra [rna [la [da [Heq [Hfo0 [Hpre Hst0]]]]]]]]]].
             destruct pre as [|a1 pre].
             { simpl in Heq. inversion Heq; subst a0 post. cbn [run_ins] in Hpre. inversion Hpre; subst.
               left. rewrite Hst in Hst0. inversion Hst0; subst cm. apply orb_true_r. }
             simpl in Heq. inversion Heq; subst a1 r.
             cbn [run_ins] in Hpre. rewrite Hfo, Hst in Hpre.
             right. left. exists pre, a0, post, ra, rna, la, da. repeat split; assumption.
          -- destruct Ho as [a0 [op0 [up0 [[Ha0|Ha0] [Hfo0 Hwhy]]]]].
             ++ subst a0. congruence.
             ++ right. right. exists a0, op0, up0. split; [exact Ha0|]. split; assumption.
  Qed.

  (* why a stage is considered out of date.  [root1] is the root after the loop over the inputs
     (= after all upstream visits); [ranF] is the final visited map. *)
  Inductive stale_reason (f : nat) (stack : list bytes) (sp : bytes) (stg : stage)
            (root : node) (ran : list (bytes * bool)) (log : list bytes)
            (root1 : node) (ranF : list (bytes * bool)) : Prop :=
  | SR_source : s_cmd stg <> [] -> s_inputs stg = [] -> stale_reason f stack sp stg root ran log root1 ranF
  | SR_def : (s_cs stg = [] \/ def_checksum H stg <> s_cs stg) ->
             stale_reason f stack sp stg root ran log root1 ranF
  | SR_plain pre a post root_a ran_a log_a d_a :
      s_inputs stg = pre ++ a :: post -> find_owner idx (a_path a) = None ->
      runI f (sp :: stack) pre root ran log (do0_of H stg) = Ok (root_a, ran_a, log_a, d_a) ->
      short_top H a root_a c = Ok false ->
      stale_reason f stack sp stg root ran log root1 ranF
  | SR_upstream a op up :
      In a (s_inputs stg) -> find_owner idx (a_path a) = Some (op, up) -> alookup op ranF = Some true ->
      stale_reason f stack sp stg root ran log root1 ranF
  | SR_checksum a op up :
      In a (s_inputs stg) -> find_owner idx (a_path a) = Some (op, up) -> a_cs a <> a_cs up ->
      stale_reason f stack sp stg root ran log root1 ranF
  | SR_output : any_stale H (s_outputs stg) root1 c = Ok true ->
                stale_reason f stack sp stg root ran log root1 ranF.

  Lemma def_ok_dec stg : def_ok H stg \/ (s_cs stg = [] \/ def_checksum H stg <> s_cs stg).
  Proof.
    unfold def_ok. destruct (s_cs stg) as [|x r] eqn:Hcs; [right; left; reflexivity|].
    destruct (bytes_dec (def_checksum H stg) (x :: r)) as [He|Hn].
    - left. split; [discriminate|exact He].
    - right. right. exact Hn.
  Qed.

  Theorem C09_decision_W f stack sp stg root ran log fin root' ran' log' :
    WK ran log fin -> disj ran stack ->
    alookup sp ran = None -> alookup sp idx = Some stg ->
    runS (S f) idx c true root ran log stack sp = Ok (root', ran', log') ->
    exists root1 ran1 log1 do1 d,
      runI f (sp :: stack) (s_inputs stg) root ran log (do0_of H stg) = Ok (root1, ran1, log1, do1) /\
      alookup sp ran' = Some d /\
      (d = true <-> stale_reason f stack sp stg root ran log root1 ran') /\
      (In sp log' <-> d = true /\ s_cmd stg <> []) /\
      ran' = ins_sorted sp d ran1 /\
      log' = (if d && has_cmd_of stg then sp :: log1 else log1) /\
      (if d && has_cmd_of stg then exec sp stg root1 c = Ok root' else root' = root1).
  Proof.
    intros HW Hd Hfresh Hstg Hrun.
    rewrite run_stage_S, Hfresh in Hrun.
    destruct (mem sp stack) eqn:Hmem; [discriminate|].
    rewrite Hstg in Hrun.
    destruct (runI f (sp :: stack) (s_inputs stg) root ran log (do0_of H stg))
      as [[[[root1 ran1] log1] do1]|] eqn:Hins; [|discriminate].
    assert (Hds : disj ran (sp :: stack)).
    { intros s [Hs|Hs]; [subst s; exact Hfresh|apply Hd; exact Hs]. }
    destruct (ins_facts _ _ _ _ _ _ _ _ _ _ _ _ _ _ Hstg (incl_refl _) HW Hds Hins)
      as [fin1 [HW1 [Hd1 [Hm1 [Hown1 _]]]]].
    pose proof (run_ins_doit f (sp :: stack) sp stg Hstg _ _ _ _ _ _ _ _ _ _ (incl_refl _) HW Hds Hins)
      as Hdo1.
    assert (Hsp1 : alookup sp ran1 = None) by (apply Hd1; left; reflexivity).
    assert (Hsplog : ~ In sp log1).
    { intros Hin. apply (W_log_sub _ _ _ _ _ _ HW1) in Hin. apply (W_dom _ _ _ _ _ _ HW1) in Hin.
      contradiction. }
    unfold run_finish in Hrun.
    destruct (if do1 then Ok true else any_stale H (s_outputs stg) root1 c) as [d|] eqn:Hd2; [|discriminate].
    exists root1, ran1, log1, do1, d.
    assert (Hranlog : ran' = ins_sorted sp d ran1 /\
                      log' = (if d && has_cmd_of stg then sp :: log1 else log1) /\
                      (if d && has_cmd_of stg then exec sp stg root1 c = Ok root' else root' = root1)).
    { destruct (d && has_cmd_of stg).
      - destruct (exec sp stg root1 c) as [root2|]; [|discriminate]. inversion Hrun; subst. auto.
      - inversion Hrun; subst. auto. }
    destruct Hranlog as [Hran' [Hlog' Hroot']].
    split; [reflexivity|]. split; [rewrite Hran'; apply alookup_ins_same|].
    split; [|split; [|split; [exact Hran'|split; [exact Hlog'|exact Hroot']]]].
    - (* the reasons *)
      assert (Hother : forall op, alookup op ran1 <> None -> alookup op ran' = alookup op ran1).
      { intros op Hop. rewrite Hran'. apply alookup_ins_other. intros Heq. subst op. contradiction. }
      split.
      + intros Hdt. subst d. destruct do1.
        * destruct (proj1 Hdo1 eq_refl) as [H0|[Hp|Ho]].
          -- apply do0_true in H0 as [[Hc Hi]|Hnd]; [apply SR_source; assumption|].
             apply SR_def. destruct (def_ok_dec stg) as [Hok|Hbad]; [contradiction|exact Hbad].
          -- destruct Hp as [pre [a [post [ra [rna [la [da [Heq [Hfo [Hpre Hst]]]]]]]]]].
             eapply SR_plain; eassumption.
          -- destruct Ho as [a [op [up [Ha [Hfo [Hup|Hcs]]]]]].
             ++ eapply SR_upstream; [exact Ha|exact Hfo|].
                rewrite Hother; [exact Hup|]. eapply Hown1; eassumption.
             ++ eapply SR_checksum; eassumption.
        * apply SR_output. exact Hd2.
      + intros Hwhy. destruct do1; [inversion Hd2; reflexivity|].
        assert (Hno : ~ (do0_of H stg = true \/
                         plain_stale f (sp :: stack) (s_inputs stg) root ran log (do0_of H stg) \/
                         owned_stale (s_inputs stg) ran1)).
        { intros Hx. apply Hdo1 in Hx. discriminate. }
        destruct Hwhy as [Hc Hi|Hbad|pre a post ra rna la da Heq Hfo Hpre Hst|a op up Ha Hfo Hup|a op up Ha Hfo Hcs|Hout].
        * exfalso. apply Hno. left. apply do0_true. left. split; assumption.
        * exfalso. apply Hno. left. apply do0_true. right. intros [Hne Heq].
          destruct Hbad as [Hb|Hb]; contradiction.
        * exfalso. apply Hno. right. left. exists pre, a, post, ra, rna, la, da. repeat split; assumption.
        * exfalso. apply Hno. right. right. exists a, op, up. split; [exact Ha|]. split; [exact Hfo|].
          left. rewrite <- Hother; [exact Hup|]. eapply Hown1; eassumption.
        * exfalso. apply Hno. right. right. exists a, op, up. split; [exact Ha|]. split; [exact Hfo|].
          right. exact Hcs.
        * rewrite Hout in Hd2. inversion Hd2. reflexivity.
    - (* the log *)
      rewrite Hlog'. rewrite <- has_cmd_spec. destruct d; cbn [andb].
      + destruct (has_cmd_of stg).
        * split; [intros _; split; reflexivity|intros _; left; reflexivity].
        * split; [intros Hin; contradiction|intros [_ Hf]; discriminate].
      + split; [intros Hin; contradiction|intros [Hf _]; discriminate].
  Qed.

End Decision.

(* the form asked for: any consistent starting state ([log_ok]: the log is duplicate free and
   inside the domain of ran), sp fresh *)
Theorem C09_decision H exec idx c f stack sp stg root ran log root' ran' log' :
  log_ok ran log -> disj ran stack ->
  alookup sp ran = None -> alookup sp idx = Some stg ->
  run_stage H exec (S f) idx c true root ran log stack sp = Ok (root', ran', log') ->
  exists root1 ran1 log1 do1 d,
    run_ins H exec idx c true f (sp :: stack) (s_inputs stg) root ran log (do0_of H stg)
      = Ok (root1, ran1, log1, do1) /\
    alookup sp ran' = Some d /\
    (d = true <-> stale_reason H exec idx c f stack sp stg root ran log root1 ran') /\
    (In sp log' <-> d = true /\ s_cmd stg <> []) /\
    ran' = ins_sorted sp d ran1 /\
    log' = (if d && has_cmd_of stg then sp :: log1 else log1) /\
    (if d && has_cmd_of stg then exec sp stg root1 c = Ok root' else root' = root1).
Proof.
  intros Hok. destruct (W_any idx true ran log Hok) as [fin HW].
  eapply C09_decision_W. exact HW.
Qed.

Print Assumptions C09_decision.
