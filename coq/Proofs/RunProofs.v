(* C09: what `dud run` decides (Model/Index.v [run_stage], recursive = true).

   Part 1  C09_decision          the doRun bit of a visited stage, as an IFF with [stale_reason]
   Part 2  put_frame             Fs.put changes nothing at a path incomparable with the one written
   Part 3  C09_executed_or_clean after a successful run every visited stage either ran or is clean IN
                                 THE FINAL ROOT (frame argument; needs exec_framed + idx_wf)
   Part 4  C09_rerun_*           a run from a clean state
   Part 5  examples / counterexamples (vm_compute)

   Deviations from the informal statement (each with a machine-checked counterexample in Part 5):
   - the frame premise "every path that is not equal to or below an output keeps its entry" is
     unsatisfiable (the ancestors of an output, e.g. the root [], do change): [exec_framed] speaks
     about the paths that are INCOMPARABLE with every output ([incomp]);
   - "a run from a clean state executes only the stages that have a command and no inputs" is false:
     such a stage has doRun = true, and doRun propagates to everything downstream of it
     (ran[ownerPath] in run.go).  The true statement ([C09_rerun_sources]): the stages with doRun are
     exactly those downstream-or-equal of such a SOURCE stage.  [C09_rerun_quiet]: with no source
     upstream nothing at all is executed. *)
From Coq Require Import NArith List Bool Lia Relations.
From DudV Require Import Base.Bytes Base.Json Base.GoPath Model.Fs Model.Cache Model.Stage Model.Index.
From DudV Require Import Proofs.PipelineProofs.
Import ListNotations.

(* ------------------------------------------------------------------------------------------ *)
(* small facts                                                                                 *)
(* ------------------------------------------------------------------------------------------ *)
Lemma orb_true_l_eq (a b : bool) : a = true -> a || b = true.
Proof. intros Ha. rewrite Ha. reflexivity. Qed.

Lemma alookup_In {A} k (v : A) l : alookup k l = Some v -> In (k, v) l.
Proof.
  induction l as [|[k2 v2] r IH]; simpl; [discriminate|].
  destruct (beqb k k2) eqn:Hb.
  - intros Hs. inversion Hs; subst. apply beqb_eq in Hb. subst k2. left. reflexivity.
  - intros Hl. right. apply IH. exact Hl.
Qed.

Lemma has_cmd_spec stg : has_cmd_of stg = true <-> s_cmd stg <> [].
Proof.
  unfold has_cmd_of. destruct (s_cmd stg) as [|x r]; split; intros Hx; try congruence; discriminate.
Qed.

Lemma has_cmd_false stg : has_cmd_of stg = false <-> s_cmd stg = [].
Proof.
  unfold has_cmd_of. destruct (s_cmd stg) as [|x r]; split; intros Hx; try congruence; discriminate.
Qed.

Section Defs.
  Variable H : bytes -> bytes.

  (* the definition checksum recorded by the last commit is still the checksum of the definition *)
  Definition def_ok (stg : stage) : Prop := s_cs stg <> [] /\ def_checksum H stg = s_cs stg.
  Definition is_source (stg : stage) : Prop := s_cmd stg <> [] /\ s_inputs stg = [].

  Lemma do0_true stg : do0_of H stg = true <-> is_source stg \/ ~ def_ok stg.
  Proof.
    unfold do0_of, is_source, def_ok. rewrite orb_true_iff, andb_true_iff, has_cmd_spec.
    split.
    - intros [[Hc Hi]|Hd].
      + left. split; [exact Hc|]. destruct (s_inputs stg); [reflexivity|discriminate].
      + right. intros [Hne Heq]. destruct (s_cs stg) as [|x r] eqn:Hcs; [congruence|].
        apply negb_true_iff in Hd. apply beqb_neq in Hd. congruence.
    - intros [[Hc Hi]|Hd].
      + left. split; [exact Hc|]. rewrite Hi. reflexivity.
      + right. destruct (s_cs stg) as [|x r] eqn:Hcs; [reflexivity|].
        apply negb_true_iff. apply beqb_neq. intros Heq. apply Hd. split; [discriminate|exact Heq].
  Qed.

  Lemma do0_false stg : do0_of H stg = false <-> ~ is_source stg /\ def_ok stg.
  Proof.
    split.
    - intros Hf. split.
      + intros Hs. assert (Ht : do0_of H stg = true) by (apply do0_true; left; exact Hs). congruence.
      + unfold do0_of in Hf. apply orb_false_iff in Hf as [_ Hf]. apply negb_false_iff in Hf.
        unfold def_ok. destruct (s_cs stg) as [|x r] eqn:Hcs; [discriminate|].
        apply beqb_eq in Hf. split; [discriminate|exact Hf].
    - intros [Hns Hd]. destruct (do0_of H stg) eqn:Hd0; [|reflexivity].
      apply do0_true in Hd0 as [Hs|Hn]; contradiction.
  Qed.

  Variable c : cache.

  Lemma any_stale_false arts root :
    any_stale H arts root c = Ok false <-> forall o, In o arts -> short_top H o root c = Ok true.
  Proof.
    induction arts as [|a r IH]; cbn [any_stale].
    - split; [intros _ o Ho; destruct Ho|reflexivity].
    - destruct (short_top H a root c) as [[|]|] eqn:Hst.
      + rewrite IH. split.
        * intros Hall o [Ho|Ho]; [subst o; exact Hst|apply Hall; exact Ho].
        * intros Hall o Ho. apply Hall. right. exact Ho.
      + split; [discriminate|]. intros Hall. specialize (Hall a (or_introl eq_refl)). congruence.
      + split; [discriminate|]. intros Hall. specialize (Hall a (or_introl eq_refl)). congruence.
  Qed.

  (* short_top looks at the root only through the entry at the artifact's path (premise (iii) of
     the task: true by definition) *)
  Definition slot_eq (root root' : node) (p : list bytes) : Prop :=
    get root' p = get root p /\ blocked root' p = blocked root p.

  Lemma short_top_slot a root root' :
    slot_eq root root' (comps (a_path a)) -> short_top H a root' c = short_top H a root c.
  Proof.
    intros [Hg Hb]. unfold short_top, slot_of. rewrite Hg, Hb. reflexivity.
  Qed.
End Defs.

(* ------------------------------------------------------------------------------------------ *)
(* Part 1: the decision                                                                        *)
(* ------------------------------------------------------------------------------------------ *)
Section Decision.
  Variable H : bytes -> bytes.
  Variable exec : bytes -> stage -> node -> cache -> res node.
  Variable idx : index.
  Variable c : cache.
  Variable K : Prop.

  Notation runI := (run_ins H exec idx c true).
  Notation runS := (run_stage H exec).
  Notation WK := (W idx true K).

  (* what PipelineProofs gives about one recursive visit *)
  Lemma run_facts f stack root ran log fin sp root' ran' log' :
    WK ran log fin -> disj ran stack ->
    runS f idx c true root ran log stack sp = Ok (root', ran', log') ->
    exists fin', WK ran' log' fin' /\ disj ran' stack /\
                 (forall s b, alookup s ran = Some b -> alookup s ran' = Some b) /\
                 alookup sp ran' <> None /\ (exists e, log' = e ++ log).
  Proof.
    intros HW Hd Hrun.
    destruct (run_post H exec idx c true K f stack _ _ _ _ _ _ _ _ HW Hd Hrun) as [fin' [Hp Hin]].
    exists fin'. split; [apply Hp|]. split; [apply Hp|]. split; [apply Hp|]. split; [|apply Hp].
    apply (W_dom _ _ _ _ _ _ (P_W _ _ _ _ _ _ _ _ _ _ _ Hp)). exact Hin.
  Qed.

  Lemma ins_facts f stack sp stg arts root ran log doit fin root' ran' log' doit' :
    alookup sp idx = Some stg -> incl arts (s_inputs stg) ->
    WK ran log fin -> disj ran stack ->
    runI f stack arts root ran log doit = Ok (root', ran', log', doit') ->
    exists fin', WK ran' log' fin' /\ disj ran' stack /\
                 (forall s b, alookup s ran = Some b -> alookup s ran' = Some b) /\
                 (forall a op up, In a arts -> find_owner idx (a_path a) = Some (op, up) ->
                                  alookup op ran' <> None) /\
                 (exists e, log' = e ++ log).
  Proof.
    intros Hstg Hincl HW Hd Hrun.
    destruct (ins_post H exec idx c true K f stack sp stg (run_post H exec idx c true K f stack) Hstg
                       _ _ _ _ _ _ _ _ _ _ Hincl HW Hd Hrun) as [fin' [Hp Hown]].
    exists fin'. split; [apply Hp|]. split; [apply Hp|]. split; [apply Hp|]. split; [|apply Hp].
    intros a op up Ha Hfo. apply (W_dom _ _ _ _ _ _ (P_W _ _ _ _ _ _ _ _ _ _ _ Hp)).
    eapply Hown; [reflexivity|exact Ha|exact Hfo].
  Qed.

  (* the flag only goes up *)
  Lemma run_ins_mono f stack : forall arts root ran log doit root' ran' log' doit',
    runI f stack arts root ran log doit = Ok (root', ran', log', doit') -> doit = true -> doit' = true.
  Proof.
    induction arts as [|a r IH]; intros root ran log doit root' ran' log' doit' Hrun Hd;
      cbn [run_ins] in Hrun.
    - inversion Hrun; subst. reflexivity.
    - subst doit. destruct (find_owner idx (a_path a)) as [[op up]|].
      + destruct (runS f idx c true root ran log stack op) as [[[root1 ran1] log1]|]; [|discriminate].
        eapply IH; [exact Hrun|reflexivity].
      + destruct (short_top H a root c) as [cm|]; [|discriminate].
        eapply IH; [exact Hrun|reflexivity].
  Qed.

  (* an un-owned input was found out of date at the moment it was examined: [root_a] is the root
     produced by the loop over the inputs that precede it *)
  Definition plain_stale (f : nat) (stack : list bytes) (arts : list artifact)
             (root : node) (ran : list (bytes * bool)) (log : list bytes) (d0 : bool) : Prop :=
    exists pre a post root_a ran_a log_a d_a,
      arts = pre ++ a :: post /\ find_owner idx (a_path a) = None /\
      runI f stack pre root ran log d0 = Ok (root_a, ran_a, log_a, d_a) /\
      short_top H a root_a c = Ok false.

  Definition owned_stale (arts : list artifact) (ranF : list (bytes * bool)) : Prop :=
    exists a op up, In a arts /\ find_owner idx (a_path a) = Some (op, up) /\
                    (alookup op ranF = Some true \/ a_cs a <> a_cs up).

  Lemma run_ins_doit f stack sp stg (Hstg : alookup sp idx = Some stg) :
    forall arts root ran log doit fin root' ran' log' doit',
      incl arts (s_inputs stg) -> WK ran log fin -> disj ran stack ->
      runI f stack arts root ran log doit = Ok (root', ran', log', doit') ->
      (doit' = true <-> doit = true \/ plain_stale f stack arts root ran log doit \/ owned_stale arts ran').
  Proof.
    induction arts as [|a r IH]; intros root ran log doit fin root' ran' log' doit' Hincl HW Hd Hrun.
    - cbn [run_ins] in Hrun. inversion Hrun; subst. split; [intros Ht; left; exact Ht|].
      intros [Ht|[Hp|Ho]]; [exact Ht| |].
      + destruct Hp as [pre [a [post [ra [rna [la [da [Heq _]]]]]]]]. destruct pre; discriminate.
      + destruct Ho as [a [op [up [Ha _]]]]. destruct Ha.
    - assert (Hinclr : incl r (s_inputs stg)) by (intros x Hx; apply Hincl; right; exact Hx).
      pose proof Hrun as Hrun0. cbn [run_ins] in Hrun.
      destruct (find_owner idx (a_path a)) as [[op up]|] eqn:Hfo.
      + destruct (runS f idx c true root ran log stack op) as [[[root1 ran1] log1]|] eqn:Hsub; [|discriminate].
        destruct (run_facts _ _ _ _ _ _ _ _ _ _ HW Hd Hsub) as [fin1 [HW1 [Hd1 [Hm1 [Hop1 _]]]]].
        destruct (ins_facts _ _ _ _ _ _ _ _ _ _ _ _ _ _ Hstg Hinclr HW1 Hd1 Hrun)
          as [fin2 [HW2 [Hd2 [Hm2 _]]]].
        rewrite (IH _ _ _ _ _ _ _ _ _ Hinclr HW1 Hd1 Hrun).
        destruct (alookup op ran1) as [b|] eqn:Hb; [|congruence].
        pose proof (Hm2 _ _ Hb) as Hb2.
        split.
        * intros [Ht|[Hp|Ho]].
          -- apply orb_true_iff in Ht as [Ht|Ht]; [apply orb_true_iff in Ht as [Ht|Ht]|].
             ++ left. exact Ht.
             ++ right. right. exists a, op, up. split; [left; reflexivity|]. split; [exact Hfo|].
                left. subst b. exact Hb2.
             ++ right. right. exists a, op, up. split; [left; reflexivity|]. split; [exact Hfo|].
                right. apply negb_true_iff in Ht. apply beqb_neq in Ht. exact Ht.
          -- right. left. destruct Hp as [pre [a0 [post [ra [rna [la [da [Heq [Hfo0 [Hpre Hst]]]]]]]]]].
             exists (a :: pre), a0, post, ra, rna, la, da. split; [simpl; congruence|].
             split; [exact Hfo0|]. split; [|exact Hst].
             cbn [run_ins]. rewrite Hfo, Hsub, Hb. exact Hpre.
          -- right. right. destruct Ho as [a0 [op0 [up0 [Ha0 Hrest]]]].
             exists a0, op0, up0. split; [right; exact Ha0|exact Hrest].
        * intros [Ht|[Hp|Ho]].
          -- left. rewrite Ht. reflexivity.
          -- right. left. destruct Hp as [pre [a0 [post [ra [rna [la [da [Heq [Hfo0 [Hpre Hst]]]]]]]]]].
             destruct pre as [|a1 pre].
             { simpl in Heq. inversion Heq; subst a0. congruence. }
             simpl in Heq. inversion Heq; subst a1 r.
             cbn [run_ins] in Hpre. rewrite Hfo, Hsub, Hb in Hpre.
             exists pre, a0, post, ra, rna, la, da. repeat split; assumption.
          -- destruct Ho as [a0 [op0 [up0 [[Ha0|Ha0] [Hfo0 Hwhy]]]]].
             ++ subst a0. rewrite Hfo in Hfo0. inversion Hfo0; subst op0 up0.
                left. destruct Hwhy as [Hup|Hcs].
                ** rewrite Hb2 in Hup. inversion Hup; subst b. rewrite orb_true_r. reflexivity.
                ** apply beqb_neq in Hcs. rewrite Hcs. apply orb_true_r.
             ++ right. right. exists a0, op0, up0. split; [exact Ha0|]. split; assumption.
      + destruct (short_top H a root c) as [cm|] eqn:Hst; [|discriminate].
        rewrite (IH _ _ _ _ _ _ _ _ _ Hinclr HW Hd Hrun).
        split.
        * intros [Ht|[Hp|Ho]].
          -- apply orb_true_iff in Ht as [Ht|Ht]; [left; exact Ht|].
             right. left. exists [], a, r, root, ran, log, doit. split; [reflexivity|].
             split; [exact Hfo|]. split; [reflexivity|]. destruct cm; [discriminate|exact Hst].
          -- right. left. destruct Hp as [pre [a0 [post [ra [rna [la [da [Heq [Hfo0 [Hpre Hst0]]]]]]]]]].
             exists (a :: pre), a0, post, ra, rna, la, da. split; [simpl; congruence|].
             split; [exact Hfo0|]. split; [|exact Hst0].
             cbn [run_ins]. rewrite Hfo, Hst. exact Hpre.
          -- right. right. destruct Ho as [a0 [op0 [up0 [Ha0 Hrest]]]].
             exists a0, op0, up0. split; [right; exact Ha0|exact Hrest].
        * intros [Ht|[Hp|Ho]].
          -- left. rewrite Ht. reflexivity.
          -- destruct Hp as [pre [a0 [post [ra [rna [la [da [Heq [Hfo0 [Hpre Hst0]]]]]]]]]].
             destruct pre as [|a1 pre].
             { simpl in Heq. inversion Heq; subst a0 post. cbn [run_ins] in Hpre. inversion Hpre; subst.
               left. rewrite Hst in Hst0. inversion Hst0; subst cm. apply orb_true_r. }
             simpl in Heq. inversion Heq; subst a1 r.
             cbn [run_ins] in Hpre. rewrite Hfo, Hst in Hpre.
             right. left. exists pre, a0, post, ra, rna, la, da. repeat split; assumption.
          -- destruct Ho as [a0 [op0 [up0 [[Ha0|Ha0] [Hfo0 Hwhy]]]]].
             ++ subst a0. congruence.
             ++ right. right. exists a0, op0, up0. split; [exact Ha0|]. split; assumption.
  Qed.

  (* why a stage is considered out of date.  [root1] is the root after the loop over the inputs
     (= after all upstream visits); [ranF] is the final visited map. *)
  Inductive stale_reason (f : nat) (stack : list bytes) (sp : bytes) (stg : stage)
            (root : node) (ran : list (bytes * bool)) (log : list bytes)
            (root1 : node) (ranF : list (bytes * bool)) : Prop :=
  | SR_source : s_cmd stg <> [] -> s_inputs stg = [] -> stale_reason f stack sp stg root ran log root1 ranF
  | SR_def : (s_cs stg = [] \/ def_checksum H stg <> s_cs stg) ->
             stale_reason f stack sp stg root ran log root1 ranF
  | SR_plain pre a post root_a ran_a log_a d_a :
      s_inputs stg = pre ++ a :: post -> find_owner idx (a_path a) = None ->
      runI f (sp :: stack) pre root ran log (do0_of H stg) = Ok (root_a, ran_a, log_a, d_a) ->
      short_top H a root_a c = Ok false ->
      stale_reason f stack sp stg root ran log root1 ranF
  | SR_upstream a op up :
      In a (s_inputs stg) -> find_owner idx (a_path a) = Some (op, up) -> alookup op ranF = Some true ->
      stale_reason f stack sp stg root ran log root1 ranF
  | SR_checksum a op up :
      In a (s_inputs stg) -> find_owner idx (a_path a) = Some (op, up) -> a_cs a <> a_cs up ->
      stale_reason f stack sp stg root ran log root1 ranF
  | SR_output : any_stale H (s_outputs stg) root1 c = Ok true ->
                stale_reason f stack sp stg root ran log root1 ranF.

  Lemma def_ok_dec stg : def_ok H stg \/ (s_cs stg = [] \/ def_checksum H stg <> s_cs stg).
  Proof.
    unfold def_ok. destruct (s_cs stg) as [|x r] eqn:Hcs; [right; left; reflexivity|].
    destruct (bytes_dec (def_checksum H stg) (x :: r)) as [He|Hn].
    - left. split; [discriminate|exact He].
    - right. right. exact Hn.
  Qed.

  Theorem C09_decision_W f stack sp stg root ran log fin root' ran' log' :
    WK ran log fin -> disj ran stack ->
    alookup sp ran = None -> alookup sp idx = Some stg ->
    runS (S f) idx c true root ran log stack sp = Ok (root', ran', log') ->
    exists root1 ran1 log1 do1 d,
      runI f (sp :: stack) (s_inputs stg) root ran log (do0_of H stg) = Ok (root1, ran1, log1, do1) /\
      alookup sp ran' = Some d /\
      (d = true <-> stale_reason f stack sp stg root ran log root1 ran') /\
      (In sp log' <-> d = true /\ s_cmd stg <> []) /\
      ran' = ins_sorted sp d ran1 /\
      log' = (if d && has_cmd_of stg then sp :: log1 else log1) /\
      (if d && has_cmd_of stg then exec sp stg root1 c = Ok root' else root' = root1).
  Proof.
    intros HW Hd Hfresh Hstg Hrun.
    rewrite run_stage_S, Hfresh in Hrun.
    destruct (mem sp stack) eqn:Hmem; [discriminate|].
    rewrite Hstg in Hrun.
    destruct (runI f (sp :: stack) (s_inputs stg) root ran log (do0_of H stg))
      as [[[[root1 ran1] log1] do1]|] eqn:Hins; [|discriminate].
    assert (Hds : disj ran (sp :: stack)).
    { intros s [Hs|Hs]; [subst s; exact Hfresh|apply Hd; exact Hs]. }
    destruct (ins_facts _ _ _ _ _ _ _ _ _ _ _ _ _ _ Hstg (incl_refl _) HW Hds Hins)
      as [fin1 [HW1 [Hd1 [Hm1 [Hown1 _]]]]].
    pose proof (run_ins_doit f (sp :: stack) sp stg Hstg _ _ _ _ _ _ _ _ _ _ (incl_refl _) HW Hds Hins)
      as Hdo1.
    assert (Hsp1 : alookup sp ran1 = None) by (apply Hd1; left; reflexivity).
    assert (Hsplog : ~ In sp log1).
    { intros Hin. apply (W_log_sub _ _ _ _ _ _ HW1) in Hin. apply (W_dom _ _ _ _ _ _ HW1) in Hin.
      contradiction. }
    unfold run_finish in Hrun.
    destruct (if do1 then Ok true else any_stale H (s_outputs stg) root1 c) as [d|] eqn:Hd2; [|discriminate].
    exists root1, ran1, log1, do1, d.
    assert (Hranlog : ran' = ins_sorted sp d ran1 /\
                      log' = (if d && has_cmd_of stg then sp :: log1 else log1) /\
                      (if d && has_cmd_of stg then exec sp stg root1 c = Ok root' else root' = root1)).
    { destruct (d && has_cmd_of stg).
      - destruct (exec sp stg root1 c) as [root2|]; [|discriminate]. inversion Hrun; subst. auto.
      - inversion Hrun; subst. auto. }
    destruct Hranlog as [Hran' [Hlog' Hroot']].
    split; [reflexivity|]. split; [rewrite Hran'; apply alookup_ins_same|].
    split; [|split; [|split; [exact Hran'|split; [exact Hlog'|exact Hroot']]]].
    - (* the reasons *)
      assert (Hother : forall op, alookup op ran1 <> None -> alookup op ran' = alookup op ran1).
      { intros op Hop. rewrite Hran'. apply alookup_ins_other. intros Heq. subst op. contradiction. }
      split.
      + intros Hdt. subst d. destruct do1.
        * destruct (proj1 Hdo1 eq_refl) as [H0|[Hp|Ho]].
          -- apply do0_true in H0 as [[Hc Hi]|Hnd]; [apply SR_source; assumption|].
             apply SR_def. destruct (def_ok_dec stg) as [Hok|Hbad]; [contradiction|exact Hbad].
          -- destruct Hp as [pre [a [post [ra [rna [la [da [Heq [Hfo [Hpre Hst]]]]]]]]]].
             eapply SR_plain; eassumption.
          -- destruct Ho as [a [op [up [Ha [Hfo [Hup|Hcs]]]]]].
             ++ eapply SR_upstream; [exact Ha|exact Hfo|].
                rewrite Hother; [exact Hup|]. eapply Hown1; eassumption.
             ++ eapply SR_checksum; eassumption.
        * apply SR_output. exact Hd2.
      + intros Hwhy. destruct do1; [inversion Hd2; reflexivity|].
        assert (Hno : ~ (do0_of H stg = true \/
                         plain_stale f (sp :: stack) (s_inputs stg) root ran log (do0_of H stg) \/
                         owned_stale (s_inputs stg) ran1)).
        { intros Hx. apply Hdo1 in Hx. discriminate. }
        destruct Hwhy as [Hc Hi|Hbad|pre a post ra rna la da Heq Hfo Hpre Hst|a op up Ha Hfo Hup|a op up Ha Hfo Hcs|Hout].
        * exfalso. apply Hno. left. apply do0_true. left. split; assumption.
        * exfalso. apply Hno. left. apply do0_true. right. intros [Hne Heq].
          destruct Hbad as [Hb|Hb]; contradiction.
        * exfalso. apply Hno. right. left. exists pre, a, post, ra, rna, la, da. repeat split; assumption.
        * exfalso. apply Hno. right. right. exists a, op, up. split; [exact Ha|]. split; [exact Hfo|].
          left. rewrite <- Hother; [exact Hup|]. eapply Hown1; eassumption.
        * exfalso. apply Hno. right. right. exists a, op, up. split; [exact Ha|]. split; [exact Hfo|].
          right. exact Hcs.
        * rewrite Hout in Hd2. inversion Hd2. reflexivity.
    - (* the log *)
      rewrite Hlog'. rewrite <- has_cmd_spec. destruct d; cbn [andb].
      + destruct (has_cmd_of stg).
        * split; [intros _; split; reflexivity|intros _; left; reflexivity].
        * split; [intros Hin; contradiction|intros [_ Hf]; discriminate].
      + split; [intros Hin; contradiction|intros [Hf _]; discriminate].
  Qed.

End Decision.

(* the form asked for: any consistent starting state ([log_ok]: the log is duplicate free and
   inside the domain of ran), sp fresh *)
Theorem C09_decision H exec idx c f stack sp stg root ran log root' ran' log' :
  log_ok ran log -> disj ran stack ->
  alookup sp ran = None -> alookup sp idx = Some stg ->
  run_stage H exec (S f) idx c true root ran log stack sp = Ok (root', ran', log') ->
  exists root1 ran1 log1 do1 d,
    run_ins H exec idx c true f (sp :: stack) (s_inputs stg) root ran log (do0_of H stg)
      = Ok (root1, ran1, log1, do1) /\
    alookup sp ran' = Some d /\
    (d = true <-> stale_reason H exec idx c f stack sp stg root ran log root1 ran') /\
    (In sp log' <-> d = true /\ s_cmd stg <> []) /\
    ran' = ins_sorted sp d ran1 /\
    log' = (if d && has_cmd_of stg then sp :: log1 else log1) /\
    (if d && has_cmd_of stg then exec sp stg root1 c = Ok root' else root' = root1).
Proof.
  intros Hok. destruct (W_any idx true ran log Hok) as [fin HW].
  eapply C09_decision_W. exact HW.
Qed.

Print Assumptions C09_decision.

(* ------------------------------------------------------------------------------------------ *)
(* Part 2: Fs.put is framed.  No sortedness of the entry lists is needed: alookup after         *)
(* ins_sorted / aremove at another key is unchanged for arbitrary association lists.            *)
(* ------------------------------------------------------------------------------------------ *)
(* neither path is equal to, above or below the other *)
Definition incomp (p q : list bytes) : Prop := is_prefix p q = false /\ is_prefix q p = false.

Lemma alookup_aremove_other {A} k k' (l : list (bytes * A)) : k <> k' -> alookup k (aremove k' l) = alookup k l.
Proof.
  intros Hne. induction l as [|[k2 v2] r IH]; cbn [aremove alookup]; [reflexivity|].
  destruct (beqb k' k2) eqn:Hb.
  - apply beqb_eq in Hb. subst k2. apply beqb_neq in Hne. rewrite Hne. exact IH.
  - cbn [alookup]. rewrite IH. reflexivity.
Qed.

Lemma alookup_dset_other es k k' v : k <> k' -> alookup k (dset es k' v) = alookup k es.
Proof.
  intros Hne. destruct v as [n|]; cbn [dset]; [apply alookup_ins_other|apply alookup_aremove_other]; exact Hne.
Qed.

Lemma incomp_cons_inv x q y p :
  incomp (x :: q) (y :: p) -> x <> y \/ (x = y /\ incomp q p).
Proof.
  intros [H1 H2]. cbn [is_prefix] in H1, H2.
  destruct (bytes_dec x y) as [He|Hn]; [|left; exact Hn].
  right. split; [exact He|]. subst y. rewrite beqb_refl in H1, H2. split; assumption.
Qed.

Lemma incomp_nil_r p : ~ incomp p [].
Proof. intros [_ H2]. cbn [is_prefix] in H2. discriminate. Qed.
Lemma incomp_nil_l p : ~ incomp [] p.
Proof. intros [H1 _]. cbn [is_prefix] in H1. discriminate. Qed.

Lemma put_frame : forall q n v n' p,
  put n q v = Some n' -> incomp q p -> get n' p = get n p /\ blocked n' p = blocked n p.
Proof.
  induction q as [|x q IH]; intros n v n' p Hput Hinc.
  { exfalso. eapply incomp_nil_l. exact Hinc. }
  destruct p as [|y p]; [exfalso; eapply incomp_nil_r; exact Hinc|].
  cbn [put] in Hput. destruct n as [b|d|t|es|]; try discriminate.
  assert (Hother : forall es', (forall k, k <> x -> alookup k es' = alookup k es) -> y <> x ->
             get (Dir es') (y :: p) = get (Dir es) (y :: p) /\ blocked (Dir es') (y :: p) = blocked (Dir es) (y :: p)).
  { intros es' Hes' Hne. cbn [get blocked]. rewrite (Hes' y Hne). split; reflexivity. }
  destruct (incomp_cons_inv _ _ _ _ Hinc) as [Hne|[Heq Hinc']].
  - (* different first component *)
    assert (Hne' : y <> x) by congruence.
    destruct (alookup x es) as [m|] eqn:Hx.
    + destruct q as [|x2 q].
      * inversion Hput; subst. apply Hother; [|exact Hne']. intros k Hk. first [apply alookup_dset_other; exact Hk|apply alookup_ins_other; exact Hk|apply alookup_aremove_other; exact Hk].
      * destruct (put m (x2 :: q) v) as [m'|]; [|discriminate]. inversion Hput; subst.
        apply Hother; [|exact Hne']. intros k Hk. first [apply alookup_dset_other; exact Hk|apply alookup_ins_other; exact Hk|apply alookup_aremove_other; exact Hk].
    + destruct v as [nv|]; [|inversion Hput; subst; split; reflexivity].
      destruct q as [|x2 q].
      * inversion Hput; subst. apply Hother; [|exact Hne']. intros k Hk. first [apply alookup_dset_other; exact Hk|apply alookup_ins_other; exact Hk|apply alookup_aremove_other; exact Hk].
      * destruct (put (Dir []) (x2 :: q) (Some nv)) as [m'|]; [|discriminate]. inversion Hput; subst.
        apply Hother; [|exact Hne']. intros k Hk. first [apply alookup_dset_other; exact Hk|apply alookup_ins_other; exact Hk|apply alookup_aremove_other; exact Hk].
  - subst y. destruct q as [|x2 q]; [exfalso; eapply incomp_nil_l; exact Hinc'|].
    destruct (alookup x es) as [m|] eqn:Hx.
    + destruct (put m (x2 :: q) v) as [m'|] eqn:Hm; [|discriminate]. inversion Hput; subst.
      cbn [get blocked dset]. rewrite alookup_ins_same, Hx. eapply IH; eassumption.
    + destruct v as [nv|]; [|inversion Hput; subst; split; reflexivity].
      destruct (put (Dir []) (x2 :: q) (Some nv)) as [m'|] eqn:Hm; [|discriminate]. inversion Hput; subst.
      cbn [get blocked dset]. rewrite alookup_ins_same, Hx.
      destruct (IH _ _ _ _ Hm Hinc') as [Hg Hb]. rewrite Hg, Hb.
      destruct p as [|z p]; [exfalso; eapply incomp_nil_r; exact Hinc'|]. split; reflexivity.
Qed.
Print Assumptions put_frame.

(* ------------------------------------------------------------------------------------------ *)
(* Part 3: executed or clean (the frame argument)                                              *)
(* ------------------------------------------------------------------------------------------ *)
Section Frame.
  Variable H : bytes -> bytes.
  Variable exec : bytes -> stage -> node -> cache -> res node.
  Variable idx : index.
  Variable c : cache.

  Notation runI := (run_ins H exec idx c true).
  Notation runS := (run_stage H exec).

  (* (i) the command of a stage changes nothing at the paths that are incomparable with all the
     outputs of the stage.  (The entries AT or BELOW an output may change arbitrarily, the
     directories ABOVE an output necessarily change with it.) *)
  Definition exec_framed : Prop :=
    forall sp stg root root',
      alookup sp idx = Some stg -> exec sp stg root c = Ok root' ->
      forall p, (forall o, In o (s_outputs stg) -> incomp (comps (a_path o)) p) -> slot_eq root root' p.

  (* (ii) an output of a stage X is incomparable with every output and with every plain (un-owned)
     input of every other stage Y *)
  Definition idx_wf : Prop :=
    forall X sx Y sy o b,
      X <> Y -> alookup X idx = Some sx -> alookup Y idx = Some sy ->
      In o (s_outputs sx) ->
      (In b (s_outputs sy) \/ (In b (s_inputs sy) /\ find_owner idx (a_path b) = None)) ->
      incomp (comps (a_path o)) (comps (a_path b)).

  (* not visited before, visited now *)
  Definition newly (ran ran' : list (bytes * bool)) (X : bytes) : Prop :=
    alookup X ran = None /\ alookup X ran' <> None.

  Definition outside (S : bytes -> Prop) (p : list bytes) : Prop :=
    forall X sx o, S X -> alookup X idx = Some sx -> In o (s_outputs sx) -> incomp (comps (a_path o)) p.

  (* the root changed at most at/above/below the outputs of the stages in S *)
  Definition touched (S : bytes -> Prop) (root root' : node) : Prop :=
    forall p, outside S p -> slot_eq root root' p.

  Lemma touched_refl S root : touched S root root.
  Proof. intros p _. split; reflexivity. Qed.

  Lemma touched_trans (S1 S2 S : bytes -> Prop) r0 r1 r2 :
    (forall X, S1 X -> S X) -> (forall X, S2 X -> S X) ->
    touched S1 r0 r1 -> touched S2 r1 r2 -> touched S r0 r2.
  Proof.
    intros H1 H2 Ht1 Ht2 p Hout.
    assert (Ho1 : outside S1 p) by (intros X sx o HX; apply Hout; apply H1; exact HX).
    assert (Ho2 : outside S2 p) by (intros X sx o HX; apply Hout; apply H2; exact HX).
    destruct (Ht1 p Ho1) as [Hg1 Hb1]. destruct (Ht2 p Ho2) as [Hg2 Hb2].
    split; congruence.
  Qed.

  Lemma touched_weaken (S1 S : bytes -> Prop) r0 r1 :
    (forall X, S1 X -> S X) -> touched S1 r0 r1 -> touched S r0 r1.
  Proof.
    intros H1 Ht. eapply touched_trans; [exact H1|exact H1|exact Ht|apply touched_refl].
  Qed.

  (* unchanged since its last commit, in state (root, ranv): definition, plain inputs, owned
     inputs (recorded checksum = the owner's, and the owner is itself clean), outputs *)
  Record clean_at (root : node) (ranv : list (bytes * bool)) (stg : stage) : Prop := {
    cl_def : def_ok H stg;
    cl_nosrc : ~ is_source stg;
    cl_plain : forall a, In a (s_inputs stg) -> find_owner idx (a_path a) = None ->
                         short_top H a root c = Ok true;
    cl_owned : forall a op up, In a (s_inputs stg) -> find_owner idx (a_path a) = Some (op, up) ->
                               a_cs a = a_cs up /\ alookup op ranv = Some false;
    cl_out : forall o, In o (s_outputs stg) -> short_top H o root c = Ok true }.

  Record Inv (root : node) (ran : list (bytes * bool)) (log : list bytes) : Prop := {
    I_idx : forall sp b, alookup sp ran = Some b -> exists stg, alookup sp idx = Some stg;
    I_clean : forall sp stg, alookup sp ran = Some false -> alookup sp idx = Some stg ->
                             clean_at root ran stg;
    I_log : forall sp, In sp log -> alookup sp ran = Some true;
    I_ran : forall sp stg, alookup sp ran = Some true -> alookup sp idx = Some stg ->
                           s_cmd stg <> [] -> In sp log }.

  Lemma Inv_nil root : Inv root [] [].
  Proof.
    split.
    - intros sp b Hs. discriminate.
    - intros sp stg Hs. discriminate.
    - intros sp Hs. destruct Hs.
    - intros sp stg Hs. discriminate.
  Qed.

  Hypothesis framed : exec_framed.
  Hypothesis wf : idx_wf.

  Definition mono (ran ran' : list (bytes * bool)) : Prop :=
    forall s b, alookup s ran = Some b -> alookup s ran' = Some b.

  Lemma clean_move (S : bytes -> Prop) root ran root' ran' Y sy :
    alookup Y idx = Some sy -> touched S root root' -> (forall X, S X -> X <> Y) -> mono ran ran' ->
    clean_at root ran sy -> clean_at root' ran' sy.
  Proof.
    intros HY Ht HS Hm Hcl.
    assert (Hsame : forall b, (In b (s_outputs sy) \/ (In b (s_inputs sy) /\ find_owner idx (a_path b) = None)) ->
                              short_top H b root' c = short_top H b root c).
    { intros b Hb. apply short_top_slot. apply Ht. intros X sx o HX Hsx Ho.
      eapply wf; [apply HS; exact HX|exact Hsx|exact HY|exact Ho|exact Hb]. }
    split.
    - apply Hcl.
    - apply Hcl.
    - intros a Ha Hfo. rewrite Hsame; [|right; split; assumption]. apply (cl_plain _ _ _ Hcl); assumption.
    - intros a op up Ha Hfo. destruct (cl_owned _ _ _ Hcl a op up Ha Hfo) as [Hcs Hop].
      split; [exact Hcs|apply Hm; exact Hop].
    - intros o Ho. rewrite Hsame; [|left; exact Ho]. apply (cl_out _ _ _ Hcl). exact Ho.
  Qed.

  (* the inputs examined so far gave no reason to run *)
  Definition pre_ok (root : node) (ranv : list (bytes * bool)) (done : list artifact) : Prop :=
    (forall a, In a done -> find_owner idx (a_path a) = None -> short_top H a root c = Ok true) /\
    (forall a op up, In a done -> find_owner idx (a_path a) = Some (op, up) ->
                     a_cs a = a_cs up /\ alookup op ranv = Some false).

  Lemma pre_ok_incl root ranv l1 l2 : incl l1 l2 -> pre_ok root ranv l2 -> pre_ok root ranv l1.
  Proof.
    intros Hi [Hp Ho]. split.
    - intros a Ha. apply Hp. apply Hi. exact Ha.
    - intros a op up Ha. apply Ho. apply Hi. exact Ha.
  Qed.

  Lemma pre_ok_nil root ranv : pre_ok root ranv [].
  Proof. split; [intros a Ha; destruct Ha|intros a op up Ha; destruct Ha]. Qed.

  Definition frame_spec (f : nat) (stack : list bytes) : Prop :=
    forall root ran log fin sp root' ran' log',
      W idx true True ran log fin -> disj ran stack -> Inv root ran log ->
      runS f idx c true root ran log stack sp = Ok (root', ran', log') ->
      Inv root' ran' log' /\ touched (newly ran ran') root root'.

  Lemma newly_left ran ran1 ran2 X : mono ran1 ran2 -> newly ran ran1 X -> newly ran ran2 X.
  Proof.
    intros Hm [Hn Hs]. split; [exact Hn|]. destruct (alookup X ran1) as [b|] eqn:Hb; [|congruence].
    rewrite (Hm _ _ Hb). discriminate.
  Qed.

  Lemma newly_right ran ran1 ran2 X : mono ran ran1 -> newly ran1 ran2 X -> newly ran ran2 X.
  Proof.
    intros Hm [Hn Hs]. split; [|exact Hs]. destruct (alookup X ran) as [b|] eqn:Hb; [|reflexivity].
    rewrite (Hm _ _ Hb) in Hn. discriminate.
  Qed.

  Lemma ins_frame f stack sp stg :
    frame_spec f stack -> alookup sp idx = Some stg -> In sp stack ->
    forall arts root ran log doit fin root' ran' log' doit' done,
      incl arts (s_inputs stg) -> incl done (s_inputs stg) ->
      W idx true True ran log fin -> disj ran stack -> Inv root ran log ->
      (doit = false -> pre_ok root ran done) ->
      runI f stack arts root ran log doit = Ok (root', ran', log', doit') ->
      Inv root' ran' log' /\ touched (newly ran ran') root root' /\
      (doit' = false -> pre_ok root' ran' (arts ++ done)).
  Proof.
    intros IH Hstg Hsp.
    induction arts as [|a r IHr];
      intros root ran log doit fin root' ran' log' doit' done Hincl Hdone HW Hd HI Hpre Hrun.
    - cbn [run_ins] in Hrun. inversion Hrun; subst.
      split; [exact HI|]. split; [apply touched_refl|]. exact Hpre.
    - assert (Hinclr : incl r (s_inputs stg)) by (intros x Hx; apply Hincl; right; exact Hx).
      assert (Ha : In a (s_inputs stg)) by (apply Hincl; left; reflexivity).
      assert (Hdone' : incl (a :: done) (s_inputs stg)).
      { intros x [Hx|Hx]; [subst x; exact Ha|apply Hdone; exact Hx]. }
      assert (Hshuffle : incl ((a :: r) ++ done) (r ++ a :: done)).
      { intros x Hx. apply in_app_or in Hx as [[Hx|Hx]|Hx]; apply in_or_app.
        - right. left. exact Hx.
        - left. exact Hx.
        - right. right. exact Hx. }
      cbn [run_ins] in Hrun.
      destruct (find_owner idx (a_path a)) as [[op up]|] eqn:Hfo.
      + destruct (runS f idx c true root ran log stack op) as [[[root1 ran1] log1]|] eqn:Hsub; [|discriminate].
        destruct (run_facts H exec idx c True _ _ _ _ _ _ _ _ _ _ HW Hd Hsub)
          as [fin1 [HW1 [Hd1 [Hm1 [Hop1 _]]]]].
        destruct (IH _ _ _ _ _ _ _ _ HW Hd HI Hsub) as [HI1 Ht1].
        destruct (ins_facts H exec idx c True _ _ _ _ _ _ _ _ _ _ _ _ _ _ Hstg Hinclr HW1 Hd1 Hrun)
          as [fin2 [HW2 [Hd2 [Hm2 _]]]].
        destruct (alookup op ran1) as [b|] eqn:Hb; [|congruence].
        assert (Hpre1 : doit || b || negb (beqb (a_cs a) (a_cs up)) = false -> pre_ok root1 ran1 (a :: done)).
        { intros Hf. apply orb_false_iff in Hf as [Hf Hcs]. apply orb_false_iff in Hf as [Hdo Hbf].
          subst b. apply negb_false_iff in Hcs. apply beqb_eq in Hcs.
          destruct (Hpre Hdo) as [Hpp Hpo]. split.
          - intros a0 [Ha0|Ha0] Hfo0; [subst a0; congruence|].
            rewrite <- (Hpp a0 Ha0 Hfo0). apply short_top_slot. apply Ht1.
            intros X sx o [HXn HXs] Hsx Ho.
            eapply wf; [|exact Hsx|exact Hstg|exact Ho|right; split; [apply Hdone; exact Ha0|exact Hfo0]].
            intros Heq. subst X. apply HXs. apply Hd1. exact Hsp.
          - intros a0 op0 up0 [Ha0|Ha0] Hfo0.
            + subst a0. rewrite Hfo in Hfo0. inversion Hfo0; subst op0 up0. split; [exact Hcs|exact Hb].
            + destruct (Hpo a0 op0 up0 Ha0 Hfo0) as [Hc0 Ho0]. split; [exact Hc0|apply Hm1; exact Ho0]. }
        destruct (IHr _ _ _ _ _ _ _ _ _ (a :: done) Hinclr Hdone' HW1 Hd1 HI1 Hpre1 Hrun) as [HI2 [Ht2 Hpre2]].
        split; [exact HI2|]. split.
        * eapply touched_trans; [| |exact Ht1|exact Ht2].
          -- intros X HX. eapply newly_left; [exact Hm2|exact HX].
          -- intros X HX. eapply newly_right; [exact Hm1|exact HX].
        * intros Hf. eapply pre_ok_incl; [exact Hshuffle|apply Hpre2; exact Hf].
      + destruct (short_top H a root c) as [cm|] eqn:Hst; [|discriminate].
        assert (Hpre1 : doit || negb cm = false -> pre_ok root ran (a :: done)).
        { intros Hf. apply orb_false_iff in Hf as [Hdo Hcm]. apply negb_false_iff in Hcm. subst cm.
          destruct (Hpre Hdo) as [Hpp Hpo]. split.
          - intros a0 [Ha0|Ha0] Hfo0; [subst a0; exact Hst|apply Hpp; assumption].
          - intros a0 op0 up0 [Ha0|Ha0] Hfo0; [subst a0; congruence|eapply Hpo; eassumption]. }
        destruct (IHr _ _ _ _ _ _ _ _ _ (a :: done) Hinclr Hdone' HW Hd HI Hpre1 Hrun) as [HI2 [Ht2 Hpre2]].
        split; [exact HI2|]. split; [exact Ht2|].
        intros Hf. eapply pre_ok_incl; [exact Hshuffle|apply Hpre2; exact Hf].
  Qed.

  Lemma mono_ins sp d ran1 : alookup sp ran1 = None -> mono ran1 (ins_sorted sp d ran1).
  Proof.
    intros Hn s b Hs. rewrite alookup_ins_other; [exact Hs|]. intros Heq. subst s. congruence.
  Qed.

  Lemma frame_post : forall f stack, frame_spec f stack.
  Proof.
    induction f as [|f IH]; intros stack root ran log fin sp root' ran' log' HW Hd HI Hrun.
    { simpl in Hrun. discriminate. }
    rewrite run_stage_S in Hrun.
    destruct (alookup sp ran) as [b0|] eqn:Hfresh.
    { inversion Hrun; subst. split; [exact HI|apply touched_refl]. }
    destruct (mem sp stack) eqn:Hmem; [discriminate|].
    destruct (alookup sp idx) as [stg|] eqn:Hstg; [|discriminate].
    destruct (runI f (sp :: stack) (s_inputs stg) root ran log (do0_of H stg))
      as [[[[root1 ran1] log1] do1]|] eqn:Hins; [|discriminate].
    assert (Hds : disj ran (sp :: stack)).
    { intros s [Hs|Hs]; [subst s; exact Hfresh|apply Hd; exact Hs]. }
    destruct (ins_facts H exec idx c True _ _ _ _ _ _ _ _ _ _ _ _ _ _ Hstg (incl_refl _) HW Hds Hins)
      as [fin1 [HW1 [Hd1 [Hm1 [Hown1 _]]]]].
    destruct (ins_frame f (sp :: stack) sp stg (IH (sp :: stack)) Hstg (or_introl eq_refl)
                        _ _ _ _ _ _ _ _ _ _ [] (incl_refl _) (incl_nil_l _) HW Hds HI
                        (fun _ => pre_ok_nil root ran) Hins) as [HI1 [Ht1 Hpre1]].
    assert (Hsp1 : alookup sp ran1 = None) by (apply Hd1; left; reflexivity).
    unfold run_finish in Hrun.
    destruct (if do1 then Ok true else any_stale H (s_outputs stg) root1 c) as [d|] eqn:Hd2; [|discriminate].
    pose proof (mono_ins sp d ran1 Hsp1) as Hm2.
    assert (Hnew : forall X, newly ran ran1 X -> newly ran (ins_sorted sp d ran1) X).
    { intros X HX. eapply newly_left; [exact Hm2|exact HX]. }
    assert (Hidx2 : forall s b, alookup s (ins_sorted sp d ran1) = Some b -> exists stg0, alookup s idx = Some stg0).
    { intros s b Hs. destruct (bytes_dec s sp) as [He|Hn]; [subst s; exists stg; exact Hstg|].
      rewrite alookup_ins_other in Hs by exact Hn. eapply (I_idx _ _ _ HI1). exact Hs. }
    destruct (d && has_cmd_of stg) eqn:Hdc.
    - (* executed *)
      apply andb_true_iff in Hdc as [Hdt Hcmd]. subst d.
      destruct (exec sp stg root1 c) as [root2|] eqn:Hex; [|discriminate]. inversion Hrun; subst root' ran' log'.
      assert (Ht2 : touched (eq sp) root1 root2).
      { intros p Hout. eapply framed; [exact Hstg|exact Hex|]. intros o Ho. eapply Hout; [reflexivity|exact Hstg|exact Ho]. }
      split.
      + split.
        * exact Hidx2.
        * intros Y sy HY Hsy. assert (Hne : Y <> sp).
          { intros Heq. subst Y. rewrite alookup_ins_same in HY. discriminate. }
          rewrite alookup_ins_other in HY by exact Hne.
          eapply (clean_move (eq sp)); [exact Hsy|exact Ht2| |exact Hm2|].
          -- intros X HX. subst X. congruence.
          -- eapply (I_clean _ _ _ HI1); eassumption.
        * intros X [HX|HX]; [subst X; apply alookup_ins_same|].
          apply Hm2. apply (I_log _ _ _ HI1). exact HX.
        * intros X sx HX Hsx Hc. destruct (bytes_dec X sp) as [He|Hn]; [left; congruence|].
          right. rewrite alookup_ins_other in HX by exact Hn. eapply (I_ran _ _ _ HI1); eassumption.
      + eapply touched_trans; [exact Hnew| |exact Ht1|exact Ht2].
        intros X HX. subst X. split; [exact Hfresh|]. rewrite alookup_ins_same. discriminate.
    - (* not executed *)
      inversion Hrun; subst root' ran' log'.
      split; [|eapply touched_weaken; [exact Hnew|exact Ht1]].
      split.
      + exact Hidx2.
      + intros Y sy HY Hsy. destruct (bytes_dec Y sp) as [He|Hne].
        * subst Y. rewrite alookup_ins_same in HY. inversion HY; subst d.
          rewrite Hstg in Hsy. inversion Hsy; subst sy.
          destruct do1; [discriminate|].
          assert (Hd0 : do0_of H stg = false).
          { destruct (do0_of H stg) eqn:Hd0; [|reflexivity].
            pose proof (run_ins_mono H exec idx c _ _ _ _ _ _ _ _ _ _ _ Hins eq_refl). discriminate. }
          apply do0_false in Hd0 as [Hns Hdef].
          destruct (Hpre1 eq_refl) as [Hpp Hpo]. rewrite app_nil_r in Hpp, Hpo.
          split.
          -- exact Hdef.
          -- exact Hns.
          -- exact Hpp.
          -- intros a op up Ha Hfo. destruct (Hpo a op up Ha Hfo) as [Hcs Hop].
             split; [exact Hcs|apply Hm2; exact Hop].
          -- apply any_stale_false. exact Hd2.
        * rewrite alookup_ins_other in HY by exact Hne.
          eapply (clean_move (fun _ => False)); [exact Hsy|apply touched_refl| |exact Hm2|].
          -- intros X HX. destruct HX.
          -- eapply (I_clean _ _ _ HI1); eassumption.
      + intros X HX. apply Hm2. apply (I_log _ _ _ HI1). exact HX.
      + intros X sx HX Hsx Hc. destruct (bytes_dec X sp) as [He|Hn].
        * exfalso. subst X. rewrite alookup_ins_same in HX. inversion HX; subst d.
          rewrite Hstg in Hsx. inversion Hsx; subst sx.
          apply has_cmd_spec in Hc. rewrite Hc in Hdc. discriminate.
        * rewrite alookup_ins_other in HX by exact Hn. eapply (I_ran _ _ _ HI1); eassumption.
  Qed.

  Lemma frame_targets fuel : forall ts root ran log fin root' ran' log',
    W idx true True ran log fin -> Inv root ran log ->
    run_targets H exec idx c true fuel ts (Ok (root, ran, log)) = Ok (root', ran', log') ->
    Inv root' ran' log' /\ touched (newly ran ran') root root'.
  Proof.
    induction ts as [|t r IH]; intros root ran log fin root' ran' log' HW HI Hrun.
    - inversion Hrun; subst. split; [exact HI|apply touched_refl].
    - rewrite run_targets_cons in Hrun.
      destruct (runS fuel idx c true root ran log [] t) as [[[root1 ran1] log1]|] eqn:Hone.
      2:{ rewrite run_targets_Err in Hrun. discriminate. }
      destruct (run_facts H exec idx c True _ _ _ _ _ _ _ _ _ _ HW (disj_nil ran) Hone)
        as [fin1 [HW1 [_ [Hm1 _]]]].
      destruct (frame_post fuel [] _ _ _ _ _ _ _ _ HW (disj_nil ran) HI Hone) as [HI1 Ht1].
      destruct (IH _ _ _ _ _ _ _ HW1 HI1 Hrun) as [HI2 Ht2].
      split; [exact HI2|].
      destruct (run_targets_post H exec idx c true True fuel r _ _ _ _ _ _ _ HW1 Hrun) as [fin2 [Hp2 _]].
      eapply touched_trans; [| |exact Ht1|exact Ht2].
      + intros X HX. eapply newly_left; [exact (P_mono _ _ _ _ _ _ _ _ _ _ _ Hp2)|exact HX].
      + intros X HX. eapply newly_right; [exact Hm1|exact HX].
  Qed.

  (* from any state that satisfies the invariants *)
  Theorem C09_inv_preserved fuel ts root ran log root' ran' log' :
    run_inv idx ran log -> Inv root ran log ->
    run_targets H exec idx c true fuel ts (Ok (root, ran, log)) = Ok (root', ran', log') ->
    Inv root' ran' log'.
  Proof.
    intros [fin HW] HI Hrun. eapply frame_targets; eassumption.
  Qed.

  (* the property *)
  Theorem C09_executed_or_clean fuel ts root root' ran' log' :
    run_targets H exec idx c true fuel ts (Ok (root, [], [])) = Ok (root', ran', log') ->
    (* every visited stage is a stage of the index *)
    (forall sp b, alookup sp ran' = Some b -> exists stg, alookup sp idx = Some stg) /\
    (* visited and not run: unchanged since its last commit, IN THE FINAL ROOT *)
    (forall sp stg, alookup sp idx = Some stg -> alookup sp ran' = Some false ->
       def_checksum H stg = s_cs stg /\ s_cs stg <> [] /\
       (forall a, In a (s_inputs stg) -> find_owner idx (a_path a) = None ->
                  short_top H a root' c = Ok true) /\
       (forall a op up, In a (s_inputs stg) -> find_owner idx (a_path a) = Some (op, up) ->
                        a_cs a = a_cs up /\ alookup op ran' = Some false) /\
       (forall o, In o (s_outputs stg) -> short_top H o root' c = Ok true)) /\
    (* run, with a command: executed, after every executed owner of one of its inputs *)
    (forall sp stg, alookup sp idx = Some stg -> alookup sp ran' = Some true -> s_cmd stg <> [] ->
       In sp log' /\
       forall op, edge idx op sp -> In op log' -> exists p q r, rev log' = p ++ op :: q ++ sp :: r) /\
    (* only stages that were run are executed *)
    (forall sp, In sp log' -> alookup sp ran' = Some true).
  Proof.
    intros Hrun.
    pose proof (C09_inv_preserved fuel ts root [] [] root' ran' log' (run_inv_init idx) (Inv_nil root) Hrun) as HI.
    split; [apply HI|]. split; [|split; [|apply HI]].
    - intros sp stg Hstg Hf. pose proof (I_clean _ _ _ HI sp stg Hf Hstg) as Hcl.
      destruct (cl_def _ _ _ Hcl) as [Hne Heq].
      split; [exact Heq|]. split; [exact Hne|]. split; [apply Hcl|]. split; [apply Hcl|apply Hcl].
    - intros sp stg Hstg Ht Hc. assert (Hin : In sp log') by (eapply (I_ran _ _ _ HI); eassumption).
      split; [exact Hin|]. intros op He Hop.
      eapply (C08_order H exec idx c fuel ts root [] [] root' ran' log' op sp (run_inv_init idx) Hrun); assumption.
  Qed.
End Frame.

Print Assumptions C09_executed_or_clean.
