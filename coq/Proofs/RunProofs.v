(* C09: what `dud run` decides (Model/Index.v [run_stage], recursive = true).

   Part 1  C09_decision          the doRun bit of a visited stage, as an IFF with [stale_reason]
                                 (= [input_reason] or an out-of-date output), and sp in log iff doRun
                                 and a command.  Local: no assumption on exec or on the index.
   Part 2  put_frame             Fs.put changes nothing at a path incomparable with the one written
                                 (no sortedness of entry lists needed)
   Part 3  C09_executed_or_clean after a successful run from the empty state every visited stage either
                                 ran (and, with a command, was executed after the executed owners of
                                 its inputs) or is clean IN THE FINAL ROOT.  Frame argument: needs
                                 [exec_framed] and [idx_wf].  Invariant [Inv]; [C09_inv_preserved].
   Part 4  C09_rerun_sources, C09_rerun_sources_only, C09_rerun_quiet: a run from an all-clean state
   Part 5  the premises are satisfiable ([ex_exec_framed], [idx_wfb_sound]); module C09Examples:
           a 2-stage chain (run; commit; run is quiet) and the counterexamples below, by vm_compute.

   Deviations from the informal statement (each with a machine-checked counterexample in Part 5):
   - the frame premise "every path that is not equal to or below an output keeps its entry" is
     unsatisfiable by an exec that writes anything (the directories above an output, e.g. the root
     [], change with it: [exec_framed_literal_identity], [literal_frame_fails]).  [exec_framed]
     speaks about the paths that are INCOMPARABLE with every output ([incomp]); accordingly [idx_wf]
     asks the outputs of a stage to be incomparable with the outputs and plain inputs of the others.
   - "a run from a clean state executes only the stages that have a command and no inputs; a stage
     that has inputs is not executed" is false ([source_chain_second_run_not_quiet]): such a SOURCE
     stage has doRun = true and doRun propagates to everything downstream (ran[ownerPath] in
     run.go).  True statements: [C09_rerun_sources] (doRun exactly for the stages at or downstream
     of a source), [C09_rerun_sources_only] (the informal statement, when no source owns an input),
     [C09_rerun_quiet] (no source at or upstream of a target: nothing is executed, root unchanged;
     needs neither exec_framed nor idx_wf). *)
From Coq Require Import NArith List Bool Lia Relations.
From DudV Require Import Base.Bytes Base.Json Base.GoPath Model.Fs Model.Cache Model.Stage Model.Index.
From DudV Require Import Proofs.PipelineProofs.
Import ListNotations.

(* ------------------------------------------------------------------------------------------ *)
(* small facts                                                                                 *)
(* ------------------------------------------------------------------------------------------ *)
Lemma orb_true_l_eq (a b : bool) : a = true -> a || b = true.
Proof. intros Ha. rewrite Ha. reflexivity. Qed.

Lemma alookup_In {A} k (v : A) l : alookup k l = Some v -> In (k, v) l.
Proof.
  induction l as [|[k2 v2] r IH]; simpl; [discriminate|].
  destruct (beqb k k2) eqn:Hb.
  - intros Hs. inversion Hs; subst. apply beqb_eq in Hb. subst k2. left. reflexivity.
  - intros Hl. right. apply IH. exact Hl.
Qed.

Lemma has_cmd_spec stg : has_cmd_of stg = true <-> s_cmd stg <> [].
Proof.
  unfold has_cmd_of. destruct (s_cmd stg) as [|x r]; split; intros Hx; try congruence; discriminate.
Qed.

Lemma has_cmd_false stg : has_cmd_of stg = false <-> s_cmd stg = [].
Proof.
  unfold has_cmd_of. destruct (s_cmd stg) as [|x r]; split; intros Hx; try congruence; discriminate.
Qed.

Section Defs.
  Variable H : bytes -> bytes.

  (* the definition checksum recorded by the last commit is still the checksum of the definition *)
  Definition def_ok (stg : stage) : Prop := s_cs stg <> [] /\ def_checksum H stg = s_cs stg.
  Definition is_source (stg : stage) : Prop := s_cmd stg <> [] /\ s_inputs stg = [].

  Lemma do0_true stg : do0_of H stg = true <-> is_source stg \/ ~ def_ok stg.
  Proof.
    unfold do0_of, is_source, def_ok. rewrite orb_true_iff, andb_true_iff, has_cmd_spec.
    split.
    - intros [[Hc Hi]|Hd].
      + left. split; [exact Hc|]. destruct (s_inputs stg); [reflexivity|discriminate].
      + right. intros [Hne Heq]. destruct (s_cs stg) as [|x r] eqn:Hcs; [congruence|].
        apply negb_true_iff in Hd. apply beqb_neq in Hd. congruence.
    - intros [[Hc Hi]|Hd].
      + left. split; [exact Hc|]. rewrite Hi. reflexivity.
      + right. destruct (s_cs stg) as [|x r] eqn:Hcs; [reflexivity|].
        apply negb_true_iff. apply beqb_neq. intros Heq. apply Hd. split; [discriminate|exact Heq].
  Qed.

  Lemma do0_false stg : do0_of H stg = false <-> ~ is_source stg /\ def_ok stg.
  Proof.
    split.
    - intros Hf. split.
      + intros Hs. assert (Ht : do0_of H stg = true) by (apply do0_true; left; exact Hs). congruence.
      + unfold do0_of in Hf. apply orb_false_iff in Hf as [_ Hf]. apply negb_false_iff in Hf.
        unfold def_ok. destruct (s_cs stg) as [|x r] eqn:Hcs; [discriminate|].
        apply beqb_eq in Hf. split; [discriminate|exact Hf].
    - intros [Hns Hd]. destruct (do0_of H stg) eqn:Hd0; [|reflexivity].
      apply do0_true in Hd0 as [Hs|Hn]; contradiction.
  Qed.

  Variable c : cache.

  Lemma any_stale_false arts root :
    any_stale H arts root c = Ok false <-> forall o, In o arts -> short_top H o root c = Ok true.
  Proof.
    induction arts as [|a r IH]; cbn [any_stale].
    - split; [intros _ o Ho; destruct Ho|reflexivity].
    - destruct (short_top H a root c) as [[|]|] eqn:Hst.
      + rewrite IH. split.
        * intros Hall o [Ho|Ho]; [subst o; exact Hst|apply Hall; exact Ho].
        * intros Hall o Ho. apply Hall. right. exact Ho.
      + split; [discriminate|]. intros Hall. specialize (Hall a (or_introl eq_refl)). congruence.
      + split; [discriminate|]. intros Hall. specialize (Hall a (or_introl eq_refl)). congruence.
  Qed.

  (* short_top looks at the root only through the entry at the artifact's path (premise (iii) of
     the task: true by definition) *)
  Definition slot_eq (root root' : node) (p : list bytes) : Prop :=
    get root' p = get root p /\ blocked root' p = blocked root p.

  Lemma short_top_slot a root root' :
    slot_eq root root' (comps (a_path a)) -> short_top H a root' c = short_top H a root c.
  Proof.
    intros [Hg Hb]. unfold short_top, slot_of. rewrite Hg, Hb. reflexivity.
  Qed.
End Defs.

(* ------------------------------------------------------------------------------------------ *)
(* Part 1: the decision                                                                        *)
(* ------------------------------------------------------------------------------------------ *)
Section Decision.
  Variable H : bytes -> bytes.
  Variable exec : bytes -> stage -> node -> cache -> res node.
  Variable idx : index.
  Variable c : cache.
  Variable K : Prop.

  Notation runI := (run_ins H exec idx c true).
  Notation runS := (run_stage H exec).
  Notation WK := (W idx true K).

  (* what PipelineProofs gives about one recursive visit *)
  Lemma run_facts f stack root ran log fin sp root' ran' log' :
    WK ran log fin -> disj ran stack ->
    runS f idx c true root ran log stack sp = Ok (root', ran', log') ->
    exists fin', WK ran' log' fin' /\ disj ran' stack /\
                 (forall s b, alookup s ran = Some b -> alookup s ran' = Some b) /\
                 alookup sp ran' <> None /\ (exists e, log' = e ++ log).
  Proof.
    intros HW Hd Hrun.
    destruct (run_post H exec idx c true K f stack _ _ _ _ _ _ _ _ HW Hd Hrun) as [fin' [Hp Hin]].
    exists fin'. split; [apply Hp|]. split; [apply Hp|]. split; [apply Hp|]. split; [|apply Hp].
    apply (W_dom _ _ _ _ _ _ (P_W _ _ _ _ _ _ _ _ _ _ _ Hp)). exact Hin.
  Qed.

  Lemma ins_facts f stack sp stg arts root ran log doit fin root' ran' log' doit' :
    alookup sp idx = Some stg -> incl arts (s_inputs stg) ->
    WK ran log fin -> disj ran stack ->
    runI f stack arts root ran log doit = Ok (root', ran', log', doit') ->
    exists fin', WK ran' log' fin' /\ disj ran' stack /\
                 (forall s b, alookup s ran = Some b -> alookup s ran' = Some b) /\
                 (forall a op up, In a arts -> find_owner idx (a_path a) = Some (op, up) ->
                                  alookup op ran' <> None) /\
                 (exists e, log' = e ++ log).
  Proof.
    intros Hstg Hincl HW Hd Hrun.
    destruct (ins_post H exec idx c true K f stack sp stg (run_post H exec idx c true K f stack) Hstg
                       _ _ _ _ _ _ _ _ _ _ Hincl HW Hd Hrun) as [fin' [Hp Hown]].
    exists fin'. split; [apply Hp|]. split; [apply Hp|]. split; [apply Hp|]. split; [|apply Hp].
    intros a op up Ha Hfo. apply (W_dom _ _ _ _ _ _ (P_W _ _ _ _ _ _ _ _ _ _ _ Hp)).
    eapply Hown; [reflexivity|exact Ha|exact Hfo].
  Qed.

  (* the flag only goes up *)
  Lemma run_ins_mono f stack : forall arts root ran log doit root' ran' log' doit',
    runI f stack arts root ran log doit = Ok (root', ran', log', doit') -> doit = true -> doit' = true.
  Proof.
    induction arts as [|a r IH]; intros root ran log doit root' ran' log' doit' Hrun Hd;
      cbn [run_ins] in Hrun.
    - inversion Hrun; subst. reflexivity.
    - subst doit. destruct (find_owner idx (a_path a)) as [[op up]|].
      + destruct (runS f idx c true root ran log stack op) as [[[root1 ran1] log1]|]; [|discriminate].
        eapply IH; [exact Hrun|reflexivity].
      + destruct (short_top H a root c) as [cm|]; [|discriminate].
        eapply IH; [exact Hrun|reflexivity].
  Qed.

  (* an un-owned input was found out of date at the moment it was examined: [root_a] is the root
     produced by the loop over the inputs that precede it *)
  Definition plain_stale (f : nat) (stack : list bytes) (arts : list artifact)
             (root : node) (ran : list (bytes * bool)) (log : list bytes) (d0 : bool) : Prop :=
    exists pre a post root_a ran_a log_a d_a,
      arts = pre ++ a :: post /\ find_owner idx (a_path a) = None /\
      runI f stack pre root ran log d0 = Ok (root_a, ran_a, log_a, d_a) /\
      short_top H a root_a c = Ok false.

  Definition owned_stale (arts : list artifact) (ranF : list (bytes * bool)) : Prop :=
    exists a op up, In a arts /\ find_owner idx (a_path a) = Some (op, up) /\
                    (alookup op ranF = Some true \/ a_cs a <> a_cs up).

  Lemma run_ins_doit f stack sp stg (Hstg : alookup sp idx = Some stg) :
    forall arts root ran log doit fin root' ran' log' doit',
      incl arts (s_inputs stg) -> WK ran log fin -> disj ran stack ->
      runI f stack arts root ran log doit = Ok (root', ran', log', doit') ->
      (doit' = true <-> doit = true \/ plain_stale f stack arts root ran log doit \/ owned_stale arts ran').
  Proof.
    induction arts as [|a r IH]; intros root ran log doit fin root' ran' log' doit' Hincl HW Hd Hrun.
    - cbn [run_ins] in Hrun. inversion Hrun; subst. split; [intros Ht; left; exact Ht|].
      intros [Ht|[Hp|Ho]]; [exact Ht| |].
      + destruct Hp as [pre [a [post [ra [rna [la [da [Heq _]]]]]]]]. destruct pre; discriminate.
      + destruct Ho as [a [op [up [Ha _]]]]. destruct Ha.
    - assert (Hinclr : incl r (s_inputs stg)) by (intros x Hx; apply Hincl; right; exact Hx).
      pose proof Hrun as Hrun0. cbn [run_ins] in Hrun.
      destruct (find_owner idx (a_path a)) as [[op up]|] eqn:Hfo.
      + destruct (runS f idx c true root ran log stack op) as [[[root1 ran1] log1]|] eqn:Hsub; [|discriminate].
        destruct (run_facts _ _ _ _ _ _ _ _ _ _ HW Hd Hsub) as [fin1 [HW1 [Hd1 [Hm1 [Hop1 _]]]]].
        destruct (ins_facts _ _ _ _ _ _ _ _ _ _ _ _ _ _ Hstg Hinclr HW1 Hd1 Hrun)
          as [fin2 [HW2 [Hd2 [Hm2 _]]]].
        rewrite (IH _ _ _ _ _ _ _ _ _ Hinclr HW1 Hd1 Hrun).
        destruct (alookup op ran1) as [b|] eqn:Hb; [|congruence].
        pose proof (Hm2 _ _ Hb) as Hb2.
        split.
        * intros [Ht|[Hp|Ho]].
          -- apply orb_true_iff in Ht as [Ht|Ht]; [apply orb_true_iff in Ht as [Ht|Ht]|].
             ++ left. exact Ht.
             ++ right. right. exists a, op, up. split; [left; reflexivity|]. split; [exact Hfo|].
                left. subst b. exact Hb2.
             ++ right. right. exists a, op, up. split; [left; reflexivity|]. split; [exact Hfo|].
                right. apply negb_true_iff in Ht. apply beqb_neq in Ht. exact Ht.
          -- right. left. destruct Hp as [pre [a0 [post [ra [rna [la [da [Heq [Hfo0 [Hpre Hst]]]]]]]]]].
             exists (a :: pre), a0, post, ra, rna, la, da. split; [simpl; congruence|].
             split; [exact Hfo0|]. split; [|exact Hst].
             cbn [run_ins]. rewrite Hfo, Hsub, Hb. exact Hpre.
          -- right. right. destruct Ho as [a0 [op0 [up0 [Ha0 Hrest]]]].
             exists a0, op0, up0. split; [right; exact Ha0|exact Hrest].
        * intros [Ht|[Hp|Ho]].
          -- left. rewrite Ht. reflexivity.
          -- right. left. destruct Hp as [pre [a0 [post [ra [rna [la [da [Heq [Hfo0 [Hpre Hst]]]]]]]]]].
             destruct pre as [|a1 pre].
             { simpl in Heq. inversion Heq; subst a0. congruence. }
             simpl in Heq. inversion Heq; subst a1 r.
             cbn [run_ins] in Hpre. rewrite Hfo, Hsub, Hb in Hpre.
             exists pre, a0, post, ra, rna, la, da. repeat split; assumption.
          -- destruct Ho as [a0 [op0 [up0 [[Ha0|Ha0] [Hfo0 Hwhy]]]]].
             ++ subst a0. rewrite Hfo in Hfo0. inversion Hfo0; subst op0 up0.
                left. destruct Hwhy as [Hup|Hcs].
                ** rewrite Hb2 in Hup. inversion Hup; subst b. rewrite orb_true_r. reflexivity.
                ** apply beqb_neq in Hcs. rewrite Hcs. apply orb_true_r.
             ++ right. right. exists a0, op0, up0. split; [exact Ha0|]. split; assumption.
      + destruct (short_top H a root c) as [cm|] eqn:Hst; [|discriminate].
        rewrite (IH _ _ _ _ _ _ _ _ _ Hinclr HW Hd Hrun).
        split.
        * intros [Ht|[Hp|Ho]].
          -- apply orb_true_iff in Ht as [Ht|Ht]; [left; exact Ht|].
             right. left. exists [], a, r, root, ran, log, doit. split; [reflexivity|].
             split; [exact Hfo|]. split; [reflexivity|]. destruct cm; [discriminate|exact Hst].
          -- right. left. destruct Hp as [pre [a0 [post [ra [rna [la [da [Heq [Hfo0 [Hpre Hst0]]]]]]]]]].
             exists (a :: pre), a0, post, ra, rna, la, da. split; [simpl; congruence|].
             split; [exact Hfo0|]. split; [|exact Hst0].
             cbn [run_ins]. rewrite Hfo, Hst. exact Hpre.
          -- right. right. destruct Ho as [a0 [op0 [up0 [Ha0 Hrest]]]].
             exists a0, op0, up0. split; [right; exact Ha0|exact Hrest].
        * intros [Ht|[Hp|Ho]].
          -- left. rewrite Ht. reflexivity.
          -- destruct Hp as [pre [a0 [post [ra [rna [la [da [Heq [Hfo0 [Hpre Hst0]]]]]]]]]].
             destruct pre as [|a1 pre].
             { simpl in Heq. inversion Heq; subst a0 post. cbn [run_ins] in Hpre. inversion Hpre; subst.
               left. rewrite Hst in Hst0. inversion Hst0; subst cm. apply orb_true_r. }
             simpl in Heq. inversion Heq; subst a1 r.
             cbn [run_ins] in Hpre. rewrite Hfo, Hst in Hpre.
             right. left. exists pre, a0, post, ra, rna, la, da. repeat split; assumption.
          -- destruct Ho as [a0 [op0 [up0 [[Ha0|Ha0] [Hfo0 Hwhy]]]]].
             ++ subst a0. congruence.
             ++ right. right. exists a0, op0, up0. split; [exact Ha0|]. split; assumption.
  Qed.

  (* why a stage is considered out of date before its outputs are looked at.  [ranF] is the final
     visited map. *)
  Inductive input_reason (f : nat) (stack : list bytes) (sp : bytes) (stg : stage)
            (root : node) (ran : list (bytes * bool)) (log : list bytes)
            (ranF : list (bytes * bool)) : Prop :=
  | IR_source : s_cmd stg <> [] -> s_inputs stg = [] -> input_reason f stack sp stg root ran log ranF
  | IR_def : (s_cs stg = [] \/ def_checksum H stg <> s_cs stg) ->
             input_reason f stack sp stg root ran log ranF
  | IR_plain pre a post root_a ran_a log_a d_a :
      s_inputs stg = pre ++ a :: post -> find_owner idx (a_path a) = None ->
      runI f (sp :: stack) pre root ran log (do0_of H stg) = Ok (root_a, ran_a, log_a, d_a) ->
      short_top H a root_a c = Ok false ->
      input_reason f stack sp stg root ran log ranF
  | IR_upstream a op up :
      In a (s_inputs stg) -> find_owner idx (a_path a) = Some (op, up) -> alookup op ranF = Some true ->
      input_reason f stack sp stg root ran log ranF
  | IR_checksum a op up :
      In a (s_inputs stg) -> find_owner idx (a_path a) = Some (op, up) -> a_cs a <> a_cs up ->
      input_reason f stack sp stg root ran log ranF.

  (* ... or some output is out of date in [root1], the root after the loop over the inputs
     (= after all upstream visits) *)
  Definition stale_reason (f : nat) (stack : list bytes) (sp : bytes) (stg : stage)
             (root : node) (ran : list (bytes * bool)) (log : list bytes)
             (root1 : node) (ranF : list (bytes * bool)) : Prop :=
    input_reason f stack sp stg root ran log ranF \/ any_stale H (s_outputs stg) root1 c = Ok true.

  Lemma def_ok_dec stg : def_ok H stg \/ (s_cs stg = [] \/ def_checksum H stg <> s_cs stg).
  Proof.
    unfold def_ok. destruct (s_cs stg) as [|x r] eqn:Hcs; [right; left; reflexivity|].
    destruct (bytes_dec (def_checksum H stg) (x :: r)) as [He|Hn].
    - left. split; [discriminate|exact He].
    - right. right. exact Hn.
  Qed.

  Theorem C09_decision_W f stack sp stg root ran log fin root' ran' log' :
    WK ran log fin -> disj ran stack ->
    alookup sp ran = None -> alookup sp idx = Some stg ->
    runS (S f) idx c true root ran log stack sp = Ok (root', ran', log') ->
    exists root1 ran1 log1 do1 d,
      runI f (sp :: stack) (s_inputs stg) root ran log (do0_of H stg) = Ok (root1, ran1, log1, do1) /\
      alookup sp ran' = Some d /\
      (do1 = true <-> input_reason f stack sp stg root ran log ran') /\
      (do1 = false -> any_stale H (s_outputs stg) root1 c = Ok d) /\
      (d = true <-> stale_reason f stack sp stg root ran log root1 ran') /\
      (In sp log' <-> d = true /\ s_cmd stg <> []) /\
      ran' = ins_sorted sp d ran1 /\
      log' = (if d && has_cmd_of stg then sp :: log1 else log1) /\
      (if d && has_cmd_of stg then exec sp stg root1 c = Ok root' else root' = root1).
  Proof.
    intros HW Hd Hfresh Hstg Hrun.
    rewrite run_stage_S, Hfresh in Hrun.
    destruct (mem sp stack) eqn:Hmem; [discriminate|].
    rewrite Hstg in Hrun.
    destruct (runI f (sp :: stack) (s_inputs stg) root ran log (do0_of H stg))
      as [[[[root1 ran1] log1] do1]|] eqn:Hins; [|discriminate].
    assert (Hds : disj ran (sp :: stack)).
    { intros s [Hs|Hs]; [subst s; exact Hfresh|apply Hd; exact Hs]. }
    destruct (ins_facts _ _ _ _ _ _ _ _ _ _ _ _ _ _ Hstg (incl_refl _) HW Hds Hins)
      as [fin1 [HW1 [Hd1 [Hm1 [Hown1 _]]]]].
    pose proof (run_ins_doit f (sp :: stack) sp stg Hstg _ _ _ _ _ _ _ _ _ _ (incl_refl _) HW Hds Hins)
      as Hdo1.
    assert (Hsp1 : alookup sp ran1 = None) by (apply Hd1; left; reflexivity).
    assert (Hsplog : ~ In sp log1).
    { intros Hin. apply (W_log_sub _ _ _ _ _ _ HW1) in Hin. apply (W_dom _ _ _ _ _ _ HW1) in Hin.
      contradiction. }
    unfold run_finish in Hrun.
    destruct (if do1 then Ok true else any_stale H (s_outputs stg) root1 c) as [d|] eqn:Hd2; [|discriminate].
    exists root1, ran1, log1, do1, d.
    assert (Hranlog : ran' = ins_sorted sp d ran1 /\
                      log' = (if d && has_cmd_of stg then sp :: log1 else log1) /\
                      (if d && has_cmd_of stg then exec sp stg root1 c = Ok root' else root' = root1)).
    { destruct (d && has_cmd_of stg).
      - destruct (exec sp stg root1 c) as [root2|]; [|discriminate]. inversion Hrun; subst. auto.
      - inversion Hrun; subst. auto. }
    destruct Hranlog as [Hran' [Hlog' Hroot']].
    assert (Hother : forall op, alookup op ran1 <> None -> alookup op ran' = alookup op ran1).
    { intros op Hop. rewrite Hran'. apply alookup_ins_other. intros Heq. subst op. contradiction. }
    assert (Hir : do1 = true <-> input_reason f stack sp stg root ran log ran').
    { rewrite Hdo1. split.
      - intros [H0|[Hp|Ho]].
        + apply do0_true in H0 as [[Hc Hi]|Hnd]; [apply IR_source; assumption|].
          apply IR_def. destruct (def_ok_dec stg) as [Hok|Hbad]; [contradiction|exact Hbad].
        + destruct Hp as [pre [a [post [ra [rna [la [da [Heq [Hfo [Hpre Hst]]]]]]]]]].
          eapply IR_plain; eassumption.
        + destruct Ho as [a [op [up [Ha [Hfo [Hup|Hcs]]]]]].
          * eapply IR_upstream; [exact Ha|exact Hfo|].
            rewrite Hother; [exact Hup|]. eapply Hown1; eassumption.
          * eapply IR_checksum; eassumption.
      - intros [Hc Hi|Hbad|pre a post ra rna la da Heq Hfo Hpre Hst|a op up Ha Hfo Hup|a op up Ha Hfo Hcs].
        + left. apply do0_true. left. split; assumption.
        + left. apply do0_true. right. intros [Hne Heq]. destruct Hbad as [Hb|Hb]; contradiction.
        + right. left. exists pre, a, post, ra, rna, la, da. repeat split; assumption.
        + right. right. exists a, op, up. split; [exact Ha|]. split; [exact Hfo|].
          left. rewrite <- Hother; [exact Hup|]. eapply Hown1; eassumption.
        + right. right. exists a, op, up. split; [exact Ha|]. split; [exact Hfo|]. right. exact Hcs. }
    split; [reflexivity|]. split; [rewrite Hran'; apply alookup_ins_same|].
    split; [exact Hir|].
    split; [intros Hf; subst do1; exact Hd2|].
    split; [|split; [|split; [exact Hran'|split; [exact Hlog'|exact Hroot']]]].
    - (* the reasons *)
      unfold stale_reason. rewrite <- Hir. destruct do1.
      + inversion Hd2; subst d. split; [intros _; left; reflexivity|reflexivity].
      + rewrite Hd2. split.
        * intros Hdt. subst d. right. reflexivity.
        * intros [Hx|Hx]; [discriminate|]. inversion Hx. reflexivity.
    - (* the log *)
      rewrite Hlog'. rewrite <- has_cmd_spec. destruct d; cbn [andb].
      + destruct (has_cmd_of stg).
        * split; [intros _; split; reflexivity|intros _; left; reflexivity].
        * split; [intros Hin; contradiction|intros [_ Hf]; discriminate].
      + split; [intros Hin; contradiction|intros [Hf _]; discriminate].
  Qed.

End Decision.

(* the form asked for: any consistent starting state ([log_ok]: the log is duplicate free and
   inside the domain of ran; in particular ran = [], log = []), sp fresh *)
Theorem C09_decision H exec idx c f stack sp stg root ran log root' ran' log' :
  log_ok ran log -> disj ran stack ->
  alookup sp ran = None -> alookup sp idx = Some stg ->
  run_stage H exec (S f) idx c true root ran log stack sp = Ok (root', ran', log') ->
  exists root1 ran1 log1 do1 d,
    run_ins H exec idx c true f (sp :: stack) (s_inputs stg) root ran log (do0_of H stg)
      = Ok (root1, ran1, log1, do1) /\
    alookup sp ran' = Some d /\
    (do1 = true <-> input_reason H exec idx c f stack sp stg root ran log ran') /\
    (do1 = false -> any_stale H (s_outputs stg) root1 c = Ok d) /\
    (d = true <-> stale_reason H exec idx c f stack sp stg root ran log root1 ran') /\
    (In sp log' <-> d = true /\ s_cmd stg <> []) /\
    ran' = ins_sorted sp d ran1 /\
    log' = (if d && has_cmd_of stg then sp :: log1 else log1) /\
    (if d && has_cmd_of stg then exec sp stg root1 c = Ok root' else root' = root1).
Proof.
  intros Hok. destruct (W_any idx true ran log Hok) as [fin HW].
  eapply C09_decision_W. exact HW.
Qed.

Print Assumptions C09_decision.

(* ------------------------------------------------------------------------------------------ *)
(* Part 2: Fs.put is framed.  No sortedness of the entry lists is needed: alookup after         *)
(* ins_sorted / aremove at another key is unchanged for arbitrary association lists.            *)
(* ------------------------------------------------------------------------------------------ *)
(* neither path is equal to, above or below the other *)
Definition incomp (p q : list bytes) : Prop := is_prefix p q = false /\ is_prefix q p = false.

Lemma alookup_aremove_other {A} k k' (l : list (bytes * A)) : k <> k' -> alookup k (aremove k' l) = alookup k l.
Proof.
  intros Hne. induction l as [|[k2 v2] r IH]; cbn [aremove alookup]; [reflexivity|].
  destruct (beqb k' k2) eqn:Hb.
  - apply beqb_eq in Hb. subst k2. apply beqb_neq in Hne. rewrite Hne. exact IH.
  - cbn [alookup]. rewrite IH. reflexivity.
Qed.

Lemma alookup_dset_other es k k' v : k <> k' -> alookup k (dset es k' v) = alookup k es.
Proof.
  intros Hne. destruct v as [n|]; cbn [dset]; [apply alookup_ins_other|apply alookup_aremove_other]; exact Hne.
Qed.

Lemma incomp_cons_inv x q y p :
  incomp (x :: q) (y :: p) -> x <> y \/ (x = y /\ incomp q p).
Proof.
  intros [H1 H2]. cbn [is_prefix] in H1, H2.
  destruct (bytes_dec x y) as [He|Hn]; [|left; exact Hn].
  right. split; [exact He|]. subst y. rewrite beqb_refl in H1, H2. split; assumption.
Qed.

Lemma incomp_nil_r p : ~ incomp p [].
Proof. intros [_ H2]. cbn [is_prefix] in H2. discriminate. Qed.
Lemma incomp_nil_l p : ~ incomp [] p.
Proof. intros [H1 _]. cbn [is_prefix] in H1. discriminate. Qed.

Lemma put_frame : forall q n v n' p,
  put n q v = Some n' -> incomp q p -> get n' p = get n p /\ blocked n' p = blocked n p.
Proof.
  induction q as [|x q IH]; intros n v n' p Hput Hinc.
  { exfalso. eapply incomp_nil_l. exact Hinc. }
  destruct p as [|y p]; [exfalso; eapply incomp_nil_r; exact Hinc|].
  cbn [put] in Hput. destruct n as [b|d|t|es|]; try discriminate.
  assert (Hother : forall es', (forall k, k <> x -> alookup k es' = alookup k es) -> y <> x ->
             get (Dir es') (y :: p) = get (Dir es) (y :: p) /\ blocked (Dir es') (y :: p) = blocked (Dir es) (y :: p)).
  { intros es' Hes' Hne. cbn [get blocked]. rewrite (Hes' y Hne). split; reflexivity. }
  destruct (incomp_cons_inv _ _ _ _ Hinc) as [Hne|[Heq Hinc']].
  - (* different first component *)
    assert (Hne' : y <> x) by congruence.
    destruct (alookup x es) as [m|] eqn:Hx.
    + destruct q as [|x2 q].
      * inversion Hput; subst. apply Hother; [|exact Hne']. intros k Hk. first [apply alookup_dset_other; exact Hk|apply alookup_ins_other; exact Hk|apply alookup_aremove_other; exact Hk].
      * destruct (put m (x2 :: q) v) as [m'|]; [|discriminate]. inversion Hput; subst.
        apply Hother; [|exact Hne']. intros k Hk. first [apply alookup_dset_other; exact Hk|apply alookup_ins_other; exact Hk|apply alookup_aremove_other; exact Hk].
    + destruct v as [nv|]; [|inversion Hput; subst; split; reflexivity].
      destruct q as [|x2 q].
      * inversion Hput; subst. apply Hother; [|exact Hne']. intros k Hk. first [apply alookup_dset_other; exact Hk|apply alookup_ins_other; exact Hk|apply alookup_aremove_other; exact Hk].
      * destruct (put (Dir []) (x2 :: q) (Some nv)) as [m'|]; [|discriminate]. inversion Hput; subst.
        apply Hother; [|exact Hne']. intros k Hk. first [apply alookup_dset_other; exact Hk|apply alookup_ins_other; exact Hk|apply alookup_aremove_other; exact Hk].
  - subst y. destruct q as [|x2 q]; [exfalso; eapply incomp_nil_l; exact Hinc'|].
    destruct (alookup x es) as [m|] eqn:Hx.
    + destruct (put m (x2 :: q) v) as [m'|] eqn:Hm; [|discriminate]. inversion Hput; subst.
      cbn [get blocked dset]. rewrite alookup_ins_same, Hx. eapply IH; eassumption.
    + destruct v as [nv|]; [|inversion Hput; subst; split; reflexivity].
      destruct (put (Dir []) (x2 :: q) (Some nv)) as [m'|] eqn:Hm; [|discriminate]. inversion Hput; subst.
      cbn [get blocked dset]. rewrite alookup_ins_same, Hx.
      destruct (IH _ _ _ _ Hm Hinc') as [Hg Hb]. rewrite Hg, Hb.
      destruct p as [|z p]; [exfalso; eapply incomp_nil_r; exact Hinc'|]. split; reflexivity.
Qed.
Print Assumptions put_frame.

(* ------------------------------------------------------------------------------------------ *)
(* Part 3: executed or clean (the frame argument)                                              *)
(* ------------------------------------------------------------------------------------------ *)
Section Frame.
  Variable H : bytes -> bytes.
  Variable exec : bytes -> stage -> node -> cache -> res node.
  Variable idx : index.
  Variable c : cache.

  Notation runI := (run_ins H exec idx c true).
  Notation runS := (run_stage H exec).

  (* (i) the command of a stage changes nothing at the paths that are incomparable with all the
     outputs of the stage.  (The entries AT or BELOW an output may change arbitrarily, the
     directories ABOVE an output necessarily change with it.) *)
  Definition exec_framed : Prop :=
    forall sp stg root root',
      alookup sp idx = Some stg -> exec sp stg root c = Ok root' ->
      forall p, (forall o, In o (s_outputs stg) -> incomp (comps (a_path o)) p) -> slot_eq root root' p.

  (* (ii) an output of a stage X is incomparable with every output and with every plain (un-owned)
     input of every other stage Y *)
  Definition idx_wf : Prop :=
    forall X sx Y sy o b,
      X <> Y -> alookup X idx = Some sx -> alookup Y idx = Some sy ->
      In o (s_outputs sx) ->
      (In b (s_outputs sy) \/ (In b (s_inputs sy) /\ find_owner idx (a_path b) = None)) ->
      incomp (comps (a_path o)) (comps (a_path b)).

  (* not visited before, visited now *)
  Definition newly (ran ran' : list (bytes * bool)) (X : bytes) : Prop :=
    alookup X ran = None /\ alookup X ran' <> None.

  Definition outside (S : bytes -> Prop) (p : list bytes) : Prop :=
    forall X sx o, S X -> alookup X idx = Some sx -> In o (s_outputs sx) -> incomp (comps (a_path o)) p.

  (* the root changed at most at/above/below the outputs of the stages in S *)
  Definition touched (S : bytes -> Prop) (root root' : node) : Prop :=
    forall p, outside S p -> slot_eq root root' p.

  Lemma touched_refl S root : touched S root root.
  Proof. intros p _. split; reflexivity. Qed.

  Lemma touched_trans (S1 S2 S : bytes -> Prop) r0 r1 r2 :
    (forall X, S1 X -> S X) -> (forall X, S2 X -> S X) ->
    touched S1 r0 r1 -> touched S2 r1 r2 -> touched S r0 r2.
  Proof.
    intros H1 H2 Ht1 Ht2 p Hout.
    assert (Ho1 : outside S1 p) by (intros X sx o HX; apply Hout; apply H1; exact HX).
    assert (Ho2 : outside S2 p) by (intros X sx o HX; apply Hout; apply H2; exact HX).
    destruct (Ht1 p Ho1) as [Hg1 Hb1]. destruct (Ht2 p Ho2) as [Hg2 Hb2].
    split; congruence.
  Qed.

  Lemma touched_weaken (S1 S : bytes -> Prop) r0 r1 :
    (forall X, S1 X -> S X) -> touched S1 r0 r1 -> touched S r0 r1.
  Proof.
    intros H1 Ht. eapply touched_trans; [exact H1|exact H1|exact Ht|apply touched_refl].
  Qed.

  (* unchanged since its last commit, in state (root, ranv): definition, plain inputs, owned
     inputs (recorded checksum = the owner's, and the owner is itself clean), outputs *)
  Record clean_at (root : node) (ranv : list (bytes * bool)) (stg : stage) : Prop := {
    cl_def : def_ok H stg;
    cl_nosrc : ~ is_source stg;
    cl_plain : forall a, In a (s_inputs stg) -> find_owner idx (a_path a) = None ->
                         short_top H a root c = Ok true;
    cl_owned : forall a op up, In a (s_inputs stg) -> find_owner idx (a_path a) = Some (op, up) ->
                               a_cs a = a_cs up /\ alookup op ranv = Some false;
    cl_out : forall o, In o (s_outputs stg) -> short_top H o root c = Ok true }.

  Record Inv (root : node) (ran : list (bytes * bool)) (log : list bytes) : Prop := {
    I_idx : forall sp b, alookup sp ran = Some b -> exists stg, alookup sp idx = Some stg;
    I_clean : forall sp stg, alookup sp ran = Some false -> alookup sp idx = Some stg ->
                             clean_at root ran stg;
    I_log : forall sp, In sp log -> alookup sp ran = Some true;
    I_ran : forall sp stg, alookup sp ran = Some true -> alookup sp idx = Some stg ->
                           s_cmd stg <> [] -> In sp log }.

  Lemma Inv_nil root : Inv root [] [].
  Proof.
    split.
    - intros sp b Hs. discriminate.
    - intros sp stg Hs. discriminate.
    - intros sp Hs. destruct Hs.
    - intros sp stg Hs. discriminate.
  Qed.

  Hypothesis framed : exec_framed.
  Hypothesis wf : idx_wf.

  Definition mono (ran ran' : list (bytes * bool)) : Prop :=
    forall s b, alookup s ran = Some b -> alookup s ran' = Some b.

  Lemma clean_move (S : bytes -> Prop) root ran root' ran' Y sy :
    alookup Y idx = Some sy -> touched S root root' -> (forall X, S X -> X <> Y) -> mono ran ran' ->
    clean_at root ran sy -> clean_at root' ran' sy.
  Proof.
    intros HY Ht HS Hm Hcl.
    assert (Hsame : forall b, (In b (s_outputs sy) \/ (In b (s_inputs sy) /\ find_owner idx (a_path b) = None)) ->
                              short_top H b root' c = short_top H b root c).
    { intros b Hb. apply short_top_slot. apply Ht. intros X sx o HX Hsx Ho.
      eapply wf; [apply HS; exact HX|exact Hsx|exact HY|exact Ho|exact Hb]. }
    split.
    - apply Hcl.
    - apply Hcl.
    - intros a Ha Hfo. rewrite Hsame; [|right; split; assumption]. apply (cl_plain _ _ _ Hcl); assumption.
    - intros a op up Ha Hfo. destruct (cl_owned _ _ _ Hcl a op up Ha Hfo) as [Hcs Hop].
      split; [exact Hcs|apply Hm; exact Hop].
    - intros o Ho. rewrite Hsame; [|left; exact Ho]. apply (cl_out _ _ _ Hcl). exact Ho.
  Qed.

  (* the inputs examined so far gave no reason to run *)
  Definition pre_ok (root : node) (ranv : list (bytes * bool)) (done : list artifact) : Prop :=
    (forall a, In a done -> find_owner idx (a_path a) = None -> short_top H a root c = Ok true) /\
    (forall a op up, In a done -> find_owner idx (a_path a) = Some (op, up) ->
                     a_cs a = a_cs up /\ alookup op ranv = Some false).

  Lemma pre_ok_incl root ranv l1 l2 : incl l1 l2 -> pre_ok root ranv l2 -> pre_ok root ranv l1.
  Proof.
    intros Hi [Hp Ho]. split.
    - intros a Ha. apply Hp. apply Hi. exact Ha.
    - intros a op up Ha. apply Ho. apply Hi. exact Ha.
  Qed.

  Lemma pre_ok_nil root ranv : pre_ok root ranv [].
  Proof. split; [intros a Ha; destruct Ha|intros a op up Ha; destruct Ha]. Qed.

  Definition frame_spec (f : nat) (stack : list bytes) : Prop :=
    forall root ran log fin sp root' ran' log',
      W idx true True ran log fin -> disj ran stack -> Inv root ran log ->
      runS f idx c true root ran log stack sp = Ok (root', ran', log') ->
      Inv root' ran' log' /\ touched (newly ran ran') root root'.

  Lemma newly_left ran ran1 ran2 X : mono ran1 ran2 -> newly ran ran1 X -> newly ran ran2 X.
  Proof.
    intros Hm [Hn Hs]. split; [exact Hn|]. destruct (alookup X ran1) as [b|] eqn:Hb; [|congruence].
    rewrite (Hm _ _ Hb). discriminate.
  Qed.

  Lemma newly_right ran ran1 ran2 X : mono ran ran1 -> newly ran1 ran2 X -> newly ran ran2 X.
  Proof.
    intros Hm [Hn Hs]. split; [|exact Hs]. destruct (alookup X ran) as [b|] eqn:Hb; [|reflexivity].
    rewrite (Hm _ _ Hb) in Hn. discriminate.
  Qed.

  Lemma ins_frame f stack sp stg :
    frame_spec f stack -> alookup sp idx = Some stg -> In sp stack ->
    forall arts root ran log doit fin root' ran' log' doit' done,
      incl arts (s_inputs stg) -> incl done (s_inputs stg) ->
      W idx true True ran log fin -> disj ran stack -> Inv root ran log ->
      (doit = false -> pre_ok root ran done) ->
      runI f stack arts root ran log doit = Ok (root', ran', log', doit') ->
      Inv root' ran' log' /\ touched (newly ran ran') root root' /\
      (doit' = false -> pre_ok root' ran' (arts ++ done)).
  Proof.
    intros IH Hstg Hsp.
    induction arts as [|a r IHr];
      intros root ran log doit fin root' ran' log' doit' done Hincl Hdone HW Hd HI Hpre Hrun.
    - cbn [run_ins] in Hrun. inversion Hrun; subst.
      split; [exact HI|]. split; [apply touched_refl|]. exact Hpre.
    - assert (Hinclr : incl r (s_inputs stg)) by (intros x Hx; apply Hincl; right; exact Hx).
      assert (Ha : In a (s_inputs stg)) by (apply Hincl; left; reflexivity).
      assert (Hdone' : incl (a :: done) (s_inputs stg)).
      { intros x [Hx|Hx]; [subst x; exact Ha|apply Hdone; exact Hx]. }
      assert (Hshuffle : incl ((a :: r) ++ done) (r ++ a :: done)).
      { intros x Hx. apply in_app_or in Hx as [[Hx|Hx]|Hx]; apply in_or_app.
        - right. left. exact Hx.
        - left. exact Hx.
        - right. right. exact Hx. }
      cbn [run_ins] in Hrun.
      destruct (find_owner idx (a_path a)) as [[op up]|] eqn:Hfo.
      + destruct (runS f idx c true root ran log stack op) as [[[root1 ran1] log1]|] eqn:Hsub; [|discriminate].
        destruct (run_facts H exec idx c True _ _ _ _ _ _ _ _ _ _ HW Hd Hsub)
          as [fin1 [HW1 [Hd1 [Hm1 [Hop1 _]]]]].
        destruct (IH _ _ _ _ _ _ _ _ HW Hd HI Hsub) as [HI1 Ht1].
        destruct (ins_facts H exec idx c True _ _ _ _ _ _ _ _ _ _ _ _ _ _ Hstg Hinclr HW1 Hd1 Hrun)
          as [fin2 [HW2 [Hd2 [Hm2 _]]]].
        destruct (alookup op ran1) as [b|] eqn:Hb; [|congruence].
        assert (Hpre1 : doit || b || negb (beqb (a_cs a) (a_cs up)) = false -> pre_ok root1 ran1 (a :: done)).
        { intros Hf. apply orb_false_iff in Hf as [Hf Hcs]. apply orb_false_iff in Hf as [Hdo Hbf].
          subst b. apply negb_false_iff in Hcs. apply beqb_eq in Hcs.
          destruct (Hpre Hdo) as [Hpp Hpo]. split.
          - intros a0 [Ha0|Ha0] Hfo0; [subst a0; congruence|].
            rewrite <- (Hpp a0 Ha0 Hfo0). apply short_top_slot. apply Ht1.
            intros X sx o [HXn HXs] Hsx Ho.
            eapply wf; [|exact Hsx|exact Hstg|exact Ho|right; split; [apply Hdone; exact Ha0|exact Hfo0]].
            intros Heq. subst X. apply HXs. apply Hd1. exact Hsp.
          - intros a0 op0 up0 [Ha0|Ha0] Hfo0.
            + subst a0. rewrite Hfo in Hfo0. inversion Hfo0; subst op0 up0. split; [exact Hcs|exact Hb].
            + destruct (Hpo a0 op0 up0 Ha0 Hfo0) as [Hc0 Ho0]. split; [exact Hc0|apply Hm1; exact Ho0]. }
        destruct (IHr _ _ _ _ _ _ _ _ _ (a :: done) Hinclr Hdone' HW1 Hd1 HI1 Hpre1 Hrun) as [HI2 [Ht2 Hpre2]].
        split; [exact HI2|]. split.
        * eapply touched_trans; [| |exact Ht1|exact Ht2].
          -- intros X HX. eapply newly_left; [exact Hm2|exact HX].
          -- intros X HX. eapply newly_right; [exact Hm1|exact HX].
        * intros Hf. eapply pre_ok_incl; [exact Hshuffle|apply Hpre2; exact Hf].
      + destruct (short_top H a root c) as [cm|] eqn:Hst; [|discriminate].
        assert (Hpre1 : doit || negb cm = false -> pre_ok root ran (a :: done)).
        { intros Hf. apply orb_false_iff in Hf as [Hdo Hcm]. apply negb_false_iff in Hcm. subst cm.
          destruct (Hpre Hdo) as [Hpp Hpo]. split.
          - intros a0 [Ha0|Ha0] Hfo0; [subst a0; exact Hst|apply Hpp; assumption].
          - intros a0 op0 up0 [Ha0|Ha0] Hfo0; [subst a0; congruence|eapply Hpo; eassumption]. }
        destruct (IHr _ _ _ _ _ _ _ _ _ (a :: done) Hinclr Hdone' HW Hd HI Hpre1 Hrun) as [HI2 [Ht2 Hpre2]].
        split; [exact HI2|]. split; [exact Ht2|].
        intros Hf. eapply pre_ok_incl; [exact Hshuffle|apply Hpre2; exact Hf].
  Qed.

  Lemma mono_ins sp d ran1 : alookup sp ran1 = None -> mono ran1 (ins_sorted sp d ran1).
  Proof.
    intros Hn s b Hs. rewrite alookup_ins_other; [exact Hs|]. intros Heq. subst s. congruence.
  Qed.

  Lemma frame_post : forall f stack, frame_spec f stack.
  Proof.
    induction f as [|f IH]; intros stack root ran log fin sp root' ran' log' HW Hd HI Hrun.
    { simpl in Hrun. discriminate. }
    rewrite run_stage_S in Hrun.
    destruct (alookup sp ran) as [b0|] eqn:Hfresh.
    { inversion Hrun; subst. split; [exact HI|apply touched_refl]. }
    destruct (mem sp stack) eqn:Hmem; [discriminate|].
    destruct (alookup sp idx) as [stg|] eqn:Hstg; [|discriminate].
    destruct (runI f (sp :: stack) (s_inputs stg) root ran log (do0_of H stg))
      as [[[[root1 ran1] log1] do1]|] eqn:Hins; [|discriminate].
    assert (Hds : disj ran (sp :: stack)).
    { intros s [Hs|Hs]; [subst s; exact Hfresh|apply Hd; exact Hs]. }
    destruct (ins_facts H exec idx c True _ _ _ _ _ _ _ _ _ _ _ _ _ _ Hstg (incl_refl _) HW Hds Hins)
      as [fin1 [HW1 [Hd1 [Hm1 [Hown1 _]]]]].
    destruct (ins_frame f (sp :: stack) sp stg (IH (sp :: stack)) Hstg (or_introl eq_refl)
                        _ _ _ _ _ _ _ _ _ _ [] (incl_refl _) (incl_nil_l _) HW Hds HI
                        (fun _ => pre_ok_nil root ran) Hins) as [HI1 [Ht1 Hpre1]].
    assert (Hsp1 : alookup sp ran1 = None) by (apply Hd1; left; reflexivity).
    unfold run_finish in Hrun.
    destruct (if do1 then Ok true else any_stale H (s_outputs stg) root1 c) as [d|] eqn:Hd2; [|discriminate].
    pose proof (mono_ins sp d ran1 Hsp1) as Hm2.
    assert (Hnew : forall X, newly ran ran1 X -> newly ran (ins_sorted sp d ran1) X).
    { intros X HX. eapply newly_left; [exact Hm2|exact HX]. }
    assert (Hidx2 : forall s b, alookup s (ins_sorted sp d ran1) = Some b -> exists stg0, alookup s idx = Some stg0).
    { intros s b Hs. destruct (bytes_dec s sp) as [He|Hn]; [subst s; exists stg; exact Hstg|].
      rewrite alookup_ins_other in Hs by exact Hn. eapply (I_idx _ _ _ HI1). exact Hs. }
    destruct (d && has_cmd_of stg) eqn:Hdc.
    - (* executed *)
      apply andb_true_iff in Hdc as [Hdt Hcmd]. subst d.
      destruct (exec sp stg root1 c) as [root2|] eqn:Hex; [|discriminate]. inversion Hrun; subst root' ran' log'.
      assert (Ht2 : touched (eq sp) root1 root2).
      { intros p Hout. eapply framed; [exact Hstg|exact Hex|]. intros o Ho. eapply Hout; [reflexivity|exact Hstg|exact Ho]. }
      split.
      + split.
        * exact Hidx2.
        * intros Y sy HY Hsy. assert (Hne : Y <> sp).
          { intros Heq. subst Y. rewrite alookup_ins_same in HY. discriminate. }
          rewrite alookup_ins_other in HY by exact Hne.
          eapply (clean_move (eq sp)); [exact Hsy|exact Ht2| |exact Hm2|].
          -- intros X HX. subst X. congruence.
          -- eapply (I_clean _ _ _ HI1); eassumption.
        * intros X [HX|HX]; [subst X; apply alookup_ins_same|].
          apply Hm2. apply (I_log _ _ _ HI1). exact HX.
        * intros X sx HX Hsx Hc. destruct (bytes_dec X sp) as [He|Hn]; [left; congruence|].
          right. rewrite alookup_ins_other in HX by exact Hn. eapply (I_ran _ _ _ HI1); eassumption.
      + eapply touched_trans; [exact Hnew| |exact Ht1|exact Ht2].
        intros X HX. subst X. split; [exact Hfresh|]. rewrite alookup_ins_same. discriminate.
    - (* not executed *)
      inversion Hrun; subst root' ran' log'.
      split; [|eapply touched_weaken; [exact Hnew|exact Ht1]].
      split.
      + exact Hidx2.
      + intros Y sy HY Hsy. destruct (bytes_dec Y sp) as [He|Hne].
        * subst Y. rewrite alookup_ins_same in HY. inversion HY; subst d.
          rewrite Hstg in Hsy. inversion Hsy; subst sy.
          destruct do1; [discriminate|].
          assert (Hd0 : do0_of H stg = false).
          { destruct (do0_of H stg) eqn:Hd0; [|reflexivity].
            pose proof (run_ins_mono H exec idx c _ _ _ _ _ _ _ _ _ _ _ Hins eq_refl). discriminate. }
          apply do0_false in Hd0 as [Hns Hdef].
          destruct (Hpre1 eq_refl) as [Hpp Hpo]. rewrite app_nil_r in Hpp, Hpo.
          split.
          -- exact Hdef.
          -- exact Hns.
          -- exact Hpp.
          -- intros a op up Ha Hfo. destruct (Hpo a op up Ha Hfo) as [Hcs Hop].
             split; [exact Hcs|apply Hm2; exact Hop].
          -- apply any_stale_false. exact Hd2.
        * rewrite alookup_ins_other in HY by exact Hne.
          eapply (clean_move (fun _ => False)); [exact Hsy|apply touched_refl| |exact Hm2|].
          -- intros X HX. destruct HX.
          -- eapply (I_clean _ _ _ HI1); eassumption.
      + intros X HX. apply Hm2. apply (I_log _ _ _ HI1). exact HX.
      + intros X sx HX Hsx Hc. destruct (bytes_dec X sp) as [He|Hn].
        * exfalso. subst X. rewrite alookup_ins_same in HX. inversion HX; subst d.
          rewrite Hstg in Hsx. inversion Hsx; subst sx.
          apply has_cmd_spec in Hc. rewrite Hc in Hdc. discriminate.
        * rewrite alookup_ins_other in HX by exact Hn. eapply (I_ran _ _ _ HI1); eassumption.
  Qed.

  Lemma frame_targets fuel : forall ts root ran log fin root' ran' log',
    W idx true True ran log fin -> Inv root ran log ->
    run_targets H exec idx c true fuel ts (Ok (root, ran, log)) = Ok (root', ran', log') ->
    Inv root' ran' log' /\ touched (newly ran ran') root root'.
  Proof.
    induction ts as [|t r IH]; intros root ran log fin root' ran' log' HW HI Hrun.
    - inversion Hrun; subst. split; [exact HI|apply touched_refl].
    - rewrite run_targets_cons in Hrun.
      destruct (runS fuel idx c true root ran log [] t) as [[[root1 ran1] log1]|] eqn:Hone.
      2:{ rewrite run_targets_Err in Hrun. discriminate. }
      destruct (run_facts H exec idx c True _ _ _ _ _ _ _ _ _ _ HW (disj_nil ran) Hone)
        as [fin1 [HW1 [_ [Hm1 _]]]].
      destruct (frame_post fuel [] _ _ _ _ _ _ _ _ HW (disj_nil ran) HI Hone) as [HI1 Ht1].
      destruct (IH _ _ _ _ _ _ _ HW1 HI1 Hrun) as [HI2 Ht2].
      split; [exact HI2|].
      destruct (run_targets_post H exec idx c true True fuel r _ _ _ _ _ _ _ HW1 Hrun) as [fin2 [Hp2 _]].
      eapply touched_trans; [| |exact Ht1|exact Ht2].
      + intros X HX. eapply newly_left; [exact (P_mono _ _ _ _ _ _ _ _ _ _ _ Hp2)|exact HX].
      + intros X HX. eapply newly_right; [exact Hm1|exact HX].
  Qed.

  (* from any state that satisfies the invariants *)
  Theorem C09_inv_preserved fuel ts root ran log root' ran' log' :
    run_inv idx ran log -> Inv root ran log ->
    run_targets H exec idx c true fuel ts (Ok (root, ran, log)) = Ok (root', ran', log') ->
    Inv root' ran' log'.
  Proof.
    intros [fin HW] HI Hrun. eapply frame_targets; eassumption.
  Qed.

  (* the property *)
  Theorem C09_executed_or_clean fuel ts root root' ran' log' :
    run_targets H exec idx c true fuel ts (Ok (root, [], [])) = Ok (root', ran', log') ->
    (* every visited stage is a stage of the index *)
    (forall sp b, alookup sp ran' = Some b -> exists stg, alookup sp idx = Some stg) /\
    (* visited and not run: unchanged since its last commit, IN THE FINAL ROOT *)
    (forall sp stg, alookup sp idx = Some stg -> alookup sp ran' = Some false ->
       def_checksum H stg = s_cs stg /\ s_cs stg <> [] /\
       (forall a, In a (s_inputs stg) -> find_owner idx (a_path a) = None ->
                  short_top H a root' c = Ok true) /\
       (forall a op up, In a (s_inputs stg) -> find_owner idx (a_path a) = Some (op, up) ->
                        a_cs a = a_cs up /\ alookup op ran' = Some false) /\
       (forall o, In o (s_outputs stg) -> short_top H o root' c = Ok true)) /\
    (* run, with a command: executed, after every executed owner of one of its inputs *)
    (forall sp stg, alookup sp idx = Some stg -> alookup sp ran' = Some true -> s_cmd stg <> [] ->
       In sp log' /\
       forall op, edge idx op sp -> In op log' -> exists p q r, rev log' = p ++ op :: q ++ sp :: r) /\
    (* only stages that were run are executed *)
    (forall sp, In sp log' -> alookup sp ran' = Some true).
  Proof.
    intros Hrun.
    pose proof (C09_inv_preserved fuel ts root [] [] root' ran' log' (run_inv_init idx) (Inv_nil root) Hrun) as HI.
    split; [apply HI|]. split; [|split; [|apply HI]].
    - intros sp stg Hstg Hf. pose proof (I_clean _ _ _ HI sp stg Hf Hstg) as Hcl.
      destruct (cl_def _ _ _ Hcl) as [Hne Heq].
      split; [exact Heq|]. split; [exact Hne|]. split; [apply Hcl|]. split; [apply Hcl|apply Hcl].
    - intros sp stg Hstg Ht Hc. assert (Hin : In sp log') by (eapply (I_ran _ _ _ HI); eassumption).
      split; [exact Hin|]. intros op He Hop.
      eapply (C08_order H exec idx c fuel ts root [] [] root' ran' log' op sp (run_inv_init idx) Hrun); assumption.
  Qed.
End Frame.

Print Assumptions C09_executed_or_clean.

(* ------------------------------------------------------------------------------------------ *)
(* Part 4: a run from a clean state                                                            *)
(* ------------------------------------------------------------------------------------------ *)
Section Rerun.
  Variable H : bytes -> bytes.
  Variable exec : bytes -> stage -> node -> cache -> res node.
  Variable idx : index.
  Variable c : cache.

  Notation runI := (run_ins H exec idx c true).
  Notation runS := (run_stage H exec).

  (* the state `dud run; dud commit` leaves a stage in *)
  Record clean0 (root : node) (stg : stage) : Prop := {
    c0_def : def_ok H stg;
    c0_plain : forall a, In a (s_inputs stg) -> find_owner idx (a_path a) = None ->
                         short_top H a root c = Ok true;
    c0_owned : forall a op up, In a (s_inputs stg) -> find_owner idx (a_path a) = Some (op, up) ->
                               a_cs a = a_cs up;
    c0_out : forall o, In o (s_outputs stg) -> short_top H o root c = Ok true }.

  Definition all_clean (root : node) : Prop :=
    forall sp stg, alookup sp idx = Some stg -> clean0 root stg.

  (* a SOURCE is a stage with a command and no inputs; [dos sp]: sp is a source or downstream of one *)
  Definition source (s : bytes) : Prop := exists stg, alookup s idx = Some stg /\ is_source stg.
  Definition dos (sp : bytes) : Prop := exists s, source s /\ upstream idx s sp.

  Lemma dos_edge op sp : edge idx op sp -> dos op -> dos sp.
  Proof.
    intros He [s [Hs Hup]]. exists s. split; [exact Hs|]. right. eapply upstream_edge_path; eassumption.
  Qed.

  Lemma path_last a b : path idx a b -> exists op, upstream idx a op /\ edge idx op b.
  Proof.
    intros Hp. induction Hp as [a b Hab|a b c0 Hab Hp IH].
    - exists a. split; [left; reflexivity|exact Hab].
    - destruct IH as [op [Hup He]]. exists op. split; [eapply upstream_edge; eassumption|exact He].
  Qed.

  Lemma dos_inv sp : dos sp -> source sp \/ exists op, edge idx op sp /\ dos op.
  Proof.
    intros [s [Hs [Heq|Hp]]]; [subst s; left; exact Hs|].
    destruct (path_last _ _ Hp) as [op [Hup He]]. right. exists op. split; [exact He|].
    exists s. split; assumption.
  Qed.

  (* what is needed of exec: executing a stage (of the scope Sc of the run) that is downstream of a
     source keeps the stages that are not downstream of a source clean *)
  Definition exec_pres (Sc : bytes -> Prop) : Prop :=
    forall X sx root root', alookup X idx = Some sx -> Sc X -> dos X -> exec X sx root c = Ok root' ->
      forall Y sy, alookup Y idx = Some sy -> ~ dos Y -> clean0 root sy -> clean0 root' sy.

  Lemma framed_wf_pres Sc : exec_framed exec idx c -> idx_wf idx -> exec_pres Sc.
  Proof.
    intros Hfr Hwf X sx root root' HX _ HdX Hex Y sy HY HdY Hcl.
    assert (Hne : X <> Y) by (intros Heq; subst Y; contradiction).
    assert (Hsame : forall b, (In b (s_outputs sy) \/ (In b (s_inputs sy) /\ find_owner idx (a_path b) = None)) ->
                              short_top H b root' c = short_top H b root c).
    { intros b Hb. apply short_top_slot. eapply Hfr; [exact HX|exact Hex|].
      intros o Ho. eapply Hwf; [exact Hne|exact HX|exact HY|exact Ho|exact Hb]. }
    split.
    - apply Hcl.
    - intros a Ha Hfo. rewrite Hsame; [|right; split; assumption]. apply (c0_plain _ _ Hcl); assumption.
    - apply Hcl.
    - intros o Ho. rewrite Hsame; [|left; exact Ho]. apply (c0_out _ _ Hcl). exact Ho.
  Qed.

  Variable root0 : node.

  Record Inv3 (root : node) (ran : list (bytes * bool)) (log : list bytes) : Prop := {
    R_ran : forall sp b, alookup sp ran = Some b -> (b = true /\ dos sp) \/ (b = false /\ ~ dos sp);
    R_clean : forall Y sy, alookup Y idx = Some sy -> ~ dos Y -> clean0 root sy;
    R_log : forall sp, In sp log <->
                       exists stg, alookup sp idx = Some stg /\ alookup sp ran = Some true /\ s_cmd stg <> [];
    R_root : log = [] -> root = root0 }.

  (* the scope of the run: closed under "owner of an input of" *)
  Variable Sc : bytes -> Prop.
  Hypothesis Sc_up : forall op sp, edge idx op sp -> Sc sp -> Sc op.
  Hypothesis pres : exec_pres Sc.

  Definition rerun_spec (f : nat) (stack : list bytes) : Prop :=
    forall root ran log fin sp root' ran' log',
      W idx true True ran log fin -> disj ran stack -> Inv3 root ran log -> Sc sp ->
      runS f idx c true root ran log stack sp = Ok (root', ran', log') ->
      Inv3 root' ran' log'.

  Definition some_dos_owner (arts : list artifact) : Prop :=
    exists a op up, In a arts /\ find_owner idx (a_path a) = Some (op, up) /\ dos op.
  Definition no_dos_owner (arts : list artifact) : Prop :=
    forall a op up, In a arts -> find_owner idx (a_path a) = Some (op, up) -> ~ dos op.

  Lemma ins_rerun f stack sp stg :
    rerun_spec f stack -> alookup sp idx = Some stg -> Sc sp ->
    forall arts root ran log doit fin root' ran' log' doit',
      incl arts (s_inputs stg) ->
      W idx true True ran log fin -> disj ran stack -> Inv3 root ran log ->
      runI f stack arts root ran log doit = Ok (root', ran', log', doit') ->
      Inv3 root' ran' log' /\
      (some_dos_owner arts \/ no_dos_owner arts) /\
      (some_dos_owner arts -> doit' = true) /\
      (~ dos sp -> doit = false -> doit' = false).
  Proof.
    intros IH Hstg HSc.
    induction arts as [|a r IHr];
      intros root ran log doit fin root' ran' log' doit' Hincl HW Hd HI Hrun.
    - cbn [run_ins] in Hrun. inversion Hrun; subst. split; [exact HI|]. split; [|split].
      + right. intros a op up Ha. destruct Ha.
      + intros [a [op [up [Ha _]]]]. destruct Ha.
      + intros _ Hf. exact Hf.
    - assert (Hinclr : incl r (s_inputs stg)) by (intros x Hx; apply Hincl; right; exact Hx).
      assert (Ha : In a (s_inputs stg)) by (apply Hincl; left; reflexivity).
      cbn [run_ins] in Hrun.
      destruct (find_owner idx (a_path a)) as [[op up]|] eqn:Hfo.
      + destruct (runS f idx c true root ran log stack op) as [[[root1 ran1] log1]|] eqn:Hsub; [|discriminate].
        destruct (run_facts H exec idx c True _ _ _ _ _ _ _ _ _ _ HW Hd Hsub)
          as [fin1 [HW1 [Hd1 [Hm1 [Hop1 _]]]]].
        assert (Hedge : edge idx op sp).
        { exists stg, a, up. split; [exact Hstg|]. split; [exact Ha|exact Hfo]. }
        pose proof (IH _ _ _ _ _ _ _ _ HW Hd HI (Sc_up _ _ Hedge HSc) Hsub) as HI1.
        destruct (IHr _ _ _ _ _ _ _ _ _ Hinclr HW1 Hd1 HI1 Hrun) as [HI2 [Hdec [HA HB]]].
        destruct (alookup op ran1) as [b|] eqn:Hb; [|congruence].
        pose proof (R_ran _ _ _ HI1 op b Hb) as Hbd.
        split; [exact HI2|]. split; [|split].
        * destruct Hbd as [[_ Hdo]|[_ Hnd]].
          -- left. exists a, op, up. split; [left; reflexivity|]. split; assumption.
          -- destruct Hdec as [[a0 [op0 [up0 [Ha0 Hrest]]]]|Hno].
             ++ left. exists a0, op0, up0. split; [right; exact Ha0|exact Hrest].
             ++ right. intros a0 op0 up0 [Ha0|Ha0] Hfo0.
                ** subst a0. rewrite Hfo in Hfo0. inversion Hfo0; subst op0 up0. exact Hnd.
                ** eapply Hno; eassumption.
        * intros [a0 [op0 [up0 [[Ha0|Ha0] [Hfo0 Hdos0]]]]].
          -- subst a0. rewrite Hfo in Hfo0. inversion Hfo0; subst op0 up0.
             apply (run_ins_mono H exec idx c _ _ _ _ _ _ _ _ _ _ _ Hrun).
             destruct Hbd as [[Hbt _]|[_ Hnd]]; [|contradiction]. subst b. rewrite orb_true_r. reflexivity.
          -- apply HA. exists a0, op0, up0. split; [exact Ha0|]. split; assumption.
        * intros Hnd Hf. apply HB; [exact Hnd|].
          assert (Hnop : ~ dos op) by (intros Hx; apply Hnd; eapply dos_edge; eassumption).
          destruct Hbd as [[_ Hdo]|[Hbf _]]; [contradiction|].
          pose proof (c0_owned _ _ (R_clean _ _ _ HI sp stg Hstg Hnd) a op up Ha Hfo) as Hcs.
          apply beqb_eq in Hcs. rewrite Hf, Hbf, Hcs. reflexivity.
      + destruct (short_top H a root c) as [cm|] eqn:Hst; [|discriminate].
        destruct (IHr _ _ _ _ _ _ _ _ _ Hinclr HW Hd HI Hrun) as [HI2 [Hdec [HA HB]]].
        split; [exact HI2|]. split; [|split].
        * destruct Hdec as [[a0 [op0 [up0 [Ha0 Hrest]]]]|Hno].
          -- left. exists a0, op0, up0. split; [right; exact Ha0|exact Hrest].
          -- right. intros a0 op0 up0 [Ha0|Ha0] Hfo0; [subst a0; congruence|eapply Hno; eassumption].
        * intros [a0 [op0 [up0 [[Ha0|Ha0] [Hfo0 Hdos0]]]]]; [subst a0; congruence|].
          apply HA. exists a0, op0, up0. split; [exact Ha0|]. split; assumption.
        * intros Hnd Hf. apply HB; [exact Hnd|].
          pose proof (c0_plain _ _ (R_clean _ _ _ HI sp stg Hstg Hnd) a Ha Hfo) as Hcm.
          rewrite Hst in Hcm. inversion Hcm; subst cm. rewrite Hf. reflexivity.
  Qed.

  Lemma is_source_dec stg : is_source stg \/ ~ is_source stg.
  Proof.
    unfold is_source. destruct (s_cmd stg) as [|x r]; [right; intros [Hc _]; congruence|].
    destruct (s_inputs stg) as [|a l]; [left; split; [discriminate|reflexivity]|].
    right. intros [_ Hi]. discriminate.
  Qed.

  Lemma rerun_post : forall f stack, rerun_spec f stack.
  Proof.
    induction f as [|f IH]; intros stack root ran log fin sp root' ran' log' HW Hd HI HSc Hrun.
    { simpl in Hrun. discriminate. }
    rewrite run_stage_S in Hrun.
    destruct (alookup sp ran) as [b0|] eqn:Hfresh.
    { inversion Hrun; subst. exact HI. }
    destruct (mem sp stack) eqn:Hmem; [discriminate|].
    destruct (alookup sp idx) as [stg|] eqn:Hstg; [|discriminate].
    destruct (runI f (sp :: stack) (s_inputs stg) root ran log (do0_of H stg))
      as [[[[root1 ran1] log1] do1]|] eqn:Hins; [|discriminate].
    assert (Hds : disj ran (sp :: stack)).
    { intros s [Hs|Hs]; [subst s; exact Hfresh|apply Hd; exact Hs]. }
    destruct (ins_facts H exec idx c True _ _ _ _ _ _ _ _ _ _ _ _ _ _ Hstg (incl_refl _) HW Hds Hins)
      as [fin1 [HW1 [Hd1 [Hm1 [Hown1 _]]]]].
    destruct (ins_rerun f (sp :: stack) sp stg (IH (sp :: stack)) Hstg HSc _ _ _ _ _ _ _ _ _ _
                        (incl_refl _) HW Hds HI Hins) as [HI1 [Hdec [HA HB]]].
    assert (Hsp1 : alookup sp ran1 = None) by (apply Hd1; left; reflexivity).
    unfold run_finish in Hrun.
    destruct (if do1 then Ok true else any_stale H (s_outputs stg) root1 c) as [d|] eqn:Hd2; [|discriminate].
    (* dos sp is decided by the visit *)
    assert (Hdos : dos sp \/ ~ dos sp).
    { destruct (is_source_dec stg) as [Hsrc|Hnsrc].
      - left. exists sp. split; [exists stg; split; assumption|left; reflexivity].
      - destruct Hdec as [[a [op [up [Ha [Hfo Hdo]]]]]|Hno].
        + left. eapply dos_edge; [|exact Hdo]. exists stg, a, up. split; [exact Hstg|]. split; assumption.
        + right. intros Hx. apply dos_inv in Hx as [[stg' [Hstg' Hsrc]]|[op [[stg' [a [up [Hstg' [Ha Hfo]]]]] Hdo]]].
          * rewrite Hstg in Hstg'. inversion Hstg'; subst stg'. contradiction.
          * rewrite Hstg in Hstg'. inversion Hstg'; subst stg'. eapply Hno; eassumption. }
    assert (Hdd : (d = true /\ dos sp) \/ (d = false /\ ~ dos sp)).
    { destruct Hdos as [Hy|Hn].
      - left. split; [|exact Hy].
        assert (Hdo1 : do1 = true).
        { destruct (dos_inv _ Hy) as [[stg' [Hstg' Hsrc]]|[op [[stg' [a [up [Hstg' [Ha Hfo]]]]] Hdo]]].
          - rewrite Hstg in Hstg'. inversion Hstg'; subst stg'.
            apply (run_ins_mono H exec idx c _ _ _ _ _ _ _ _ _ _ _ Hins). apply do0_true. left. exact Hsrc.
          - rewrite Hstg in Hstg'. inversion Hstg'; subst stg'. apply HA. exists a, op, up. repeat split; assumption. }
        subst do1. inversion Hd2. reflexivity.
      - right. split; [|exact Hn].
        pose proof (R_clean _ _ _ HI sp stg Hstg Hn) as Hcl.
        assert (Hd0 : do0_of H stg = false).
        { apply do0_false. split; [|apply Hcl]. intros Hsrc. apply Hn.
          exists sp. split; [exists stg; split; assumption|left; reflexivity]. }
        rewrite (HB Hn Hd0) in Hd2.
        pose proof (R_clean _ _ _ HI1 sp stg Hstg Hn) as Hcl1.
        rewrite (proj2 (any_stale_false H c (s_outputs stg) root1) (c0_out _ _ Hcl1)) in Hd2.
        inversion Hd2. reflexivity. }
    assert (Hran2 : forall s b, alookup s (ins_sorted sp d ran1) = Some b ->
                                (b = true /\ dos s) \/ (b = false /\ ~ dos s)).
    { intros s b Hs. destruct (bytes_dec s sp) as [He|Hne].
      - subst s. rewrite alookup_ins_same in Hs. inversion Hs; subst b. exact Hdd.
      - rewrite alookup_ins_other in Hs by exact Hne. eapply (R_ran _ _ _ HI1). exact Hs. }
    assert (Hlog2 : forall lg, lg = (if d && has_cmd_of stg then sp :: log1 else log1) ->
              forall s, In s lg <-> exists stg0, alookup s idx = Some stg0 /\
                                       alookup s (ins_sorted sp d ran1) = Some true /\ s_cmd stg0 <> []).
    { intros lg Hlg s. subst lg. destruct (bytes_dec s sp) as [He|Hne].
      - subst s. split.
        + intros Hin. destruct (d && has_cmd_of stg) eqn:Hdc.
          * apply andb_true_iff in Hdc as [Hdt Hc]. subst d. exists stg. split; [exact Hstg|].
            split; [apply alookup_ins_same|apply has_cmd_spec; exact Hc].
          * exfalso. apply (R_log _ _ _ HI1) in Hin as [stg0 [_ [Hx _]]]. congruence.
        + intros [stg0 [Hstg0 [Hx Hc]]]. rewrite Hstg in Hstg0. inversion Hstg0; subst stg0.
          rewrite alookup_ins_same in Hx. inversion Hx; subst d. apply has_cmd_spec in Hc. rewrite Hc.
          left. reflexivity.
      - rewrite alookup_ins_other by exact Hne. rewrite <- (R_log _ _ _ HI1).
        destruct (d && has_cmd_of stg); [|reflexivity]. split.
        + intros [Hx|Hx]; [congruence|exact Hx].
        + intros Hx. right. exact Hx. }
    destruct (d && has_cmd_of stg) eqn:Hdc.
    - apply andb_true_iff in Hdc as [Hdt Hcmd]. subst d.
      destruct (exec sp stg root1 c) as [root2|] eqn:Hex; [|discriminate]. inversion Hrun; subst root' ran' log'.
      assert (Hy : dos sp) by (destruct Hdd as [[_ Hy]|[Hf _]]; [exact Hy|discriminate]).
      split.
      + exact Hran2.
      + intros Y sy HY HnY. eapply pres; [exact Hstg|exact HSc|exact Hy|exact Hex|exact HY|exact HnY|].
        eapply (R_clean _ _ _ HI1); eassumption.
      + apply Hlog2. reflexivity.
      + discriminate.
    - inversion Hrun; subst root' ran' log'. split.
      + exact Hran2.
      + apply HI1.
      + apply Hlog2. reflexivity.
      + apply HI1.
  Qed.

  Lemma rerun_targets fuel : forall ts root ran log fin root' ran' log',
    (forall t, In t ts -> Sc t) ->
    W idx true True ran log fin -> Inv3 root ran log ->
    run_targets H exec idx c true fuel ts (Ok (root, ran, log)) = Ok (root', ran', log') ->
    Inv3 root' ran' log'.
  Proof.
    induction ts as [|t r IH]; intros root ran log fin root' ran' log' Hts HW HI Hrun.
    - inversion Hrun; subst. exact HI.
    - rewrite run_targets_cons in Hrun.
      destruct (runS fuel idx c true root ran log [] t) as [[[root1 ran1] log1]|] eqn:Hone.
      2:{ rewrite run_targets_Err in Hrun. discriminate. }
      destruct (run_facts H exec idx c True _ _ _ _ _ _ _ _ _ _ HW (disj_nil ran) Hone)
        as [fin1 [HW1 _]].
      eapply IH; [intros t' Ht'; apply Hts; right; exact Ht'|exact HW1| |exact Hrun].
      eapply rerun_post; [exact HW|apply disj_nil|exact HI|apply Hts; left; reflexivity|exact Hone].
  Qed.
End Rerun.

Section RerunTheorems.
  Variable H : bytes -> bytes.
  Variable exec : bytes -> stage -> node -> cache -> res node.
  Variable idx : index.
  Variable c : cache.

  Lemma Inv3_init root : all_clean H idx c root -> Inv3 H idx c root root [] [].
  Proof.
    intros Hall. split.
    - intros sp b Hs. discriminate.
    - intros Y sy HY _. eapply Hall. exact HY.
    - intros sp. split; [intros Hs; destruct Hs|]. intros [stg [_ [Hs _]]]. discriminate.
    - reflexivity.
  Qed.

  Lemma Inv3_out root0 root' ran' log' :
    Inv3 H idx c root0 root' ran' log' ->
    (forall sp b, alookup sp ran' = Some b -> (b = true <-> dos idx sp)) /\
    (forall sp, In sp log' <->
                exists stg, alookup sp idx = Some stg /\ alookup sp ran' = Some true /\ s_cmd stg <> []) /\
    (forall Y sy, alookup Y idx = Some sy -> ~ dos idx Y -> clean0 H idx c root' sy).
  Proof.
    intros HI. split; [|split; [apply HI|apply HI]].
    intros sp b Hs. destruct (R_ran _ _ _ _ _ _ _ HI sp b Hs) as [[Hb Hd]|[Hb Hd]]; subst b.
    - split; [intros _; exact Hd|reflexivity].
    - split; [discriminate|intros Hx; contradiction].
  Qed.

  (* From a state in which every stage is clean: doRun is set exactly for the stages that are a
     source (command, no inputs) or downstream of one; those of them that have a command are
     executed; every other stage stays clean. *)
  Theorem C09_rerun_sources fuel ts root root' ran' log' :
    exec_framed exec idx c -> idx_wf idx -> all_clean H idx c root ->
    run_targets H exec idx c true fuel ts (Ok (root, [], [])) = Ok (root', ran', log') ->
    (forall sp b, alookup sp ran' = Some b -> (b = true <-> dos idx sp)) /\
    (forall sp, In sp log' <->
                exists stg, alookup sp idx = Some stg /\ alookup sp ran' = Some true /\ s_cmd stg <> []) /\
    (forall Y sy, alookup Y idx = Some sy -> ~ dos idx Y -> clean0 H idx c root' sy).
  Proof.
    intros Hfr Hwf Hall Hrun. apply (Inv3_out root).
    eapply (rerun_targets H exec idx c root (fun _ => True)); [auto|apply framed_wf_pres; assumption| |apply W_nil|apply Inv3_init; exact Hall|exact Hrun].
    auto.
  Qed.

  (* the statement of the task holds when no source owns an input of a stage: then exactly the
     visited sources are executed, and no stage that has inputs is *)
  Theorem C09_rerun_sources_only fuel ts root root' ran' log' :
    exec_framed exec idx c -> idx_wf idx -> all_clean H idx c root ->
    (forall s b, source idx s -> ~ edge idx s b) ->
    run_targets H exec idx c true fuel ts (Ok (root, [], [])) = Ok (root', ran', log') ->
    (forall sp, In sp log' <-> alookup sp ran' <> None /\ source idx sp) /\
    (forall sp stg b, alookup sp ran' = Some b -> alookup sp idx = Some stg ->
                      (b = true <-> is_source stg)) /\
    (forall sp stg, alookup sp idx = Some stg -> s_inputs stg <> [] -> ~ In sp log').
  Proof.
    intros Hfr Hwf Hall Hiso Hrun.
    destruct (C09_rerun_sources fuel ts root root' ran' log' Hfr Hwf Hall Hrun) as [Hran [Hlog _]].
    assert (Hdos : forall sp, dos idx sp <-> source idx sp).
    { intros sp. split.
      - intros [s [Hs [Heq|Hp]]]; [subst s; exact Hs|]. exfalso.
        destruct Hp as [a b He|a b c0 He _]; eapply Hiso; eassumption.
      - intros Hs. exists sp. split; [exact Hs|left; reflexivity]. }
    assert (Hsrc : forall sp stg, alookup sp idx = Some stg -> (source idx sp <-> is_source stg)).
    { intros sp stg Hstg. split.
      - intros [stg' [Hstg' Hs]]. rewrite Hstg in Hstg'. inversion Hstg'; subst stg'. exact Hs.
      - intros Hs. exists stg. split; assumption. }
    split; [|split].
    - intros sp. rewrite Hlog. split.
      + intros [stg [Hstg [Ht Hc]]]. split; [congruence|]. apply Hdos. apply (Hran sp true Ht). reflexivity.
      + intros [Hv Hs]. pose proof Hs as [stg [Hstg [Hc Hi]]]. exists stg. split; [exact Hstg|]. split; [|exact Hc].
        destruct (alookup sp ran') as [b|] eqn:Hb; [|congruence].
        assert (Hbt : b = true) by (apply (Hran sp b Hb); apply Hdos; exact Hs). congruence.
    - intros sp stg b Hb Hstg. rewrite (Hran sp b Hb), Hdos. apply Hsrc. exact Hstg.
    - intros sp stg Hstg Hin Hl. apply Hlog in Hl as [stg' [Hstg' [Ht _]]].
      assert (Hs : source idx sp) by (apply Hdos; apply (Hran sp true Ht); reflexivity).
      apply (Hsrc sp stg Hstg) in Hs. destruct Hs as [_ Hi]. contradiction.
  Qed.

  (* no source at or upstream of a target: nothing is executed, the workspace is untouched, every
     visited stage is reported up to date.  No assumption on exec or on the index. *)
  Theorem C09_rerun_quiet fuel ts root root' ran' log' :
    all_clean H idx c root ->
    (forall s t, source idx s -> In t ts -> ~ clos_refl_trans bytes (edge idx) s t) ->
    run_targets H exec idx c true fuel ts (Ok (root, [], [])) = Ok (root', ran', log') ->
    log' = [] /\ root' = root /\ forall sp b, alookup sp ran' = Some b -> b = false.
  Proof.
    intros Hall Hnosrc Hrun.
    set (Sc := fun s : bytes => exists t, In t ts /\ upstream idx s t).
    assert (Hnd : forall s, Sc s -> ~ dos idx s).
    { intros s [t [Ht Hup]] [s0 [Hs0 Hup0]]. apply (Hnosrc s0 t Hs0 Ht).
      apply upstream_clos in Hup, Hup0. eapply rt_trans; eassumption. }
    assert (HI : Inv3 H idx c root root' ran' log').
    { eapply (rerun_targets H exec idx c root Sc); [| | |apply W_nil|apply Inv3_init; exact Hall|exact Hrun].
      - intros op sp He [t [Ht Hup]]. exists t. split; [exact Ht|]. eapply upstream_edge; eassumption.
      - intros X sx r r' HX HSc Hd. exfalso. eapply Hnd; eassumption.
      - intros t Ht. exists t. split; [exact Ht|left; reflexivity]. }
    assert (Hvis : forall sp b, alookup sp ran' = Some b -> b = false).
    { intros sp b Hb.
      destruct (C08_scope H exec idx c true fuel ts root [] [] root' ran' log' sp (log_ok_nil) Hrun)
        as [Hx|[t [Ht Hup]]]; [congruence|exfalso; apply Hx; reflexivity|].
      destruct (R_ran _ _ _ _ _ _ _ HI sp b Hb) as [[_ Hd]|[Hbf _]]; [|exact Hbf].
      exfalso. apply (Hnd sp); [|exact Hd]. exists t. split; [exact Ht|apply upstream_clos; exact Hup]. }
    assert (Hlog : log' = []).
    { destruct log' as [|x l]; [reflexivity|]. exfalso.
      destruct (proj1 (R_log _ _ _ _ _ _ _ HI x) (or_introl eq_refl)) as [stg [_ [Ht _]]].
      apply Hvis in Ht. discriminate. }
    split; [exact Hlog|]. split; [apply (R_root _ _ _ _ _ _ _ HI); exact Hlog|exact Hvis].
  Qed.
End RerunTheorems.

Print Assumptions C09_rerun_sources.
Print Assumptions C09_rerun_sources_only.
Print Assumptions C09_rerun_quiet.

(* ------------------------------------------------------------------------------------------ *)
(* Part 5: the hypotheses are satisfiable; examples and counterexamples                        *)
(* ------------------------------------------------------------------------------------------ *)

(* the frame premise as literally worded in the task ("every path that is not equal to or below an
   output keeps its entry") forces exec to be the identity on the root as soon as no output is the
   root itself: take p = [].  This is why [exec_framed] is stated with [incomp]. *)
Definition exec_framed_literal (exec : bytes -> stage -> node -> cache -> res node) (idx : index) (c : cache) : Prop :=
  forall sp stg root root',
    alookup sp idx = Some stg -> exec sp stg root c = Ok root' ->
    forall p, (forall o, In o (s_outputs stg) -> is_prefix (comps (a_path o)) p = false) -> slot_eq root root' p.

Lemma exec_framed_literal_identity exec idx c sp stg root root' :
  exec_framed_literal exec idx c -> alookup sp idx = Some stg ->
  (forall o, In o (s_outputs stg) -> comps (a_path o) <> []) ->
  exec sp stg root c = Ok root' -> root' = root.
Proof.
  intros Hlit Hstg Hne Hex.
  destruct (Hlit sp stg root root' Hstg Hex []) as [Hg _].
  - intros o Ho. specialize (Hne o Ho). destruct (comps (a_path o)); [congruence|reflexivity].
  - cbn [get] in Hg. congruence.
Qed.

(* a boolean check of idx_wf *)
Definition incompb (p q : list bytes) : bool := negb (is_prefix p q) && negb (is_prefix q p).

Definition idx_wfb (idx : index) : bool :=
  forallb (fun X => forallb (fun Y =>
    beqb (fst X) (fst Y) ||
    forallb (fun o => forallb (fun b => incompb (comps (a_path o)) (comps (a_path b)))
                              (s_outputs (snd Y) ++
                               filter (fun b => match find_owner idx (a_path b) with None => true | Some _ => false end)
                                      (s_inputs (snd Y))))
            (s_outputs (snd X))) idx) idx.

Lemma idx_wfb_sound idx : idx_wfb idx = true -> idx_wf idx.
Proof.
  intros Hb X sx Y sy o b Hne HX HY Ho Hbin.
  unfold idx_wfb in Hb. rewrite forallb_forall in Hb.
  specialize (Hb (X, sx) (alookup_In _ _ _ HX)). rewrite forallb_forall in Hb.
  specialize (Hb (Y, sy) (alookup_In _ _ _ HY)). cbn [fst snd] in Hb.
  apply orb_true_iff in Hb as [Hb|Hb]; [apply beqb_eq in Hb; contradiction|].
  rewrite forallb_forall in Hb. specialize (Hb o Ho). rewrite forallb_forall in Hb.
  assert (Hin : In b (s_outputs sy ++
                      filter (fun b => match find_owner idx (a_path b) with None => true | Some _ => false end)
                             (s_inputs sy))).
  { apply in_or_app. destruct Hbin as [Hb1|[Hb1 Hfo]]; [left; exact Hb1|right].
    apply filter_In. split; [exact Hb1|]. rewrite Hfo. reflexivity. }
  specialize (Hb b Hin). unfold incompb in Hb. apply andb_true_iff in Hb as [H1 H2].
  apply negb_true_iff in H1, H2. split; assumption.
Qed.

(* an exec that writes a regular file (command ++ path) at every output path *)
Definition ex_step (stg : stage) (acc : res node) (o : artifact) : res node :=
  match acc with
  | Ok r => match put r (comps (a_path o)) (Some (File (s_cmd stg ++ a_path o))) with
            | Some r' => Ok r'
            | None => Err
            end
  | Err => Err
  end.
Definition ex_exec (sp : bytes) (stg : stage) (root : node) (c : cache) : res node :=
  fold_left (ex_step stg) (s_outputs stg) (Ok root).

Lemma ex_step_Err stg outs : fold_left (ex_step stg) outs Err = Err.
Proof. induction outs as [|o r IH]; [reflexivity|exact IH]. Qed.

Lemma ex_fold_framed stg : forall outs root root',
  fold_left (ex_step stg) outs (Ok root) = Ok root' ->
  forall p, (forall o, In o outs -> incomp (comps (a_path o)) p) -> slot_eq root root' p.
Proof.
  induction outs as [|o r IH]; intros root root' Hf p Hp.
  - inversion Hf; subst. split; reflexivity.
  - cbn [fold_left ex_step] in Hf.
    destruct (put root (comps (a_path o)) (Some (File (s_cmd stg ++ a_path o)))) as [r1|] eqn:Hput.
    2:{ rewrite ex_step_Err in Hf. discriminate. }
    destruct (put_frame _ _ _ _ p Hput (Hp o (or_introl eq_refl))) as [Hg1 Hb1].
    destruct (IH _ _ Hf p (fun o' Ho' => Hp o' (or_intror Ho'))) as [Hg2 Hb2].
    split; congruence.
Qed.

Lemma ex_exec_framed idx c : exec_framed ex_exec idx c.
Proof.
  intros sp stg root root' _ Hex p Hp. eapply ex_fold_framed; [exact Hex|exact Hp].
Qed.

Module C09Examples.
  Local Open Scope N_scope.
  Definition idH : bytes -> bytes := fun b => b.
  Definition art (p : bytes) : artifact := mkArt [] p false false false.
  Definition sA : bytes := [97].  Definition sB : bytes := [98].
  Definition f_in : bytes := [105; 110]. Definition fx : bytes := [120]. Definition fy : bytes := [121].
  Definition cmd : bytes := [116; 116; 116].

  (* ---- A: in -> x ; B: x -> y.  `dud run B; dud commit B; dud run B` ---- *)
  Definition idx0 : index :=
    [ (sA, mkStage [] cmd [] [art f_in] [art fx]); (sB, mkStage [] cmd [] [art fx] [art fy]) ].
  Definition root0 : node := Dir [(f_in, File [1; 2; 3])].

  Definition run1 := Eval vm_compute in run_targets idH ex_exec idx0 [] true 3 [sB] (Ok (root0, [], [])).
  Definition root1 := Eval vm_compute in match run1 with Ok (r, _, _) => r | Err => Other end.
  Definition cm := Eval vm_compute in commit_stage idH 3 (mkI idx0 root1 []) Link [] [] sB.
  Definition idx1 := Eval vm_compute in match cm with Ok (st, _) => i_idx st | Err => [] end.
  Definition root2 := Eval vm_compute in match cm with Ok (st, _) => i_root st | Err => Other end.
  Definition c2 := Eval vm_compute in match cm with Ok (st, _) => i_cache st | Err => [] end.

  (* the first run executes A then B (no checksums yet: "definition modified") *)
  Example chain_first_run :
    run_targets idH ex_exec idx0 [] true 3 [sB] (Ok (root0, [], []))
    = Ok (root1, [(sA, true); (sB, true)], [sB; sA]).
  Proof. vm_compute. reflexivity. Qed.

  Example chain_commit :
    commit_stage idH 3 (mkI idx0 root1 []) Link [] [] sB = Ok (mkI idx1 root2 c2, [sB; sA]).
  Proof. vm_compute. reflexivity. Qed.

  (* the second run is quiet *)
  Example chain_second_run_quiet :
    run_targets idH ex_exec idx1 c2 true 3 [sB] (Ok (root2, [], []))
    = Ok (root2, [(sA, false); (sB, false)], []).
  Proof. vm_compute. reflexivity. Qed.

  (* the premises of the theorems hold of this example *)
  Example chain_wf : idx_wf idx1.
  Proof. apply idx_wfb_sound. vm_compute. reflexivity. Qed.

  Example chain_framed : exec_framed ex_exec idx1 c2.
  Proof. apply ex_exec_framed. Qed.

  Example chain_all_clean : all_clean idH idx1 c2 root2.
  Proof.
    intros sp stg Hs. apply alookup_In in Hs. destruct Hs as [Hs|[Hs|[]]]; inversion Hs; subst sp stg; split.
    - split; [discriminate|vm_compute; reflexivity].
    - intros a [Ha|[]] Hfo; subst a; vm_compute; reflexivity.
    - intros a op up [Ha|[]] Hfo; subst a. vm_compute in Hfo. discriminate Hfo.
    - intros o [Ho|[]]; subst o; vm_compute; reflexivity.
    - split; [discriminate|vm_compute; reflexivity].
    - intros a [Ha|[]] Hfo; subst a; vm_compute; reflexivity.
    - intros a op up [Ha|[]] Hfo; subst a. vm_compute in Hfo. inversion Hfo; subst op up. reflexivity.
    - intros o [Ho|[]]; subst o; vm_compute; reflexivity.
  Qed.

  Example chain_no_source s t : source idx1 s -> In t [sB] -> ~ clos_refl_trans bytes (edge idx1) s t.
  Proof.
    intros [stg [Hs [_ Hi]]] _ _. apply alookup_In in Hs.
    destruct Hs as [Hs|[Hs|[]]]; inversion Hs; subst s stg; discriminate Hi.
  Qed.

  (* the quiet second run, by the theorem *)
  Example chain_second_run_quiet_thm root' ran' log' :
    run_targets idH ex_exec idx1 c2 true 3 [sB] (Ok (root2, [], [])) = Ok (root', ran', log') ->
    log' = [] /\ root' = root2 /\ forall sp b, alookup sp ran' = Some b -> b = false.
  Proof. apply C09_rerun_quiet; [exact chain_all_clean|exact chain_no_source]. Qed.

  (* C09_executed_or_clean instantiated on the first run: everything ran, in order *)
  Example chain_first_run_thm :
    In sB [sB; sA] /\ forall op, edge idx0 op sB -> In op [sB; sA] ->
                                  exists p q r, rev [sB; sA] = p ++ op :: q ++ sB :: r.
  Proof.
    assert (Hwf0 : idx_wf idx0) by (apply idx_wfb_sound; vm_compute; reflexivity).
    destruct (C09_executed_or_clean idH ex_exec idx0 [] (ex_exec_framed idx0 []) Hwf0 3 [sB] root0 _ _ _
                                    chain_first_run) as [_ [_ [Hrun _]]].
    apply (Hrun sB (mkStage [] cmd [] [art fx] [art fy])); [reflexivity|reflexivity|discriminate].
  Qed.

  (* ---- COUNTEREXAMPLE to "a run straight after run; commit executes no stage that has inputs":
     A: (no inputs) -> x ; B: x -> y.  A is a source, so A and B are executed again. ---- *)
  Definition jdx0 : index :=
    [ (sA, mkStage [] cmd [] [] [art fx]); (sB, mkStage [] cmd [] [art fx] [art fy]) ].
  Definition q1 := Eval vm_compute in run_targets idH ex_exec jdx0 [] true 3 [sB] (Ok (Dir [], [], [])).
  Definition qroot1 := Eval vm_compute in match q1 with Ok (r, _, _) => r | Err => Other end.
  Definition qcm := Eval vm_compute in commit_stage idH 3 (mkI jdx0 qroot1 []) Link [] [] sB.
  Definition jdx1 := Eval vm_compute in match qcm with Ok (st, _) => i_idx st | Err => [] end.
  Definition qroot2 := Eval vm_compute in match qcm with Ok (st, _) => i_root st | Err => Other end.
  Definition qc2 := Eval vm_compute in match qcm with Ok (st, _) => i_cache st | Err => [] end.

  Example source_chain_commit :
    commit_stage idH 3 (mkI jdx0 qroot1 []) Link [] [] sB = Ok (mkI jdx1 qroot2 qc2, [sB; sA]).
  Proof. vm_compute. reflexivity. Qed.

  Example source_chain_all_clean : all_clean idH jdx1 qc2 qroot2.
  Proof.
    intros sp stg Hs. apply alookup_In in Hs. destruct Hs as [Hs|[Hs|[]]]; inversion Hs; subst sp stg; split.
    - split; [discriminate|vm_compute; reflexivity].
    - intros a [].
    - intros a op up [].
    - intros o [Ho|[]]; subst o; vm_compute; reflexivity.
    - split; [discriminate|vm_compute; reflexivity].
    - intros a [Ha|[]] Hfo; subst a; vm_compute; reflexivity.
    - intros a op up [Ha|[]] Hfo; subst a. vm_compute in Hfo. inversion Hfo; subst op up. reflexivity.
    - intros o [Ho|[]]; subst o; vm_compute; reflexivity.
  Qed.

  (* every stage is clean, yet B (which has inputs) is executed *)
  Example source_chain_second_run_not_quiet :
    exists root', run_targets idH ex_exec jdx1 qc2 true 3 [sB] (Ok (qroot2, [], []))
                  = Ok (root', [(sA, true); (sB, true)], [sB; sA]).
  Proof. eexists. vm_compute. reflexivity. Qed.

  (* ---- the literal frame premise is not satisfied by ex_exec (nor by any exec that writes) ---- *)
  Example literal_frame_fails : ~ exec_framed_literal ex_exec idx0 [].
  Proof.
    intros Hlit.
    assert (Hex : ex_exec sA (mkStage [] cmd [] [art f_in] [art fx]) root0 []
                  = Ok (Dir [(f_in, File [1; 2; 3]); (fx, File (cmd ++ fx))])) by (vm_compute; reflexivity).
    assert (Heq : Dir [(f_in, File [1; 2; 3]); (fx, File (cmd ++ fx))] = root0).
    { eapply (exec_framed_literal_identity ex_exec idx0 [] sA _ root0 _ Hlit); [reflexivity| |exact Hex].
      intros o [Ho|[]]; subst o. vm_compute. discriminate. }
    unfold root0 in Heq. discriminate Heq.
  Qed.
End C09Examples.
