(* C07: what the dud commands do NOT write.  All theorems are about Model/System.v [step]
   (hash [H], command table [sems] and world [w] arbitrary; premises are spelled out).

     C07_readonly                   status / graph return the very same world
     C07_no_stage_write             run / checkout / status / graph / push / fetch keep w_stages, w_index
     C07_no_cache_write             every command but commit keeps w_cache
     C07_failed_step_unchanged      a step that reports failure returns the old world
     C07_status_cache_free, C07_graph_cache_free, C07_run_cache_free, C07_checkout_cache_free,
     C07_push_cache_free, C07_fetch_cache_free, C07_stage_add_cache_free, C07_stage_rm_cache_free,
     C07_{run,checkout,push,fetch}_stage_files_unchanged, C07_root_untouched      corollaries
     C07_run_only_commands_write    run over an arbitrary [exec] (step_run_gen; step_CRun_gen shows
                                    it is [step]'s CRun case): the final root is the initial one
                                    threaded through [exec] for the stages of the log, in log order
     C07_run_pure_exec_root         ... hence the world is unchanged when exec never changes the tree
     C07_run_step_chain, C07_run_nothing_executed    the same for the model's exec table
     C07_commit_frame               commit: an entry that is a regular file (or absent), and that
                                    every artifact the command may commit either lies apart from
                                    or names as a plain input / skip-cache output ([frame_ok]),
                                    is physically unchanged
     C07_inputs_untouched, C07_skip_outputs_untouched   its two instances
     C07_checkout_frame             checkout: entries apart from every non-skip output are unchanged
   The get/put frame lemmas (get_put_apart, get_put_same) hold for arbitrary trees: sortedness of
   the directory entry lists (CacheDefs.sorted_tree) is NOT needed.
   Examples at the end (vm_compute, H := identity): non-vacuity, and two counterexamples
   (cex_dir_input, cex_unclean_path) showing that [frame_ok] cannot simply be dropped from
   C07_inputs_untouched. *)
From Coq Require Import NArith List Bool Lia String.
From DudV Require Import Base.Bytes Base.Json Base.GoPath Model.Fs Model.Cache Model.Stage Model.Index.
From DudV Require Import Model.System.
From DudV Require Import Proofs.PipelineProofs.
Import ListNotations.
Local Open Scope N_scope.

(* ------------------------------------------------------------------------------------------ *)
(* 1, 2, 3, 5: by inspection of [step]                                                         *)
(* ------------------------------------------------------------------------------------------ *)
Section Inspect.
  Variable H : bytes -> bytes.
  Variable sems : list (bytes * cmdsem).

  Definition world_of (r : world * bool * output) : world := fst (fst r).
  Definition ok_of (r : world * bool * output) : bool := snd (fst r).

  Ltac crush_step :=
    repeat match goal with
           | |- context [match ?x with _ => _ end] => destruct x
           end; try reflexivity; try discriminate.

  Theorem C07_readonly w cmd :
    (exists ts, cmd = CStatus ts) \/ (exists ts, cmd = CGraph ts) ->
    fst (fst (step H sems w cmd)) = w.
  Proof.
    intros [[ts Hc]|[ts Hc]]; subst cmd; unfold step; crush_step.
  Qed.

  Definition no_stage_write_cmd (cmd : command) : Prop :=
    match cmd with
    | CRun _ _ | CCheckout _ _ _ | CStatus _ | CGraph _ | CPush _ _ | CFetch _ _ => True
    | _ => False
    end.

  Theorem C07_no_stage_write w cmd :
    no_stage_write_cmd cmd ->
    w_stages (fst (fst (step H sems w cmd))) = w_stages w /\
    w_index (fst (fst (step H sems w cmd))) = w_index w.
  Proof.
    intros Hc. destruct cmd; cbn [no_stage_write_cmd] in Hc; try contradiction;
      unfold step; crush_step; split; reflexivity.
  Qed.

  Definition is_commit (cmd : command) : bool :=
    match cmd with CCommit _ _ => true | _ => false end.

  Theorem C07_no_cache_write w cmd :
    is_commit cmd = false ->
    w_cache (fst (fst (step H sems w cmd))) = w_cache w.
  Proof.
    intros Hc. destruct cmd; cbn [is_commit] in Hc; try discriminate;
      unfold step; crush_step.
  Qed.

  Theorem C07_failed_step_unchanged w cmd :
    snd (fst (step H sems w cmd)) = false -> fst (fst (step H sems w cmd)) = w.
  Proof.
    destruct cmd; unfold step; crush_step.
  Qed.
End Inspect.

Print Assumptions C07_readonly.
Print Assumptions C07_no_stage_write.
Print Assumptions C07_no_cache_write.
Print Assumptions C07_failed_step_unchanged.

(* corollaries of 1-3, command by command *)
Section Corollaries.
  Variable H : bytes -> bytes.
  Variable sems : list (bytes * cmdsem).
  Variable w : world.

  Theorem C07_status_unchanged ts : fst (fst (step H sems w (CStatus ts))) = w.
  Proof. apply C07_readonly. left. exists ts. reflexivity. Qed.
  Theorem C07_graph_unchanged ts : fst (fst (step H sems w (CGraph ts))) = w.
  Proof. apply C07_readonly. right. exists ts. reflexivity. Qed.

  Theorem C07_status_cache_free ts : w_cache (fst (fst (step H sems w (CStatus ts)))) = w_cache w.
  Proof. rewrite C07_status_unchanged. reflexivity. Qed.
  Theorem C07_graph_cache_free ts : w_cache (fst (fst (step H sems w (CGraph ts)))) = w_cache w.
  Proof. rewrite C07_graph_unchanged. reflexivity. Qed.
  Theorem C07_run_cache_free ts single : w_cache (fst (fst (step H sems w (CRun ts single)))) = w_cache w.
  Proof. apply C07_no_cache_write. reflexivity. Qed.
  Theorem C07_checkout_cache_free ts copy single :
    w_cache (fst (fst (step H sems w (CCheckout ts copy single)))) = w_cache w.
  Proof. apply C07_no_cache_write. reflexivity. Qed.
  Theorem C07_push_cache_free ts single : w_cache (fst (fst (step H sems w (CPush ts single)))) = w_cache w.
  Proof. apply C07_no_cache_write. reflexivity. Qed.
  Theorem C07_fetch_cache_free ts single : w_cache (fst (fst (step H sems w (CFetch ts single)))) = w_cache w.
  Proof. apply C07_no_cache_write. reflexivity. Qed.
  Theorem C07_stage_add_cache_free ps : w_cache (fst (fst (step H sems w (CStageAdd ps)))) = w_cache w.
  Proof. apply C07_no_cache_write. reflexivity. Qed.
  Theorem C07_stage_rm_cache_free ps : w_cache (fst (fst (step H sems w (CStageRm ps)))) = w_cache w.
  Proof. apply C07_no_cache_write. reflexivity. Qed.

  Theorem C07_run_stage_files_unchanged ts single :
    w_stages (fst (fst (step H sems w (CRun ts single)))) = w_stages w.
  Proof. apply C07_no_stage_write. exact I. Qed.
  Theorem C07_checkout_stage_files_unchanged ts copy single :
    w_stages (fst (fst (step H sems w (CCheckout ts copy single)))) = w_stages w.
  Proof. apply C07_no_stage_write. exact I. Qed.
  Theorem C07_push_stage_files_unchanged ts single :
    w_stages (fst (fst (step H sems w (CPush ts single)))) = w_stages w.
  Proof. apply C07_no_stage_write. exact I. Qed.
  Theorem C07_fetch_stage_files_unchanged ts single :
    w_stages (fst (fst (step H sems w (CFetch ts single)))) = w_stages w.
  Proof. apply C07_no_stage_write. exact I. Qed.

  (* push / fetch (traversal part) and the stage-list commands do not touch the workspace tree *)
  Theorem C07_root_untouched cmd :
    match cmd with
    | CStatus _ | CGraph _ | CPush _ _ | CFetch _ _ | CStageAdd _ | CStageRm _ => True
    | _ => False
    end ->
    w_root (fst (fst (step H sems w cmd))) = w_root w.
  Proof.
    intros Hc. destruct cmd; try contradiction; unfold step;
      repeat match goal with
             | |- context [match ?x with _ => _ end] => destruct x
             end; reflexivity.
  Qed.
End Corollaries.

Print Assumptions C07_status_cache_free.
Print Assumptions C07_graph_cache_free.
Print Assumptions C07_run_cache_free.
Print Assumptions C07_checkout_cache_free.
Print Assumptions C07_push_cache_free.
Print Assumptions C07_fetch_cache_free.
Print Assumptions C07_stage_add_cache_free.
Print Assumptions C07_stage_rm_cache_free.
Print Assumptions C07_run_stage_files_unchanged.
Print Assumptions C07_checkout_stage_files_unchanged.
Print Assumptions C07_push_stage_files_unchanged.
Print Assumptions C07_fetch_stage_files_unchanged.
Print Assumptions C07_root_untouched.

(* ------------------------------------------------------------------------------------------ *)
(* 4: dud run, over an arbitrary [exec]                                                         *)
(* ------------------------------------------------------------------------------------------ *)
Section RunGen.
  Variable H : bytes -> bytes.
  Variable exec : bytes -> stage -> node -> cache -> res node.

  (* the CRun case of [step] with the stage command abstracted, as run_stage has it *)
  Definition step_run_gen (w : world) (targets : list bytes) (single : bool) : world * bool * output :=
    if w_lock w then (w, false, ONone)
    else match load_index (w_index w) (w_stages w) [] with
    | None => (w, false, ONone)
    | Some idx =>
      match idx with
      | [] => (w, false, ONone)
      | _ =>
        match run_targets H exec idx (w_cache w) (negb single) (fuel_of idx) (all_or targets idx)
                          (Ok (w_root w, [], [])) with
        | Ok (root, _, log) => (mkW root (w_cache w) (w_stages w) (w_index w) false, true, ORun (rev log))
        | Err => (w, false, ONone)
        end
      end
    end.

  Variable idx : index.
  Variable c : cache.

  Definition tr_stage (t : bytes * node * node) : bytes := fst (fst t).

  (* root --exec sp1--> r1 --exec sp2--> ... --> root' *)
  Inductive exec_chain : node -> list (bytes * node * node) -> node -> Prop :=
  | chain_nil r : exec_chain r [] r
  | chain_cons r sp stg r1 l r2 :
      alookup sp idx = Some stg -> exec sp stg r c = Ok r1 -> exec_chain r1 l r2 ->
      exec_chain r ((sp, r, r1) :: l) r2.

  Lemma chain_app r1 l1 r2 l2 r3 :
    exec_chain r1 l1 r2 -> exec_chain r2 l2 r3 -> exec_chain r1 (l1 ++ l2) r3.
  Proof.
    intros H1 H2. induction H1 as [r|r sp stg r1 l r2 Hl He Hc IH]; [exact H2|].
    cbn [app]. econstructor; [exact Hl|exact He|apply IH; exact H2].
  Qed.

  Definition chain_rel (root : node) (log : list bytes) (root' : node) (log' : list bytes) : Prop :=
    exists l, exec_chain root l root' /\ log' = rev (map tr_stage l) ++ log.

  Lemma chain_rel_refl root log : chain_rel root log root log.
  Proof. exists []. split; [constructor|reflexivity]. Qed.

  Lemma chain_rel_trans r1 g1 r2 g2 r3 g3 :
    chain_rel r1 g1 r2 g2 -> chain_rel r2 g2 r3 g3 -> chain_rel r1 g1 r3 g3.
  Proof.
    intros [l1 [Hc1 Hg1]] [l2 [Hc2 Hg2]]. exists (l1 ++ l2). split; [eapply chain_app; eassumption|].
    rewrite Hg2, Hg1, map_app, rev_app_distr, app_assoc. reflexivity.
  Qed.

  Definition chain_spec (recursive : bool) (f : nat) : Prop :=
    forall stack root ran log sp root' ran' log',
      run_stage H exec f idx c recursive root ran log stack sp = Ok (root', ran', log') ->
      chain_rel root log root' log'.

  Lemma run_ins_chain recursive f stack :
    chain_spec recursive f ->
    forall arts root ran log doit root' ran' log' doit',
      run_ins H exec idx c recursive f stack arts root ran log doit = Ok (root', ran', log', doit') ->
      chain_rel root log root' log'.
  Proof.
    destruct recursive; intros IH;
      (induction arts as [|a r IHr]; intros root ran log doit root' ran' log' doit' Hrun;
       cbn [run_ins] in Hrun;
       [inversion Hrun; subst; apply chain_rel_refl|]);
      (destruct (find_owner idx (a_path a)) as [[op up]|];
       [|destruct (short_top H a root c) as [cm|]; [|discriminate]; eapply IHr; exact Hrun]).
    - destruct (run_stage H exec f idx c true root ran log stack op) as [[[root1 ran1] log1]|] eqn:Hsub;
        [|discriminate].
      eapply chain_rel_trans; [eapply IH; exact Hsub|eapply IHr; exact Hrun].
    - eapply IHr; exact Hrun.
  Qed.
  Lemma run_stage_chain recursive : forall f, chain_spec recursive f.
  Proof.
    induction f as [|f IH]; intros stack root ran log sp root' ran' log' Hrun.
    { cbn [run_stage] in Hrun. discriminate. }
    rewrite run_stage_S in Hrun.
    destruct (alookup sp ran) as [b|].
    { inversion Hrun; subst. apply chain_rel_refl. }
    destruct (mem sp stack); [discriminate|].
    destruct (alookup sp idx) as [stg|] eqn:Hstg; [|discriminate].
    destruct (run_ins H exec idx c recursive f (sp :: stack) (s_inputs stg) root ran log (do0_of H stg))
      as [[[[root1 ran1] log1] do1]|] eqn:Hins; [|discriminate].
    pose proof (run_ins_chain recursive f (sp :: stack) IH _ _ _ _ _ _ _ _ _ Hins) as Hrel1.
    unfold run_finish in Hrun.
    destruct (if do1 then Ok true else any_stale H (s_outputs stg) root1 c) as [d|]; [|discriminate].
    destruct (d && has_cmd_of stg).
    - destruct (exec sp stg root1 c) as [root2|] eqn:Hex; [|discriminate].
      inversion Hrun; subst. eapply chain_rel_trans; [exact Hrel1|].
      exists [(sp, root1, root')]. split; [|reflexivity].
      econstructor; [exact Hstg|exact Hex|constructor].
    - inversion Hrun; subst. exact Hrel1.
  Qed.

  Lemma run_targets_chain recursive fuel : forall ts root ran log root' ran' log',
    run_targets H exec idx c recursive fuel ts (Ok (root, ran, log)) = Ok (root', ran', log') ->
    chain_rel root log root' log'.
  Proof.
    induction ts as [|t r IH]; intros root ran log root' ran' log' Hrun.
    - cbn in Hrun. inversion Hrun; subst. apply chain_rel_refl.
    - rewrite run_targets_cons in Hrun.
      destruct (run_stage H exec fuel idx c recursive root ran log [] t) as [[[root1 ran1] log1]|] eqn:Hone.
      + eapply chain_rel_trans; [eapply run_stage_chain; exact Hone|eapply IH; exact Hrun].
      + rewrite run_targets_Err in Hrun. discriminate.
  Qed.

  (* a chain through an exec that never changes the tree goes nowhere *)
  Lemma chain_pure r l r' :
    (forall sp stg root c0 root', exec sp stg root c0 = Ok root' -> root' = root) ->
    exec_chain r l r' -> r' = r.
  Proof.
    intros Hpure Hc. induction Hc as [r|r sp stg r1 l r2 Hl He Hc IH]; [reflexivity|].
    rewrite IH. eapply Hpure. exact He.
  Qed.
End RunGen.

Section RunStep.
  Variable H : bytes -> bytes.

  Lemma step_CRun_gen sems w ts single :
    step H sems w (CRun ts single) = step_run_gen H (exec sems) w ts single.
  Proof. reflexivity. Qed.

  (* every difference of the workspace across a successful [dud run] is produced by the stage
     commands: the final root is the initial root threaded through [exec] for exactly the stages
     of the printed log, in log order *)
  Theorem C07_run_only_commands_write exec w ts single w' log :
    step_run_gen H exec w ts single = (w', true, ORun log) ->
    exists idx l,
      load_index (w_index w) (w_stages w) [] = Some idx /\
      exec_chain exec idx (w_cache w) (w_root w) l (w_root w') /\
      map tr_stage l = log /\
      w_cache w' = w_cache w /\ w_stages w' = w_stages w /\ w_index w' = w_index w.
  Proof.
    unfold step_run_gen. destruct (w_lock w); [discriminate|].
    destruct (load_index (w_index w) (w_stages w) []) as [idx|]; [|discriminate].
    destruct idx as [|e r]; [discriminate|]. set (idx := e :: r).
    destruct (run_targets H exec idx (w_cache w) (negb single) (fuel_of idx) (all_or ts idx)
                          (Ok (w_root w, [], []))) as [[[root' ran'] log']|] eqn:Hrun; [|discriminate].
    intros Heq. inversion Heq; subst w' log.
    apply run_targets_chain in Hrun as [l [Hc Hlog]].
    exists idx, l. split; [reflexivity|]. split; [exact Hc|]. split.
    - rewrite Hlog, app_nil_r, rev_involutive. reflexivity.
    - repeat split.
  Qed.

  Theorem C07_run_pure_exec_root exec w ts single w' out :
    (forall sp stg root c root', exec sp stg root c = Ok root' -> root' = root) ->
    step_run_gen H exec w ts single = (w', true, out) ->
    w_root w' = w_root w /\ w' = w.
  Proof.
    intros Hpure Hstep.
    assert (Hlock : w_lock w = false).
    { unfold step_run_gen in Hstep. destruct (w_lock w); [discriminate|reflexivity]. }
    assert (Hout : exists log, out = ORun log).
    { unfold step_run_gen in Hstep. rewrite Hlock in Hstep.
      repeat match type of Hstep with
             | context [match ?x with _ => _ end] => destruct x; try discriminate
             end.
      inversion Hstep. eexists. reflexivity. }
    destruct Hout as [log Hout]. subst out.
    pose proof Hstep as Hstep0.
    apply C07_run_only_commands_write in Hstep as [idx [l [_ [Hc [_ [Hca [Hst Hix]]]]]]].
    apply (chain_pure exec idx (w_cache w) _ _ _ Hpure) in Hc.
    split; [exact Hc|].
    assert (Hl' : w_lock w' = false).
    { unfold step_run_gen in Hstep0. rewrite Hlock in Hstep0.
      repeat match type of Hstep0 with
             | context [match ?x with _ => _ end] => destruct x; try discriminate
             end.
      inversion Hstep0. reflexivity. }
    destruct w as [a b c d e], w' as [a' b' c' d' e']. cbn in *. congruence.
  Qed.

  (* the same for the model's own exec table *)
  Theorem C07_run_step_chain sems w ts single w' log :
    step H sems w (CRun ts single) = (w', true, ORun log) ->
    exists idx l,
      load_index (w_index w) (w_stages w) [] = Some idx /\
      exec_chain (exec sems) idx (w_cache w) (w_root w) l (w_root w') /\
      map tr_stage l = log.
  Proof.
    rewrite step_CRun_gen. intros Hs.
    apply C07_run_only_commands_write in Hs as [idx [l [Hl [Hc [Hm _]]]]].
    exists idx, l. auto.
  Qed.

  (* a run whose log is empty (nothing was out of date) leaves the world as it was *)
  Theorem C07_run_nothing_executed sems w ts single w' :
    step H sems w (CRun ts single) = (w', true, ORun []) -> w_root w' = w_root w.
  Proof.
    intros Hs. apply C07_run_step_chain in Hs as [idx [l [_ [Hc Hm]]]].
    destruct l as [|t l]; [|discriminate]. inversion Hc. reflexivity.
  Qed.
End RunStep.

Print Assumptions C07_run_only_commands_write.
Print Assumptions C07_run_pure_exec_root.
Print Assumptions C07_run_step_chain.
Print Assumptions C07_run_nothing_executed.

(* ------------------------------------------------------------------------------------------ *)
(* 6: dud commit and the entries it only checksums                                              *)
(* ------------------------------------------------------------------------------------------ *)
(* frame lemmas for get / put: no sortedness of the directory entry lists is needed *)
Definition apartc (p q : list bytes) : Prop := is_prefix p q = false /\ is_prefix q p = false.

Lemma alookup_aremove_other {A} k k' (l : list (bytes * A)) :
  k <> k' -> alookup k (aremove k' l) = alookup k l.
Proof.
  intros Hne. induction l as [|[k2 v2] r IH]; [reflexivity|]. cbn [aremove alookup].
  destruct (beqb k' k2) eqn:Hk2.
  - apply beqb_eq in Hk2. subst k2. apply beqb_neq in Hne. rewrite Hne. exact IH.
  - cbn [alookup]. rewrite IH. reflexivity.
Qed.

Lemma alookup_dset_other es c v k : k <> c -> alookup k (dset es c v) = alookup k es.
Proof.
  intros Hne. unfold dset. destruct v as [n|];
    [apply alookup_ins_other; exact Hne|apply alookup_aremove_other; exact Hne].
Qed.

Lemma alookup_dset_same es c n : alookup c (dset es c (Some n)) = Some n.
Proof. unfold dset. apply alookup_ins_same. Qed.

Lemma get_nil_dir q : q <> [] -> get (Dir []) q = None.
Proof. destruct q as [|x q]; [congruence|reflexivity]. Qed.

Lemma get_put_apart : forall p q r v r',
  apartc p q -> put r p v = Some r' -> get r' q = get r q.
Proof.
  induction p as [|c pr IH]; intros q r v r' [Hpq Hqp] Hput.
  { cbn in Hpq. discriminate. }
  destruct q as [|c' qr]; [cbn in Hqp; discriminate|].
  cbn [is_prefix] in Hpq, Hqp.
  destruct r as [fb|d|t|es|]; cbn [put] in Hput; try discriminate.
  destruct (beqb c c') eqn:Hcc.
  - apply beqb_eq in Hcc. subst c'. rewrite beqb_refl in Hqp. cbn [andb] in Hpq, Hqp.
    assert (Hpr : pr <> []) by (intros Hn; subst pr; cbn in Hpq; discriminate).
    assert (Hqr : qr <> []) by (intros Hn; subst qr; cbn in Hqp; discriminate).
    cbn [get].
    destruct (alookup c es) as [m|] eqn:Hm.
    + destruct pr as [|c2 pr2]; [congruence|].
      destruct (put m (c2 :: pr2) v) as [m'|] eqn:Hm'; [|discriminate].
      inversion Hput; subst r'. cbn [get dset]. rewrite alookup_ins_same.
      eapply IH; [split; eassumption|exact Hm'].
    + destruct v as [n|].
      * destruct pr as [|c2 pr2]; [congruence|].
        destruct (put (Dir []) (c2 :: pr2) (Some n)) as [m'|] eqn:Hm'; [|discriminate].
        inversion Hput; subst r'. cbn [get dset]. rewrite alookup_ins_same.
        rewrite (IH qr (Dir []) (Some n) m' (conj Hpq Hqp) Hm'). apply get_nil_dir. exact Hqr.
      * inversion Hput; subst r'. cbn [get]. rewrite Hm. reflexivity.
  - assert (Hne : c' <> c).
    { intros Heq. subst c'. rewrite beqb_refl in Hcc. discriminate. }
    assert (Hres : r' = Dir es \/ exists x, r' = Dir (dset es c x)).
    { destruct (alookup c es) as [m|].
      - destruct pr as [|c2 pr2].
        + right. exists v. congruence.
        + destruct (put m (c2 :: pr2) v) as [m'|]; [|discriminate]. right. exists (Some m'). congruence.
      - destruct v as [n|]; [|left; congruence].
        destruct pr as [|c2 pr2].
        + right. exists (Some n). congruence.
        + destruct (put (Dir []) (c2 :: pr2) (Some n)) as [m'|]; [|discriminate].
          right. exists (Some m'). congruence. }
    destruct Hres as [Hr|[x Hr]]; subst r'; [reflexivity|].
    cbn [get]. rewrite (alookup_dset_other es c x c' Hne). reflexivity.
Qed.

Lemma get_put_same : forall p r n r', put r p (Some n) = Some r' -> get r' p = Some n.
Proof.
  induction p as [|c pr IH]; intros r n r' Hput.
  { cbn in Hput. inversion Hput. reflexivity. }
  destruct r as [fb|d|t|es|]; cbn [put] in Hput; try discriminate.
  destruct (alookup c es) as [m|].
  - destruct pr as [|c2 pr2].
    + inversion Hput; subst r'. cbn [get dset]. rewrite alookup_ins_same. reflexivity.
    + destruct (put m (c2 :: pr2) (Some n)) as [m'|] eqn:Hm'; [|discriminate].
      inversion Hput; subst r'. cbn [get dset]. rewrite alookup_ins_same. eapply IH. exact Hm'.
  - destruct pr as [|c2 pr2].
    + inversion Hput; subst r'. cbn [get dset]. rewrite alookup_ins_same. reflexivity.
    + destruct (put (Dir []) (c2 :: pr2) (Some n)) as [m'|] eqn:Hm'; [|discriminate].
      inversion Hput; subst r'. cbn [get dset]. rewrite alookup_ins_same. eapply IH. exact Hm'.
Qed.

(* regular file or absent *)
Definition plainish (o : option node) : Prop :=
  match o with None | Some (File _) => True | _ => False end.

Section CommitFrame.
  Variable H : bytes -> bytes.

  (* a skip-cache commit of a regular file records a checksum and nothing else *)
  Lemma commit_file_skip a b c st n' c' a' :
    a_skip a = true -> commit_file H a (File b) c st = Ok (n', c', a') ->
    n' = File b /\ c' = c /\ a' = set_cs a (H b).
  Proof.
    intros Hskip. unfold commit_file, qmatch. rewrite Hskip, andb_false_r.
    intros Heq. inversion Heq. repeat split.
  Qed.

  Lemma commit_node_skip a b c st n' c' a' :
    a_skip a = true -> commit_node H a (File b) c st = Ok (n', c', a') ->
    n' = File b /\ c' = c /\ a' = set_cs a (H b).
  Proof.
    intros Hskip. cbn [commit_node]. destruct (a_isdir a); [discriminate|].
    apply commit_file_skip. exact Hskip.
  Qed.

  Variable cp : list bytes.

  Lemma commit_top_apart a root c st root' c' a' :
    apartc (comps (a_path a)) cp ->
    commit_top H a root c st = Ok (root', c', a') -> get root' cp = get root cp.
  Proof.
    intros Hap. unfold commit_top.
    destruct (slot_of root (a_path a)) as [slot|]; [|discriminate].
    destruct (commit_art H a slot c st) as [[[slot' c1] a1]|]; [|discriminate].
    destruct (put root (comps (a_path a)) slot') as [root1|] eqn:Hput; [|discriminate].
    intros Heq. inversion Heq; subst. eapply get_put_apart; eassumption.
  Qed.

  Lemma commit_top_same a root c st root' c' a' :
    comps (a_path a) = cp -> a_skip a = true -> plainish (get root cp) ->
    commit_top H a root c st = Ok (root', c', a') ->
    get root' cp = get root cp /\ c' = c.
  Proof.
    intros Hp Hskip Hpl. unfold commit_top, slot_of. rewrite Hp.
    destruct (blocked root cp); [discriminate|].
    destruct (get root cp) as [n|] eqn:Hget; [|cbn [commit_art]; discriminate].
    destruct n as [b|d|t|es|]; cbn [plainish] in Hpl; try contradiction.
    cbn [commit_art].
    destruct (commit_node H a (File b) c st) as [[[n1 c1] a1]|] eqn:Hn; [|discriminate].
    apply (commit_node_skip _ _ _ _ _ _ _ Hskip) in Hn as [Hn1 [Hc1 _]]. subst n1 c1.
    destruct (put root cp (Some (File b))) as [root1|] eqn:Hput; [|discriminate].
    intros Heq. inversion Heq; subst. split; [|reflexivity]. eapply get_put_same. exact Hput.
  Qed.

  Lemma commit_arts_frame st : forall arts fs root c l root' c',
    (forall a, In a arts ->
               apartc (comps (a_path a)) cp \/
               (comps (a_path a) = cp /\ (fs = true \/ a_skip a = true))) ->
    plainish (get root cp) ->
    commit_arts H arts fs root c st = Ok (l, root', c') -> get root' cp = get root cp.
  Proof.
    induction arts as [|a r IH]; intros fs root c l root' c' Hwf Hpl; cbn [commit_arts].
    - intros Heq. inversion Heq. reflexivity.
    - set (a0 := if fs then mkArt (a_cs a) (a_path a) (a_isdir a) (a_norec a) true else a).
      destruct (commit_top H a0 root c st) as [[[root1 c1] a1]|] eqn:Htop; [|discriminate].
      destruct (commit_arts H r fs root1 c1 st) as [[[l2 root2] c2]|] eqn:Hrest; [|discriminate].
      intros Heq. inversion Heq; subst l root' c'.
      assert (Hpath : a_path a0 = a_path a) by (unfold a0; destruct fs; reflexivity).
      assert (H1 : get root1 cp = get root cp).
      { destruct (Hwf a (or_introl eq_refl)) as [Hap|[Hsame Hsk]].
        - eapply commit_top_apart; [|exact Htop]. rewrite Hpath. exact Hap.
        - eapply commit_top_same; [| |exact Hpl|exact Htop].
          + rewrite Hpath. exact Hsame.
          + unfold a0. destruct Hsk as [Hfs|Hsk]; [subst fs; reflexivity|destruct fs; [reflexivity|exact Hsk]]. }
      rewrite <- H1. eapply IH; [|rewrite H1; exact Hpl|exact Hrest].
      intros a' Ha'. apply Hwf. right. exact Ha'.
  Qed.

  (* ---- the index-level premise ----
     every artifact the command may commit (outputs, and inputs nobody owns) either lies apart
     from the path (neither equal to, nor a prefix of, nor an extension of it, component-wise), or
     names the same entry and is checksum-only: a plain input, or a skip-cache output *)
  Definition frame_ok (idx : index) (cp : list bytes) : Prop :=
    forall sp stg, In (sp, stg) idx ->
      (forall o, In o (s_outputs stg) ->
                 apartc (comps (a_path o)) cp \/ (comps (a_path o) = cp /\ a_skip o = true)) /\
      (forall i, In i (s_inputs stg) -> find_owner idx (a_path i) = None ->
                 apartc (comps (a_path i)) cp \/ comps (a_path i) = cp).

  Lemma alookup_In {A} k (v : A) l : alookup k l = Some v -> In (k, v) l.
  Proof.
    induction l as [|[k2 v2] r IH]; cbn [alookup]; [discriminate|].
    destruct (beqb k k2) eqn:Hk.
    - intros Heq. inversion Heq; subst. apply beqb_eq in Hk. subst. left. reflexivity.
    - intros Hl. right. apply IH. exact Hl.
  Qed.

  Lemma own_None idx p : own idx p = None <-> find_owner idx p = None.
  Proof.
    unfold own. destruct (find_owner idx p) as [[a b]|]; cbn; split; congruence.
  Qed.

  Variable strat : strategy.
  Variable idx0 : index.
  Hypothesis sorted0 : ksorted (map fst idx0).
  Hypothesis wf0 : frame_ok idx0 cp.
  Variable v0 : option node.
  Hypothesis plain0 : plainish v0.

  (* stages not yet committed still have their initial entry *)
  Definition unch (st : istate) (done : list bytes) : Prop :=
    forall s, ~ In s done -> alookup s (i_idx st) = alookup s idx0.

  Definition fr_spec (f : nat) (stack : list bytes) : Prop :=
    forall st done sp st' done',
      cm_inv idx0 st done -> cdisj done stack -> unch st done -> get (i_root st) cp = v0 ->
      commit_stage H f st strat done stack sp = Ok (st', done') ->
      unch st' done' /\ get (i_root st') cp = v0.

  Lemma fr_ins f stack :
    fr_spec f stack ->
    forall arts st done owned plain st' done',
      cm_inv idx0 st done -> cdisj done stack -> unch st done -> get (i_root st) cp = v0 ->
      cm_ins H strat f stack arts st done = Ok (owned, plain, st', done') ->
      unch st' done' /\ get (i_root st') cp = v0 /\
      (forall a, In a plain -> In a arts /\ find_owner idx0 (a_path a) = None).
  Proof.
    intros IH. induction arts as [|a r IHr]; intros st done owned plain st' done' Hinv Hd Hun Hget Hrun;
      cbn [cm_ins] in Hrun.
    - inversion Hrun; subst. split; [exact Hun|]. split; [exact Hget|]. intros a Ha. destruct Ha.
    - destruct (find_owner (i_idx st) (a_path a)) as [[op up]|] eqn:Hfo.
      + destruct (commit_stage H f st strat done stack op) as [[st1 done1]|] eqn:Hsub; [|discriminate].
        destruct (cm_ins H strat f stack r st1 done1) as [[[[owned2 plain2] st2] done2]|] eqn:Hrest;
          [|discriminate].
        inversion Hrun; subst owned plain st' done'.
        destruct (cm_post H strat idx0 sorted0 f stack _ _ _ _ _ Hinv Hd Hsub) as [Hinv1 [_ [Hd1 _]]].
        destruct (IH _ _ _ _ _ Hinv Hd Hun Hget Hsub) as [Hun1 Hget1].
        destruct (IHr _ _ _ _ _ _ Hinv1 Hd1 Hun1 Hget1 Hrest) as [Hun2 [Hget2 Hpl2]].
        split; [exact Hun2|]. split; [exact Hget2|].
        intros a' Ha'. destruct (Hpl2 a' Ha') as [Hin Hno]. split; [right; exact Hin|exact Hno].
      + destruct (cm_ins H strat f stack r st done) as [[[[owned2 plain2] st2] done2]|] eqn:Hrest;
          [|discriminate].
        inversion Hrun; subst owned plain st' done'.
        destruct (IHr _ _ _ _ _ _ Hinv Hd Hun Hget Hrest) as [Hun2 [Hget2 Hpl2]].
        split; [exact Hun2|]. split; [exact Hget2|].
        intros a' [Ha'|Ha'].
        * subst a'. split; [left; reflexivity|].
          apply own_None. destruct Hinv as [Hish _]. rewrite (ishape_own _ _ (a_path a) Hish).
          apply own_None. exact Hfo.
        * destruct (Hpl2 a' Ha') as [Hin Hno]. split; [right; exact Hin|exact Hno].
  Qed.

  Lemma fr_post : forall f stack, fr_spec f stack.
  Proof.
    induction f as [|f IH]; intros stack st done sp st' done' Hinv Hd Hun Hget Hrun.
    { cbn [commit_stage] in Hrun. discriminate. }
    rewrite commit_stage_S in Hrun.
    destruct (mem sp done) eqn:Hdone.
    { inversion Hrun; subst. split; assumption. }
    destruct (mem sp stack) eqn:Hmem; [discriminate|].
    destruct (alookup sp (i_idx st)) as [stg|] eqn:Hstg; [|discriminate].
    assert (Hstg0 : In (sp, stg) idx0).
    { apply alookup_In. rewrite <- (Hun sp); [exact Hstg|]. apply mem_notIn. exact Hdone. }
    destruct (wf0 sp stg Hstg0) as [Hwo Hwi].
    assert (Hd0 : cdisj done (sp :: stack)).
    { intros s [Hs|Hs]; [subst s; apply mem_notIn; exact Hdone|apply Hd; exact Hs]. }
    unfold cm_finish in Hrun.
    destruct (cm_ins H strat f (sp :: stack) (s_inputs stg) st done)
      as [[[[owned plain] st1] done1]|] eqn:Hins; [|discriminate].
    destruct (fr_ins f (sp :: stack) (IH (sp :: stack)) _ _ _ _ _ _ _ Hinv Hd0 Hun Hget Hins)
      as [Hun1 [Hget1 Hpl]].
    destruct (commit_arts H plain true (i_root st1) (i_cache st1) strat) as [[[plain' root2] c2]|] eqn:Hc1;
      [|discriminate].
    destruct (commit_arts H (s_outputs stg) false root2 c2 strat) as [[[outs' root3] c3]|] eqn:Hc2;
      [|discriminate].
    inversion Hrun; subst st' done'. cbn [i_idx i_root].
    assert (Hg2 : get root2 cp = v0).
    { rewrite <- Hget1. eapply commit_arts_frame; [|rewrite Hget1; exact plain0|exact Hc1].
      intros a Ha. destruct (Hpl a Ha) as [Hin Hno].
      destruct (Hwi a Hin Hno) as [Hap|Hsame]; [left; exact Hap|right; split; [exact Hsame|left; reflexivity]]. }
    split.
    - intros s Hs. cbn [i_idx]. unfold set_stage. rewrite alookup_ins_other.
      + apply Hun1. intros Hin. apply Hs. right. exact Hin.
      + intros Heq. apply Hs. left. symmetry. exact Heq.
    - rewrite <- Hg2. eapply commit_arts_frame; [|rewrite Hg2; exact plain0|exact Hc2].
      intros o Ho. destruct (Hwo o Ho) as [Hap|[Hsame Hsk]];
        [left; exact Hap|right; split; [exact Hsame|right; exact Hsk]].
  Qed.

  Lemma commit_targets_frame fuel : forall ts st done st' done',
    cm_inv idx0 st done -> unch st done -> get (i_root st) cp = v0 ->
    commit_targets H strat fuel ts (Ok (st, done)) = Ok (st', done') ->
    get (i_root st') cp = v0.
  Proof.
    induction ts as [|t r IH]; intros st done st' done' Hinv Hun Hget Hrun.
    - cbn in Hrun. inversion Hrun; subst st' done'. exact Hget.
    - rewrite commit_targets_cons in Hrun.
      destruct (commit_stage H fuel st strat done [] t) as [[st1 done1]|] eqn:Hone.
      2:{ rewrite commit_targets_Err in Hrun. discriminate. }
      destruct (cm_post H strat idx0 sorted0 fuel [] _ _ _ _ _ Hinv (cdisj_nil done) Hone) as [Hinv1 _].
      destruct (fr_post fuel [] _ _ _ _ _ Hinv (cdisj_nil done) Hun Hget Hone) as [Hun1 Hget1].
      eapply IH; eassumption.
  Qed.
End CommitFrame.

Section CommitStep.
  Variable H : bytes -> bytes.
  Variable sems : list (bytes * cmdsem).

  (* the general frame theorem for commit *)
  Theorem C07_commit_frame w ts copy w' out idx p :
    step H sems w (CCommit ts copy) = (w', true, out) ->
    load_index (w_index w) (w_stages w) [] = Some idx ->
    frame_ok idx (comps p) ->
    plainish (get (w_root w) (comps p)) ->
    get (w_root w') (comps p) = get (w_root w) (comps p).
  Proof.
    intros Hstep Hload Hwf Hpl.
    assert (Hlock : w_lock w = false).
    { unfold step in Hstep. destruct (w_lock w); [discriminate|reflexivity]. }
    assert (Hne : all_or ts idx <> []).
    { intros Heq. unfold step in Hstep. rewrite Hlock, Hload, Heq in Hstep. discriminate. }
    rewrite (step_CCommit H sems w idx Hlock Hload ts copy Hne) in Hstep.
    destruct (commit_targets H (strat_of copy) (fuel_of idx) (all_or ts idx)
                             (Ok (mkI idx (w_root w) (w_cache w), []))) as [[st done]|] eqn:Hrun;
      [|discriminate].
    inversion Hstep; subst w' out. cbn [w_root].
    eapply (commit_targets_frame H (comps p) (strat_of copy) idx (loaded_sorted w idx Hload) Hwf
                                 (get (w_root w) (comps p)) Hpl (fuel_of idx) (all_or ts idx)
                                 (mkI idx (w_root w) (w_cache w)) [] st done);
      [split; [apply ishape_refl|apply core_nil]| |reflexivity|exact Hrun].
    intros s _. reflexivity.
  Qed.

  (* plain inputs: commit records a checksum and nothing else *)
  Theorem C07_inputs_untouched w ts copy w' out idx sp stg a b :
    step H sems w (CCommit ts copy) = (w', true, out) ->
    load_index (w_index w) (w_stages w) [] = Some idx ->
    In (sp, stg) idx -> In a (s_inputs stg) -> find_owner idx (a_path a) = None ->
    get (w_root w) (comps (a_path a)) = Some (File b) ->
    frame_ok idx (comps (a_path a)) ->
    get (w_root w') (comps (a_path a)) = get (w_root w) (comps (a_path a)).
  Proof.
    intros Hstep Hload _ _ _ Hfile Hwf.
    eapply C07_commit_frame; [exact Hstep|exact Hload|exact Hwf|]. rewrite Hfile. exact I.
  Qed.

  (* skip-cache outputs likewise *)
  Theorem C07_skip_outputs_untouched w ts copy w' out idx sp stg a b :
    step H sems w (CCommit ts copy) = (w', true, out) ->
    load_index (w_index w) (w_stages w) [] = Some idx ->
    In (sp, stg) idx -> In a (s_outputs stg) -> a_skip a = true ->
    get (w_root w) (comps (a_path a)) = Some (File b) ->
    frame_ok idx (comps (a_path a)) ->
    get (w_root w') (comps (a_path a)) = get (w_root w) (comps (a_path a)).
  Proof.
    intros Hstep Hload _ _ _ Hfile Hwf.
    eapply C07_commit_frame; [exact Hstep|exact Hload|exact Hwf|]. rewrite Hfile. exact I.
  Qed.
End CommitStep.

Print Assumptions C07_commit_frame.
Print Assumptions C07_inputs_untouched.
Print Assumptions C07_skip_outputs_untouched.

(* ------------------------------------------------------------------------------------------ *)
(* checkout: only non-skip outputs are (re)placed; everything apart from them is untouched      *)
(* ------------------------------------------------------------------------------------------ *)
Section CheckoutFrame.
  Variable H : bytes -> bytes.
  Variable idx : index.
  Variable c : cache.
  Variable strat : strategy.
  Variable cp : list bytes.

  Definition co_frame_ok : Prop :=
    forall sp stg, In (sp, stg) idx ->
      forall o, In o (s_outputs stg) -> a_skip o = true \/ apartc (comps (a_path o)) cp.

  Hypothesis wf : co_frame_ok.

  Lemma checkout_top_frame fuel a root root' :
    a_skip a = true \/ apartc (comps (a_path a)) cp ->
    checkout_top H fuel a root c strat = Ok root' -> get root' cp = get root cp.
  Proof.
    intros Hwf. unfold checkout_top. destruct (a_skip a) eqn:Hskip.
    { intros Heq. inversion Heq. reflexivity. }
    destruct Hwf as [Hf|Hap]; [discriminate|].
    destruct (slot_of root (a_path a)) as [slot|]; [|discriminate].
    destruct (checkout_art H fuel a slot c strat) as [slot'|]; [|discriminate].
    destruct (put root (comps (a_path a)) slot') as [r|] eqn:Hput; [|discriminate].
    intros Heq. inversion Heq; subst. eapply get_put_apart; eassumption.
  Qed.

  Lemma checkout_arts_frame fuel : forall arts root root',
    (forall o, In o arts -> a_skip o = true \/ apartc (comps (a_path o)) cp) ->
    checkout_arts H fuel arts root c strat = Ok root' -> get root' cp = get root cp.
  Proof.
    induction arts as [|a r IH]; intros root root' Hwf; cbn [checkout_arts].
    - intros Heq. inversion Heq. reflexivity.
    - destruct (checkout_top H fuel a root c strat) as [root1|] eqn:Htop; [|discriminate].
      intros Hrest. rewrite (IH root1 root' (fun o Ho => Hwf o (or_intror Ho)) Hrest).
      eapply checkout_top_frame; [apply Hwf; left; reflexivity|exact Htop].
  Qed.

  Definition cof_spec (recursive : bool) (f : nat) : Prop :=
    forall stack root done sp root' done',
      checkout_stage H f idx c strat recursive root done stack sp = Ok (root', done') ->
      get root' cp = get root cp.

  Lemma co_ins_frame recursive f stack :
    cof_spec recursive f ->
    forall arts root done root' done',
      co_ins H idx c strat recursive f stack arts root done = Ok (root', done') ->
      get root' cp = get root cp.
  Proof.
    destruct recursive; intros IH;
      (induction arts as [|a r IHr]; intros root done root' done' Hrun; cbn [co_ins] in Hrun;
       [inversion Hrun; reflexivity|]);
      (destruct (find_owner idx (a_path a)) as [[op up]|]; [|eapply IHr; exact Hrun]).
    - destruct (checkout_stage H f idx c strat true root done stack op) as [[root1 done1]|] eqn:Hsub;
        [|discriminate].
      rewrite (IHr _ _ _ _ Hrun). eapply IH. exact Hsub.
    - eapply IHr; exact Hrun.
  Qed.

  Lemma checkout_stage_frame recursive : forall f, cof_spec recursive f.
  Proof.
    induction f as [|f IH]; intros stack root done sp root' done' Hrun.
    { cbn [checkout_stage] in Hrun. discriminate. }
    rewrite checkout_stage_S in Hrun.
    destruct (mem sp done); [inversion Hrun; reflexivity|].
    destruct (mem sp stack); [discriminate|].
    destruct (alookup sp idx) as [stg|] eqn:Hstg; [|discriminate].
    destruct (co_ins H idx c strat recursive f (sp :: stack) (s_inputs stg) root done)
      as [[root1 done1]|] eqn:Hins; [|discriminate].
    destruct (checkout_arts H 64 (s_outputs stg) root1 c strat) as [root2|] eqn:Harts; [|discriminate].
    inversion Hrun; subst root' done'.
    rewrite (checkout_arts_frame 64 _ _ _ (wf sp stg (alookup_In _ _ _ Hstg)) Harts).
    eapply co_ins_frame; [exact IH|exact Hins].
  Qed.

  Lemma checkout_targets_frame recursive fuel : forall ts root done root' done',
    checkout_targets H idx c strat recursive fuel ts (Ok (root, done)) = Ok (root', done') ->
    get root' cp = get root cp.
  Proof.
    induction ts as [|t r IH]; intros root done root' done' Hrun.
    - cbn in Hrun. inversion Hrun. reflexivity.
    - rewrite checkout_targets_cons in Hrun.
      destruct (checkout_stage H fuel idx c strat recursive root done [] t) as [[root1 done1]|] eqn:Hone.
      + rewrite (IH _ _ _ _ Hrun). eapply checkout_stage_frame. exact Hone.
      + rewrite checkout_targets_Err in Hrun. discriminate.
  Qed.
End CheckoutFrame.

(* checkout (successful or not) leaves alone every entry that lies apart from all non-skip
   outputs: in particular plain inputs and skip-cache artifacts, whatever kind of entry they are *)
Theorem C07_checkout_frame H sems w ts copy single idx p :
  load_index (w_index w) (w_stages w) [] = Some idx ->
  co_frame_ok idx (comps p) ->
  get (w_root (fst (fst (step H sems w (CCheckout ts copy single))))) (comps p) = get (w_root w) (comps p).
Proof.
  intros Hload Hwf. destruct (w_lock w) eqn:Hlock.
  { unfold step. rewrite Hlock. reflexivity. }
  destruct idx as [|e r] eqn:Hidx.
  { unfold step. rewrite Hlock, Hload. reflexivity. }
  rewrite <- Hidx in Hload, Hwf.
  rewrite (step_CCheckout H sems w idx Hlock Hload ts copy single) by (rewrite Hidx; discriminate).
  destruct (checkout_targets H idx (w_cache w) (strat_of copy)
                             (match ts with [] => true | _ => negb single end) (fuel_of idx)
                             (all_or ts idx) (Ok (w_root w, []))) as [[root done]|] eqn:Hrun;
    [|reflexivity].
  cbn [fst w_root]. eapply checkout_targets_frame; [exact Hwf|exact Hrun].
Qed.

Print Assumptions C07_checkout_frame.

(* ------------------------------------------------------------------------------------------ *)
(* Examples (H := identity, so the digest of a file is its content)                             *)
(* ------------------------------------------------------------------------------------------ *)
Module C07Examples.
  Definition idH : bytes -> bytes := fun b => b.
  Definition s (x : string) : bytes := of_string x.
  Definition art (p : string) : artifact := mkArt [] (s p) false false false.

  (* one stage: plain input src.txt, output out.txt *)
  Definition stA : stage := mkStage [] (s "cmd") [] [art "src.txt"] [art "out.txt"].
  Definition w1 : world :=
    mkW (Dir [(s "out.txt", File (s "output")); (s "src.txt", File (s "source"))]) []
        [(s "a.yaml", Some stA)] [s "a.yaml"] false.
  Definition idx1 : index := [(s "a.yaml", stA)].

  Example ex_load : load_index (w_index w1) (w_stages w1) [] = Some idx1.
  Proof. vm_compute. reflexivity. Qed.

  (* commit succeeds, out.txt is replaced by a link into the cache, src.txt is the same File,
     and the cache holds exactly the output *)
  Example ex_commit :
    let r := step idH [] w1 (CCommit [] false) in
    snd (fst r) = true /\
    get (w_root (fst (fst r))) (comps (s "src.txt")) = Some (File (s "source")) /\
    get (w_root w1) (comps (s "src.txt")) = Some (File (s "source")) /\
    get (w_root (fst (fst r))) (comps (s "out.txt")) = Some (LinkC (s "output")) /\
    map fst (w_cache (fst (fst r))) = [s "output"].
  Proof. vm_compute. repeat split. Qed.

  Example ex_status : fst (fst (step idH [] w1 (CStatus []))) = w1 /\ snd (fst (step idH [] w1 (CStatus []))) = true.
  Proof. vm_compute. split; reflexivity. Qed.

  Example ex_graph : step idH [] w1 (CGraph []) = (w1, true, ONone).
  Proof. vm_compute. reflexivity. Qed.

  (* the premises of C07_inputs_untouched are satisfiable: the theorem applies to this world *)
  Example ex_frame_ok : frame_ok idx1 (comps (s "src.txt")).
  Proof.
    intros sp stg [Heq|[]]. inversion Heq; subst sp stg. split.
    - intros o [Ho|[]]. subst o. left. split; vm_compute; reflexivity.
    - intros i [Hi|[]] _. subst i. right. vm_compute. reflexivity.
  Qed.

  Example ex_inputs_untouched :
    get (w_root (fst (fst (step idH [] w1 (CCommit [] false))))) (comps (s "src.txt")) =
    get (w_root w1) (comps (s "src.txt")).
  Proof.
    destruct (step idH [] w1 (CCommit [] false)) as [[w' ok] out] eqn:Hstep. cbn [fst].
    assert (Hok : ok = true).
    { change ok with (snd (fst (w', ok, out))). rewrite <- Hstep. vm_compute. reflexivity. }
    subst ok.
    apply (C07_inputs_untouched idH [] w1 [] false w' out idx1 (s "a.yaml") stA (art "src.txt") (s "source")).
    - exact Hstep.
    - exact ex_load.
    - left. reflexivity.
    - left. reflexivity.
    - vm_compute. reflexivity.
    - vm_compute. reflexivity.
    - exact ex_frame_ok.
  Qed.

  (* a skip-cache output is checksummed and left in place; the cache stays empty *)
  Definition stS : stage :=
    mkStage [] (s "cmd") [] [] [mkArt [] (s "big.bin") false false true].
  Definition wS : world :=
    mkW (Dir [(s "big.bin", File (s "payload"))]) [] [(s "s.yaml", Some stS)] [s "s.yaml"] false.
  Example ex_skip_output :
    let r := step idH [] wS (CCommit [] false) in
    snd (fst r) = true /\ w_root (fst (fst r)) = w_root wS /\ w_cache (fst (fst r)) = [] /\
    match alookup (s "s.yaml") (w_stages (fst (fst r))) with
    | Some (Some st) => map a_cs (s_outputs st) = [s "payload"]
    | _ => False
    end.
  Proof. vm_compute. repeat split. Qed.

  (* a run with a command that copies src.txt to out.txt: the stage files and the cache are
     untouched, only the output of the command changes *)
  Definition sems1 : list (bytes * cmdsem) := [(s "a.yaml", mkCmd [s "src.txt"] (s "out.txt") (s "A"))].
  Example ex_run :
    let r := step idH sems1 w1 (CRun [] false) in
    snd (fst r) = true /\ snd r = ORun [s "a.yaml"] /\
    w_stages (fst (fst r)) = w_stages w1 /\ w_cache (fst (fst r)) = w_cache w1 /\
    get (w_root (fst (fst r))) (comps (s "out.txt")) = Some (File (s "source")) /\
    get (w_root (fst (fst r))) (comps (s "src.txt")) = Some (File (s "source")).
  Proof. vm_compute. repeat split. Qed.

  (* checkout after commit + loss of out.txt: the link comes back, src.txt is not touched *)
  Definition w1c : world := fst (fst (step idH [] w1 (CCommit [] false))).
  Definition w1d : world :=
    mkW (Dir [(s "src.txt", File (s "source"))]) (w_cache w1c) (w_stages w1c) (w_index w1c) false.
  Example ex_checkout :
    let r := step idH [] w1d (CCheckout [] false false) in
    snd (fst r) = true /\
    get (w_root (fst (fst r))) (comps (s "out.txt")) = Some (LinkC (s "output")) /\
    get (w_root (fst (fst r))) (comps (s "src.txt")) = Some (File (s "source")) /\
    w_cache (fst (fst r)) = w_cache w1d /\ w_stages (fst (fst r)) = w_stages w1d.
  Proof. vm_compute. repeat split. Qed.

  (* ---- the premise frame_ok cannot be dropped: two counterexamples to
          "an un-owned input that is a regular file is never touched by commit" ---- *)

  (* (a) finding D5 seen from a neighbour: stage b has the DIRECTORY d as a plain input, stage a
     has the file d/src.txt as a plain input; nobody owns either, yet committing b commits the
     directory fully and turns d/src.txt into a link *)
  Definition stB1 : stage := mkStage [] (s "cmd") [] [art "d/src.txt"] [art "outA"].
  Definition stB2 : stage := mkStage [] (s "cmd") [] [mkArt [] (s "d") true false false] [art "outB"].
  Definition w2 : world :=
    mkW (Dir [(s "d", Dir [(s "src.txt", File (s "source"))]);
              (s "outA", File (s "aaaa")); (s "outB", File (s "bbbb"))]) []
        [(s "a.yaml", Some stB1); (s "b.yaml", Some stB2)] [s "a.yaml"; s "b.yaml"] false.
  Example cex_dir_input :
    let r := step idH [] w2 (CCommit [] false) in
    snd (fst r) = true /\
    option_map (fun idx => find_owner idx (s "d/src.txt")) (load_index (w_index w2) (w_stages w2) [])
      = Some None /\
    get (w_root w2) (comps (s "d/src.txt")) = Some (File (s "source")) /\
    get (w_root (fst (fst r))) (comps (s "d/src.txt")) = Some (LinkC (s "source")).
  Proof. vm_compute. repeat split. Qed.

  (* (b) ownership compares path STRINGS, the workspace resolves COMPONENTS: the output ./src.txt
     does not own the input src.txt (and Stage.validate accepts the stage), but it is the same
     entry, and commit moves it into the cache *)
  Definition stC : stage := mkStage [] (s "cmd") [] [art "src.txt"] [art "./src.txt"].
  Definition w3 : world :=
    mkW (Dir [(s "src.txt", File (s "source"))]) [] [(s "a.yaml", Some stC)] [s "a.yaml"] false.
  Example cex_unclean_path :
    let r := step idH [] w3 (CCommit [] false) in
    snd (fst r) = true /\
    option_map (fun idx => find_owner idx (s "src.txt")) (load_index (w_index w3) (w_stages w3) [])
      = Some None /\
    get (w_root w3) (comps (s "src.txt")) = Some (File (s "source")) /\
    get (w_root (fst (fst r))) (comps (s "src.txt")) = Some (LinkC (s "source")).
  Proof. vm_compute. repeat split. Qed.
End C07Examples.

Print Assumptions C07Examples.ex_inputs_untouched.
Print Assumptions C07Examples.cex_dir_input.
