From Coq Require Import NArith List Bool Lia.
From DudV Require Import Base.Bytes Model.Stream.
Import ListNotations.

Section Proofs.
  Variable hstate : Type.
  Variable h_reset : hstate -> hstate.
  Variable h_write : hstate -> bytes -> hstate.
  Variable h_sum : hstate -> bytes.
  Variable H : bytes -> bytes.

  (* the incremental-hash contract: a hasher reset from ANY state and fed non-empty chunks
     sums to H of their concatenation *)
  Hypothesis contract :
    forall h cs, Forall (fun c => c <> []) cs ->
      h_sum (fold_left h_write cs (h_reset h)) = H (concat cs).

  Notation copy_loop := (copy_loop hstate h_write).
  Notation checksum := (checksum hstate h_reset h_write h_sum).

  Definition nonempty_chunks (evs : list event) : list bytes :=
    filter (fun c => match c with [] => false | _ => true end) (map fst evs).

  Lemma concat_nonempty evs : concat (nonempty_chunks evs) = data_of evs.
  Proof.
    unfold nonempty_chunks, data_of. induction evs as [|[c e] r IH]; simpl; auto.
    destruct c; simpl; auto. rewrite IH. reflexivity.
  Qed.

  Lemma nonempty_forall evs : Forall (fun c => c <> []) (nonempty_chunks evs).
  Proof.
    unfold nonempty_chunks. apply Forall_forall. intros c Hc.
    apply filter_In in Hc as [_ Hc]. destruct c; congruence.
  Qed.

  Lemma copy_loop_eof h evs :
    eof_script evs = true ->
    copy_loop h evs = Some (fold_left h_write (nonempty_chunks evs) h, true).
  Proof.
    revert h. induction evs as [|[c e] r IH]; intros h Hs; simpl in *; try discriminate.
    destruct e.
    - rewrite IH by assumption. unfold nonempty_chunks; simpl. destruct c; reflexivity.
    - destruct r; try discriminate. unfold nonempty_chunks; simpl. destruct c; reflexivity.
    - discriminate.
  Qed.

  Lemma copy_loop_fail h evs :
    fail_script evs = true -> exists h', copy_loop h evs = Some (h', false).
  Proof.
    revert h. induction evs as [|[c e] r IH]; intros h Hs; simpl in *; try discriminate.
    destruct e; try discriminate; eauto.
  Qed.

  (* C14, one computation: whatever the state of the pooled hasher, whatever the chunking
     (zero-length reads, data delivered together with EOF, one-byte reads, ...), the result
     is the hex of H of exactly the bytes delivered. *)
  Theorem checksum_correct h evs :
    eof_script evs = true ->
    exists h', checksum h evs = Some (h', Some (hex (H (data_of evs)))).
  Proof.
    intros Hs. unfold Stream.checksum. rewrite (copy_loop_eof _ _ Hs).
    eexists. rewrite contract by apply nonempty_forall. rewrite concat_nonempty. reflexivity.
  Qed.

  Theorem checksum_error h evs :
    fail_script evs = true -> exists h', checksum h evs = Some (h', None).
  Proof.
    intros Hs. unfold Stream.checksum.
    destruct (copy_loop_fail (h_reset h) _ Hs) as [h' ->]. eauto.
  Qed.

  (* C14, sequences: any number of computations sharing a pool of hashers in arbitrary
     states, each drawing an arbitrary slot, yield exactly the digests of their own data. *)
  Theorem checksum_seq_correct pool dflt jobs :
    Forall (fun j => eof_script (snd j) = true) jobs ->
    checksum_seq hstate h_reset h_write h_sum pool dflt jobs =
      map (fun j => Some (Some (hex (H (data_of (snd j)))))) jobs.
  Proof.
    revert pool. induction jobs as [|[slot evs] r IH]; intros pool Hall; simpl; auto.
    inversion Hall as [|? ? Hj Hr]; subst. simpl in Hj.
    destruct (checksum_correct (nth slot pool dflt) evs Hj) as [h' ->].
    rewrite IH by assumption. reflexivity.
  Qed.

  (* two scripts that deliver the same bytes give the same checksum: independence from
     chunking and buffer size *)
  Corollary checksum_chunking_independent h1 h2 evs1 evs2 :
    eof_script evs1 = true -> eof_script evs2 = true -> data_of evs1 = data_of evs2 ->
    exists a b, checksum h1 evs1 = Some (a, Some (hex (H (data_of evs1)))) /\
                checksum h2 evs2 = Some (b, Some (hex (H (data_of evs1)))).
  Proof.
    intros H1 H2 Hd.
    destruct (checksum_correct h1 evs1 H1) as [a Ha].
    destruct (checksum_correct h2 evs2 H2) as [b Hb].
    exists a, b. rewrite <- Hd in Hb. auto.
  Qed.
End Proofs.

(* The contract is satisfiable: the "accumulate and hash at the end" hasher meets it for
   every H (used as the executable instance with H := blake3). *)
Definition acc_reset (h : bytes) : bytes := [].
Definition acc_write (h c : bytes) : bytes := h ++ c.

Lemma acc_contract (H : bytes -> bytes) :
  forall h cs, Forall (fun c => c <> []) cs ->
    H (fold_left acc_write cs (acc_reset h)) = H (concat cs).
Proof.
  intros h cs _. f_equal. unfold acc_reset.
  assert (G : forall a, fold_left acc_write cs a = a ++ concat cs).
  { induction cs as [|c r IH]; intros a; simpl.
    - rewrite app_nil_r; reflexivity.
    - rewrite IH. unfold acc_write. rewrite app_assoc. reflexivity. }
  rewrite G. reflexivity.
Qed.
