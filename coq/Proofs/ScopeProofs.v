(* C08, clause "commit, checkout, status, push and fetch traverse the same set [the requested
   stages and those upstream of them; only the requested ones with --single-stage] and leave the
   stage files and artifacts of every other stage untouched".

   Everything is about Model/System.v [step], for every world, target list, hash and command
   table.  [edge idx a b] (Proofs/PipelineProofs.v) = stage a owns (find_owner) an input of b;
   "s is in the scope of the targets ts" = exists t in ts, clos_refl_trans (edge idx) s t.

   Main theorems (all closed under the global context):
     scope_commit_stages      commit ts (ts <> []): the stage file of every stage outside the scope is
                              the same entry of w_stages, and w_index is unchanged
     scope_commit_artifacts   ... and, on a well-formed index ([RunProofs.idx_wf], the premise of the
                              C09 theorems: outputs of different stages, and plain inputs, do not
                              overlap), every output of such a stage is physically untouched
     scope_checkout           checkout ts (recursive = negb single): w_stages, w_index unchanged;
                              the outputs of every stage outside the traversal are untouched
     scope_readonly           status / graph / push / fetch return the very same world
   Complements ("traverse the same set": for each command the visited set IS the scope, both
   inclusions):
     scope_commit_exact       the stages commit visits and writes back
     scope_checkout_exact     the stages checkout visits (scope, or exactly the targets with --single)
     scope_status_exact       the key set of the result that status prints
     scope_walk_exact, scope_push_fetch_exact
                              the skeleton walk_stage that graph / push / fetch (Model/Remote.v
                              [visited]) and the correspondence check (Corr/RunSys.v full_scope) use
     scope_commit_in_scope_written   a stage of the scope that has a stage file gets it rewritten
                              from the final index (so theorem 1 is sharp)
     scope_commit_artifacts_needs_wf   closed counterexample (vm_compute): without [idx_wf] the
                              artifact statement is false (finding D5 seen from a neighbour: a
                              directory that is a plain input of a target is committed fully and
                              the output d/f of an out-of-scope stage is turned into a link)
     ScopeExamples            a two-stage chain where every premise of theorems 1/2 holds, an
                              out-of-scope stage exists (exE_applied), the in-scope stage file and
                              artifact do change (exE_in_scope_changed); a --single-stage checkout.

   None of the four statements asked for turned out to be false in the model; the only extra
   premise is the [idx_wf] that statement 2 allows (and needs, see the counterexample).

   Method: as in PipelineProofs.v, one lemma about the named input loop (cm_ins / co_ins / st_ins /
   wk_ins) inside an induction on the fuel.  For commit the index is rewritten on the way, so the
   dependency relation is read off the initial index through the shape invariant [cm_inv]. *)
From Coq Require Import NArith List Bool Lia Relations String.
From DudV Require Import Base.Bytes Base.Json Base.GoPath Model.Fs Model.Cache Model.Stage Model.Index.
From DudV Require Import Model.System.
From DudV Require Model.Remote.
From DudV Require Import Proofs.PipelineProofs Proofs.SystemProofs Proofs.RunProofs.
Import ListNotations.
Local Open Scope N_scope.

(* ------------------------------------------------------------------------------------------ *)
(* small facts                                                                                 *)
(* ------------------------------------------------------------------------------------------ *)
Lemma upstream_snoc idx s op sp : upstream idx s op -> edge idx op sp -> upstream idx s sp.
Proof.
  intros [Heq|Hp] He; right.
  - subst op. apply path_one. exact He.
  - eapply path_snoc; eassumption.
Qed.

Lemma upstream_refl idx s : upstream idx s s.
Proof. left. reflexivity. Qed.

(* write_back only rewrites the entries whose key is in [done] *)
Lemma alookup_write_back files idx done s :
  ~ In s done -> alookup s (write_back files idx done) = alookup s files.
Proof.
  intros Hs. unfold write_back. induction files as [|[k v] r IH]; cbn [map alookup fst]; [reflexivity|].
  destruct (mem k done) eqn:Hm; cbn [alookup].
  - destruct (beqb s k) eqn:Hk; [|exact IH].
    apply beqb_eq in Hk. subst k. apply mem_In in Hm. contradiction.
  - destruct (beqb s k); [reflexivity|exact IH].
Qed.

Lemma alookup_write_back_in files idx done s v :
  In s done -> alookup s files = Some v ->
  alookup s (write_back files idx done) = Some (alookup s idx).
Proof.
  intros Hs. unfold write_back. induction files as [|[k v2] r IH]; cbn [map alookup fst]; [discriminate|].
  destruct (beqb s k) eqn:Hk.
  - apply beqb_eq in Hk. subst k. intros _. apply mem_In in Hs. rewrite Hs. cbn [alookup].
    rewrite beqb_refl. reflexivity.
  - intros Hl. destruct (mem k done); cbn [alookup]; rewrite Hk; apply IH; exact Hl.
Qed.

Lemma all_or_ne ts idx : ts <> [] -> all_or ts idx = ts.
Proof. destruct ts; [congruence|reflexivity]. Qed.

Lemma apartc_sym p q : apartc p q -> apartc q p.
Proof. intros [H1 H2]. split; assumption. Qed.

Lemma oshape_path_in l l' o :
  oshape l = oshape l' -> In o l -> exists o', In o' l' /\ a_path o' = a_path o.
Proof.
  intros Hsh Ho.
  assert (Hin : In (a_path o, a_norec o) (oshape l')).
  { rewrite <- Hsh. unfold oshape. apply (in_map (fun a => (a_path a, a_norec a))). exact Ho. }
  unfold oshape in Hin. apply in_map_iff in Hin as [o' [Heq Ho']].
  exists o'. split; [exact Ho'|]. inversion Heq. reflexivity.
Qed.

Lemma paths_in l l' (a : artifact) :
  map a_path l = map a_path l' -> In a l -> exists a', In a' l' /\ a_path a' = a_path a.
Proof.
  intros Hm Ha.
  assert (Hin : In (a_path a) (map a_path l')) by (rewrite <- Hm; apply in_map; exact Ha).
  apply in_map_iff in Hin as [a' [Heq Ha']]. exists a'. split; assumption.
Qed.

(* ------------------------------------------------------------------------------------------ *)
(* 1. commit: the visited set is inside the scope (w.r.t. the index the command starts with)   *)
(* ------------------------------------------------------------------------------------------ *)
Section CommitScope.
  Variable H : bytes -> bytes.
  Variable strat : strategy.
  Variable idx0 : index.
  Hypothesis sorted0 : ksorted (map fst idx0).

  Definition cs_spec (f : nat) (stack : list bytes) : Prop :=
    forall st done sp st' done',
      cm_inv idx0 st done -> cdisj done stack ->
      commit_stage H f st strat done stack sp = Ok (st', done') ->
      forall s, In s done' -> In s done \/ upstream idx0 s sp.

  Lemma cs_ins f stack sp :
    cs_spec f stack ->
    forall arts st done owned plain st' done',
      cm_inv idx0 st done -> cdisj done stack ->
      (forall a op, In a arts -> own idx0 (a_path a) = Some op -> edge idx0 op sp) ->
      cm_ins H strat f stack arts st done = Ok (owned, plain, st', done') ->
      forall s, In s done' -> In s done \/ upstream idx0 s sp.
  Proof.
    intros IH. induction arts as [|a r IHr]; intros st done owned plain st' done' Hinv Hd Hedge Hrun;
      cbn [cm_ins] in Hrun.
    - inversion Hrun; subst. intros s Hs. left. exact Hs.
    - assert (Hown0 : own idx0 (a_path a) = own (i_idx st) (a_path a)).
      { apply ishape_own. apply Hinv. }
      assert (Hedge' : forall a0 op, In a0 r -> own idx0 (a_path a0) = Some op -> edge idx0 op sp).
      { intros a0 op Ha0. apply Hedge. right. exact Ha0. }
      destruct (find_owner (i_idx st) (a_path a)) as [[op up]|] eqn:Hfo.
      + destruct (commit_stage H f st strat done stack op) as [[st1 done1]|] eqn:Hsub; [|discriminate].
        destruct (cm_ins H strat f stack r st1 done1) as [[[[owned2 plain2] st2] done2]|] eqn:Hrest;
          [|discriminate].
        inversion Hrun; subst owned plain st' done'.
        destruct (cm_post H strat idx0 sorted0 f stack _ _ _ _ _ Hinv Hd Hsub) as [Hinv1 [_ [Hd1 _]]].
        intros s Hs.
        destruct (IHr _ _ _ _ _ _ Hinv1 Hd1 Hedge' Hrest s Hs) as [Hs1|Hup]; [|right; exact Hup].
        destruct (IH _ _ _ _ _ Hinv Hd Hsub s Hs1) as [Hs0|Hup]; [left; exact Hs0|right].
        eapply upstream_snoc; [exact Hup|]. apply (Hedge a op (or_introl eq_refl)).
        rewrite Hown0. unfold own. rewrite Hfo. reflexivity.
      + destruct (cm_ins H strat f stack r st done) as [[[[owned2 plain2] st2] done2]|] eqn:Hrest;
          [|discriminate].
        inversion Hrun; subst owned plain st' done'.
        eapply IHr; eassumption.
  Qed.

  Lemma cs_post : forall f stack, cs_spec f stack.
  Proof.
    induction f as [|f IH]; intros stack st done sp st' done' Hinv Hd Hrun.
    { cbn [commit_stage] in Hrun. discriminate. }
    rewrite commit_stage_S in Hrun.
    destruct (mem sp done) eqn:Hdone.
    { inversion Hrun; subst. intros s Hs. left. exact Hs. }
    destruct (mem sp stack) eqn:Hmem; [discriminate|].
    destruct (alookup sp (i_idx st)) as [stg|] eqn:Hstg; [|discriminate].
    apply cm_finish_Ok in Hrun as [owned [plain [st1 [done1 [stg2 [root3 [c3 [Hins [Hst' Hdone']]]]]]]]].
    subst st' done'.
    assert (Hd0 : cdisj done (sp :: stack)).
    { intros s [Hs|Hs]; [subst s; apply mem_notIn; exact Hdone|apply Hd; exact Hs]. }
    destruct Hinv as [Hish Hc].
    destruct (ishape_alookup _ _ _ _ (ishape_sym _ _ Hish) Hstg) as [stg0 [Hstg0 Hsh0]].
    intros s [Hs|Hs]; [right; left; symmetry; exact Hs|].
    eapply (cs_ins f (sp :: stack) sp (IH (sp :: stack))); [split; [exact Hish|exact Hc]|exact Hd0| |exact Hins|exact Hs].
    intros a op Ha Hown. apply edge_own. exists stg0, (a_path a).
    split; [exact Hstg0|]. split; [|exact Hown].
    destruct Hsh0 as [_ Hinp]. rewrite <- Hinp. apply in_map. exact Ha.
  Qed.

  Lemma commit_targets_scope fuel : forall ts st done st' done',
    cm_inv idx0 st done ->
    commit_targets H strat fuel ts (Ok (st, done)) = Ok (st', done') ->
    forall s, In s done' -> In s done \/ exists t, In t ts /\ upstream idx0 s t.
  Proof.
    induction ts as [|t r IH]; intros st done st' done' Hinv Hrun s Hs.
    - cbn in Hrun. inversion Hrun; subst. left. exact Hs.
    - rewrite commit_targets_cons in Hrun.
      destruct (commit_stage H fuel st strat done [] t) as [[st1 done1]|] eqn:Hone.
      2:{ rewrite commit_targets_Err in Hrun. discriminate. }
      destruct (cm_post H strat idx0 sorted0 fuel [] _ _ _ _ _ Hinv (cdisj_nil done) Hone) as [Hinv1 _].
      destruct (IH _ _ _ _ Hinv1 Hrun s Hs) as [Hs1|[t' [Ht' Hup]]].
      + destruct (cs_post fuel [] _ _ _ _ _ Hinv (cdisj_nil done) Hone s Hs1) as [Hs0|Hup].
        * left. exact Hs0.
        * right. exists t. split; [left; reflexivity|exact Hup].
      + right. exists t'. split; [right; exact Ht'|exact Hup].
  Qed.

  (* ---- the frame: what lies apart from everything the visited stages may commit ---- *)
  Variable cp : list bytes.
  Variable Sc : bytes -> Prop.
  Hypothesis Hap : forall X sx b,
    Sc X -> alookup X idx0 = Some sx ->
    (In b (s_outputs sx) \/ (In b (s_inputs sx) /\ find_owner idx0 (a_path b) = None)) ->
    apartc (comps (a_path b)) cp.

  Lemma commit_arts_apart st : forall arts fs root c l root' c',
    (forall a, In a arts -> apartc (comps (a_path a)) cp) ->
    commit_arts H arts fs root c st = Ok (l, root', c') -> get root' cp = get root cp.
  Proof.
    induction arts as [|a r IH]; intros fs root c l root' c' Hwf; cbn [commit_arts].
    - intros Heq. inversion Heq. reflexivity.
    - set (a0 := if fs then mkArt (a_cs a) (a_path a) (a_isdir a) (a_norec a) true else a).
      destruct (commit_top H a0 root c st) as [[[root1 c1] a1]|] eqn:Htop; [|discriminate].
      destruct (commit_arts H r fs root1 c1 st) as [[[l2 root2] c2]|] eqn:Hrest; [|discriminate].
      intros Heq. inversion Heq; subst l root' c'.
      assert (Hpath : a_path a0 = a_path a) by (unfold a0; destruct fs; reflexivity).
      rewrite (IH _ _ _ _ _ _ (fun a' Ha' => Hwf a' (or_intror Ha')) Hrest).
      eapply commit_top_apart; [|exact Htop]. rewrite Hpath. apply Hwf. left. reflexivity.
  Qed.

  Definition cf_spec (f : nat) (stack : list bytes) : Prop :=
    forall st done sp st' done',
      cm_inv idx0 st done -> cdisj done stack ->
      commit_stage H f st strat done stack sp = Ok (st', done') ->
      (forall X, In X done' -> Sc X) ->
      get (i_root st') cp = get (i_root st) cp.

  Lemma cf_ins f stack :
    cf_spec f stack ->
    forall arts st done owned plain st' done',
      cm_inv idx0 st done -> cdisj done stack ->
      cm_ins H strat f stack arts st done = Ok (owned, plain, st', done') ->
      (forall X, In X done' -> Sc X) ->
      get (i_root st') cp = get (i_root st) cp /\
      (forall a, In a plain -> In a arts /\ find_owner idx0 (a_path a) = None).
  Proof.
    intros IH. induction arts as [|a r IHr]; intros st done owned plain st' done' Hinv Hd Hrun HSc;
      cbn [cm_ins] in Hrun.
    - inversion Hrun; subst. split; [reflexivity|]. intros a Ha. destruct Ha.
    - destruct (find_owner (i_idx st) (a_path a)) as [[op up]|] eqn:Hfo.
      + destruct (commit_stage H f st strat done stack op) as [[st1 done1]|] eqn:Hsub; [|discriminate].
        destruct (cm_ins H strat f stack r st1 done1) as [[[[owned2 plain2] st2] done2]|] eqn:Hrest;
          [|discriminate].
        inversion Hrun; subst owned plain st' done'.
        destruct (cm_post H strat idx0 sorted0 f stack _ _ _ _ _ Hinv Hd Hsub) as [Hinv1 [_ [Hd1 _]]].
        destruct (cm_ins_post H strat idx0 f stack (cm_post H strat idx0 sorted0 f stack)
                              _ _ _ _ _ _ _ Hinv1 Hd1 Hrest) as [_ [[e2 He2] _]].
        destruct (IHr _ _ _ _ _ _ Hinv1 Hd1 Hrest HSc) as [Hg2 Hpl2].
        split.
        * rewrite Hg2. eapply IH; [exact Hinv|exact Hd|exact Hsub|].
          intros X HX. apply HSc. rewrite He2. apply in_or_app. right. exact HX.
        * intros a' Ha'. destruct (Hpl2 a' Ha') as [Hin Hno]. split; [right; exact Hin|exact Hno].
      + destruct (cm_ins H strat f stack r st done) as [[[[owned2 plain2] st2] done2]|] eqn:Hrest;
          [|discriminate].
        inversion Hrun; subst owned plain st' done'.
        destruct (IHr _ _ _ _ _ _ Hinv Hd Hrest HSc) as [Hg2 Hpl2].
        split; [exact Hg2|].
        intros a' [Ha'|Ha'].
        * subst a'. split; [left; reflexivity|].
          apply own_None. destruct Hinv as [Hish _]. rewrite (ishape_own _ _ (a_path a) Hish).
          apply own_None. exact Hfo.
        * destruct (Hpl2 a' Ha') as [Hin Hno]. split; [right; exact Hin|exact Hno].
  Qed.

  Lemma cf_post : forall f stack, cf_spec f stack.
  Proof.
    induction f as [|f IH]; intros stack st done sp st' done' Hinv Hd Hrun HSc.
    { cbn [commit_stage] in Hrun. discriminate. }
    rewrite commit_stage_S in Hrun.
    destruct (mem sp done) eqn:Hdone.
    { inversion Hrun; subst. reflexivity. }
    destruct (mem sp stack) eqn:Hmem; [discriminate|].
    destruct (alookup sp (i_idx st)) as [stg|] eqn:Hstg; [|discriminate].
    assert (Hd0 : cdisj done (sp :: stack)).
    { intros s [Hs|Hs]; [subst s; apply mem_notIn; exact Hdone|apply Hd; exact Hs]. }
    unfold cm_finish in Hrun.
    destruct (cm_ins H strat f (sp :: stack) (s_inputs stg) st done)
      as [[[[owned plain] st1] done1]|] eqn:Hins; [|discriminate].
    destruct (commit_arts H plain true (i_root st1) (i_cache st1) strat) as [[[plain' root2] c2]|] eqn:Hc1;
      [|discriminate].
    destruct (commit_arts H (s_outputs stg) false root2 c2 strat) as [[[outs' root3] c3]|] eqn:Hc2;
      [|discriminate].
    inversion Hrun; subst st' done'. cbn [i_root].
    assert (HScsp : Sc sp) by (apply HSc; left; reflexivity).
    destruct (cf_ins f (sp :: stack) (IH (sp :: stack)) _ _ _ _ _ _ _ Hinv Hd0 Hins
                     (fun X HX => HSc X (or_intror HX))) as [Hg1 Hpl].
    destruct Hinv as [Hish Hc].
    destruct (ishape_alookup _ _ _ _ (ishape_sym _ _ Hish) Hstg) as [stg0 [Hstg0 [Hsho Hshi]]].
    assert (Hg3 : get root3 cp = get root2 cp).
    { eapply commit_arts_apart; [|exact Hc2].
      intros o Ho. destruct (oshape_path_in _ _ o Hsho Ho) as [o0 [Ho0 Hp0]].
      rewrite <- Hp0. apply (Hap sp stg0 o0 HScsp Hstg0). left. exact Ho0. }
    assert (Hg2 : get root2 cp = get (i_root st1) cp).
    { eapply commit_arts_apart; [|exact Hc1].
      intros a Ha. destruct (Hpl a Ha) as [Hin Hno].
      destruct (paths_in _ _ a Hshi Hin) as [a0 [Ha0 Hp0]].
      rewrite <- Hp0. apply (Hap sp stg0 a0 HScsp Hstg0). right. split; [exact Ha0|].
      rewrite Hp0. exact Hno. }
    congruence.
  Qed.

  Lemma commit_targets_cf fuel : forall ts st done st' done',
    cm_inv idx0 st done ->
    commit_targets H strat fuel ts (Ok (st, done)) = Ok (st', done') ->
    (forall X, In X done' -> Sc X) ->
    get (i_root st') cp = get (i_root st) cp.
  Proof.
    induction ts as [|t r IH]; intros st done st' done' Hinv Hrun HSc.
    - cbn in Hrun. inversion Hrun; subst. reflexivity.
    - rewrite commit_targets_cons in Hrun.
      destruct (commit_stage H fuel st strat done [] t) as [[st1 done1]|] eqn:Hone.
      2:{ rewrite commit_targets_Err in Hrun. discriminate. }
      destruct (cm_post H strat idx0 sorted0 fuel [] _ _ _ _ _ Hinv (cdisj_nil done) Hone) as [Hinv1 _].
      destruct (commit_targets_post H strat idx0 sorted0 fuel r _ _ _ _ Hinv1 Hrun) as [_ [[e2 He2] _]].
      rewrite (IH _ _ _ _ Hinv1 Hrun HSc).
      eapply (cf_post fuel []); [exact Hinv|apply cdisj_nil|exact Hone|].
      intros X HX. apply HSc. rewrite He2. apply in_or_app. right. exact HX.
  Qed.
End CommitScope.

(* ------------------------------------------------------------------------------------------ *)
(* 2. checkout: visited set and frame (the index is fixed)                                      *)
(* ------------------------------------------------------------------------------------------ *)
Section CheckoutScope.
  Variable H : bytes -> bytes.
  Variable idx : index.
  Variable c : cache.
  Variable strat : strategy.

  Definition in_reach (recursive : bool) (s t : bytes) : Prop :=
    if recursive then upstream idx s t else s = t.

  Definition ck_spec (recursive : bool) (f : nat) : Prop :=
    forall stack root done sp root' done',
      checkout_stage H f idx c strat recursive root done stack sp = Ok (root', done') ->
      (exists e, done' = e ++ done) /\ In sp done' /\
      forall s, In s done' -> In s done \/ in_reach recursive s sp.

  Lemma ck_ins recursive f stack sp stg :
    ck_spec recursive f -> alookup sp idx = Some stg ->
    forall arts root done root' done',
      (forall a, In a arts -> In a (s_inputs stg)) ->
      co_ins H idx c strat recursive f stack arts root done = Ok (root', done') ->
      (exists e, done' = e ++ done) /\
      forall s, In s done' -> In s done \/ (recursive = true /\ upstream idx s sp).
  Proof.
    intros IH Hstg. induction arts as [|a r IHr]; intros root done root' done' Hsub Hrun; cbn [co_ins] in Hrun.
    - inversion Hrun; subst. split; [exists []; reflexivity|]. intros s Hs. left. exact Hs.
    - assert (Hsub' : forall a0, In a0 r -> In a0 (s_inputs stg)) by (intros a0 Ha0; apply Hsub; right; exact Ha0).
      destruct (find_owner idx (a_path a)) as [[op up]|] eqn:Hfo; [|eapply IHr; eassumption].
      destruct recursive; [|eapply IHr; eassumption].
      destruct (checkout_stage H f idx c strat true root done stack op) as [[root1 done1]|] eqn:Hone;
        [|discriminate].
      destruct (IH _ _ _ _ _ _ Hone) as [[e1 He1] [_ Hsc1]].
      destruct (IHr _ _ _ _ Hsub' Hrun) as [[e2 He2] Hsc2].
      split; [exists (e2 ++ e1); rewrite He2, He1, app_assoc; reflexivity|].
      intros s Hs. destruct (Hsc2 s Hs) as [Hs1|Hup]; [|right; exact Hup].
      destruct (Hsc1 s Hs1) as [Hs0|Hup]; [left; exact Hs0|right]. split; [reflexivity|].
      cbn [in_reach] in Hup. eapply upstream_snoc; [exact Hup|].
      exists stg, a, up. split; [exact Hstg|]. split; [apply Hsub; left; reflexivity|exact Hfo].
  Qed.

  Lemma ck_post recursive : forall f, ck_spec recursive f.
  Proof.
    induction f as [|f IH]; intros stack root done sp root' done' Hrun.
    { cbn [checkout_stage] in Hrun. discriminate. }
    rewrite checkout_stage_S in Hrun.
    destruct (mem sp done) eqn:Hdone.
    { inversion Hrun; subst. split; [exists []; reflexivity|]. split; [apply mem_In; exact Hdone|].
      intros s Hs. left. exact Hs. }
    destruct (mem sp stack) eqn:Hmem; [discriminate|].
    destruct (alookup sp idx) as [stg|] eqn:Hstg; [|discriminate].
    destruct (co_ins H idx c strat recursive f (sp :: stack) (s_inputs stg) root done)
      as [[root1 done1]|] eqn:Hins; [|discriminate].
    destruct (checkout_arts H 64 (s_outputs stg) root1 c strat) as [root2|] eqn:Harts; [|discriminate].
    inversion Hrun; subst root' done'.
    destruct (ck_ins recursive f (sp :: stack) sp stg IH Hstg _ _ _ _ _ (fun a Ha => Ha) Hins)
      as [[e1 He1] Hsc1].
    split; [exists (sp :: e1); rewrite He1; reflexivity|]. split; [left; reflexivity|].
    intros s [Hs|Hs].
    - right. subst s. unfold in_reach. destruct recursive; [apply upstream_refl|reflexivity].
    - destruct (Hsc1 s Hs) as [Hs0|[Hrec Hup]]; [left; exact Hs0|right]. subst recursive. exact Hup.
  Qed.

  Lemma checkout_targets_scope recursive fuel : forall ts root done root' done',
    checkout_targets H idx c strat recursive fuel ts (Ok (root, done)) = Ok (root', done') ->
    (exists e, done' = e ++ done) /\ (forall t, In t ts -> In t done') /\
    forall s, In s done' -> In s done \/ exists t, In t ts /\ in_reach recursive s t.
  Proof.
    induction ts as [|t r IH]; intros root done root' done' Hrun.
    - cbn in Hrun. inversion Hrun; subst. split; [exists []; reflexivity|]. split; [intros t []|].
      intros s Hs. left. exact Hs.
    - rewrite checkout_targets_cons in Hrun.
      destruct (checkout_stage H fuel idx c strat recursive root done [] t) as [[root1 done1]|] eqn:Hone.
      2:{ rewrite checkout_targets_Err in Hrun. discriminate. }
      destruct (ck_post recursive fuel _ _ _ _ _ _ Hone) as [[e1 He1] [Ht1 Hsc1]].
      destruct (IH _ _ _ _ Hrun) as [[e2 He2] [Hts2 Hsc2]].
      split; [exists (e2 ++ e1); rewrite He2, He1, app_assoc; reflexivity|].
      split.
      { intros t' [Ht'|Ht']; [|apply Hts2; exact Ht']. subst t'. rewrite He2. apply in_or_app. right. exact Ht1. }
      intros s Hs. destruct (Hsc2 s Hs) as [Hs1|[t' [Ht' Hup]]].
      + destruct (Hsc1 s Hs1) as [Hs0|Hup]; [left; exact Hs0|right].
        exists t. split; [left; reflexivity|exact Hup].
      + right. exists t'. split; [right; exact Ht'|exact Hup].
  Qed.

  (* ---- frame ---- *)
  Variable cp : list bytes.
  Variable Sc : bytes -> Prop.
  Hypothesis Hap : forall X sx o,
    Sc X -> alookup X idx = Some sx -> In o (s_outputs sx) ->
    a_skip o = true \/ apartc (comps (a_path o)) cp.

  Definition ckf_spec (recursive : bool) (f : nat) : Prop :=
    forall stack root done sp root' done',
      checkout_stage H f idx c strat recursive root done stack sp = Ok (root', done') ->
      (forall X, In X done' -> Sc X) ->
      get root' cp = get root cp.

  Lemma ckf_ins recursive f stack :
    ckf_spec recursive f ->
    forall arts root done root' done',
      co_ins H idx c strat recursive f stack arts root done = Ok (root', done') ->
      (forall X, In X done' -> Sc X) ->
      get root' cp = get root cp.
  Proof.
    intros IH. induction arts as [|a r IHr]; intros root done root' done' Hrun HSc; cbn [co_ins] in Hrun.
    - inversion Hrun; subst. reflexivity.
    - destruct (find_owner idx (a_path a)) as [[op up]|] eqn:Hfo; [|eapply IHr; eassumption].
      destruct recursive; [|eapply IHr; eassumption].
      destruct (checkout_stage H f idx c strat true root done stack op) as [[root1 done1]|] eqn:Hone;
        [|discriminate].
      rewrite (IHr _ _ _ _ Hrun HSc). eapply IH; [exact Hone|].
      (* done' extends done1: co_ins only appends *)
      assert (Hext : exists e, done' = e ++ done1).
      { clear - Hrun. revert root1 done1 Hrun. induction r as [|b r IHr']; intros root1 done1 Hrun;
          cbn [co_ins] in Hrun.
        - inversion Hrun. exists []. reflexivity.
        - destruct (find_owner idx (a_path b)) as [[op up]|]; [|eapply IHr'; exact Hrun].
          destruct (checkout_stage H f idx c strat true root1 done1 stack op) as [[root2 done2]|] eqn:Hone;
            [|discriminate].
          destruct (ck_post true f _ _ _ _ _ _ Hone) as [[e1 He1] _].
          destruct (IHr' _ _ Hrun) as [e2 He2]. exists (e2 ++ e1). rewrite He2, He1, app_assoc. reflexivity. }
      destruct Hext as [e He]. intros X HX. apply HSc. rewrite He. apply in_or_app. right. exact HX.
  Qed.

  Lemma ckf_post recursive : forall f, ckf_spec recursive f.
  Proof.
    induction f as [|f IH]; intros stack root done sp root' done' Hrun HSc.
    { cbn [checkout_stage] in Hrun. discriminate. }
    rewrite checkout_stage_S in Hrun.
    destruct (mem sp done) eqn:Hdone.
    { inversion Hrun; subst. reflexivity. }
    destruct (mem sp stack) eqn:Hmem; [discriminate|].
    destruct (alookup sp idx) as [stg|] eqn:Hstg; [|discriminate].
    destruct (co_ins H idx c strat recursive f (sp :: stack) (s_inputs stg) root done)
      as [[root1 done1]|] eqn:Hins; [|discriminate].
    destruct (checkout_arts H 64 (s_outputs stg) root1 c strat) as [root2|] eqn:Harts; [|discriminate].
    inversion Hrun; subst root' done'.
    rewrite (checkout_arts_frame H c strat cp 64 _ _ _
               (fun o Ho => Hap sp stg o (HSc sp (or_introl eq_refl)) Hstg Ho) Harts).
    eapply ckf_ins; [exact IH|exact Hins|]. intros X HX. apply HSc. right. exact HX.
  Qed.

  Lemma checkout_targets_ckf recursive fuel : forall ts root done root' done',
    checkout_targets H idx c strat recursive fuel ts (Ok (root, done)) = Ok (root', done') ->
    (forall X, In X done' -> Sc X) ->
    get root' cp = get root cp.
  Proof.
    induction ts as [|t r IH]; intros root done root' done' Hrun HSc.
    - cbn in Hrun. inversion Hrun; subst. reflexivity.
    - rewrite checkout_targets_cons in Hrun.
      destruct (checkout_stage H fuel idx c strat recursive root done [] t) as [[root1 done1]|] eqn:Hone.
      2:{ rewrite checkout_targets_Err in Hrun. discriminate. }
      destruct (checkout_targets_scope recursive fuel r _ _ _ _ Hrun) as [[e2 He2] _].
      rewrite (IH _ _ _ _ Hrun HSc). eapply ckf_post; [exact Hone|].
      intros X HX. apply HSc. rewrite He2. apply in_or_app. right. exact HX.
  Qed.
End CheckoutScope.

(* ------------------------------------------------------------------------------------------ *)
(* 2b. status: the keys of the result are inside the scope                                      *)
(* ------------------------------------------------------------------------------------------ *)
Section StatusScope.
  Variable H : bytes -> bytes.
  Variable idx : index.
  Variable c : cache.
  Variable root : node.

  Definition ss_spec (f : nat) : Prop :=
    forall stack out sp out',
      status_stage H f idx c root out stack sp = Ok out' ->
      forall s, alookup s out' <> None -> alookup s out <> None \/ upstream idx s sp.

  Lemma ss_ins f stack sp stg :
    ss_spec f -> alookup sp idx = Some stg ->
    forall arts out plain out',
      (forall a, In a arts -> In a (s_inputs stg)) ->
      st_ins H idx c root f stack arts out = Ok (plain, out') ->
      forall s, alookup s out' <> None -> alookup s out <> None \/ upstream idx s sp.
  Proof.
    intros IH Hstg. induction arts as [|a r IHr]; intros out plain out' Hsub Hrun; cbn [st_ins] in Hrun.
    - inversion Hrun; subst. intros s Hs. left. exact Hs.
    - assert (Hsub' : forall a0, In a0 r -> In a0 (s_inputs stg)) by (intros a0 Ha0; apply Hsub; right; exact Ha0).
      destruct (find_owner idx (a_path a)) as [[op up]|] eqn:Hfo.
      + destruct (status_stage H f idx c root out stack op) as [out1|] eqn:Hone; [|discriminate].
        intros s Hs. destruct (IHr _ _ _ Hsub' Hrun s Hs) as [Hs1|Hup]; [|right; exact Hup].
        destruct (IH _ _ _ _ Hone s Hs1) as [Hs0|Hup]; [left; exact Hs0|right].
        eapply upstream_snoc; [exact Hup|].
        exists stg, a, up. split; [exact Hstg|]. split; [apply Hsub; left; reflexivity|exact Hfo].
      + destruct (st_ins H idx c root f stack r out) as [[plain2 out2]|] eqn:Hrest; [|discriminate].
        inversion Hrun; subst plain out'. eapply IHr; eassumption.
  Qed.

  Lemma ss_post : forall f, ss_spec f.
  Proof.
    induction f as [|f IH]; intros stack out sp out' Hrun.
    { cbn [status_stage] in Hrun. discriminate. }
    rewrite status_stage_S in Hrun.
    destruct (alookup sp out) as [b|] eqn:Hout.
    { inversion Hrun; subst. intros s Hs. left. exact Hs. }
    destruct (mem sp stack) eqn:Hmem; [discriminate|].
    destruct (alookup sp idx) as [stg|] eqn:Hstg; [|discriminate].
    apply st_finish_Ok in Hrun as [plain [out1 [v [Hins Hout']]]]. subst out'.
    intros s Hs. destruct (bytes_dec s sp) as [Heq|Hne]; [right; left; exact Heq|].
    rewrite alookup_ins_other in Hs by exact Hne.
    eapply (ss_ins f (sp :: stack) sp stg IH Hstg); [|exact Hins|exact Hs]. intros a Ha. exact Ha.
  Qed.

  Lemma status_targets_scope fuel : forall ts out out',
    status_targets H idx c root fuel ts (Ok out) = Ok out' ->
    forall s, alookup s out' <> None -> alookup s out <> None \/ exists t, In t ts /\ upstream idx s t.
  Proof.
    induction ts as [|t r IH]; intros out out' Hrun s Hs.
    - cbn in Hrun. inversion Hrun; subst. left. exact Hs.
    - rewrite status_targets_cons in Hrun.
      destruct (status_stage H fuel idx c root out [] t) as [out1|] eqn:Hone.
      2:{ rewrite status_targets_Err in Hrun. discriminate. }
      destruct (IH _ _ Hrun s Hs) as [Hs1|[t' [Ht' Hup]]].
      + destruct (ss_post fuel _ _ _ _ Hone s Hs1) as [Hs0|Hup]; [left; exact Hs0|right].
        exists t. split; [left; reflexivity|exact Hup].
      + right. exists t'. split; [right; exact Ht'|exact Hup].
  Qed.
End StatusScope.

(* ------------------------------------------------------------------------------------------ *)
(* 2c. the skeleton walk_stage (graph / push / fetch; Corr/RunSys.v full_scope)                 *)
(* ------------------------------------------------------------------------------------------ *)
Section WalkScope.
  Variable idx : index.

  Fixpoint wk_ins (recursive : bool) (f : nat) (stack : list bytes) (arts : list artifact) (done : list bytes)
    : res (list bytes) :=
    match arts with
    | [] => Ok done
    | a :: r =>
      match find_owner idx (a_path a) with
      | Some (op, _) =>
        if recursive then
          match walk_stage f idx recursive done stack op with
          | Ok done' => wk_ins recursive f stack r done'
          | Err => Err
          end
        else wk_ins recursive f stack r done
      | None => wk_ins recursive f stack r done
      end
    end.

  Lemma walk_stage_S recursive f done inprog sp :
    walk_stage (S f) idx recursive done inprog sp =
    if mem sp done then Ok done
    else if mem sp inprog then Err
    else match alookup sp idx with
         | None => Err
         | Some stg =>
           match wk_ins recursive f (sp :: inprog) (s_inputs stg) done with
           | Ok done1 => Ok (sp :: done1)
           | Err => Err
           end
         end.
  Proof.
    cbn [walk_stage].
    destruct (mem sp done); [reflexivity|].
    destruct (mem sp inprog); [reflexivity|].
    destruct (alookup sp idx) as [stg|]; [|reflexivity].
    match goal with
    | |- match ?F _ _ with _ => _ end = _ =>
      assert (Hins : forall arts done0, F arts done0 = wk_ins recursive f (sp :: inprog) arts done0)
    end.
    { induction arts as [|a r IH]; intros done0; cbn [wk_ins]; [reflexivity|].
      destruct (find_owner idx (a_path a)) as [[op up]|]; [|apply IH].
      destruct recursive; [|apply IH].
      destruct (walk_stage f idx true done0 (sp :: inprog) op) as [done'|]; [apply IH|reflexivity]. }
    rewrite Hins. reflexivity.
  Qed.

  Definition wk_spec (recursive : bool) (f : nat) : Prop :=
    forall stack done sp done',
      walk_stage f idx recursive done stack sp = Ok done' ->
      (exists e, done' = e ++ done) /\ In sp done' /\
      (forall s, In s done' -> In s done \/ in_reach idx recursive s sp) /\
      (recursive = true -> core idx done -> cdisj done stack -> core idx done' /\ cdisj done' stack).

  Lemma wk_ins_post recursive f stack sp stg :
    wk_spec recursive f -> alookup sp idx = Some stg ->
    forall arts done done',
      (forall a, In a arts -> In a (s_inputs stg)) ->
      wk_ins recursive f stack arts done = Ok done' ->
      (exists e, done' = e ++ done) /\
      (forall s, In s done' -> In s done \/ (recursive = true /\ upstream idx s sp)) /\
      (recursive = true -> core idx done -> cdisj done stack ->
       core idx done' /\ cdisj done' stack /\
       forall a op up, In a arts -> find_owner idx (a_path a) = Some (op, up) -> In op done').
  Proof.
    intros IH Hstg. induction arts as [|a r IHr]; intros done done' Hsub Hrun; cbn [wk_ins] in Hrun.
    - inversion Hrun; subst. split; [exists []; reflexivity|]. split; [intros s Hs; left; exact Hs|].
      intros _ Hc Hd. split; [exact Hc|]. split; [exact Hd|]. intros a op up [].
    - assert (Hsub' : forall a0, In a0 r -> In a0 (s_inputs stg)) by (intros a0 Ha0; apply Hsub; right; exact Ha0).
      destruct (find_owner idx (a_path a)) as [[op up]|] eqn:Hfo.
      + destruct recursive.
        * destruct (walk_stage f idx true done stack op) as [done1|] eqn:Hone; [|discriminate].
          destruct (IH _ _ _ _ Hone) as [[e1 He1] [Hop [Hsc1 Hcore1]]].
          destruct (IHr _ _ Hsub' Hrun) as [[e2 He2] [Hsc2 Hcore2]].
          split; [exists (e2 ++ e1); rewrite He2, He1, app_assoc; reflexivity|]. split.
          { intros s Hs. destruct (Hsc2 s Hs) as [Hs1|Hup]; [|right; exact Hup].
            destruct (Hsc1 s Hs1) as [Hs0|Hup]; [left; exact Hs0|right]. split; [reflexivity|].
            cbn [in_reach] in Hup. eapply upstream_snoc; [exact Hup|].
            exists stg, a, up. split; [exact Hstg|]. split; [apply Hsub; left; reflexivity|exact Hfo]. }
          intros _ Hc Hd. destruct (Hcore1 eq_refl Hc Hd) as [Hc1 Hd1].
          destruct (Hcore2 eq_refl Hc1 Hd1) as [Hc2 [Hd2 Hown2]].
          split; [exact Hc2|]. split; [exact Hd2|].
          intros a' op' up' [Ha'|Ha'] Hfo'.
          -- subst a'. assert (Heq : op' = op) by congruence. rewrite Heq, He2.
             apply in_or_app. right. exact Hop.
          -- eapply Hown2; eassumption.
        * destruct (IHr _ _ Hsub' Hrun) as [He2 [Hsc2 _]].
          split; [exact He2|]. split; [exact Hsc2|]. intros Hf. discriminate Hf.
      + destruct (IHr _ _ Hsub' Hrun) as [He2 [Hsc2 Hcore2]].
        split; [exact He2|]. split; [exact Hsc2|].
        intros Hrec Hc Hd. destruct (Hcore2 Hrec Hc Hd) as [Hc2 [Hd2 Hown2]].
        split; [exact Hc2|]. split; [exact Hd2|].
        intros a' op' up' [Ha'|Ha'] Hfo'; [subst a'; congruence|eapply Hown2; eassumption].
  Qed.

  Lemma wk_post recursive : forall f, wk_spec recursive f.
  Proof.
    induction f as [|f IH]; intros stack done sp done' Hrun.
    { cbn [walk_stage] in Hrun. discriminate. }
    rewrite walk_stage_S in Hrun.
    destruct (mem sp done) eqn:Hdone.
    { inversion Hrun; subst. split; [exists []; reflexivity|]. split; [apply mem_In; exact Hdone|].
      split; [intros s Hs; left; exact Hs|]. intros _ Hc Hd. split; assumption. }
    destruct (mem sp stack) eqn:Hmem; [discriminate|].
    destruct (alookup sp idx) as [stg|] eqn:Hstg; [|discriminate].
    destruct (wk_ins recursive f (sp :: stack) (s_inputs stg) done) as [done1|] eqn:Hins; [|discriminate].
    inversion Hrun; subst done'.
    destruct (wk_ins_post recursive f (sp :: stack) sp stg IH Hstg _ _ _ (fun a Ha => Ha) Hins)
      as [[e1 He1] [Hsc1 Hcore1]].
    split; [exists (sp :: e1); rewrite He1; reflexivity|]. split; [left; reflexivity|]. split.
    - intros s [Hs|Hs].
      + right. subst s. unfold in_reach. destruct recursive; [apply upstream_refl|reflexivity].
      + destruct (Hsc1 s Hs) as [Hs0|[Hrec Hup]]; [left; exact Hs0|right]. subst recursive. exact Hup.
    - intros Hrec Hc Hd.
      assert (Hd0 : cdisj done (sp :: stack)).
      { intros s [Hs|Hs]; [subst s; apply mem_notIn; exact Hdone|apply Hd; exact Hs]. }
      destruct (Hcore1 Hrec Hc Hd0) as [Hc1 [Hd1 Hown1]]. split.
      + apply core_finish; [exact Hc1|apply Hd1; left; reflexivity|].
        intros a [stg' [art [up [Hstg' [Hart Hfo]]]]].
        rewrite Hstg in Hstg'. inversion Hstg'; subst stg'. eapply Hown1; eassumption.
      + intros s Hs [Heq|Hin].
        * subst s. apply mem_notIn in Hmem. contradiction.
        * apply (Hd1 s); [right; exact Hs|exact Hin].
  Qed.

  Definition walk_targets (recursive : bool) (fuel : nat) (ts : list bytes) (init : res (list bytes))
    : res (list bytes) :=
    fold_left (fun acc t => match acc with
                            | Ok done => walk_stage fuel idx recursive done [] t
                            | Err => Err end) ts init.

  Lemma walk_targets_Err recursive fuel ts : walk_targets recursive fuel ts Err = Err.
  Proof. induction ts as [|t r IH]; [reflexivity|exact IH]. Qed.

  Lemma walk_targets_cons recursive fuel t r done :
    walk_targets recursive fuel (t :: r) (Ok done) =
    walk_targets recursive fuel r (walk_stage fuel idx recursive done [] t).
  Proof. reflexivity. Qed.

  Lemma walk_targets_post recursive fuel : forall ts done done',
    walk_targets recursive fuel ts (Ok done) = Ok done' ->
    (exists e, done' = e ++ done) /\ (forall t, In t ts -> In t done') /\
    (forall s, In s done' -> In s done \/ exists t, In t ts /\ in_reach idx recursive s t) /\
    (recursive = true -> core idx done -> core idx done').
  Proof.
    induction ts as [|t r IH]; intros done done' Hrun.
    - cbn in Hrun. inversion Hrun; subst. split; [exists []; reflexivity|]. split; [intros t []|].
      split; [intros s Hs; left; exact Hs|]. intros _ Hc. exact Hc.
    - rewrite walk_targets_cons in Hrun.
      destruct (walk_stage fuel idx recursive done [] t) as [done1|] eqn:Hone.
      2:{ rewrite walk_targets_Err in Hrun. discriminate. }
      destruct (wk_post recursive fuel _ _ _ _ Hone) as [[e1 He1] [Ht1 [Hsc1 Hcore1]]].
      destruct (IH _ _ Hrun) as [[e2 He2] [Hts2 [Hsc2 Hcore2]]].
      split; [exists (e2 ++ e1); rewrite He2, He1, app_assoc; reflexivity|]. split; [|split].
      + intros t' [Ht'|Ht']; [|apply Hts2; exact Ht']. subst t'. rewrite He2. apply in_or_app. right. exact Ht1.
      + intros s Hs. destruct (Hsc2 s Hs) as [Hs1|[t' [Ht' Hup]]].
        * destruct (Hsc1 s Hs1) as [Hs0|Hup]; [left; exact Hs0|right].
          exists t. split; [left; reflexivity|exact Hup].
        * right. exists t'. split; [right; exact Ht'|exact Hup].
      + intros Hrec Hc. apply (Hcore2 Hrec). apply (Hcore1 Hrec Hc). apply cdisj_nil.
  Qed.

  (* the set the skeleton visits IS the scope of the targets *)
  Theorem scope_walk_exact recursive fuel ts done :
    walk_targets recursive fuel ts (Ok []) = Ok done ->
    forall s, In s done <-> exists t, In t ts /\ in_reach idx recursive s t.
  Proof.
    intros Hrun s. destruct (walk_targets_post recursive fuel ts [] done Hrun) as [_ [Hts [Hsc Hcore]]].
    split.
    - intros Hs. destruct (Hsc s Hs) as [[]|Hex]. exact Hex.
    - intros [t [Ht Hup]]. destruct recursive; cbn [in_reach] in Hup.
      + eapply core_upstream; [apply (Hcore eq_refl (core_nil idx))|exact Hup|apply Hts; exact Ht].
      + subst s. apply Hts. exact Ht.
  Qed.
End WalkScope.

(* ------------------------------------------------------------------------------------------ *)
(* 3. the theorems at the level of one dud command                                             *)
(* ------------------------------------------------------------------------------------------ *)
Section ScopeStep.
  Variable H : bytes -> bytes.
  Variable sems : list (bytes * cmdsem).

  (* the stages commit visits (and writes back) are EXACTLY the scope of the targets *)
  Theorem scope_commit_exact w idx ts copy w' out :
    w_lock w = false -> load_index (w_index w) (w_stages w) [] = Some idx -> ts <> [] ->
    step H sems w (CCommit ts copy) = (w', true, out) ->
    exists st done,
      commit_targets H (strat_of copy) (fuel_of idx) ts (Ok (mkI idx (w_root w) (w_cache w), [])) = Ok (st, done) /\
      w' = mkW (i_root st) (i_cache st) (write_back (w_stages w) (i_idx st) done) (w_index w) false /\
      (forall s, In s done <-> exists t, In t ts /\ clos_refl_trans bytes (edge idx) s t).
  Proof.
    intros Hlock Hload Hne Hstep.
    assert (Hne' : all_or ts idx <> []) by (rewrite (all_or_ne ts idx Hne); exact Hne).
    rewrite (step_CCommit H sems w idx Hlock Hload ts copy Hne') in Hstep.
    rewrite (all_or_ne ts idx Hne) in Hstep.
    destruct (commit_targets H (strat_of copy) (fuel_of idx) ts (Ok (mkI idx (w_root w) (w_cache w), [])))
      as [[st done]|] eqn:Hrun; [|discriminate].
    inversion Hstep; subst w' out. exists st, done. split; [reflexivity|]. split; [reflexivity|].
    pose proof (conj (ishape_refl idx) (core_nil idx) : cm_inv idx (mkI idx (w_root w) (w_cache w)) []) as Hinv.
    intros s. split.
    - intros Hs.
      destruct (commit_targets_scope H (strat_of copy) idx (loaded_sorted w idx Hload) (fuel_of idx) ts
                  (mkI idx (w_root w) (w_cache w)) [] st done Hinv Hrun s Hs) as [[]|[t [Ht Hup]]].
      exists t. split; [exact Ht|]. apply upstream_clos. exact Hup.
    - intros [t [Ht Hup]]. apply upstream_clos in Hup.
      destruct (commit_targets_post H (strat_of copy) idx (loaded_sorted w idx Hload) (fuel_of idx) ts
                  _ _ _ _ Hinv Hrun) as [[_ Hc] [_ Hts]].
      eapply core_upstream; [exact Hc|exact Hup|apply Hts; exact Ht].
  Qed.

  Lemma step_commit_done w idx ts copy w' out :
    w_lock w = false -> load_index (w_index w) (w_stages w) [] = Some idx -> ts <> [] ->
    step H sems w (CCommit ts copy) = (w', true, out) ->
    exists st done,
      commit_targets H (strat_of copy) (fuel_of idx) ts (Ok (mkI idx (w_root w) (w_cache w), [])) = Ok (st, done) /\
      w' = mkW (i_root st) (i_cache st) (write_back (w_stages w) (i_idx st) done) (w_index w) false /\
      (forall s, In s done -> exists t, In t ts /\ clos_refl_trans bytes (edge idx) s t).
  Proof.
    intros Hlock Hload Hne Hstep.
    destruct (scope_commit_exact w idx ts copy w' out Hlock Hload Hne Hstep) as [st [done [Hrun [Hw' Hiff]]]].
    exists st, done. split; [exact Hrun|]. split; [exact Hw'|]. intros s Hs. apply Hiff. exact Hs.
  Qed.

  (* a stage of the scope that has a stage file gets that file rewritten from the final index *)
  Theorem scope_commit_in_scope_written w idx ts copy w' out :
    w_lock w = false -> load_index (w_index w) (w_stages w) [] = Some idx -> ts <> [] ->
    step H sems w (CCommit ts copy) = (w', true, out) ->
    exists idx', forall s v,
      (exists t, In t ts /\ clos_refl_trans bytes (edge idx) s t) ->
      alookup s (w_stages w) = Some v -> alookup s (w_stages w') = Some (alookup s idx').
  Proof.
    intros Hlock Hload Hne Hstep.
    destruct (scope_commit_exact w idx ts copy w' out Hlock Hload Hne Hstep) as [st [done [_ [Hw' Hiff]]]].
    exists (i_idx st). intros s v Hsc Hv. subst w'. cbn [w_stages].
    eapply alookup_write_back_in; [apply Hiff; exact Hsc|exact Hv].
  Qed.

  (* 1. stage files *)
  Theorem scope_commit_stages w idx ts copy w' out :
    w_lock w = false -> load_index (w_index w) (w_stages w) [] = Some idx -> ts <> [] ->
    step H sems w (CCommit ts copy) = (w', true, out) ->
    forall s, (forall t, In t ts -> ~ clos_refl_trans bytes (edge idx) s t) ->
      alookup s (w_stages w') = alookup s (w_stages w) /\ w_index w' = w_index w.
  Proof.
    intros Hlock Hload Hne Hstep s Hout.
    destruct (step_commit_done w idx ts copy w' out Hlock Hload Hne Hstep) as [st [done [_ [Hw' Hsc]]]].
    subst w'. cbn [w_stages w_index]. split; [|reflexivity].
    apply alookup_write_back. intros Hs. destruct (Hsc s Hs) as [t [Ht Hup]]. exact (Hout t Ht Hup).
  Qed.

  (* 2. output artifacts *)
  Theorem scope_commit_artifacts w idx ts copy w' out :
    w_lock w = false -> load_index (w_index w) (w_stages w) [] = Some idx -> ts <> [] ->
    idx_wf idx ->
    step H sems w (CCommit ts copy) = (w', true, out) ->
    forall s stg a,
      (forall t, In t ts -> ~ clos_refl_trans bytes (edge idx) s t) ->
      alookup s idx = Some stg -> In a (s_outputs stg) ->
      get (w_root w') (comps (a_path a)) = get (w_root w) (comps (a_path a)).
  Proof.
    intros Hlock Hload Hne Hwf Hstep s stg a Hout Hs Ha.
    destruct (step_commit_done w idx ts copy w' out Hlock Hload Hne Hstep) as [st [done [Hrun [Hw' Hsc]]]].
    subst w'. cbn [w_root].
    apply (commit_targets_cf H (strat_of copy) idx (loaded_sorted w idx Hload) (comps (a_path a))
                             (fun X => X <> s)) with (fuel := fuel_of idx) (ts := ts)
                             (st := mkI idx (w_root w) (w_cache w)) (done := []) (done' := done).
    - intros X sx b HX HsX Hb. apply apartc_sym.
      apply (Hwf s stg X sx a b); [congruence|exact Hs|exact HsX|exact Ha|exact Hb].
    - split; [apply ishape_refl|apply core_nil].
    - exact Hrun.
    - intros X HX Heq. subst X. destruct (Hsc s HX) as [t [Ht Hup]]. exact (Hout t Ht Hup).
  Qed.

  (* 3. checkout *)
  Theorem scope_checkout w idx ts copy single w' out :
    w_lock w = false -> load_index (w_index w) (w_stages w) [] = Some idx -> ts <> [] ->
    idx_wf idx ->
    step H sems w (CCheckout ts copy single) = (w', true, out) ->
    w_stages w' = w_stages w /\ w_index w' = w_index w /\
    forall s stg a,
      (forall t, In t ts ->
                 ~ (if negb single then clos_refl_trans bytes (edge idx) s t else s = t)) ->
      alookup s idx = Some stg -> In a (s_outputs stg) ->
      get (w_root w') (comps (a_path a)) = get (w_root w) (comps (a_path a)).
  Proof.
    intros Hlock Hload Hne Hwf Hstep.
    assert (Hidx : idx <> []).
    { intros Heq. unfold step in Hstep. rewrite Hlock, Hload, Heq in Hstep. discriminate. }
    rewrite (step_CCheckout H sems w idx Hlock Hload ts copy single Hidx) in Hstep.
    rewrite (all_or_ne ts idx Hne) in Hstep.
    assert (Hrec : match ts with [] => true | _ => negb single end = negb single).
    { destruct ts; [congruence|reflexivity]. }
    rewrite Hrec in Hstep.
    destruct (checkout_targets H idx (w_cache w) (strat_of copy) (negb single) (fuel_of idx) ts
                               (Ok (w_root w, []))) as [[root done]|] eqn:Hrun; [|discriminate].
    inversion Hstep; subst w' out. cbn [w_stages w_index w_root].
    split; [reflexivity|]. split; [reflexivity|].
    intros s stg a Hout Hs Ha.
    destruct (checkout_targets_scope H idx (w_cache w) (strat_of copy) (negb single) (fuel_of idx) ts
                                     _ _ _ _ Hrun) as [_ [_ Hsc]].
    apply (checkout_targets_ckf H idx (w_cache w) (strat_of copy) (comps (a_path a)) (fun X => X <> s))
      with (recursive := negb single) (fuel := fuel_of idx) (ts := ts) (done := []) (done' := done).
    - intros X sx o HX HsX Ho. right. apply apartc_sym.
      apply (Hwf s stg X sx a o); [congruence|exact Hs|exact HsX|exact Ha|left; exact Ho].
    - exact Hrun.
    - intros X HX Heq. subst X. destruct (Hsc s HX) as [[]|[t [Ht Hup]]].
      apply (Hout t Ht). unfold in_reach in Hup. destruct (negb single); [apply upstream_clos; exact Hup|exact Hup].
  Qed.

  (* 4. the read-only commands *)
  Theorem scope_readonly w cmd :
    (exists ts, cmd = CStatus ts) \/ (exists ts, cmd = CGraph ts) \/
    (exists ts single, cmd = CPush ts single) \/ (exists ts single, cmd = CFetch ts single) ->
    fst (fst (step H sems w cmd)) = w.
  Proof.
    intros Hcmd. unfold step.
    destruct (w_lock w); [reflexivity|].
    destruct (load_index (w_index w) (w_stages w) []) as [idx|]; [|reflexivity].
    destruct Hcmd as [[ts Hc]|[[ts Hc]|[[ts [single Hc]]|[ts [single Hc]]]]]; subst cmd.
    - destruct idx as [|e r]; [reflexivity|].
      match goal with |- fst (fst (match ?X with _ => _ end)) = _ => destruct X end; reflexivity.
    - destruct idx as [|e r]; reflexivity.
    - destruct idx as [|e r]; reflexivity.
    - reflexivity.
  Qed.

  (* ---- "traverse the same set": the visited set of each command is the scope ---- *)
  Theorem scope_checkout_exact w idx ts copy single w' out :
    w_lock w = false -> load_index (w_index w) (w_stages w) [] = Some idx -> ts <> [] ->
    step H sems w (CCheckout ts copy single) = (w', true, out) ->
    exists root done,
      checkout_targets H idx (w_cache w) (strat_of copy) (negb single) (fuel_of idx) ts (Ok (w_root w, []))
        = Ok (root, done) /\
      w' = mkW root (w_cache w) (w_stages w) (w_index w) false /\
      (forall s, In s done <->
                 exists t, In t ts /\ (if negb single then clos_refl_trans bytes (edge idx) s t else s = t)).
  Proof.
    intros Hlock Hload Hne Hstep.
    assert (Hidx : idx <> []).
    { intros Heq. unfold step in Hstep. rewrite Hlock, Hload, Heq in Hstep. discriminate. }
    rewrite (step_CCheckout H sems w idx Hlock Hload ts copy single Hidx) in Hstep.
    rewrite (all_or_ne ts idx Hne) in Hstep.
    assert (Hrec : match ts with [] => true | _ => negb single end = negb single).
    { destruct ts; [congruence|reflexivity]. }
    rewrite Hrec in Hstep.
    destruct (checkout_targets H idx (w_cache w) (strat_of copy) (negb single) (fuel_of idx) ts
                               (Ok (w_root w, []))) as [[root done]|] eqn:Hrun; [|discriminate].
    inversion Hstep; subst w' out. exists root, done. split; [reflexivity|]. split; [reflexivity|].
    destruct (checkout_targets_scope H idx (w_cache w) (strat_of copy) (negb single) (fuel_of idx) ts
                                     _ _ _ _ Hrun) as [_ [Hts Hsc]].
    intros s. split.
    - intros Hs. destruct (Hsc s Hs) as [[]|[t [Ht Hup]]]. exists t. split; [exact Ht|].
      unfold in_reach in Hup. destruct (negb single); [apply upstream_clos; exact Hup|exact Hup].
    - intros [t [Ht Hup]]. destruct (negb single) eqn:Hns.
      + apply upstream_clos in Hup.
        destruct (checkout_targets_post H idx (w_cache w) (strat_of copy) (fuel_of idx) ts _ _ _ _
                                        (core_nil idx) Hrun) as [Hc _].
        eapply core_upstream; [exact Hc|exact Hup|apply Hts; exact Ht].
      + subst s. apply Hts. exact Ht.
  Qed.

  (* status: the visited set is observable, it is the key set of the printed result *)
  Theorem scope_status_exact w idx ts w' out :
    w_lock w = false -> load_index (w_index w) (w_stages w) [] = Some idx -> ts <> [] ->
    step H sems w (CStatus ts) = (w', true, OStatus out) ->
    forall s, alookup s out <> None <-> exists t, In t ts /\ clos_refl_trans bytes (edge idx) s t.
  Proof.
    intros Hlock Hload Hne Hstep.
    assert (Hidx : idx <> []).
    { intros Heq. unfold step in Hstep. rewrite Hlock, Hload, Heq in Hstep. discriminate. }
    rewrite (step_CStatus H sems w idx Hlock Hload ts Hidx) in Hstep.
    rewrite (all_or_ne ts idx Hne) in Hstep.
    destruct (status_targets H idx (w_cache w) (w_root w) (fuel_of idx) ts (Ok [])) as [out0|] eqn:Hrun;
      [|discriminate].
    inversion Hstep; subst w' out0.
    intros s. split.
    - intros Hs.
      destruct (status_targets_scope H idx (w_cache w) (w_root w) (fuel_of idx) ts _ _ Hrun s Hs)
        as [Hf|[t [Ht Hup]]]; [exfalso; apply Hf; reflexivity|].
      exists t. split; [exact Ht|]. apply upstream_clos. exact Hup.
    - intros [t [Ht Hup]]. apply upstream_clos in Hup.
      destruct (status_targets_post H idx (w_cache w) (w_root w) (fuel_of idx) ts _ _ _ (Ws_nil idx) Hrun)
        as [fin [[Hc Hdom] [_ Hts]]].
      apply Hdom. eapply core_upstream; [exact Hc|exact Hup|apply Hts; exact Ht].
  Qed.
End ScopeStep.

(* push / fetch (Model/Remote.v): the stages whose outputs are transferred are the scope *)
Theorem scope_push_fetch_exact idx recursive ts sps :
  Remote.visited idx recursive ts = Ok sps ->
  forall s, In s sps <-> exists t, In t ts /\ in_reach idx recursive s t.
Proof.
  unfold Remote.visited.
  change (fold_left _ ts (Ok [])) with (walk_targets idx recursive (S (List.length idx)) ts (Ok [])).
  destruct (walk_targets idx recursive (S (List.length idx)) ts (Ok [])) as [done|] eqn:Hrun; [|discriminate].
  intros Heq. inversion Heq; subst sps. intros s. rewrite <- in_rev.
  eapply scope_walk_exact. exact Hrun.
Qed.

(* graph / push / fetch of System.step succeed iff the skeleton walk does; the walk is the one of
   Corr/RunSys.v full_scope *)
Lemma walk_all_targets idx recursive ts :
  walk_all idx recursive ts = match walk_targets idx recursive (S (List.length idx)) ts (Ok []) with
                              | Ok _ => true | Err => false end.
Proof. reflexivity. Qed.

(* ------------------------------------------------------------------------------------------ *)
(* 4. examples (H := identity): the premises are satisfiable, and [idx_wf] is needed           *)
(* ------------------------------------------------------------------------------------------ *)
Lemma no_edge_into idx t s :
  (forall x, ~ edge idx x t) -> clos_refl_trans bytes (edge idx) s t -> s = t.
Proof.
  intros Hno Hup. apply upstream_clos in Hup. destruct Hup as [Heq|Hp]; [exact Heq|].
  exfalso. assert (Hlast : exists x, edge idx x t).
  { induction Hp as [a b Hab|a b c Hab Hp IH]; [exists a; exact Hab|apply IH; exact Hno]. }
  destruct Hlast as [x Hx]. exact (Hno x Hx).
Qed.

Module ScopeExamples.
  Definition idH : bytes -> bytes := fun b => b.
  Definition s (x : string) : bytes := of_string x.
  Definition art (p : string) : artifact := mkArt [] (s p) false false false.

  (* ---- a.yaml: a.in -> mid;  b.yaml: mid -> b.out.  `dud commit a.yaml`: b.yaml is DOWNSTREAM of
          the target, hence outside its scope ---- *)
  Definition stA : stage := mkStage [] (s "cmd") [] [art "a.in"] [art "mid"].
  Definition stB : stage := mkStage [] (s "cmd") [] [art "mid"] [art "b.out"].
  Definition wE : world :=
    mkW (Dir [(s "a.in", File (s "source")); (s "b.out", File (s "bbb")); (s "mid", File (s "mmm"))]) []
        [(s "a.yaml", Some stA); (s "b.yaml", Some stB)] [s "a.yaml"; s "b.yaml"] false.
  Definition idxE : index := [(s "a.yaml", stA); (s "b.yaml", stB)].
  Definition wE' : world := fst (fst (step idH [] wE (CCommit [s "a.yaml"] false))).

  Example exE_lock : w_lock wE = false.
  Proof. reflexivity. Qed.
  Example exE_load : load_index (w_index wE) (w_stages wE) [] = Some idxE.
  Proof. vm_compute. reflexivity. Qed.
  Example exE_wf : idx_wf idxE.
  Proof. apply idx_wfb_sound. vm_compute. reflexivity. Qed.
  Example exE_step : step idH [] wE (CCommit [s "a.yaml"] false) = (wE', true, ONone).
  Proof. vm_compute. reflexivity. Qed.

  (* b.yaml is not upstream of (nor equal to) the target: nothing owns an input of a.yaml *)
  Example exE_out_of_scope :
    forall t, In t [s "a.yaml"] -> ~ clos_refl_trans bytes (edge idxE) (s "b.yaml") t.
  Proof.
    intros t [Ht|[]] Hup. subst t. apply no_edge_into in Hup.
    - vm_compute in Hup. discriminate Hup.
    - intros x [stg [a [up [Hstg [Ha Hfo]]]]]. vm_compute in Hstg. inversion Hstg; subst stg.
      destruct Ha as [Ha|[]]. subst a. vm_compute in Hfo. discriminate Hfo.
  Qed.

  (* ... while a.yaml IS upstream of b.yaml: the index has a real dependency *)
  Example exE_edge : edge idxE (s "a.yaml") (s "b.yaml").
  Proof.
    exists stB, (art "mid"), (art "mid"). split; [vm_compute; reflexivity|].
    split; [left; reflexivity|vm_compute; reflexivity].
  Qed.

  Example exE_stage : alookup (s "b.yaml") idxE = Some stB /\ In (art "b.out") (s_outputs stB).
  Proof. split; [vm_compute; reflexivity|left; reflexivity]. Qed.

  (* theorems 1 and 2 applied (no computation of the command): b.yaml and b.out are untouched *)
  Example exE_applied :
    alookup (s "b.yaml") (w_stages wE') = alookup (s "b.yaml") (w_stages wE) /\
    w_index wE' = w_index wE /\
    get (w_root wE') (comps (s "b.out")) = get (w_root wE) (comps (s "b.out")).
  Proof.
    assert (Hne : [s "a.yaml"] <> []) by discriminate.
    destruct (scope_commit_stages idH [] wE idxE [s "a.yaml"] false wE' ONone exE_lock exE_load Hne exE_step
                                  (s "b.yaml") exE_out_of_scope) as [H1 H2].
    split; [exact H1|]. split; [exact H2|].
    exact (scope_commit_artifacts idH [] wE idxE [s "a.yaml"] false wE' ONone exE_lock exE_load Hne exE_wf
                                  exE_step (s "b.yaml") stB (art "b.out") exE_out_of_scope
                                  (proj1 exE_stage) (proj2 exE_stage)).
  Qed.

  (* the conclusion discriminates: the in-scope stage file and artifact DID change *)
  Example exE_in_scope_changed :
    alookup (s "a.yaml") (w_stages wE') <> alookup (s "a.yaml") (w_stages wE) /\
    get (w_root wE) (comps (s "mid")) = Some (File (s "mmm")) /\
    get (w_root wE') (comps (s "mid")) = Some (LinkC (s "mmm")).
  Proof.
    split; [|split; vm_compute; reflexivity].
    intros Heq. vm_compute in Heq. discriminate Heq.
  Qed.

  (* checkout --single-stage b.yaml after a full commit and the loss of both outputs: only b.out
     comes back; a.yaml is outside the (non-recursive) traversal and `mid` stays absent *)
  Definition wF0 : world := fst (fst (step idH [] wE (CCommit [] false))).
  Definition wF : world :=
    mkW (Dir [(s "a.in", File (s "source"))]) (w_cache wF0) (w_stages wF0) (w_index wF0) false.
  Example exF_checkout_single :
    let r := step idH [] wF (CCheckout [s "b.yaml"] false true) in
    snd (fst r) = true /\
    get (w_root (fst (fst r))) (comps (s "b.out")) = Some (LinkC (s "bbb")) /\
    get (w_root (fst (fst r))) (comps (s "mid")) = None /\
    get (w_root wF) (comps (s "mid")) = None.
  Proof. vm_compute. repeat split. Qed.

  (* ---- [idx_wf] cannot be dropped from scope_commit_artifacts (finding D5 seen from a
          neighbour).  x.yaml: no input, output d/f.  y.yaml: plain DIRECTORY input d (nobody owns
          d: x.yaml owns d/f only), output y.out.  There is no edge at all, so x.yaml is outside
          the scope of `dud commit y.yaml`; yet committing the input directory d turns d/f, the
          output of x.yaml, into a link. ---- *)
  Definition stX : stage := mkStage [] (s "cmd") [] [] [art "d/f"].
  Definition stY : stage := mkStage [] (s "cmd") [] [mkArt [] (s "d") true false false] [art "y.out"].
  Definition wN : world :=
    mkW (Dir [(s "d", Dir [(s "f", File (s "fff"))]); (s "y.out", File (s "yyy"))]) []
        [(s "x.yaml", Some stX); (s "y.yaml", Some stY)] [s "x.yaml"; s "y.yaml"] false.
  Definition idxN : index := [(s "x.yaml", stX); (s "y.yaml", stY)].
  Definition wN' : world := fst (fst (step idH [] wN (CCommit [s "y.yaml"] false))).

  Example exN_load : load_index (w_index wN) (w_stages wN) [] = Some idxN.
  Proof. vm_compute. reflexivity. Qed.
  Example exN_step : step idH [] wN (CCommit [s "y.yaml"] false) = (wN', true, ONone).
  Proof. vm_compute. reflexivity. Qed.
  Example exN_out_of_scope :
    forall t, In t [s "y.yaml"] -> ~ clos_refl_trans bytes (edge idxN) (s "x.yaml") t.
  Proof.
    intros t [Ht|[]] Hup. subst t. apply no_edge_into in Hup.
    - vm_compute in Hup. discriminate Hup.
    - intros x [stg [a [up [Hstg [Ha Hfo]]]]]. vm_compute in Hstg. inversion Hstg; subst stg.
      destruct Ha as [Ha|[]]. subst a. vm_compute in Hfo. discriminate Hfo.
  Qed.
  Example exN_touched :
    get (w_root wN) (comps (s "d/f")) = Some (File (s "fff")) /\
    get (w_root wN') (comps (s "d/f")) = Some (LinkC (s "fff")).
  Proof. vm_compute. split; reflexivity. Qed.

  (* the stage-file half (theorem 1) still holds there, of course *)
  Example exN_stage_file : alookup (s "x.yaml") (w_stages wN') = alookup (s "x.yaml") (w_stages wN).
  Proof.
    assert (Hne : [s "y.yaml"] <> []) by discriminate.
    exact (proj1 (scope_commit_stages idH [] wN idxN [s "y.yaml"] false wN' ONone eq_refl exN_load Hne exN_step
                                      (s "x.yaml") exN_out_of_scope)).
  Qed.

  Example exN_not_wf : ~ idx_wf idxN.
  Proof.
    intros Hwf.
    assert (Hinc : incomp (comps (s "d/f")) (comps (s "d"))).
    { apply (Hwf (s "x.yaml") stX (s "y.yaml") stY (art "d/f") (mkArt [] (s "d") true false false)).
      - intros Heq. vm_compute in Heq. discriminate Heq.
      - vm_compute. reflexivity.
      - vm_compute. reflexivity.
      - left. reflexivity.
      - right. split; [left; reflexivity|vm_compute; reflexivity]. }
    destruct Hinc as [_ H2]. vm_compute in H2. discriminate H2.
  Qed.
End ScopeExamples.

(* statement 2 WITHOUT the well-formedness premise is false in the model *)
Theorem scope_commit_artifacts_needs_wf :
  ~ (forall H sems w idx ts copy w' out,
        w_lock w = false -> load_index (w_index w) (w_stages w) [] = Some idx -> ts <> [] ->
        step H sems w (CCommit ts copy) = (w', true, out) ->
        forall s stg a,
          (forall t, In t ts -> ~ clos_refl_trans bytes (edge idx) s t) ->
          alookup s idx = Some stg -> In a (s_outputs stg) ->
          get (w_root w') (comps (a_path a)) = get (w_root w) (comps (a_path a))).
Proof.
  intros Hall.
  assert (Hne : [ScopeExamples.s "y.yaml"] <> []) by discriminate.
  pose proof (Hall ScopeExamples.idH [] ScopeExamples.wN ScopeExamples.idxN [ScopeExamples.s "y.yaml"] false
                   ScopeExamples.wN' ONone eq_refl ScopeExamples.exN_load Hne ScopeExamples.exN_step
                   (ScopeExamples.s "x.yaml") ScopeExamples.stX (ScopeExamples.art "d/f")
                   ScopeExamples.exN_out_of_scope eq_refl (or_introl eq_refl)) as Heq.
  change (a_path (ScopeExamples.art "d/f")) with (ScopeExamples.s "d/f") in Heq.
  destruct ScopeExamples.exN_touched as [H0 H1]. rewrite H0, H1 in Heq. discriminate Heq.
Qed.

Print Assumptions scope_commit_stages.
Print Assumptions scope_commit_artifacts.
Print Assumptions scope_checkout.
Print Assumptions scope_readonly.
Print Assumptions scope_commit_exact.
Print Assumptions scope_commit_in_scope_written.
Print Assumptions scope_checkout_exact.
Print Assumptions scope_status_exact.
Print Assumptions scope_walk_exact.
Print Assumptions scope_push_fetch_exact.
Print Assumptions scope_commit_artifacts_needs_wf.
Print Assumptions ScopeExamples.exE_applied.
Print Assumptions ScopeExamples.exE_in_scope_changed.
Print Assumptions ScopeExamples.exN_not_wf.
