(* Property C10: path ownership.
   Subject: stage.FindDirArtifactOwnerForPath / Stage.Validate (src/stage/stage.go) and
   Index.AddStage / findOwner / FromFile / ToFile (src/index/index.go), as modelled in
   Model/Stage.v over Base/GoPath.v.  Everything is stated at the level of component lists. *)
From Coq Require Import String.
From Coq Require Import ZArith NArith Lia ZifyBool ZifyN List Bool Permutation.
From DudV Require Import Base.Bytes Base.Json Base.GoPath Model.Fs Model.Cache Model.Stage.
Import ListNotations.
Local Open Scope N_scope.

(* ================================================================================== *)
(* 0. Components and good paths                                                        *)
(* ================================================================================== *)

Definition noslash (c : bytes) : Prop := ~ In slash c.

(* what the path algebra needs: a component Clean keeps as it is *)
Definition okc (c : bytes) : Prop :=
  c <> [] /\ noslash c /\ c <> [dot] /\ c <> [dot; dot].

(* a good component additionally has no two consecutive '.' bytes: Validate rejects every
   path with strings.Contains(p, "..") *)
Definition good_comp (c : bytes) : Prop := okc c /\ contains_dotdot c = false.

Definition good_comps (cs : list bytes) : Prop := cs <> [] /\ Forall good_comp cs.

Definition good_path (p : bytes) : Prop := exists cs, good_comps cs /\ p = join_comps cs.

Lemma good_okc c : good_comp c -> okc c.
Proof. intros [Hc _]; exact Hc. Qed.

Lemma Forall_good_okc cs : Forall good_comp cs -> Forall okc cs.
Proof. intro Hf. eapply Forall_impl; [|exact Hf]. exact good_okc. Qed.

Lemma okc_noslash c : okc c -> noslash c.
Proof. intros (_ & Hn & _); exact Hn. Qed.

Lemma Forall_okc_noslash cs : Forall okc cs -> Forall noslash cs.
Proof. intro Hf. eapply Forall_impl; [|exact Hf]. exact okc_noslash. Qed.

Lemma eqb_slash_false x c : noslash (x :: c) -> (x =? slash) = false.
Proof.
  intro Hn. apply N.eqb_neq. intro Heq. apply Hn. left. exact Heq.
Qed.

Lemma noslash_tail x c : noslash (x :: c) -> noslash c.
Proof. intros Hn Hin. apply Hn. right. exact Hin. Qed.

(* ================================================================================== *)
(* 1. Path lemmas                                                                      *)
(* ================================================================================== *)

Lemma join_comps_cons2 c c' r : join_comps (c :: c' :: r) = c ++ slash :: join_comps (c' :: r).
Proof. reflexivity. Qed.

Lemma join_comps_single c : join_comps [c] = c.
Proof. reflexivity. Qed.

Lemma join_comps_app a b :
  a <> [] -> b <> [] -> join_comps (a ++ b) = join_comps a ++ slash :: join_comps b.
Proof.
  intros Ha Hb. induction a as [|x a IH]; [contradiction|].
  destruct a as [|x' a].
  - destruct b as [|y b]; [contradiction|]. reflexivity.
  - change ((x :: x' :: a) ++ b) with (x :: x' :: (a ++ b)).
    rewrite !join_comps_cons2.
    change (x' :: a ++ b) with ((x' :: a) ++ b).
    rewrite IH by discriminate. rewrite <- app_assoc. reflexivity.
Qed.

Lemma join_head x c r : exists t, join_comps ((x :: c) :: r) = x :: t.
Proof. destruct r as [|c' r]; eexists; [reflexivity|rewrite join_comps_cons2; reflexivity]. Qed.

Lemma split_aux_noslash c : forall cur, noslash c -> split_aux c cur = [rev cur ++ c].
Proof.
  induction c as [|x c IH]; intros cur Hn.
  - cbn [split_aux]. rewrite app_nil_r. reflexivity.
  - cbn [split_aux]. rewrite (eqb_slash_false _ _ Hn).
    rewrite IH by (eapply noslash_tail; exact Hn).
    cbn [rev]. rewrite <- app_assoc. reflexivity.
Qed.

Lemma split_aux_app c r : forall cur, noslash c ->
  split_aux (c ++ slash :: r) cur = (rev cur ++ c) :: split_aux r [].
Proof.
  induction c as [|x c IH]; intros cur Hn.
  - cbn [app split_aux]. rewrite N.eqb_refl. rewrite app_nil_r. reflexivity.
  - cbn [app split_aux]. rewrite (eqb_slash_false _ _ Hn).
    rewrite IH by (eapply noslash_tail; exact Hn).
    cbn [rev]. rewrite <- app_assoc. reflexivity.
Qed.

(* split is a left inverse of join on slash-free components *)
Lemma split_join_noslash cs : cs <> [] -> Forall noslash cs -> split (join_comps cs) = cs.
Proof.
  intros Hne Hf. unfold split. induction cs as [|c cs IH]; [contradiction|].
  destruct cs as [|c' cs].
  - rewrite join_comps_single. rewrite split_aux_noslash; [reflexivity|].
    inversion Hf; assumption.
  - rewrite join_comps_cons2. inversion Hf as [|? ? Hc Hf']; subst.
    rewrite split_aux_app by exact Hc. cbn [rev app].
    f_equal. apply IH; [discriminate|exact Hf'].
Qed.

Theorem split_join cs : cs <> [] -> Forall okc cs -> split (join_comps cs) = cs.
Proof. intros Hne Hf. apply split_join_noslash; [exact Hne|apply Forall_okc_noslash; exact Hf]. Qed.

Lemma okc_not_empty_dot c : okc c -> is_empty c || is_dot c = false.
Proof.
  intros (Hne & _ & Hd & _). destruct c as [|d [|d2 c]]; [contradiction| |reflexivity].
  cbn [is_empty is_dot orb]. apply N.eqb_neq. intro Heq. apply Hd. rewrite Heq. reflexivity.
Qed.

Lemma okc_not_dotdot c : okc c -> is_dotdot c = false.
Proof.
  intros (_ & _ & _ & Hdd). destruct c as [|d [|d2 [|d3 c]]]; try reflexivity.
  cbn [is_dotdot]. apply andb_false_iff.
  destruct (N.eqb_spec d dot) as [E1|E1]; [|left; reflexivity].
  destruct (N.eqb_spec d2 dot) as [E2|E2]; [|right; reflexivity].
  exfalso. apply Hdd. rewrite E1, E2. reflexivity.
Qed.

Lemma clean_comps_okc a : forall b st, Forall okc a ->
  clean_comps false (a ++ b) st = clean_comps false b (rev a ++ st).
Proof.
  induction a as [|c a IH]; intros b st Hf; [reflexivity|].
  inversion Hf as [|? ? Hc Hf']; subst.
  cbn [app clean_comps]. rewrite (okc_not_empty_dot _ Hc), (okc_not_dotdot _ Hc).
  rewrite IH by exact Hf'. cbn [rev]. rewrite <- app_assoc. reflexivity.
Qed.

Lemma clean_rel s : s <> [] -> is_abs s = false ->
  clean s = match join_comps (clean_comps false (split s) []) with [] => [dot] | o => o end.
Proof.
  intros Hne Habs. destruct s as [|x s]; [contradiction|].
  unfold clean. rewrite Habs. destruct (join_comps (clean_comps false (split (x :: s)) [])); reflexivity.
Qed.

Lemma okc_head c : okc c -> exists x t, c = x :: t /\ x <> slash.
Proof.
  intros (Hne & Hn & _). destruct c as [|x t]; [contradiction|].
  exists x, t. split; [reflexivity|]. intro Heq. apply Hn. left. exact Heq.
Qed.

Lemma join_okc_head cs : cs <> [] -> Forall okc cs ->
  exists x t, join_comps cs = x :: t /\ x <> slash.
Proof.
  intros Hne Hf. destruct cs as [|c cs]; [contradiction|].
  inversion Hf as [|? ? Hc _]; subst.
  destruct (okc_head _ Hc) as (x & t & -> & Hx).
  destruct (join_head x t cs) as (t' & Ht'). exists x, t'. split; assumption.
Qed.

Theorem clean_join cs : cs <> [] -> Forall okc cs -> clean (join_comps cs) = join_comps cs.
Proof.
  intros Hne Hf. destruct (join_okc_head cs Hne Hf) as (x & t & Hj & Hx).
  rewrite clean_rel.
  - rewrite split_join by assumption.
    rewrite <- (app_nil_r cs) at 1. rewrite clean_comps_okc by exact Hf.
    cbn [clean_comps]. rewrite app_nil_r, rev_involutive. rewrite Hj. reflexivity.
  - rewrite Hj. discriminate.
  - rewrite Hj. cbn [is_abs]. apply N.eqb_neq. exact Hx.
Qed.

Lemma last_slash_prefix_noslash c : forall acc cur, noslash c ->
  last_slash_prefix c acc cur = rev acc.
Proof.
  induction c as [|x c IH]; intros acc cur Hn; [reflexivity|].
  cbn [last_slash_prefix]. rewrite (eqb_slash_false _ _ Hn).
  apply IH. eapply noslash_tail; exact Hn.
Qed.

Lemma last_slash_prefix_app s c : forall acc cur, noslash c ->
  last_slash_prefix (s ++ slash :: c) acc cur = rev cur ++ s ++ [slash].
Proof.
  induction s as [|x s IH]; intros acc cur Hn.
  - cbn [app last_slash_prefix]. rewrite N.eqb_refl.
    rewrite last_slash_prefix_noslash by exact Hn. reflexivity.
  - cbn [app last_slash_prefix]. destruct (x =? slash).
    + rewrite IH by exact Hn. cbn [rev]. rewrite <- app_assoc. reflexivity.
    + rewrite IH by exact Hn. cbn [rev]. rewrite <- app_assoc. reflexivity.
Qed.

(* Dir of a single component is "." *)
Theorem dir_join_single c : noslash c -> dir (join_comps [c]) = [dot].
Proof.
  intro Hn. rewrite join_comps_single. unfold dir.
  rewrite last_slash_prefix_noslash by exact Hn. reflexivity.
Qed.

Lemma noslash_nil : noslash [].
Proof. intros []. Qed.

(* Dir drops the last component *)
Theorem dir_join_snoc pre c : pre <> [] -> Forall okc pre -> noslash c ->
  dir (join_comps (pre ++ [c])) = join_comps pre.
Proof.
  intros Hne Hf Hn. rewrite join_comps_app by (assumption || discriminate).
  rewrite join_comps_single. unfold dir.
  rewrite last_slash_prefix_app by exact Hn. cbn [rev app].
  change (join_comps pre ++ [slash]) with (join_comps pre ++ slash :: join_comps [[]]).
  rewrite <- join_comps_app by (assumption || discriminate).
  destruct (join_okc_head pre Hne Hf) as (x & t & Hj & Hx).
  assert (Hj' : join_comps (pre ++ [[]]) = x :: t ++ [slash]).
  { rewrite join_comps_app by (assumption || discriminate). rewrite Hj. reflexivity. }
  unfold bytes in *. rewrite clean_rel.
  - rewrite split_join_noslash.
    + rewrite clean_comps_okc by exact Hf. cbn [clean_comps is_empty orb].
      rewrite app_nil_r, rev_involutive. rewrite Hj. reflexivity.
    + destruct pre; discriminate.
    + apply Forall_app. split; [apply Forall_okc_noslash; exact Hf|].
      constructor; [exact noslash_nil|constructor].
  - rewrite Hj'. discriminate.
  - rewrite Hj'. cbn [is_abs]. apply N.eqb_neq. exact Hx.
Qed.

(* the two cases in one statement *)
Theorem dir_join cs : cs <> [] -> Forall okc cs ->
  dir (join_comps cs) = match removelast cs with [] => [dot] | pre => join_comps pre end.
Proof.
  intros Hne Hf. destruct (exists_last Hne) as (pre & c & ->).
  rewrite removelast_last. apply Forall_app in Hf as [Hpre Hc].
  inversion Hc as [|? ? Hc' _]; subst.
  destruct pre as [|p pre].
  - cbn [app]. apply dir_join_single. apply okc_noslash. exact Hc'.
  - rewrite dir_join_snoc; [reflexivity|discriminate|exact Hpre|apply okc_noslash; exact Hc'].
Qed.

Theorem join2_nil c : okc c -> join2 [] c = c.
Proof.
  intro Hc. destruct (okc_head _ Hc) as (x & t & Hxt & _).
  unfold join2. rewrite Hxt. rewrite <- Hxt.
  rewrite <- (join_comps_single c). apply clean_join; [discriminate|].
  constructor; [exact Hc|constructor].
Qed.

Theorem join2_join pre c : Forall okc pre -> okc c ->
  join2 (join_comps pre) c = join_comps (pre ++ [c]).
Proof.
  intros Hf Hc. destruct pre as [|p pre].
  - cbn [join_comps app]. apply join2_nil. exact Hc.
  - assert (Hne : p :: pre <> []) by discriminate.
    destruct (join_okc_head _ Hne Hf) as (x & t & Hj & _).
    destruct (okc_head _ Hc) as (y & u & Hyu & _).
    assert (Hall : Forall okc ((p :: pre) ++ [c])).
    { apply Forall_app. split; [exact Hf|]. constructor; [exact Hc|constructor]. }
    unfold join2. rewrite Hj. rewrite Hyu. rewrite <- Hj. rewrite <- Hyu.
    rewrite <- (join_comps_single c) at 1.
    rewrite <- join_comps_app by discriminate.
    apply clean_join; [|exact Hall]. discriminate.
Qed.

Theorem join_comps_inj cs ds :
  Forall okc cs -> Forall okc ds -> join_comps cs = join_comps ds -> cs = ds.
Proof.
  intros Hc Hd Heq.
  destruct cs as [|c cs], ds as [|d ds].
  - reflexivity.
  - exfalso. destruct (join_okc_head (d :: ds)) as (x & t & Hj & _); [discriminate|exact Hd|].
    rewrite Hj in Heq. discriminate.
  - exfalso. destruct (join_okc_head (c :: cs)) as (x & t & Hj & _); [discriminate|exact Hc|].
    rewrite Hj in Heq. discriminate.
  - rewrite <- (split_join (c :: cs)) by (discriminate || assumption).
    rewrite <- (split_join (d :: ds)) by (discriminate || assumption).
    rewrite Heq. reflexivity.
Qed.

Print Assumptions split_join.
Print Assumptions clean_join.
Print Assumptions dir_join.
Print Assumptions join2_join.
Print Assumptions join_comps_inj.

(* ================================================================================== *)
(* 2. The reference relation and FindDirArtifactOwnerForPath                           *)
(* ================================================================================== *)

Definition proper_prefix {A} (qs cs : list A) : Prop := exists t, t <> [] /\ cs = qs ++ t.

(* [inside cs qs norec]: the artifact at component list qs (disable-recursion flag norec) owns
   the path cs: qs is a proper ancestor, and the immediate parent when recursion is disabled.
   NOTE (follows the code): FindDirArtifactOwnerForPath never looks at IsDir, so ANY artifact
   recorded at an ancestor path owns the path, whether or not it is marked is-dir.  The
   relation therefore does not mention a_isdir either. *)
Definition inside (cs qs : list bytes) (norec : bool) : Prop :=
  proper_prefix qs cs /\ (norec = false \/ (length qs + 1 = length cs)%nat).

Definition comps_of (a : artifact) : list bytes := split (a_path a).
Definition good_art (a : artifact) : Prop := good_path (a_path a).

(* q owns p *)
Definition owns (q p : artifact) : Prop := inside (comps_of p) (comps_of q) (a_norec q).

Definition overlap (p q : artifact) : Prop :=
  comps_of p = comps_of q \/ owns q p \/ owns p q.

Lemma overlap_sym p q : overlap p q -> overlap q p.
Proof. intros [H|[H|H]]; [left; symmetry; exact H|right; right; exact H|right; left; exact H]. Qed.

Lemma good_comps_okc cs : good_comps cs -> cs <> [] /\ Forall okc cs.
Proof. intros [Hne Hf]. split; [exact Hne|apply Forall_good_okc; exact Hf]. Qed.

Lemma good_art_path a : good_art a -> good_comps (comps_of a) /\ a_path a = join_comps (comps_of a).
Proof.
  intros (cs & Hg & Hp). unfold comps_of. rewrite Hp.
  destruct (good_comps_okc _ Hg) as [Hne Hf].
  rewrite split_join by assumption. split; [exact Hg|reflexivity].
Qed.

Lemma good_art_comps_eq a b : good_art a -> good_art b ->
  (a_path a = a_path b <-> comps_of a = comps_of b).
Proof.
  intros Ha Hb. split; intro Heq.
  - unfold comps_of. rewrite Heq. reflexivity.
  - destruct (good_art_path _ Ha) as [_ ->]. destruct (good_art_path _ Hb) as [_ ->].
    rewrite Heq. reflexivity.
Qed.

Lemma split_dot : split [dot] = [[dot]].
Proof. reflexivity. Qed.

Lemma join2_nil_dot : join2 [] [dot] = [dot].
Proof. reflexivity. Qed.

Lemma good_path_not_dot p : good_path p -> p <> [dot].
Proof.
  intros (cs & Hg & Hp) Heq. destruct (good_comps_okc _ Hg) as [Hne Hf].
  assert (Hs : split p = cs) by (rewrite Hp; apply split_join; assumption).
  rewrite Heq, split_dot in Hs. subst cs.
  inversion Hf as [|? ? (_ & _ & Hd & _) _]; subst. apply Hd. reflexivity.
Qed.

(* ---- art_lookup ---- *)
Lemma art_lookup_some p arts a : art_lookup p arts = Some a -> In a arts /\ a_path a = p.
Proof.
  unfold art_lookup. intro Hf. apply find_some in Hf as [Hin Hb].
  split; [exact Hin|apply beqb_eq; exact Hb].
Qed.

Lemma art_lookup_none p arts : art_lookup p arts = None -> forall a, In a arts -> a_path a <> p.
Proof.
  unfold art_lookup. intros Hf a Hin Heq.
  pose proof (find_none _ _ Hf a Hin) as Hb. cbv beta in Hb.
  rewrite Heq, beqb_refl in Hb. discriminate.
Qed.

Lemma art_lookup_none_intro p arts :
  (forall a, In a arts -> a_path a <> p) -> art_lookup p arts = None.
Proof.
  intro Hall. destruct (art_lookup p arts) as [a|] eqn:E; [|reflexivity].
  apply art_lookup_some in E as [Hin Hp]. exfalso. exact (Hall a Hin Hp).
Qed.

Lemma art_lookup_nodup arts a :
  NoDup (map a_path arts) -> In a arts -> art_lookup (a_path a) arts = Some a.
Proof.
  unfold art_lookup. induction arts as [|b arts IH]; intros Hnd Hin; [contradiction|].
  cbn [map] in Hnd. inversion Hnd as [|? ? Hnotin Hnd']; subst.
  cbn [find]. destruct Hin as [->|Hin].
  - rewrite beqb_refl. reflexivity.
  - destruct (beqb (a_path b) (a_path a)) eqn:E.
    + exfalso. apply beqb_eq in E. apply Hnotin. rewrite E. apply in_map. exact Hin.
    + apply IH; assumption.
Qed.

(* ---- the walk ---- *)
Lemma fdo_walk_sound arts pre q : Forall okc pre ->
  forall rest done, pre = done ++ rest ->
  fdo_walk rest (join_comps done) (join_comps pre) arts = Some q ->
  In q arts /\ exists k1 k2, rest = k1 ++ k2 /\ k1 <> [] /\ a_path q = join_comps (done ++ k1) /\
                             (a_norec q = false \/ k2 = []).
Proof.
  intros Hpre rest. induction rest as [|part r IH]; intros done Hsplit Hw.
  - cbn [fdo_walk] in Hw. discriminate.
  - assert (Hdone : Forall okc done /\ okc part /\ Forall okc r).
    { rewrite Hsplit in Hpre. apply Forall_app in Hpre as [H1 H2].
      inversion H2 as [|x0 l0 Hp0 Hr0]. split; [exact H1|split; [exact Hp0|exact Hr0]]. }
    destruct Hdone as (Hdone & Hpart & Hr).
    cbn [fdo_walk] in Hw. rewrite (join2_join done part Hdone Hpart) in Hw.
    assert (Hrec : fdo_walk r (join_comps (done ++ [part])) (join_comps pre) arts = Some q ->
                   In q arts /\ exists k1 k2, part :: r = k1 ++ k2 /\ k1 <> [] /\
                     a_path q = join_comps (done ++ k1) /\ (a_norec q = false \/ k2 = [])).
    { intro Hw'. apply IH in Hw'.
      - destruct Hw' as (Hin & k1 & k2 & Hr' & Hk1 & Hp & Hn).
        split; [exact Hin|]. exists (part :: k1), k2.
        split; [rewrite Hr'; reflexivity|]. split; [discriminate|].
        split; [|exact Hn]. rewrite Hp. rewrite <- app_assoc. reflexivity.
      - rewrite Hsplit. rewrite <- app_assoc. reflexivity. }
    destruct (art_lookup (join_comps (done ++ [part])) arts) as [owner|] eqn:El; [|exact (Hrec Hw)].
    destruct (negb (a_norec owner) || beqb (join_comps (done ++ [part])) (join_comps pre)) eqn:Ec;
      [|exact (Hrec Hw)].
    injection Hw as ->. apply art_lookup_some in El as [Hin Hp].
    split; [exact Hin|]. exists [part], r.
    split; [reflexivity|]. split; [discriminate|]. split; [exact Hp|].
    apply orb_true_iff in Ec as [Ec|Ec].
    + left. destruct (a_norec q); [discriminate|reflexivity].
    + right. apply beqb_eq in Ec. rewrite Hsplit in Ec.
      apply join_comps_inj in Ec.
      * apply app_inv_head in Ec. injection Ec as <-. reflexivity.
      * apply Forall_app. split; [exact Hdone|]. constructor; [exact Hpart|constructor].
      * rewrite <- Hsplit. exact Hpre.
Qed.

Lemma fdo_walk_complete arts pre q : Forall okc pre -> NoDup (map a_path arts) -> In q arts ->
  forall rest done k1 k2, pre = done ++ rest -> rest = k1 ++ k2 -> k1 <> [] ->
  a_path q = join_comps (done ++ k1) -> (a_norec q = false \/ k2 = []) ->
  fdo_walk rest (join_comps done) (join_comps pre) arts <> None.
Proof.
  intros Hpre Hnd Hin rest. induction rest as [|part r IH]; intros done k1 k2 Hsplit Hrest Hk1 Hp Hn.
  - destruct k1; [contradiction|discriminate].
  - destruct k1 as [|part' k1]; [contradiction|]. injection Hrest as <- Hr.
    assert (Hdone : Forall okc done /\ okc part).
    { rewrite Hsplit in Hpre. apply Forall_app in Hpre as [H1 H2].
      inversion H2 as [|x0 l0 Hp0 Hr0]. split; [exact H1|exact Hp0]. }
    destruct Hdone as (Hdone & Hpart).
    cbn [fdo_walk]. rewrite (join2_join done part Hdone Hpart).
    destruct k1 as [|part2 k1].
    + rewrite <- Hp. rewrite (art_lookup_nodup arts q Hnd Hin).
      destruct Hn as [Hn|Hn].
      * rewrite Hn. cbn [negb orb]. discriminate.
      * subst k2. cbn [app] in Hr. subst r. rewrite Hsplit, Hp, beqb_refl, orb_true_r. discriminate.
    + assert (Hgo : fdo_walk r (join_comps (done ++ [part])) (join_comps pre) arts <> None).
      { apply (IH (done ++ [part]) (part2 :: k1) k2).
        - rewrite Hsplit. rewrite <- app_assoc. reflexivity.
        - exact Hr.
        - discriminate.
        - rewrite Hp. rewrite <- app_assoc. reflexivity.
        - exact Hn. }
      destruct (art_lookup (join_comps (done ++ [part])) arts) as [owner|]; [|exact Hgo].
      destruct (negb (a_norec owner) || beqb (join_comps (done ++ [part])) (join_comps pre));
        [discriminate|exact Hgo].
Qed.

(* FindDirArtifactOwnerForPath is sound ... *)
Theorem find_dir_owner_sound cs arts q :
  good_comps cs -> Forall good_art arts ->
  find_dir_owner (join_comps cs) arts = Some q ->
  In q arts /\ inside cs (comps_of q) (a_norec q).
Proof.
  intros Hg Harts Hf. destruct (good_comps_okc _ Hg) as [Hne Hok].
  destruct (exists_last Hne) as (pre & c & ->).
  apply Forall_app in Hok as [Hpre Hc]. inversion Hc as [|? ? Hc' _]; subst.
  unfold find_dir_owner in Hf. destruct pre as [|p0 pre0].
  - (* a single component: Dir is ".", the walk looks up "." and finds nothing *)
    exfalso. cbn [app] in Hf.
    rewrite (dir_join_single c (okc_noslash _ Hc')) in Hf. rewrite split_dot in Hf.
    cbn [fdo_walk] in Hf. rewrite join2_nil_dot in Hf.
    rewrite art_lookup_none_intro in Hf.
    + discriminate.
    + intros a Hin. apply good_path_not_dot. rewrite Forall_forall in Harts. exact (Harts a Hin).
  - set (pre := p0 :: pre0) in *.
    assert (Hpne : pre <> []) by discriminate.
    rewrite (dir_join_snoc pre c Hpne Hpre (okc_noslash _ Hc')) in Hf.
    rewrite (split_join pre Hpne Hpre) in Hf.
    change (@nil N) with (join_comps []) in Hf.
    apply (fdo_walk_sound arts pre q Hpre pre [] eq_refl) in Hf.
    destruct Hf as (Hin & k1 & k2 & Hk & Hk1 & Hp & Hn). cbn [app] in Hp.
    split; [exact Hin|].
    assert (Hk1ok : Forall okc k1).
    { rewrite Hk in Hpre. apply Forall_app in Hpre as [H1 _]. exact H1. }
    assert (Hq : comps_of q = k1).
    { unfold comps_of. rewrite Hp. apply split_join; assumption. }
    rewrite Hq. split.
    + exists (k2 ++ [c]). split; [destruct k2; discriminate|].
      rewrite Hk. rewrite <- app_assoc. reflexivity.
    + destruct Hn as [Hn|Hn]; [left; exact Hn|right].
      subst k2. rewrite Hk, app_nil_r. rewrite app_length. reflexivity.
Qed.

(* ... and complete, when the artifact paths are pairwise distinct (they are the keys of a
   Go map) *)
Theorem find_dir_owner_complete cs arts q :
  good_comps cs -> Forall good_art arts -> NoDup (map a_path arts) ->
  In q arts -> inside cs (comps_of q) (a_norec q) ->
  find_dir_owner (join_comps cs) arts <> None.
Proof.
  intros Hg Harts Hnd Hin [(t & Ht & Hcs) Hn]. destruct (good_comps_okc _ Hg) as [Hne Hok].
  rewrite Forall_forall in Harts. destruct (good_art_path q (Harts q Hin)) as [Hgq Hpq].
  destruct (good_comps_okc _ Hgq) as [Hqne Hqok].
  destruct (exists_last Ht) as (t' & c & ->).
  set (qs := comps_of q) in *.
  assert (Hcs' : cs = (qs ++ t') ++ [c]) by (rewrite Hcs, app_assoc; reflexivity).
  rewrite Hcs' in Hok. apply Forall_app in Hok as [Hpre Hc]. inversion Hc as [|? ? Hc' _].
  assert (Hpne : qs ++ t' <> []) by (destruct qs; [contradiction|discriminate]).
  unfold find_dir_owner. rewrite Hcs'.
  rewrite (dir_join_snoc (qs ++ t') c Hpne Hpre (okc_noslash _ Hc')).
  rewrite (split_join (qs ++ t') Hpne Hpre).
  change (@nil N) with (join_comps []).
  apply (fdo_walk_complete arts (qs ++ t') q Hpre Hnd Hin (qs ++ t') [] qs t').
  - reflexivity.
  - reflexivity.
  - exact Hqne.
  - exact Hpq.
  - destruct Hn as [Hn|Hn]; [left; exact Hn|right].
    rewrite Hcs in Hn. rewrite !app_length in Hn. cbn [length] in Hn.
    destruct t'; [reflexivity|]. cbn [length] in Hn. lia.
Qed.

(* The specification of FindDirArtifactOwnerForPath in one statement *)
Theorem find_dir_owner_spec cs arts :
  good_comps cs -> Forall good_art arts -> NoDup (map a_path arts) ->
  (forall q, find_dir_owner (join_comps cs) arts = Some q ->
             In q arts /\ inside cs (comps_of q) (a_norec q)) /\
  (forall q, In q arts -> inside cs (comps_of q) (a_norec q) ->
             find_dir_owner (join_comps cs) arts <> None).
Proof.
  intros Hg Harts Hnd. split.
  - intros q Hf. exact (find_dir_owner_sound cs arts q Hg Harts Hf).
  - intros q Hin Hi. exact (find_dir_owner_complete cs arts q Hg Harts Hnd Hin Hi).
Qed.

Lemma find_dir_owner_none_iff cs arts :
  good_comps cs -> Forall good_art arts -> NoDup (map a_path arts) ->
  (find_dir_owner (join_comps cs) arts = None <->
   forall q, In q arts -> ~ inside cs (comps_of q) (a_norec q)).
Proof.
  intros Hg Harts Hnd. split.
  - intros Hf q Hin Hi. exact (find_dir_owner_complete cs arts q Hg Harts Hnd Hin Hi Hf).
  - intro Hall. destruct (find_dir_owner (join_comps cs) arts) as [q|] eqn:E; [|reflexivity].
    exfalso. apply find_dir_owner_sound in E as [Hin Hi]; try assumption.
    exact (Hall q Hin Hi).
Qed.

Print Assumptions find_dir_owner_spec.

(* ================================================================================== *)
(* 3. Pairwise non-overlap, the index invariant, AddStage is exact                     *)
(* ================================================================================== *)

Fixpoint pairwise {A} (R : A -> A -> Prop) (l : list A) : Prop :=
  match l with
  | [] => True
  | x :: r => Forall (R x) r /\ pairwise R r
  end.

Lemma pairwise_app {A} (R : A -> A -> Prop) a b :
  pairwise R (a ++ b) <->
  pairwise R a /\ pairwise R b /\ (forall x y, In x a -> In y b -> R x y).
Proof.
  induction a as [|x0 a IH].
  - cbn [app pairwise]. split.
    + intro Hb. split; [exact I|]. split; [exact Hb|]. intros x y [].
    + intros (_ & Hb & _). exact Hb.
  - cbn [app pairwise]. rewrite Forall_app, IH. split.
    + intros ((Fa & Fb) & Pa & Pb & C). split; [split; assumption|]. split; [exact Pb|].
      intros x y [<-|Hx] Hy.
      * rewrite Forall_forall in Fb. exact (Fb y Hy).
      * exact (C x y Hx Hy).
    + intros ((Fa & Pa) & Pb & C). split; [split|].
      * exact Fa.
      * apply Forall_forall. intros y Hy. apply C; [left; reflexivity|exact Hy].
      * split; [exact Pa|]. split; [exact Pb|]. intros x y Hx Hy. apply C; [right; exact Hx|exact Hy].
Qed.

Lemma pairwise_perm {A} (R : A -> A -> Prop) l l' :
  (forall x y, R x y -> R y x) -> Permutation l l' -> pairwise R l -> pairwise R l'.
Proof.
  intros Hsym Hperm. induction Hperm as [|x l l' Hp IH|x y l|l l' l'' Hp1 IH1 Hp2 IH2]; intro Hpw.
  - exact I.
  - destruct Hpw as [F P]. split; [|exact (IH P)].
    apply Forall_forall. intros z Hz. rewrite Forall_forall in F. apply F.
    apply (Permutation_in z (Permutation_sym Hp)). exact Hz.
  - destruct Hpw as (Fy & Fx & P). inversion Fy as [|? ? Ryx Fy']; subst.
    split; [constructor; [apply Hsym; exact Ryx|exact Fx]|]. split; [exact Fy'|exact P].
  - exact (IH2 (IH1 Hpw)).
Qed.

Lemma pairwise_impl {A} (R R' : A -> A -> Prop) l :
  (forall x y, R x y -> R' x y) -> pairwise R l -> pairwise R' l.
Proof.
  intro Himp. induction l as [|x l IH]; [intros _; exact I|].
  intros [F P]. split; [|exact (IH P)]. eapply Forall_impl; [|exact F]. apply Himp.
Qed.

Lemma pairwise_nodup_map {A B} (f : A -> B) l :
  pairwise (fun a b => f a <> f b) l -> NoDup (map f l).
Proof.
  induction l as [|x l IH]; intro Hpw; [constructor|].
  destruct Hpw as [F P]. cbn [map]. constructor; [|exact (IH P)].
  intro Hin. apply in_map_iff in Hin as (y & Hy & Hyin).
  rewrite Forall_forall in F. exact (F y Hyin (eq_sym Hy)).
Qed.

Lemma pairwise_flat_map_entry {A B} (R : B -> B -> Prop) (f : A -> list B) l e :
  In e l -> pairwise R (flat_map f l) -> pairwise R (f e).
Proof.
  intros Hin Hpw. apply in_split in Hin as (l1 & l2 & ->).
  rewrite flat_map_app in Hpw. cbn [flat_map] in Hpw.
  apply pairwise_app in Hpw as (_ & Hpw & _).
  apply pairwise_app in Hpw as (Hpw & _). exact Hpw.
Qed.

Definition no_overlap (a b : artifact) : Prop := ~ overlap a b.

Lemma no_overlap_sym a b : no_overlap a b -> no_overlap b a.
Proof. intros Hn Ho. apply Hn. apply overlap_sym. exact Ho. Qed.

(* a set of artifacts: good paths, and no one equals or lies inside another *)
Definition arts_ok (arts : list artifact) : Prop :=
  Forall good_art arts /\ pairwise no_overlap arts.

Definition cross_free (A B : list artifact) : Prop :=
  forall a b, In a A -> In b B -> ~ overlap a b.

Lemma arts_ok_app A B : arts_ok (A ++ B) <-> arts_ok A /\ arts_ok B /\ cross_free A B.
Proof.
  unfold arts_ok, cross_free. rewrite Forall_app, pairwise_app. unfold no_overlap. tauto.
Qed.

Lemma arts_ok_perm A B : Permutation A B -> arts_ok A -> arts_ok B.
Proof.
  intros Hp [Hg Hpw]. split.
  - apply Forall_forall. intros a Ha. rewrite Forall_forall in Hg. apply Hg.
    apply (Permutation_in a (Permutation_sym Hp)). exact Ha.
  - exact (pairwise_perm _ _ _ no_overlap_sym Hp Hpw).
Qed.

Lemma arts_ok_nodup A : arts_ok A -> NoDup (map a_path A).
Proof.
  intros [_ Hpw]. apply pairwise_nodup_map. eapply pairwise_impl; [|exact Hpw].
  intros a b Hn Heq. apply Hn. left. unfold comps_of. rewrite Heq. reflexivity.
Qed.

Definition all_outputs (idx : index) : list artifact := flat_map (fun e => s_outputs (snd e)) idx.

(* THE INVARIANT of C10: all outputs recorded in the index have good paths and no two of them
   (in the same stage or in different stages) overlap *)
Definition index_wf (idx : index) : Prop := arts_ok (all_outputs idx).

Lemma index_wf_nil : index_wf [].
Proof. split; [constructor|exact I]. Qed.

Lemma index_wf_cons e idx :
  index_wf (e :: idx) <->
  arts_ok (s_outputs (snd e)) /\ index_wf idx /\ cross_free (s_outputs (snd e)) (all_outputs idx).
Proof. unfold index_wf. cbn [all_outputs flat_map]. apply arts_ok_app. Qed.

Lemma index_wf_entry idx e : index_wf idx -> In e idx -> arts_ok (s_outputs (snd e)).
Proof.
  intros [Hg Hpw] Hin. split.
  - apply Forall_forall. intros a Ha. rewrite Forall_forall in Hg. apply Hg.
    unfold all_outputs. apply in_flat_map. exists e. split; assumption.
  - exact (pairwise_flat_map_entry _ _ _ _ Hin Hpw).
Qed.

Lemma index_wf_perm idx idx' : Permutation idx idx' -> index_wf idx -> index_wf idx'.
Proof.
  intros Hp. apply arts_ok_perm. unfold all_outputs. apply Permutation_flat_map. exact Hp.
Qed.

(* ---- an artifact covers a path: it is recorded at the path or owns it ---- *)
Definition covers (a : artifact) (cs : list bytes) : Prop :=
  comps_of a = cs \/ inside cs (comps_of a) (a_norec a).

Lemma overlap_covers o o' :
  overlap o o' <-> covers o' (comps_of o) \/ inside (comps_of o') (comps_of o) (a_norec o).
Proof.
  unfold overlap, owns, covers. split.
  - intros [H|[H|H]]; [left; left; symmetry; exact H|left; right; exact H|right; exact H].
  - intros [[H|H]|H]; [left; symmetry; exact H|right; left; exact H|right; right; exact H].
Qed.

(* what one stage answers in findOwner *)
Definition stage_res (e : bytes * stage) (p : bytes) : option (bytes * artifact) :=
  match art_lookup p (s_outputs (snd e)) with
  | Some a => Some (fst e, a)
  | None => match find_dir_owner p (s_outputs (snd e)) with
            | Some a => Some (fst e, a)
            | None => None
            end
  end.

Lemma find_owner_cons e idx p :
  find_owner (e :: idx) p =
  match stage_res e p with Some r => Some r | None => find_owner idx p end.
Proof.
  destruct e as [sp s]. unfold stage_res. cbn [find_owner fst snd].
  destruct (art_lookup p (s_outputs s)); [reflexivity|].
  destruct (find_dir_owner p (s_outputs s)); reflexivity.
Qed.

Lemma stage_res_some e cs k a :
  good_comps cs -> Forall good_art (s_outputs (snd e)) ->
  stage_res e (join_comps cs) = Some (k, a) ->
  k = fst e /\ In a (s_outputs (snd e)) /\ covers a cs.
Proof.
  intros Hg Harts. unfold stage_res. destruct (good_comps_okc _ Hg) as [Hne Hok].
  destruct (art_lookup (join_comps cs) (s_outputs (snd e))) as [a'|] eqn:El.
  - intro Heq. injection Heq as <- <-. apply art_lookup_some in El as [Hin Hp].
    split; [reflexivity|]. split; [exact Hin|]. left. unfold comps_of. rewrite Hp.
    apply split_join; assumption.
  - destruct (find_dir_owner (join_comps cs) (s_outputs (snd e))) as [a'|] eqn:Ef; [|discriminate].
    intro Heq. injection Heq as <- <-. apply find_dir_owner_sound in Ef as [Hin Hi]; try assumption.
    split; [reflexivity|]. split; [exact Hin|]. right. exact Hi.
Qed.

Lemma stage_res_none_iff e cs :
  good_comps cs -> arts_ok (s_outputs (snd e)) ->
  (stage_res e (join_comps cs) = None <-> forall o', In o' (s_outputs (snd e)) -> ~ covers o' cs).
Proof.
  intros Hg Hok. destruct (good_comps_okc _ Hg) as [Hne Hokc].
  pose proof (arts_ok_nodup _ Hok) as Hnd. destruct Hok as [Harts _].
  split.
  - intros Hr o' Hin [Hc|Hc].
    + unfold stage_res in Hr.
      destruct (art_lookup (join_comps cs) (s_outputs (snd e))) as [a'|] eqn:El; [discriminate|].
      apply (art_lookup_none _ _ El o' Hin).
      rewrite Forall_forall in Harts. destruct (good_art_path o' (Harts o' Hin)) as [_ ->].
      rewrite Hc. reflexivity.
    + unfold stage_res in Hr.
      destruct (art_lookup (join_comps cs) (s_outputs (snd e))) as [a'|]; [discriminate|].
      destruct (find_dir_owner (join_comps cs) (s_outputs (snd e))) as [a'|] eqn:Ef; [discriminate|].
      exact (find_dir_owner_complete cs _ o' Hg Harts Hnd Hin Hc Ef).
  - intro Hall. destruct (stage_res e (join_comps cs)) as [[k a]|] eqn:Er; [|reflexivity].
    exfalso. apply stage_res_some in Er as (_ & Hin & Hc); try assumption.
    exact (Hall a Hin Hc).
Qed.

Lemma find_owner_none_iff idx cs :
  index_wf idx -> good_comps cs ->
  (find_owner idx (join_comps cs) = None <-> forall o', In o' (all_outputs idx) -> ~ covers o' cs).
Proof.
  intros Hwf Hg. induction idx as [|e idx IH].
  - cbn [find_owner all_outputs flat_map]. split; [intros _ o' []|reflexivity].
  - apply index_wf_cons in Hwf as (He & Hwf & _). specialize (IH Hwf).
    rewrite find_owner_cons. cbn [all_outputs flat_map]. fold (all_outputs idx).
    pose proof (stage_res_none_iff e cs Hg He) as Hs.
    split.
    + intros Hf o' Hin. destruct (stage_res e (join_comps cs)) as [r|]; [discriminate|].
      apply in_app_or in Hin as [Hin|Hin].
      * apply Hs; [reflexivity|exact Hin].
      * apply IH; [exact Hf|exact Hin].
    + intro Hall.
      assert (Hn : stage_res e (join_comps cs) = None).
      { apply Hs. intros o' Hin. apply Hall. apply in_or_app. left. exact Hin. }
      rewrite Hn. apply IH. intros o' Hin. apply Hall. apply in_or_app. right. exact Hin.
Qed.

Lemma find_owner_some idx cs k a :
  Forall good_art (all_outputs idx) -> good_comps cs ->
  find_owner idx (join_comps cs) = Some (k, a) ->
  exists e, In e idx /\ k = fst e /\ In a (s_outputs (snd e)) /\ covers a cs.
Proof.
  intros Hga Hg. induction idx as [|e idx IH]; [discriminate|].
  cbn [all_outputs flat_map] in Hga. apply Forall_app in Hga as [Hge Hga].
  rewrite find_owner_cons. destruct (stage_res e (join_comps cs)) as [[k' a']|] eqn:Er.
  - intro Heq. injection Heq as -> ->. apply stage_res_some in Er as (Hk & Hin & Hc); try assumption.
    exists e. split; [left; reflexivity|]. split; [exact Hk|]. split; assumption.
  - intro Hf. destruct (IH Hga Hf) as (e' & Hin & Hrest). exists e'. split; [right; exact Hin|exact Hrest].
Qed.

(* the two loops of AddStage *)
Definition check_new_vs_index (idx : index) (s : stage) : bool :=
  forallb (fun o => match find_owner idx (a_path o) with Some _ => false | None => true end) (s_outputs s).
Definition check_index_vs_new (idx : index) (s : stage) : bool :=
  forallb (fun e => forallb (fun o => match find_dir_owner (a_path o) (s_outputs s) with
                                      | Some _ => false | None => true end)
                            (s_outputs (snd e))) idx.

Lemma add_stage_unfold idx path s :
  add_stage idx path s =
  match alookup path idx with
  | Some _ => None
  | None => if check_new_vs_index idx s && check_index_vs_new idx s
            then Some (ins_sorted path s idx) else None
  end.
Proof. reflexivity. Qed.

Lemma opt_none_true {A} (o : option A) :
  match o with Some _ => false | None => true end = true <-> o = None.
Proof. destruct o; split; intro H; (reflexivity || discriminate). Qed.

Lemma check_new_vs_index_iff idx s :
  index_wf idx -> Forall good_art (s_outputs s) ->
  (check_new_vs_index idx s = true <->
   forall o o', In o (s_outputs s) -> In o' (all_outputs idx) -> ~ covers o' (comps_of o)).
Proof.
  intros Hwf Hgs. unfold check_new_vs_index. rewrite forallb_forall.
  rewrite Forall_forall in Hgs. split.
  - intros Hall o o' Hin Hin'. specialize (Hall o Hin). apply opt_none_true in Hall.
    destruct (good_art_path o (Hgs o Hin)) as [Hg Hp]. rewrite Hp in Hall.
    exact (proj1 (find_owner_none_iff idx _ Hwf Hg) Hall o' Hin').
  - intros Hall o Hin. apply opt_none_true.
    destruct (good_art_path o (Hgs o Hin)) as [Hg Hp]. rewrite Hp.
    apply (find_owner_none_iff idx _ Hwf Hg). intros o' Hin'. exact (Hall o o' Hin Hin').
Qed.

Lemma check_index_vs_new_iff idx s :
  Forall good_art (all_outputs idx) -> arts_ok (s_outputs s) ->
  (check_index_vs_new idx s = true <->
   forall o o', In o (s_outputs s) -> In o' (all_outputs idx) ->
                ~ inside (comps_of o') (comps_of o) (a_norec o)).
Proof.
  intros Hga Hs. pose proof (arts_ok_nodup _ Hs) as Hnd. destruct Hs as [Hgs _].
  unfold check_index_vs_new. rewrite forallb_forall. rewrite Forall_forall in Hga.
  split.
  - intros Hall o o' Hin Hin'. unfold all_outputs in Hin'. apply in_flat_map in Hin' as (e & He & Ho').
    specialize (Hall e He). rewrite forallb_forall in Hall. specialize (Hall o' Ho').
    apply opt_none_true in Hall.
    assert (Hgo' : good_art o').
    { apply Hga. unfold all_outputs. apply in_flat_map. exists e. split; assumption. }
    destruct (good_art_path o' Hgo') as [Hg Hp]. rewrite Hp in Hall.
    exact (proj1 (find_dir_owner_none_iff _ _ Hg Hgs Hnd) Hall o Hin).
  - intros Hall e He. apply forallb_forall. intros o' Ho'. apply opt_none_true.
    assert (Hin' : In o' (all_outputs idx)).
    { unfold all_outputs. apply in_flat_map. exists e. split; assumption. }
    destruct (good_art_path o' (Hga o' Hin')) as [Hg Hp]. rewrite Hp.
    apply (find_dir_owner_none_iff _ _ Hg Hgs Hnd). intros o Hin. exact (Hall o o' Hin Hin').
Qed.

(* AddStage accepts exactly when the key is fresh and no new output overlaps a recorded one *)
Theorem add_stage_some_iff idx path s idx' :
  index_wf idx -> arts_ok (s_outputs s) ->
  (add_stage idx path s = Some idx' <->
   alookup path idx = None /\ idx' = ins_sorted path s idx /\
   cross_free (s_outputs s) (all_outputs idx)).
Proof.
  intros Hwf Hs. rewrite add_stage_unfold.
  pose proof (check_new_vs_index_iff idx s Hwf (proj1 Hs)) as H1.
  pose proof (check_index_vs_new_iff idx s (proj1 Hwf) Hs) as H2.
  destruct (alookup path idx) as [x|].
  - split; [discriminate|]. intros (Hd & _); discriminate.
  - destruct (check_new_vs_index idx s && check_index_vs_new idx s) eqn:Ec.
    + apply andb_true_iff in Ec as [E1 E2].
      split.
      * intro Heq. injection Heq as <-. split; [reflexivity|]. split; [reflexivity|].
        intros o o' Hin Hin' Hov. apply overlap_covers in Hov as [Hc|Hi].
        -- exact (proj1 H1 E1 o o' Hin Hin' Hc).
        -- exact (proj1 H2 E2 o o' Hin Hin' Hi).
      * intros (_ & -> & _). reflexivity.
    + split; [discriminate|]. intros (_ & _ & Hcf). exfalso.
      apply andb_false_iff in Ec as [Ec|Ec].
      * rewrite (proj2 H1) in Ec; [discriminate|].
        intros o o' Hin Hin' Hc. apply (Hcf o o' Hin Hin'). apply overlap_covers. left. exact Hc.
      * rewrite (proj2 H2) in Ec; [discriminate|].
        intros o o' Hin Hin' Hi. apply (Hcf o o' Hin Hin'). apply overlap_covers. right. exact Hi.
Qed.

Lemma forallb_false_ex {A} (f : A -> bool) l :
  forallb f l = false -> exists x, In x l /\ f x = false.
Proof.
  induction l as [|x l IH]; [discriminate|]. cbn [forallb]. intro H.
  apply andb_false_iff in H as [H|H].
  - exists x. split; [left; reflexivity|exact H].
  - destruct (IH H) as (y & Hy & Hfy). exists y. split; [right; exact Hy|exact Hfy].
Qed.

(* C10, "no false rejection / no missed overlap": with a fresh stage path, AddStage rejects
   exactly when some new output overlaps some recorded output *)
Theorem add_stage_exact idx path s :
  index_wf idx -> arts_ok (s_outputs s) -> alookup path idx = None ->
  (add_stage idx path s = None <->
   exists o o', In o (s_outputs s) /\ In o' (all_outputs idx) /\ overlap o o').
Proof.
  intros Hwf Hs Hfresh. split.
  - rewrite add_stage_unfold, Hfresh.
    destruct (check_new_vs_index idx s && check_index_vs_new idx s) eqn:Ec; [discriminate|].
    intros _. apply andb_false_iff in Ec as [Ec|Ec].
    + unfold check_new_vs_index in Ec. apply forallb_false_ex in Ec as (o & Hin & Hf).
      destruct (find_owner idx (a_path o)) as [[k a]|] eqn:Ef; [|discriminate].
      destruct Hs as [Hgs _]. rewrite Forall_forall in Hgs.
      destruct (good_art_path o (Hgs o Hin)) as [Hg Hp]. rewrite Hp in Ef.
      apply find_owner_some in Ef as (e & He & _ & Ha & Hc); [|exact (proj1 Hwf)|exact Hg].
      exists o, a. split; [exact Hin|]. split.
      * unfold all_outputs. apply in_flat_map. exists e. split; assumption.
      * apply overlap_covers. left. exact Hc.
    + unfold check_index_vs_new in Ec. apply forallb_false_ex in Ec as (e & He & Hf).
      apply forallb_false_ex in Hf as (o' & Ho' & Hf).
      destruct (find_dir_owner (a_path o') (s_outputs s)) as [o|] eqn:Ef; [|discriminate].
      assert (Hin' : In o' (all_outputs idx)).
      { unfold all_outputs. apply in_flat_map. exists e. split; assumption. }
      destruct Hwf as [Hga _]. rewrite Forall_forall in Hga.
      destruct (good_art_path o' (Hga o' Hin')) as [Hg Hp]. rewrite Hp in Ef.
      apply find_dir_owner_sound in Ef as [Hin Hi]; [|exact Hg|exact (proj1 Hs)].
      exists o, o'. split; [exact Hin|]. split; [exact Hin'|].
      apply overlap_covers. right. exact Hi.
  - intros (o & o' & Hin & Hin' & Hov).
    destruct (add_stage idx path s) as [idx'|] eqn:Ea; [|reflexivity].
    exfalso. apply (add_stage_some_iff idx path s idx' Hwf Hs) in Ea as (_ & _ & Hcf).
    exact (Hcf o o' Hin Hin' Hov).
Qed.

Print Assumptions add_stage_exact.

(* ================================================================================== *)
(* 4. The invariant is preserved                                                       *)
(* ================================================================================== *)

Lemma ins_sorted_perm {A} k (v : A) l :
  alookup k l = None -> Permutation (ins_sorted k v l) ((k, v) :: l).
Proof.
  induction l as [|[k' v'] r IH]; intro Hl; [apply Permutation_refl|].
  cbn [alookup] in Hl. cbn [ins_sorted].
  destruct (beqb k k'); [discriminate|].
  destruct (bltb k k'); [apply Permutation_refl|].
  eapply perm_trans; [apply perm_skip; exact (IH Hl)|apply perm_swap].
Qed.

Lemma all_outputs_ins path s idx :
  alookup path idx = None ->
  Permutation (all_outputs (ins_sorted path s idx)) (s_outputs s ++ all_outputs idx).
Proof.
  intro Hl. unfold all_outputs.
  change (s_outputs s ++ flat_map (fun e : bytes * stage => s_outputs (snd e)) idx)
    with (flat_map (fun e : bytes * stage => s_outputs (snd e)) ((path, s) :: idx)).
  apply Permutation_flat_map. apply ins_sorted_perm. exact Hl.
Qed.

Theorem add_stage_preserves_wf idx path s idx' :
  index_wf idx -> arts_ok (s_outputs s) -> add_stage idx path s = Some idx' -> index_wf idx'.
Proof.
  intros Hwf Hs Ha. apply (add_stage_some_iff idx path s idx' Hwf Hs) in Ha as (Hl & -> & Hcf).
  unfold index_wf. eapply arts_ok_perm; [apply Permutation_sym; apply all_outputs_ins; exact Hl|].
  apply arts_ok_app. split; [exact Hs|]. split; [exact Hwf|exact Hcf].
Qed.

Lemma all_outputs_aremove_incl k idx o :
  In o (all_outputs (aremove k idx)) -> In o (all_outputs idx).
Proof.
  induction idx as [|[k' v] r IH]; [intros []|].
  cbn [aremove]. destruct (beqb k k').
  - intro Hin. cbn [all_outputs flat_map]. apply in_or_app. right. exact (IH Hin).
  - cbn [all_outputs flat_map]. intro Hin. apply in_app_or in Hin as [Hin|Hin]; apply in_or_app.
    + left. exact Hin.
    + right. exact (IH Hin).
Qed.

Lemma index_wf_aremove k idx : index_wf idx -> index_wf (aremove k idx).
Proof.
  induction idx as [|[k' v] r IH]; intro Hwf; [exact Hwf|].
  apply index_wf_cons in Hwf as (He & Hr & Hcf). cbn [aremove].
  destruct (beqb k k'); [exact (IH Hr)|].
  apply index_wf_cons. split; [exact He|]. split; [exact (IH Hr)|].
  intros a b Ha Hb. apply Hcf; [exact Ha|]. eapply all_outputs_aremove_incl. exact Hb.
Qed.

Theorem remove_stage_preserves_wf idx path idx' :
  index_wf idx -> remove_stage idx path = Some idx' -> index_wf idx'.
Proof.
  intros Hwf. unfold remove_stage. destruct (alookup path idx); [|discriminate].
  intro Heq. injection Heq as <-. apply index_wf_aremove. exact Hwf.
Qed.

Print Assumptions add_stage_preserves_wf.
Print Assumptions remove_stage_preserves_wf.

(* ================================================================================== *)
(* 5. findOwner does not depend on the (random) map iteration order                    *)
(* ================================================================================== *)

Lemma prefix_comparable {A} (a b : list A) : forall ta tb, a ++ ta = b ++ tb ->
  exists u, a = b ++ u \/ b = a ++ u.
Proof.
  revert b. induction a as [|x a IH]; intros b ta tb Heq.
  - exists b. right. reflexivity.
  - destruct b as [|y b].
    + exists (x :: a). left. reflexivity.
    + cbn [app] in Heq. injection Heq as -> Heq. destruct (IH b ta tb Heq) as (u & [Hu|Hu]).
      * exists u. left. rewrite Hu. reflexivity.
      * exists u. right. rewrite Hu. reflexivity.
Qed.

Lemma inside_inside_overlap cs qa na qb nb :
  inside cs qa na -> inside cs qb nb ->
  qa = qb \/ inside qa qb nb \/ inside qb qa na.
Proof.
  intros [(ta & Hta & Ha) Hna] [(tb & Htb & Hb) Hnb].
  assert (Hcmp : qa ++ ta = qb ++ tb) by (rewrite <- Ha; exact Hb).
  destruct (prefix_comparable qa qb ta tb Hcmp) as (u & [Hu|Hu]).
  - destruct u as [|u0 u].
    + left. rewrite Hu, app_nil_r. reflexivity.
    + right. left. split; [exists (u0 :: u); split; [discriminate|exact Hu]|].
      destruct Hnb as [Hnb|Hnb]; [left; exact Hnb|exfalso].
      rewrite Ha, Hu in Hnb. rewrite !app_length in Hnb. cbn [length] in Hnb.
      destruct ta; [contradiction|]. cbn [length] in Hnb. lia.
  - destruct u as [|u0 u].
    + left. rewrite Hu, app_nil_r. reflexivity.
    + right. right. split; [exists (u0 :: u); split; [discriminate|exact Hu]|].
      destruct Hna as [Hna|Hna]; [left; exact Hna|exfalso].
      rewrite Hb, Hu in Hna. rewrite !app_length in Hna. cbn [length] in Hna.
      destruct tb; [contradiction|]. cbn [length] in Hna. lia.
Qed.

(* two artifacts that both cover one path overlap *)
Lemma covers_overlap a b cs : covers a cs -> covers b cs -> overlap a b.
Proof.
  unfold covers, overlap, owns. intros [Ha|Ha] [Hb|Hb].
  - left. rewrite Ha, Hb. reflexivity.
  - right. left. rewrite Ha. exact Hb.
  - right. right. rewrite Hb. exact Ha.
  - destruct (inside_inside_overlap _ _ _ _ _ Ha Hb) as [H|[H|H]];
      [left; exact H|right; left; exact H|right; right; exact H].
Qed.

Lemma stage_res_unique e1 e2 cs r1 r2 :
  good_comps cs -> arts_ok (s_outputs (snd e1) ++ s_outputs (snd e2)) ->
  stage_res e1 (join_comps cs) = Some r1 -> stage_res e2 (join_comps cs) = Some r2 -> False.
Proof.
  intros Hg Hok H1 H2. apply arts_ok_app in Hok as ([Hg1 _] & [Hg2 _] & Hcf).
  destruct r1 as [k1 a1], r2 as [k2 a2].
  apply stage_res_some in H1 as (_ & Hin1 & Hc1); try assumption.
  apply stage_res_some in H2 as (_ & Hin2 & Hc2); try assumption.
  exact (Hcf a1 a2 Hin1 Hin2 (covers_overlap a1 a2 cs Hc1 Hc2)).
Qed.

(* at most one stage answers, so every iteration order gives the same owner *)
Theorem find_owner_unique idx idx' cs :
  index_wf idx -> good_comps cs -> Permutation idx idx' ->
  find_owner idx' (join_comps cs) = find_owner idx (join_comps cs).
Proof.
  intros Hwf Hg Hperm. induction Hperm as [|e l l' Hp IH|x y l|l l' l'' Hp1 IH1 Hp2 IH2].
  - reflexivity.
  - rewrite !find_owner_cons. apply index_wf_cons in Hwf as (_ & Hwf & _).
    rewrite (IH Hwf). reflexivity.
  - rewrite !find_owner_cons.
    destruct (stage_res x (join_comps cs)) as [rx|] eqn:Ex;
      destruct (stage_res y (join_comps cs)) as [ry|] eqn:Ey; try reflexivity.
    exfalso. unfold index_wf in Hwf. cbn [all_outputs flat_map] in Hwf.
    rewrite app_assoc in Hwf. apply arts_ok_app in Hwf as (Hxy & _ & _).
    exact (stage_res_unique y x cs ry rx Hg Hxy Ey Ex).
  - rewrite (IH2 (index_wf_perm _ _ Hp1 Hwf)). exact (IH1 Hwf).
Qed.

Print Assumptions find_owner_unique.

(* ================================================================================== *)
(* 6. Byte-string order, ins_sorted, sorted indexes, the invariant over operation lists *)
(* ================================================================================== *)

Lemma beqb_sym a b : beqb a b = beqb b a.
Proof.
  destruct (beqb a b) eqn:E1, (beqb b a) eqn:E2; try reflexivity.
  - apply beqb_eq in E1. subst. rewrite beqb_refl in E2. discriminate.
  - apply beqb_eq in E2. subst. rewrite beqb_refl in E1. discriminate.
Qed.

Lemma bltb_irrefl a : bltb a a = false.
Proof.
  induction a as [|x a IH]; [reflexivity|]. cbn [bltb]. rewrite N.ltb_irrefl. exact IH.
Qed.

Lemma bltb_trans a : forall b c, bltb a b = true -> bltb b c = true -> bltb a c = true.
Proof.
  induction a as [|x a IH]; intros [|y b] [|z c]; cbn [bltb]; try discriminate; try reflexivity.
  destruct (N.ltb_spec x y), (N.ltb_spec y x), (N.ltb_spec y z), (N.ltb_spec z y),
    (N.ltb_spec x z), (N.ltb_spec z x); intros Hab Hbc;
    try discriminate; try reflexivity; try lia.
  eapply IH; eassumption.
Qed.

Lemma bltb_total a : forall b, beqb a b = false -> bltb a b = false -> bltb b a = true.
Proof.
  induction a as [|x a IH]; intros [|y b]; cbn [bltb beqb]; try discriminate; try reflexivity.
  destruct (N.ltb_spec x y), (N.ltb_spec y x), (N.eqb_spec x y); intros Hab Hbc;
    try discriminate; try reflexivity; try lia.
Qed.

Lemma bltb_asym a b : bltb a b = true -> bltb b a = false.
Proof.
  intro H. destruct (bltb b a) eqn:E; [|reflexivity].
  pose proof (bltb_trans _ _ _ H E) as Hc. rewrite bltb_irrefl in Hc. discriminate.
Qed.

Lemma bltb_neq a b : bltb a b = true -> beqb a b = false.
Proof.
  intro H. destruct (beqb a b) eqn:E; [|reflexivity].
  apply beqb_eq in E. subst. rewrite bltb_irrefl in H. discriminate.
Qed.

(* contradiction search among order facts on a few keys *)
Ltac ord_contra :=
  exfalso;
  repeat match goal with
  | H : beqb ?a ?b = true |- _ => apply beqb_eq in H; subst
  end;
  repeat match goal with
  | H : beqb ?a ?a = false |- _ => rewrite beqb_refl in H; discriminate
  | H : bltb ?a ?a = true |- _ => rewrite bltb_irrefl in H; discriminate
  | H1 : beqb ?a ?b = false, H2 : bltb ?a ?b = false |- _ =>
      lazymatch goal with
      | _ : bltb b a = true |- _ => fail
      | _ => pose proof (bltb_total a b H1 H2)
      end
  | H1 : beqb ?b ?a = false, H2 : bltb ?a ?b = false |- _ =>
      lazymatch goal with
      | _ : bltb b a = true |- _ => fail
      | _ => let H' := fresh in
             assert (H' : beqb a b = false) by (rewrite beqb_sym; exact H1);
             pose proof (bltb_total a b H' H2)
      end
  | H1 : bltb ?a ?b = true, H2 : bltb ?b ?c = true |- _ =>
      lazymatch goal with
      | _ : bltb a c = true |- _ => fail
      | _ => pose proof (bltb_trans a b c H1 H2)
      end
  end;
  congruence.

Ltac ins_cases :=
  repeat (cbn [ins_sorted];
    match goal with
    | |- context [if beqb ?a ?b then _ else _] => destruct (beqb a b) eqn:?
    | |- context [if bltb ?a ?b then _ else _] => destruct (bltb a b) eqn:?
    end);
  cbn [ins_sorted].

(* insertions of distinct keys commute (on any association list) *)
Theorem ins_sorted_comm {A} k1 k2 (v1 v2 : A) l : beqb k1 k2 = false ->
  ins_sorted k1 v1 (ins_sorted k2 v2 l) = ins_sorted k2 v2 (ins_sorted k1 v1 l).
Proof.
  intro Hne. induction l as [|[k' v'] r IH].
  - ins_cases; first [reflexivity|ord_contra].
  - ins_cases; first [reflexivity|rewrite IH; reflexivity|ord_contra].
Qed.

Lemma alookup_ins_sorted {A} k k' (v : A) l :
  alookup k (ins_sorted k' v l) = if beqb k k' then Some v else alookup k l.
Proof.
  induction l as [|[k2 v2] r IH].
  - cbn [ins_sorted alookup]. reflexivity.
  - cbn [ins_sorted alookup].
    destruct (beqb k' k2) eqn:E1.
    + cbn [alookup]. destruct (beqb k k') eqn:E2; [reflexivity|].
      destruct (beqb k k2) eqn:E3; [ord_contra|reflexivity].
    + destruct (bltb k' k2) eqn:E4.
      * cbn [alookup]. reflexivity.
      * cbn [alookup]. rewrite IH. destruct (beqb k k2) eqn:E3; [|reflexivity].
        destruct (beqb k k') eqn:E2; [ord_contra|reflexivity].
Qed.

Lemma in_ins_sorted {A} k (v : A) l e :
  In e (ins_sorted k v l) -> e = (k, v) \/ In e l.
Proof.
  induction l as [|[k2 v2] r IH]; cbn [ins_sorted].
  - intros [<-|[]]. left. reflexivity.
  - destruct (beqb k k2).
    + intros [<-|Hin]; [left; reflexivity|right; right; exact Hin].
    + destruct (bltb k k2).
      * intros [<-|Hin]; [left; reflexivity|right; exact Hin].
      * intros [<-|Hin]; [right; left; reflexivity|].
        destruct (IH Hin) as [->|Hin']; [left; reflexivity|right; right; exact Hin'].
Qed.

Definition key_lt {A} (a b : bytes * A) : Prop := bltb (fst a) (fst b) = true.
(* strictly sorted by stage path: what Index.ToFile writes *)
Definition sorted_keys {A} (l : list (bytes * A)) : Prop := pairwise key_lt l.

Lemma ins_sorted_sorted {A} k (v : A) l :
  sorted_keys l -> alookup k l = None -> sorted_keys (ins_sorted k v l).
Proof.
  induction l as [|[k2 v2] r IH]; intros Hs Hl.
  - cbn [ins_sorted]. split; [constructor|exact I].
  - destruct Hs as [F P]. cbn [alookup] in Hl. cbn [ins_sorted].
    destruct (beqb k k2) eqn:E1; [discriminate|].
    destruct (bltb k k2) eqn:E2.
    + split; [|split; assumption]. constructor; [exact E2|].
      eapply Forall_impl; [|exact F]. intros e He. unfold key_lt in *. cbn [fst] in *.
      exact (bltb_trans _ _ _ E2 He).
    + split; [|exact (IH P Hl)]. apply Forall_forall. intros e He.
      apply in_ins_sorted in He as [->|He].
      * unfold key_lt. cbn [fst]. apply bltb_total; [exact E1|exact E2].
      * rewrite Forall_forall in F. exact (F e He).
Qed.

Lemma aremove_incl {A} k (l : list (bytes * A)) e : In e (aremove k l) -> In e l.
Proof.
  induction l as [|[k2 v2] r IH]; [intros []|]. cbn [aremove]. destruct (beqb k k2).
  - intro H. right. exact (IH H).
  - intros [<-|H]; [left; reflexivity|right; exact (IH H)].
Qed.

Lemma aremove_sorted {A} k (l : list (bytes * A)) : sorted_keys l -> sorted_keys (aremove k l).
Proof.
  induction l as [|[k2 v2] r IH]; intro Hs; [exact Hs|]. destruct Hs as [F P].
  cbn [aremove]. destruct (beqb k k2); [exact (IH P)|].
  split; [|exact (IH P)]. apply Forall_forall. intros e He.
  rewrite Forall_forall in F. apply F. eapply aremove_incl. exact He.
Qed.

Lemma ins_sorted_last {A} k (v : A) l :
  Forall (fun e => bltb (fst e) k = true) l -> ins_sorted k v l = l ++ [(k, v)].
Proof.
  induction l as [|[k2 v2] r IH]; intro F; [reflexivity|].
  inversion F as [|? ? Hlt F']; subst. cbn [fst] in Hlt. cbn [ins_sorted app].
  rewrite beqb_sym, (bltb_neq _ _ Hlt), (bltb_asym _ _ Hlt). rewrite (IH F'). reflexivity.
Qed.

(* ---- operation lists ---- *)
Inductive op := OpAdd (path : bytes) (s : stage) | OpRemove (path : bytes).

Definition apply_op (idx : index) (o : op) : option index :=
  match o with
  | OpAdd p s => add_stage idx p s
  | OpRemove p => remove_stage idx p
  end.

(* a rejected operation leaves the index as it was (the tool exits with an error) *)
Definition step_op (idx : index) (o : op) : index :=
  match apply_op idx o with Some idx' => idx' | None => idx end.

Definition exec_ops (idx : index) (ops : list op) : index := fold_left step_op ops idx.

(* the stages handed to AddStage come out of stage.FromFile, i.e. passed Validate: their own
   outputs are good and pairwise non-overlapping (validate_intra_stage below) *)
Definition op_ok (o : op) : Prop :=
  match o with OpAdd _ s => arts_ok (s_outputs s) | OpRemove _ => True end.

Definition index_inv (idx : index) : Prop := index_wf idx /\ sorted_keys idx.

Lemma apply_op_inv idx o idx' : index_inv idx -> op_ok o -> apply_op idx o = Some idx' -> index_inv idx'.
Proof.
  intros [Hwf Hs] Hok Ha. destruct o as [p s|p]; cbn [apply_op op_ok] in *.
  - split; [exact (add_stage_preserves_wf _ _ _ _ Hwf Hok Ha)|].
    apply (add_stage_some_iff idx p s idx' Hwf Hok) in Ha as (Hl & -> & _).
    apply ins_sorted_sorted; assumption.
  - split; [exact (remove_stage_preserves_wf _ _ _ Hwf Ha)|].
    unfold remove_stage in Ha. destruct (alookup p idx); [|discriminate].
    injection Ha as <-. apply aremove_sorted. exact Hs.
Qed.

Lemma exec_ops_inv ops : forall idx, index_inv idx -> Forall op_ok ops -> index_inv (exec_ops idx ops).
Proof.
  induction ops as [|o ops IH]; intros idx Hinv Hok; [exact Hinv|].
  inversion Hok as [|? ? Ho Hok']; subst. cbn [exec_ops fold_left].
  apply IH; [|exact Hok']. unfold step_op.
  destruct (apply_op idx o) as [idx'|] eqn:Ea; [|exact Hinv].
  exact (apply_op_inv idx o idx' Hinv Ho Ea).
Qed.

(* C10, the invariant: every index reachable from the empty one by stage adds and removes
   (accepted or rejected) never holds two overlapping outputs, and is sorted by stage path *)
Theorem C10_invariant ops :
  Forall op_ok ops -> index_wf (exec_ops [] ops) /\ sorted_keys (exec_ops [] ops).
Proof.
  intro Hok. apply exec_ops_inv; [|exact Hok]. split; [exact index_wf_nil|exact I].
Qed.

Print Assumptions ins_sorted_comm.
Print Assumptions C10_invariant.

(* ================================================================================== *)
(* 7. Acceptance does not depend on the order of the adds                              *)
(* ================================================================================== *)

Definition add2 (idx : index) (p1 : bytes) (s1 : stage) (p2 : bytes) (s2 : stage) : option index :=
  match add_stage idx p1 s1 with
  | Some i => add_stage i p2 s2
  | None => None
  end.

Lemma cross_free_sym A B : cross_free A B -> cross_free B A.
Proof. intros H a b Ha Hb Ho. exact (H b a Hb Ha (overlap_sym _ _ Ho)). Qed.

Lemma cross_free_ins path s idx O :
  alookup path idx = None ->
  (cross_free O (all_outputs (ins_sorted path s idx)) <->
   cross_free O (s_outputs s) /\ cross_free O (all_outputs idx)).
Proof.
  intro Hl. pose proof (all_outputs_ins path s idx Hl) as Hp. unfold cross_free. split.
  - intro H. split; intros a b Ha Hb; apply H; try exact Ha;
      apply (Permutation_in b (Permutation_sym Hp)); apply in_or_app; [left|right]; exact Hb.
  - intros [H1 H2] a b Ha Hb. apply (Permutation_in b Hp) in Hb.
    apply in_app_or in Hb as [Hb|Hb]; [exact (H1 a b Ha Hb)|exact (H2 a b Ha Hb)].
Qed.

Lemma add2_some_iff idx p1 s1 p2 s2 i :
  index_wf idx -> arts_ok (s_outputs s1) -> arts_ok (s_outputs s2) ->
  (add2 idx p1 s1 p2 s2 = Some i <->
   alookup p1 idx = None /\ alookup p2 idx = None /\ beqb p2 p1 = false /\
   cross_free (s_outputs s1) (all_outputs idx) /\ cross_free (s_outputs s2) (all_outputs idx) /\
   cross_free (s_outputs s2) (s_outputs s1) /\
   i = ins_sorted p2 s2 (ins_sorted p1 s1 idx)).
Proof.
  intros Hwf H1 H2. unfold add2. destruct (add_stage idx p1 s1) as [i1|] eqn:E1.
  - pose proof (add_stage_preserves_wf _ _ _ _ Hwf H1 E1) as Hwf1.
    apply (add_stage_some_iff idx p1 s1 i1 Hwf H1) in E1 as (L1 & -> & C1).
    rewrite (add_stage_some_iff _ p2 s2 i Hwf1 H2).
    rewrite alookup_ins_sorted. rewrite (cross_free_ins p1 s1 idx _ L1).
    destruct (beqb p2 p1).
    + split; [intros (Hd & _); discriminate|intros (_ & _ & Hd & _); discriminate].
    + tauto.
  - split; [discriminate|]. intros (L1 & _ & _ & C1 & _). exfalso.
    assert (Ha : add_stage idx p1 s1 = Some (ins_sorted p1 s1 idx)).
    { apply (add_stage_some_iff idx p1 s1 _ Hwf H1). split; [exact L1|]. split; [reflexivity|exact C1]. }
    rewrite Ha in E1. discriminate.
Qed.

(* C10, order independence for two stages: same verdict, and the same index when accepted *)
Theorem add_order_independent idx p1 s1 p2 s2 :
  index_wf idx -> arts_ok (s_outputs s1) -> arts_ok (s_outputs s2) ->
  add2 idx p1 s1 p2 s2 = add2 idx p2 s2 p1 s1.
Proof.
  intros Hwf H1 H2.
  assert (Hdir : forall pa sa pb sb i, arts_ok (s_outputs sa) -> arts_ok (s_outputs sb) ->
            add2 idx pa sa pb sb = Some i -> add2 idx pb sb pa sa = Some i).
  { intros pa sa pb sb i Ha Hb Hs.
    apply (add2_some_iff idx pa sa pb sb i Hwf Ha Hb) in Hs as (La & Lb & Hne & Ca & Cb & Cba & ->).
    apply (add2_some_iff idx pb sb pa sa _ Hwf Hb Ha).
    split; [exact Lb|]. split; [exact La|]. split; [rewrite beqb_sym; exact Hne|].
    split; [exact Cb|]. split; [exact Ca|]. split; [apply cross_free_sym; exact Cba|].
    apply ins_sorted_comm. exact Hne. }
  destruct (add2 idx p1 s1 p2 s2) as [i|] eqn:E12.
  - symmetry. exact (Hdir p1 s1 p2 s2 i H1 H2 E12).
  - destruct (add2 idx p2 s2 p1 s1) as [i|] eqn:E21; [|reflexivity].
    rewrite (Hdir p2 s2 p1 s1 i H2 H1 E21) in E12. discriminate.
Qed.

Corollary add_order_accept_iff idx p1 s1 p2 s2 :
  index_wf idx -> arts_ok (s_outputs s1) -> arts_ok (s_outputs s2) ->
  (add2 idx p1 s1 p2 s2 <> None <-> add2 idx p2 s2 p1 s1 <> None).
Proof. intros Hwf H1 H2. rewrite (add_order_independent idx p1 s1 p2 s2 Hwf H1 H2). tauto. Qed.

(* any number of stages, any permutation *)
Fixpoint add_all (idx : index) (l : list (bytes * stage)) : option index :=
  match l with
  | [] => Some idx
  | e :: r => match add_stage idx (fst e) (snd e) with
              | Some i => add_all i r
              | None => None
              end
  end.

Definition entry_ok (e : bytes * stage) : Prop := arts_ok (s_outputs (snd e)).

Theorem add_all_perm l l' :
  Permutation l l' -> forall idx, index_wf idx -> Forall entry_ok l ->
  add_all idx l = add_all idx l'.
Proof.
  intro Hp. induction Hp as [|e l l' Hp IH|x y l|l l' l'' Hp1 IH1 Hp2 IH2]; intros idx Hwf Hok.
  - reflexivity.
  - inversion Hok as [|? ? He Hok']; subst. cbn [add_all].
    destruct (add_stage idx (fst e) (snd e)) as [i|] eqn:Ea; [|reflexivity].
    apply IH; [|exact Hok']. exact (add_stage_preserves_wf _ _ _ _ Hwf He Ea).
  - inversion Hok as [|? ? Hy Hok']; subst. inversion Hok' as [|? ? Hx Hok'']; subst.
    cbn [add_all].
    pose proof (add_order_independent idx (fst y) (snd y) (fst x) (snd x) Hwf Hy Hx) as Hc.
    unfold add2 in Hc.
    destruct (add_stage idx (fst y) (snd y)) as [iy|]; destruct (add_stage idx (fst x) (snd x)) as [ix|].
    + rewrite Hc. reflexivity.
    + rewrite Hc. reflexivity.
    + rewrite <- Hc. reflexivity.
    + reflexivity.
  - rewrite (IH1 idx Hwf Hok). apply IH2; [exact Hwf|].
    apply Forall_forall. intros e He. rewrite Forall_forall in Hok. apply Hok.
    apply (Permutation_in e (Permutation_sym Hp1)). exact He.
Qed.

Print Assumptions add_order_independent.
Print Assumptions add_all_perm.

(* ================================================================================== *)
(* 8. The sorted index file written after a successful add loads again                 *)
(* ================================================================================== *)

Lemma all_outputs_app a b : all_outputs (a ++ b) = all_outputs a ++ all_outputs b.
Proof. unfold all_outputs. apply flat_map_app. Qed.

Lemma alookup_none_lt {A} k (l : list (bytes * A)) :
  Forall (fun e => bltb (fst e) k = true) l -> alookup k l = None.
Proof.
  induction l as [|[k2 v2] r IH]; intro F; [reflexivity|].
  inversion F as [|? ? Hlt F']; subst. cbn [fst] in Hlt. cbn [alookup].
  rewrite beqb_sym, (bltb_neq _ _ Hlt). exact (IH F').
Qed.

Definition file_of (e : bytes * stage) : bytes * option stage := (fst e, Some (snd e)).

Lemma alookup_files idx k s :
  sorted_keys idx -> In (k, s) idx -> alookup k (map file_of idx) = Some (Some s).
Proof.
  induction idx as [|[k0 s0] r IH]; intros Hs Hin; [contradiction|].
  destruct Hs as [F P]. cbn [map file_of fst snd alookup].
  destruct (beqb k k0) eqn:E.
  - apply beqb_eq in E. subst k0. destruct Hin as [Heq|Hin].
    + injection Heq as ->. reflexivity.
    + exfalso. rewrite Forall_forall in F. specialize (F _ Hin). unfold key_lt in F.
      cbn [fst] in F. rewrite bltb_irrefl in F. discriminate.
  - destruct Hin as [Heq|Hin].
    + injection Heq as -> _. rewrite beqb_refl in E. discriminate.
    + exact (IH P Hin).
Qed.

Lemma load_index_prefix idx :
  index_wf idx -> sorted_keys idx ->
  Forall (fun e => validate (fst e) (snd e) = true) idx ->
  forall todo done, idx = done ++ todo ->
  load_index (map fst todo) (map file_of idx) done = Some idx.
Proof.
  intros Hwf Hs Hv todo. induction todo as [|[k s] r IH]; intros done Hsplit.
  - cbn [map load_index]. rewrite Hsplit, app_nil_r. reflexivity.
  - cbn [map fst load_index].
    assert (Hin : In (k, s) idx) by (rewrite Hsplit; apply in_or_app; right; left; reflexivity).
    rewrite (alookup_files idx k s Hs Hin).
    rewrite Forall_forall in Hv. pose proof (Hv _ Hin) as Hvk. cbn [fst snd] in Hvk. rewrite Hvk.
    assert (Ha : add_stage done k s = Some (done ++ [(k, s)])).
    { unfold index_wf in Hwf. rewrite Hsplit in Hwf. rewrite all_outputs_app in Hwf.
      cbn [all_outputs flat_map] in Hwf. fold (all_outputs r) in Hwf. cbn [snd] in Hwf.
      apply arts_ok_app in Hwf as (Hdone & Hrest & Hcf).
      apply arts_ok_app in Hrest as (Hsok & _ & _).
      unfold sorted_keys in Hs. rewrite Hsplit in Hs. apply pairwise_app in Hs as (_ & _ & Hlt).
      assert (Hall : Forall (fun e => bltb (fst e) k = true) done).
      { apply Forall_forall. intros e He. apply (Hlt e (k, s) He). left. reflexivity. }
      apply (add_stage_some_iff done k s _ Hdone Hsok).
      split; [apply alookup_none_lt; exact Hall|].
      split; [symmetry; apply ins_sorted_last; exact Hall|].
      intros a b Ha Hb Ho. apply (Hcf b a Hb).
      - apply in_or_app. left. exact Ha.
      - apply overlap_sym. exact Ho. }
    rewrite Ha. apply IH. rewrite Hsplit, <- app_assoc. reflexivity.
Qed.

(* index.ToFile writes the sorted stage paths; index.FromFile re-adds them in that order *)
Theorem reload idx :
  index_wf idx -> sorted_keys idx ->
  Forall (fun e => validate (fst e) (snd e) = true) idx ->
  load_index (map fst idx) (map (fun e => (fst e, Some (snd e))) idx) [] = Some idx.
Proof.
  intros Hwf Hs Hv. exact (load_index_prefix idx Hwf Hs Hv idx [] eq_refl).
Qed.

(* ... in particular for every index produced by adds/removes of validated stages *)
Definition op_okv (o : op) : Prop :=
  match o with
  | OpAdd p s => arts_ok (s_outputs s) /\ validate p s = true
  | OpRemove _ => True
  end.

Definition all_valid (idx : index) : Prop := Forall (fun e => validate (fst e) (snd e) = true) idx.

Lemma step_op_valid idx o : op_okv o -> index_inv idx -> all_valid idx -> all_valid (step_op idx o).
Proof.
  intros Hok [Hwf _] Hv. unfold step_op. destruct (apply_op idx o) as [idx'|] eqn:Ea; [|exact Hv].
  destruct o as [p s|p]; cbn [apply_op op_okv] in *.
  - destruct Hok as [Hs Hvs].
    apply (add_stage_some_iff idx p s idx' Hwf Hs) in Ea as (_ & -> & _).
    apply Forall_forall. intros e He. apply in_ins_sorted in He as [->|He].
    + exact Hvs.
    + unfold all_valid in Hv. rewrite Forall_forall in Hv. exact (Hv e He).
  - unfold remove_stage in Ea. destruct (alookup p idx); [|discriminate]. injection Ea as <-.
    apply Forall_forall. intros e He. unfold all_valid in Hv. rewrite Forall_forall in Hv.
    apply Hv. eapply aremove_incl. exact He.
Qed.

Lemma op_okv_ok o : op_okv o -> op_ok o.
Proof. destruct o as [p s|p]; [intros [H _]; exact H|intros _; exact I]. Qed.

Lemma exec_ops_valid ops : forall idx, index_inv idx -> all_valid idx -> Forall op_okv ops ->
  index_inv (exec_ops idx ops) /\ all_valid (exec_ops idx ops).
Proof.
  induction ops as [|o ops IH]; intros idx Hinv Hv Hok; [split; assumption|].
  inversion Hok as [|? ? Ho Hok']; subst. cbn [exec_ops fold_left].
  apply IH; [| |exact Hok'].
  - unfold step_op. destruct (apply_op idx o) as [idx'|] eqn:Ea; [|exact Hinv].
    exact (apply_op_inv idx o idx' Hinv (op_okv_ok _ Ho) Ea).
  - exact (step_op_valid idx o Ho Hinv Hv).
Qed.

Theorem reload_reachable ops :
  Forall op_okv ops ->
  let idx := exec_ops [] ops in
  load_index (map fst idx) (map (fun e => (fst e, Some (snd e))) idx) [] = Some idx.
Proof.
  intros Hok idx.
  destruct (exec_ops_valid ops [] (conj index_wf_nil I) (Forall_nil _) Hok) as [[Hwf Hs] Hv].
  exact (reload idx Hwf Hs Hv).
Qed.

Print Assumptions reload.
Print Assumptions reload_reachable.

(* ================================================================================== *)
(* 9. Stage.Validate and overlaps inside one stage                                     *)
(* ================================================================================== *)

Lemma cdd_cons2 x y l :
  contains_dotdot (x :: y :: l) = ((x =? dot) && (y =? dot)) || contains_dotdot (y :: l).
Proof. reflexivity. Qed.

Lemma cdd_app_slash a b :
  contains_dotdot (a ++ slash :: b) = contains_dotdot a || contains_dotdot b.
Proof.
  induction a as [|x a IH].
  - cbn [app]. destruct b as [|y b]; [reflexivity|]. rewrite cdd_cons2.
    change (slash =? dot) with false. reflexivity.
  - destruct a as [|y a].
    + cbn [app] in *. rewrite cdd_cons2. change (slash =? dot) with false.
      rewrite andb_false_r, IH. reflexivity.
    + change ((x :: y :: a) ++ slash :: b) with (x :: y :: (a ++ slash :: b)).
      rewrite !cdd_cons2. change (y :: a ++ slash :: b) with ((y :: a) ++ slash :: b).
      rewrite IH. rewrite orb_assoc. reflexivity.
Qed.

Lemma cdd_join cs : Forall good_comp cs -> contains_dotdot (join_comps cs) = false.
Proof.
  induction cs as [|c cs IH]; intro Hf; [reflexivity|].
  inversion Hf as [|? ? [_ Hc] Hf']; subst. destruct cs as [|c' cs].
  - rewrite join_comps_single. exact Hc.
  - rewrite join_comps_cons2, cdd_app_slash, Hc. cbn [orb]. apply IH. exact Hf'.
Qed.

Lemma good_path_checks p : good_path p -> contains_dotdot p = false /\ is_abs p = false.
Proof.
  intros (cs & Hg & ->). split; [apply cdd_join; exact (proj2 Hg)|].
  destruct (good_comps_okc _ Hg) as [Hne Hok].
  destruct (join_okc_head cs Hne Hok) as (x & t & -> & Hx). cbn [is_abs]. apply N.eqb_neq. exact Hx.
Qed.

Lemma NoDup_app_intro {A} (a b : list A) :
  NoDup a -> NoDup b -> (forall x, In x a -> ~ In x b) -> NoDup (a ++ b).
Proof.
  induction a as [|x a IH]; intros Ha Hb Hd; [exact Hb|].
  inversion Ha as [|? ? Hx Ha']; subst. cbn [app]. constructor.
  - intro Hin. apply in_app_or in Hin as [Hin|Hin]; [exact (Hx Hin)|].
    exact (Hd x (or_introl eq_refl) Hin).
  - apply IH; [exact Ha'|exact Hb|]. intros y Hy. apply Hd. right. exact Hy.
Qed.

Lemma inside_irrefl cs n : ~ inside cs cs n.
Proof.
  intros [(t & Ht & Heq) _]. apply (f_equal (@length bytes)) in Heq. rewrite app_length in Heq.
  destruct t; [contradiction|]. cbn [length] in Heq. lia.
Qed.

Lemma pairwise_in {A} (R : A -> A -> Prop) l a b :
  (forall x y, R x y -> R y x) -> pairwise R l -> In a l -> In b l -> a = b \/ R a b.
Proof.
  intros Hsym. induction l as [|x l IH]; intros Hpw Ha Hb; [contradiction|].
  destruct Hpw as [F P]. rewrite Forall_forall in F.
  destruct Ha as [<-|Ha], Hb as [<-|Hb].
  - left. reflexivity.
  - right. exact (F b Hb).
  - right. apply Hsym. exact (F a Ha).
  - exact (IH P Ha Hb).
Qed.

Lemma no_owner_pairwise l :
  NoDup (map a_path l) -> Forall good_art l ->
  (forall a q, In a l -> In q l -> ~ owns q a) -> pairwise no_overlap l.
Proof.
  induction l as [|x l IH]; intros Hnd Hg Hno; [exact I|].
  cbn [map] in Hnd. inversion Hnd as [|? ? Hx Hnd']; subst.
  inversion Hg as [|? ? Hgx Hg']; subst.
  split.
  - apply Forall_forall. intros y Hy [Heq|[Ho|Ho]].
    + apply Hx. rewrite Forall_forall in Hg'.
      rewrite (proj2 (good_art_comps_eq x y Hgx (Hg' y Hy)) Heq). apply in_map. exact Hy.
    + exact (Hno x y (or_introl eq_refl) (or_intror Hy) Ho).
    + exact (Hno y x (or_intror Hy) (or_introl eq_refl) Ho).
  - apply IH; [exact Hnd'|exact Hg'|]. intros a q Ha Hq. apply Hno; right; assumption.
Qed.

(* Validate, taken apart *)
Lemma validate_unfold p s :
  validate p s = true ->
  contains_dotdot (s_wd s) = false /\ is_abs (s_wd s) = false /\
  (forall o, In o (s_outputs s) -> a_path o <> p /\ art_lookup (a_path o) (s_inputs s) = None) /\
  (forall i, In i (s_inputs s) -> a_path i <> p) /\
  (forall a, In a (s_outputs s ++ s_inputs s) ->
     contains_dotdot (a_path a) = false /\ is_abs (a_path a) = false /\
     find_dir_owner (a_path a) (s_outputs s ++ s_inputs s) = None).
Proof.
  unfold validate. intro H.
  apply andb_true_iff in H as [H H7]. apply andb_true_iff in H as [H H6].
  apply andb_true_iff in H as [H H5]. apply andb_true_iff in H as [H H4].
  apply andb_true_iff in H as [H H3]. apply andb_true_iff in H as [H1 H2].
  split; [apply negb_true_iff; exact H1|]. split; [apply negb_true_iff; exact H2|].
  split; [|split].
  - intros o Ho. rewrite forallb_forall in H5. specialize (H5 o Ho).
    apply andb_true_iff in H5 as [Ha Hb]. split.
    + intro Heq. rewrite Heq, beqb_refl in Ha. discriminate.
    + apply opt_none_true. exact Hb.
  - intros i Hi Heq. rewrite forallb_forall in H6. specialize (H6 i Hi).
    rewrite Heq, beqb_refl in H6. discriminate.
  - intros a Ha. cbv zeta in H7. rewrite forallb_forall in H7. specialize (H7 a Ha).
    apply andb_true_iff in H7 as [H7 Hc]. apply andb_true_iff in H7 as [Ha1 Ha2].
    split; [apply negb_true_iff; exact Ha1|]. split; [apply negb_true_iff; exact Ha2|].
    apply opt_none_true. exact Hc.
Qed.

(* C10, inside one stage: a stage that passes Validate lists no artifact (input or output)
   equal to or inside another of its artifacts.  Outputs and Inputs are Go maps keyed by path,
   hence the two NoDup hypotheses. *)
Theorem validate_intra_stage p s :
  Forall good_art (s_outputs s ++ s_inputs s) ->
  NoDup (map a_path (s_outputs s)) -> NoDup (map a_path (s_inputs s)) ->
  validate p s = true ->
  pairwise no_overlap (s_outputs s ++ s_inputs s).
Proof.
  intros Hg Hndo Hndi Hv. apply validate_unfold in Hv as (_ & _ & Hout & _ & Hall).
  assert (Hnd : NoDup (map a_path (s_outputs s ++ s_inputs s))).
  { rewrite map_app. apply NoDup_app_intro; [exact Hndo|exact Hndi|].
    intros x Hx Hx'. apply in_map_iff in Hx as (o & <- & Ho). apply in_map_iff in Hx' as (i & Heq & Hi).
    destruct (Hout o Ho) as [_ Hl]. exact (art_lookup_none _ _ Hl i Hi Heq). }
  apply no_owner_pairwise; [exact Hnd|exact Hg|].
  intros a q Ha Hq Ho. destruct (Hall a Ha) as (_ & _ & Hf).
  rewrite Forall_forall in Hg. destruct (good_art_path a (Hg a Ha)) as [Hga Hpa]. rewrite Hpa in Hf.
  apply (find_dir_owner_complete _ _ q Hga) in Hf; try assumption.
  apply Forall_forall. exact Hg.
Qed.

Corollary validate_intra_stage_io p s :
  Forall good_art (s_outputs s ++ s_inputs s) ->
  NoDup (map a_path (s_outputs s)) -> NoDup (map a_path (s_inputs s)) ->
  validate p s = true ->
  pairwise no_overlap (s_inputs s ++ s_outputs s) /\ arts_ok (s_outputs s).
Proof.
  intros Hg Hndo Hndi Hv. pose proof (validate_intra_stage p s Hg Hndo Hndi Hv) as Hpw.
  split.
  - exact (pairwise_perm _ _ _ no_overlap_sym (Permutation_app_comm _ _) Hpw).
  - apply Forall_app in Hg as [Hgo _]. apply pairwise_app in Hpw as (Hpo & _ & _).
    split; assumption.
Qed.

(* ... and Validate rejects nothing else: with the documented side conditions, a stage whose
   artifacts have good paths and do not overlap passes.  (That no path is both an input and an
   output is part of non-overlap.) *)
Theorem validate_complete p s :
  contains_dotdot (s_wd s) = false -> is_abs (s_wd s) = false ->
  (s_inputs s <> [] \/ s_outputs s <> []) ->
  (s_outputs s <> [] \/ s_cmd s <> []) ->
  (forall a, In a (s_outputs s ++ s_inputs s) -> a_path a <> p) ->
  arts_ok (s_outputs s ++ s_inputs s) ->
  validate p s = true.
Proof.
  intros Hwd1 Hwd2 Hio Hoc Hself Hok.
  pose proof (arts_ok_nodup _ Hok) as Hnd. destruct Hok as [Hg Hpw].
  unfold validate. rewrite Hwd1, Hwd2. cbn [negb andb].
  assert (H3 : negb (match s_inputs s, s_outputs s with [], [] => true | _, _ => false end) = true).
  { destruct (s_inputs s), (s_outputs s); try reflexivity. destruct Hio as [H|H]; contradiction. }
  assert (H4 : negb (match s_outputs s, s_cmd s with [], [] => true | _, _ => false end) = true).
  { destruct (s_outputs s), (s_cmd s); try reflexivity. destruct Hoc as [H|H]; contradiction. }
  rewrite H3, H4. cbn [andb].
  apply andb_true_iff. split; [apply andb_true_iff; split|].
  - apply forallb_forall. intros o Ho. apply andb_true_iff. split.
    + apply negb_true_iff. destruct (beqb (a_path o) p) eqn:E; [|reflexivity].
      apply beqb_eq in E. exfalso. apply (Hself o); [apply in_or_app; left; exact Ho|exact E].
    + apply opt_none_true. apply art_lookup_none_intro. intros i Hi Heq.
      apply pairwise_app in Hpw as (_ & _ & Hcross). apply (Hcross o i Ho Hi).
      left. unfold comps_of. rewrite Heq. reflexivity.
  - apply forallb_forall. intros i Hi. apply negb_true_iff.
    destruct (beqb (a_path i) p) eqn:E; [|reflexivity].
    apply beqb_eq in E. exfalso. apply (Hself i); [apply in_or_app; right; exact Hi|exact E].
  - cbv zeta. apply forallb_forall. intros a Ha.
    pose proof Hg as Hg'. rewrite Forall_forall in Hg'.
    destruct (good_path_checks _ (Hg' a Ha)) as [Hc1 Hc2]. rewrite Hc1, Hc2. cbn [negb andb].
    apply opt_none_true. destruct (good_art_path a (Hg' a Ha)) as [Hga Hpa]. rewrite Hpa.
    apply (find_dir_owner_none_iff _ _ Hga Hg Hnd). intros q Hq Hi.
    destruct (pairwise_in _ _ a q no_overlap_sym Hpw Ha Hq) as [<-|Hno].
    + exact (inside_irrefl _ _ Hi).
    + apply Hno. right. left. exact Hi.
Qed.

Print Assumptions validate_intra_stage.
Print Assumptions validate_intra_stage_io.
Print Assumptions validate_complete.

(* a stage read by stage.FromFile (paths Cleaned, Validate passed) is an admissible operand *)
Lemma op_okv_of_validate p s :
  Forall good_art (s_outputs s ++ s_inputs s) ->
  NoDup (map a_path (s_outputs s)) -> NoDup (map a_path (s_inputs s)) ->
  validate p s = true -> op_okv (OpAdd p s).
Proof.
  intros Hg Hndo Hndi Hv. split; [|exact Hv].
  exact (proj2 (validate_intra_stage_io p s Hg Hndo Hndi Hv)).
Qed.

Print Assumptions op_okv_of_validate.

(* ================================================================================== *)
(* 10. Examples (the two repaired defects, computed on the model)                      *)
(* ================================================================================== *)

Definition art (p : string) (isdir norec : bool) : artifact := mkArt [] (of_string p) isdir norec false.
Definition stg (outs : list artifact) : stage := mkStage [] (of_string "true") (of_string ".") [] outs.

(* "a/b/c.txt" is owned by the directory artifact "a/b" (any depth, not just one component) *)
Example ex_owned_deep :
  find_dir_owner (of_string "a/b/c.txt") [art "a/b" true false] = Some (art "a/b" true false).
Proof. vm_compute. reflexivity. Qed.

(* "x/b/y.txt" is NOT owned by the directory artifact "b" *)
Example ex_not_owned_by_basename :
  find_dir_owner (of_string "x/b/y.txt") [art "b" true false] = None.
Proof. vm_compute. reflexivity. Qed.

(* disable-recursion: only the immediate parent owns *)
Example ex_norec_parent :
  find_dir_owner (of_string "a/c.txt") [art "a" true true] = Some (art "a" true true).
Proof. vm_compute. reflexivity. Qed.
Example ex_norec_deeper :
  find_dir_owner (of_string "a/b/c.txt") [art "a" true true] = None.
Proof. vm_compute. reflexivity. Qed.

(* the code never looks at is-dir: a FILE artifact at an ancestor path owns, too *)
Example ex_isdir_ignored :
  find_dir_owner (of_string "a/b/c.txt") [art "a/b" false false] = Some (art "a/b" false false).
Proof. vm_compute. reflexivity. Qed.

(* a single-component path has no owner: Dir is ".", and "." is looked up *)
Example ex_single_component :
  find_dir_owner (of_string "a") [art "a" true false; art "b" true false] = None.
Proof. vm_compute. reflexivity. Qed.

Definition s_file := stg [art "foo/bar.txt" false false].
Definition s_dir := stg [art "foo" true false].
Definition p_file := of_string "file.yaml".
Definition p_dir := of_string "dir.yaml".

(* {foo/bar.txt} then {foo (dir)}: rejected; and so is the reverse order *)
Example ex_file_then_dir : add2 [] p_file s_file p_dir s_dir = None.
Proof. vm_compute. reflexivity. Qed.
Example ex_dir_then_file : add2 [] p_dir s_dir p_file s_file = None.
Proof. vm_compute. reflexivity. Qed.
(* each alone is fine *)
Example ex_file_alone : add_stage [] p_file s_file <> None.
Proof. vm_compute. discriminate. Qed.
Example ex_dir_alone : add_stage [] p_dir s_dir <> None.
Proof. vm_compute. discriminate. Qed.

(* two unrelated stages: accepted in both orders with the same (sorted) index, which reloads *)
Definition s_other := stg [art "x/b/y.txt" false false; art "b" true false].
Definition p_other := of_string "other.yaml".
Example ex_commute : add2 [] p_file s_file p_other s_other = add2 [] p_other s_other p_file s_file
                     /\ add2 [] p_file s_file p_other s_other <> None.
Proof. vm_compute. split; [reflexivity|discriminate]. Qed.
Example ex_reload :
  match add2 [] p_other s_other p_file s_file with
  | Some idx => load_index (map fst idx) (map (fun e => (fst e, Some (snd e))) idx) [] = Some idx
  | None => False
  end.
Proof. vm_compute. reflexivity. Qed.

(* Validate: "a/b" next to "a/b/c.txt" in one stage is rejected, "b" next to "x/b/y.txt" is not *)
Example ex_validate_reject :
  validate p_file (stg [art "a/b" true false; art "a/b/c.txt" false false]) = false.
Proof. vm_compute. reflexivity. Qed.
Example ex_validate_accept : validate p_other s_other = true.
Proof. vm_compute. reflexivity. Qed.
