(* Property C10: path ownership.
   Subject: stage.FindDirArtifactOwnerForPath / Stage.Validate (src/stage/stage.go) and
   Index.AddStage / findOwner / FromFile / ToFile (src/index/index.go), as modelled in
   Model/Stage.v over Base/GoPath.v.  Everything is stated at the level of component lists. *)
From Coq Require Import ZArith NArith Lia ZifyBool ZifyN List Bool Permutation String.
From DudV Require Import Base.Bytes Base.Json Base.GoPath Model.Fs Model.Cache Model.Stage.
Import ListNotations.
Local Open Scope N_scope.

(* ================================================================================== *)
(* 0. Components and good paths                                                        *)
(* ================================================================================== *)

Definition noslash (c : bytes) : Prop := ~ In slash c.

(* what the path algebra needs: a component Clean keeps as it is *)
Definition okc (c : bytes) : Prop :=
  c <> [] /\ noslash c /\ c <> [dot] /\ c <> [dot; dot].

(* a good component additionally has no two consecutive '.' bytes: Validate rejects every
   path with strings.Contains(p, "..") *)
Definition good_comp (c : bytes) : Prop := okc c /\ contains_dotdot c = false.

Definition good_comps (cs : list bytes) : Prop := cs <> [] /\ Forall good_comp cs.

Definition good_path (p : bytes) : Prop := exists cs, good_comps cs /\ p = join_comps cs.

Lemma good_okc c : good_comp c -> okc c.
Proof. intros [Hc _]; exact Hc. Qed.

Lemma Forall_good_okc cs : Forall good_comp cs -> Forall okc cs.
Proof. intro Hf. eapply Forall_impl; [|exact Hf]. exact good_okc. Qed.

Lemma okc_noslash c : okc c -> noslash c.
Proof. intros (_ & Hn & _); exact Hn. Qed.

Lemma Forall_okc_noslash cs : Forall okc cs -> Forall noslash cs.
Proof. intro Hf. eapply Forall_impl; [|exact Hf]. exact okc_noslash. Qed.

Lemma eqb_slash_false x c : noslash (x :: c) -> (x =? slash) = false.
Proof.
  intro Hn. apply N.eqb_neq. intro Heq. apply Hn. left. exact Heq.
Qed.

Lemma noslash_tail x c : noslash (x :: c) -> noslash c.
Proof. intros Hn Hin. apply Hn. right. exact Hin. Qed.

(* ================================================================================== *)
(* 1. Path lemmas                                                                      *)
(* ================================================================================== *)

Lemma join_comps_cons2 c c' r : join_comps (c :: c' :: r) = c ++ slash :: join_comps (c' :: r).
Proof. reflexivity. Qed.

Lemma join_comps_single c : join_comps [c] = c.
Proof. reflexivity. Qed.

Lemma join_comps_app a b :
  a <> [] -> b <> [] -> join_comps (a ++ b) = join_comps a ++ slash :: join_comps b.
Proof.
  intros Ha Hb. induction a as [|x a IH]; [contradiction|].
  destruct a as [|x' a].
  - destruct b as [|y b]; [contradiction|]. reflexivity.
  - change ((x :: x' :: a) ++ b) with (x :: x' :: (a ++ b)).
    rewrite !join_comps_cons2.
    change (x' :: a ++ b) with ((x' :: a) ++ b).
    rewrite IH by discriminate. rewrite <- app_assoc. reflexivity.
Qed.

Lemma join_head x c r : exists t, join_comps ((x :: c) :: r) = x :: t.
Proof. destruct r as [|c' r]; eexists; [reflexivity|rewrite join_comps_cons2; reflexivity]. Qed.

Lemma split_aux_noslash c : forall cur, noslash c -> split_aux c cur = [rev cur ++ c].
Proof.
  induction c as [|x c IH]; intros cur Hn.
  - cbn [split_aux]. rewrite app_nil_r. reflexivity.
  - cbn [split_aux]. rewrite (eqb_slash_false _ _ Hn).
    rewrite IH by (eapply noslash_tail; exact Hn).
    cbn [rev]. rewrite <- app_assoc. reflexivity.
Qed.

Lemma split_aux_app c r : forall cur, noslash c ->
  split_aux (c ++ slash :: r) cur = (rev cur ++ c) :: split_aux r [].
Proof.
  induction c as [|x c IH]; intros cur Hn.
  - cbn [app split_aux]. rewrite N.eqb_refl. rewrite app_nil_r. reflexivity.
  - cbn [app split_aux]. rewrite (eqb_slash_false _ _ Hn).
    rewrite IH by (eapply noslash_tail; exact Hn).
    cbn [rev]. rewrite <- app_assoc. reflexivity.
Qed.

(* split is a left inverse of join on slash-free components *)
Lemma split_join_noslash cs : cs <> [] -> Forall noslash cs -> split (join_comps cs) = cs.
Proof.
  intros Hne Hf. unfold split. induction cs as [|c cs IH]; [contradiction|].
  destruct cs as [|c' cs].
  - rewrite join_comps_single. rewrite split_aux_noslash; [reflexivity|].
    inversion Hf; assumption.
  - rewrite join_comps_cons2. inversion Hf as [|? ? Hc Hf']; subst.
    rewrite split_aux_app by exact Hc. cbn [rev app].
    f_equal. apply IH; [discriminate|exact Hf'].
Qed.

Theorem split_join cs : cs <> [] -> Forall okc cs -> split (join_comps cs) = cs.
Proof. intros Hne Hf. apply split_join_noslash; [exact Hne|apply Forall_okc_noslash; exact Hf]. Qed.

Lemma okc_not_empty_dot c : okc c -> is_empty c || is_dot c = false.
Proof.
  intros (Hne & _ & Hd & _). destruct c as [|d [|d2 c]]; [contradiction| |reflexivity].
  cbn [is_empty is_dot orb]. apply N.eqb_neq. intro Heq. apply Hd. rewrite Heq. reflexivity.
Qed.

Lemma okc_not_dotdot c : okc c -> is_dotdot c = false.
Proof.
  intros (_ & _ & _ & Hdd). destruct c as [|d [|d2 [|d3 c]]]; try reflexivity.
  cbn [is_dotdot]. apply andb_false_iff.
  destruct (N.eqb_spec d dot) as [E1|E1]; [|left; reflexivity].
  destruct (N.eqb_spec d2 dot) as [E2|E2]; [|right; reflexivity].
  exfalso. apply Hdd. rewrite E1, E2. reflexivity.
Qed.

Lemma clean_comps_okc a : forall b st, Forall okc a ->
  clean_comps false (a ++ b) st = clean_comps false b (rev a ++ st).
Proof.
  induction a as [|c a IH]; intros b st Hf; [reflexivity|].
  inversion Hf as [|? ? Hc Hf']; subst.
  cbn [app clean_comps]. rewrite (okc_not_empty_dot _ Hc), (okc_not_dotdot _ Hc).
  rewrite IH by exact Hf'. cbn [rev]. rewrite <- app_assoc. reflexivity.
Qed.

Lemma clean_rel s : s <> [] -> is_abs s = false ->
  clean s = match join_comps (clean_comps false (split s) []) with [] => [dot] | o => o end.
Proof.
  intros Hne Habs. destruct s as [|x s]; [contradiction|].
  unfold clean. rewrite Habs. destruct (join_comps (clean_comps false (split (x :: s)) [])); reflexivity.
Qed.

Lemma okc_head c : okc c -> exists x t, c = x :: t /\ x <> slash.
Proof.
  intros (Hne & Hn & _). destruct c as [|x t]; [contradiction|].
  exists x, t. split; [reflexivity|]. intro Heq. apply Hn. left. exact Heq.
Qed.

Lemma join_okc_head cs : cs <> [] -> Forall okc cs ->
  exists x t, join_comps cs = x :: t /\ x <> slash.
Proof.
  intros Hne Hf. destruct cs as [|c cs]; [contradiction|].
  inversion Hf as [|? ? Hc _]; subst.
  destruct (okc_head _ Hc) as (x & t & -> & Hx).
  destruct (join_head x t cs) as (t' & Ht'). exists x, t'. split; assumption.
Qed.

Theorem clean_join cs : cs <> [] -> Forall okc cs -> clean (join_comps cs) = join_comps cs.
Proof.
  intros Hne Hf. destruct (join_okc_head cs Hne Hf) as (x & t & Hj & Hx).
  rewrite clean_rel.
  - rewrite split_join by assumption.
    rewrite <- (app_nil_r cs) at 1. rewrite clean_comps_okc by exact Hf.
    cbn [clean_comps]. rewrite app_nil_r, rev_involutive. rewrite Hj. reflexivity.
  - rewrite Hj. discriminate.
  - rewrite Hj. cbn [is_abs]. apply N.eqb_neq. exact Hx.
Qed.

Lemma last_slash_prefix_noslash c : forall acc cur, noslash c ->
  last_slash_prefix c acc cur = rev acc.
Proof.
  induction c as [|x c IH]; intros acc cur Hn; [reflexivity|].
  cbn [last_slash_prefix]. rewrite (eqb_slash_false _ _ Hn).
  apply IH. eapply noslash_tail; exact Hn.
Qed.

Lemma last_slash_prefix_app s c : forall acc cur, noslash c ->
  last_slash_prefix (s ++ slash :: c) acc cur = rev cur ++ s ++ [slash].
Proof.
  induction s as [|x s IH]; intros acc cur Hn.
  - cbn [app last_slash_prefix]. rewrite N.eqb_refl.
    rewrite last_slash_prefix_noslash by exact Hn. reflexivity.
  - cbn [app last_slash_prefix]. destruct (x =? slash).
    + rewrite IH by exact Hn. cbn [rev]. rewrite <- app_assoc. reflexivity.
    + rewrite IH by exact Hn. cbn [rev]. rewrite <- app_assoc. reflexivity.
Qed.

(* Dir of a single component is "." *)
Theorem dir_join_single c : noslash c -> dir (join_comps [c]) = [dot].
Proof.
  intro Hn. rewrite join_comps_single. unfold dir.
  rewrite last_slash_prefix_noslash by exact Hn. reflexivity.
Qed.

Lemma noslash_nil : noslash [].
Proof. intros []. Qed.

(* Dir drops the last component *)
Theorem dir_join_snoc pre c : pre <> [] -> Forall okc pre -> noslash c ->
  dir (join_comps (pre ++ [c])) = join_comps pre.
Proof.
  intros Hne Hf Hn. rewrite join_comps_app by (assumption || discriminate).
  rewrite join_comps_single. unfold dir.
  rewrite last_slash_prefix_app by exact Hn. cbn [rev app].
  change (join_comps pre ++ [slash]) with (join_comps pre ++ slash :: join_comps [[]]).
  rewrite <- join_comps_app by (assumption || discriminate).
  destruct (join_okc_head pre Hne Hf) as (x & t & Hj & Hx).
  assert (Hj' : join_comps (pre ++ [[]]) = x :: t ++ [slash]).
  { rewrite join_comps_app by (assumption || discriminate). rewrite Hj. reflexivity. }
  unfold bytes in *. rewrite clean_rel.
  - rewrite split_join_noslash.
    + rewrite clean_comps_okc by exact Hf. cbn [clean_comps is_empty orb].
      rewrite app_nil_r, rev_involutive. rewrite Hj. reflexivity.
    + destruct pre; discriminate.
    + apply Forall_app. split; [apply Forall_okc_noslash; exact Hf|].
      constructor; [exact noslash_nil|constructor].
  - rewrite Hj'. discriminate.
  - rewrite Hj'. cbn [is_abs]. apply N.eqb_neq. exact Hx.
Qed.

(* the two cases in one statement *)
Theorem dir_join cs : cs <> [] -> Forall okc cs ->
  dir (join_comps cs) = match removelast cs with [] => [dot] | pre => join_comps pre end.
Proof.
  intros Hne Hf. destruct (exists_last Hne) as (pre & c & ->).
  rewrite removelast_last. apply Forall_app in Hf as [Hpre Hc].
  inversion Hc as [|? ? Hc' _]; subst.
  destruct pre as [|p pre].
  - cbn [app]. apply dir_join_single. apply okc_noslash. exact Hc'.
  - rewrite dir_join_snoc; [reflexivity|discriminate|exact Hpre|apply okc_noslash; exact Hc'].
Qed.

Theorem join2_nil c : okc c -> join2 [] c = c.
Proof.
  intro Hc. destruct (okc_head _ Hc) as (x & t & Hxt & _).
  unfold join2. rewrite Hxt. rewrite <- Hxt.
  rewrite <- (join_comps_single c). apply clean_join; [discriminate|].
  constructor; [exact Hc|constructor].
Qed.

Theorem join2_join pre c : Forall okc pre -> okc c ->
  join2 (join_comps pre) c = join_comps (pre ++ [c]).
Proof.
  intros Hf Hc. destruct pre as [|p pre].
  - cbn [join_comps app]. apply join2_nil. exact Hc.
  - assert (Hne : p :: pre <> []) by discriminate.
    destruct (join_okc_head _ Hne Hf) as (x & t & Hj & _).
    destruct (okc_head _ Hc) as (y & u & Hyu & _).
    assert (Hall : Forall okc ((p :: pre) ++ [c])).
    { apply Forall_app. split; [exact Hf|]. constructor; [exact Hc|constructor]. }
    unfold join2. rewrite Hj. rewrite Hyu. rewrite <- Hj. rewrite <- Hyu.
    rewrite <- (join_comps_single c) at 1.
    rewrite <- join_comps_app by discriminate.
    apply clean_join; [|exact Hall]. discriminate.
Qed.

Theorem join_comps_inj cs ds :
  Forall okc cs -> Forall okc ds -> join_comps cs = join_comps ds -> cs = ds.
Proof.
  intros Hc Hd Heq.
  destruct cs as [|c cs], ds as [|d ds].
  - reflexivity.
  - exfalso. destruct (join_okc_head (d :: ds)) as (x & t & Hj & _); [discriminate|exact Hd|].
    rewrite Hj in Heq. discriminate.
  - exfalso. destruct (join_okc_head (c :: cs)) as (x & t & Hj & _); [discriminate|exact Hc|].
    rewrite Hj in Heq. discriminate.
  - rewrite <- (split_join (c :: cs)) by (discriminate || assumption).
    rewrite <- (split_join (d :: ds)) by (discriminate || assumption).
    rewrite Heq. reflexivity.
Qed.

Print Assumptions split_join.
Print Assumptions clean_join.
Print Assumptions dir_join.
Print Assumptions join2_join.
Print Assumptions join_comps_inj.

(* ================================================================================== *)
(* 2. The reference relation and FindDirArtifactOwnerForPath                           *)
(* ================================================================================== *)

Definition proper_prefix {A} (qs cs : list A) : Prop := exists t, t <> [] /\ cs = qs ++ t.

(* [inside cs qs norec]: the artifact at component list qs (disable-recursion flag norec) owns
   the path cs: qs is a proper ancestor, and the immediate parent when recursion is disabled.
   NOTE (follows the code): FindDirArtifactOwnerForPath never looks at IsDir, so ANY artifact
   recorded at an ancestor path owns the path, whether or not it is marked is-dir.  The
   relation therefore does not mention a_isdir either. *)
Definition inside (cs qs : list bytes) (norec : bool) : Prop :=
  proper_prefix qs cs /\ (norec = false \/ (length qs + 1 = length cs)%nat).

Definition comps_of (a : artifact) : list bytes := split (a_path a).
Definition good_art (a : artifact) : Prop := good_path (a_path a).

(* q owns p *)
Definition owns (q p : artifact) : Prop := inside (comps_of p) (comps_of q) (a_norec q).

Definition overlap (p q : artifact) : Prop :=
  comps_of p = comps_of q \/ owns q p \/ owns p q.

Lemma overlap_sym p q : overlap p q -> overlap q p.
Proof. intros [H|[H|H]]; [left; symmetry; exact H|right; right; exact H|right; left; exact H]. Qed.

Lemma good_comps_okc cs : good_comps cs -> cs <> [] /\ Forall okc cs.
Proof. intros [Hne Hf]. split; [exact Hne|apply Forall_good_okc; exact Hf]. Qed.

Lemma good_art_path a : good_art a -> good_comps (comps_of a) /\ a_path a = join_comps (comps_of a).
Proof.
  intros (cs & Hg & Hp). unfold comps_of. rewrite Hp.
  destruct (good_comps_okc _ Hg) as [Hne Hf].
  rewrite split_join by assumption. split; [exact Hg|reflexivity].
Qed.

Lemma good_art_comps_eq a b : good_art a -> good_art b ->
  (a_path a = a_path b <-> comps_of a = comps_of b).
Proof.
  intros Ha Hb. split; intro Heq.
  - unfold comps_of. rewrite Heq. reflexivity.
  - destruct (good_art_path _ Ha) as [_ ->]. destruct (good_art_path _ Hb) as [_ ->].
    rewrite Heq. reflexivity.
Qed.

Lemma split_dot : split [dot] = [[dot]].
Proof. reflexivity. Qed.

Lemma join2_nil_dot : join2 [] [dot] = [dot].
Proof. reflexivity. Qed.

Lemma good_path_not_dot p : good_path p -> p <> [dot].
Proof.
  intros (cs & Hg & Hp) Heq. destruct (good_comps_okc _ Hg) as [Hne Hf].
  assert (Hs : split p = cs) by (rewrite Hp; apply split_join; assumption).
  rewrite Heq, split_dot in Hs. subst cs.
  inversion Hf as [|? ? (_ & _ & Hd & _) _]; subst. apply Hd. reflexivity.
Qed.

(* ---- art_lookup ---- *)
Lemma art_lookup_some p arts a : art_lookup p arts = Some a -> In a arts /\ a_path a = p.
Proof.
  unfold art_lookup. intro Hf. apply find_some in Hf as [Hin Hb].
  split; [exact Hin|apply beqb_eq; exact Hb].
Qed.

Lemma art_lookup_none p arts : art_lookup p arts = None -> forall a, In a arts -> a_path a <> p.
Proof.
  unfold art_lookup. intros Hf a Hin Heq.
  pose proof (find_none _ _ Hf a Hin) as Hb. cbv beta in Hb.
  rewrite Heq, beqb_refl in Hb. discriminate.
Qed.

Lemma art_lookup_none_intro p arts :
  (forall a, In a arts -> a_path a <> p) -> art_lookup p arts = None.
Proof.
  intro Hall. destruct (art_lookup p arts) as [a|] eqn:E; [|reflexivity].
  apply art_lookup_some in E as [Hin Hp]. exfalso. exact (Hall a Hin Hp).
Qed.

Lemma art_lookup_nodup arts a :
  NoDup (map a_path arts) -> In a arts -> art_lookup (a_path a) arts = Some a.
Proof.
  unfold art_lookup. induction arts as [|b arts IH]; intros Hnd Hin; [contradiction|].
  cbn [map] in Hnd. inversion Hnd as [|? ? Hnotin Hnd']; subst.
  cbn [find]. destruct Hin as [->|Hin].
  - rewrite beqb_refl. reflexivity.
  - destruct (beqb (a_path b) (a_path a)) eqn:E.
    + exfalso. apply beqb_eq in E. apply Hnotin. rewrite E. apply in_map. exact Hin.
    + apply IH; assumption.
Qed.

(* ---- the walk ---- *)
Lemma fdo_walk_sound arts pre q : Forall okc pre ->
  forall rest done, pre = done ++ rest ->
  fdo_walk rest (join_comps done) (join_comps pre) arts = Some q ->
  In q arts /\ exists k1 k2, rest = k1 ++ k2 /\ k1 <> [] /\ a_path q = join_comps (done ++ k1) /\
                             (a_norec q = false \/ k2 = []).
Proof.
  intros Hpre rest. induction rest as [|part r IH]; intros done Hsplit Hw.
  - cbn [fdo_walk] in Hw. discriminate.
  - assert (Hdone : Forall okc done /\ okc part /\ Forall okc r).
    { rewrite Hsplit in Hpre. apply Forall_app in Hpre as [H1 H2].
      inversion H2; subst. repeat split; assumption. }
    destruct Hdone as (Hdone & Hpart & Hr).
    cbn [fdo_walk] in Hw. rewrite (join2_join done part Hdone Hpart) in Hw.
    assert (Hrec : fdo_walk r (join_comps (done ++ [part])) (join_comps pre) arts = Some q ->
                   In q arts /\ exists k1 k2, part :: r = k1 ++ k2 /\ k1 <> [] /\
                     a_path q = join_comps (done ++ k1) /\ (a_norec q = false \/ k2 = [])).
    { intro Hw'. apply IH in Hw'.
      - destruct Hw' as (Hin & k1 & k2 & Hr' & Hk1 & Hp & Hn).
        split; [exact Hin|]. exists (part :: k1), k2.
        split; [rewrite Hr'; reflexivity|]. split; [discriminate|].
        split; [|exact Hn]. rewrite Hp. rewrite <- app_assoc. reflexivity.
      - rewrite Hsplit. rewrite <- app_assoc. reflexivity. }
    destruct (art_lookup (join_comps (done ++ [part])) arts) as [owner|] eqn:El; [|exact (Hrec Hw)].
    destruct (negb (a_norec owner) || beqb (join_comps (done ++ [part])) (join_comps pre)) eqn:Ec;
      [|exact (Hrec Hw)].
    injection Hw as ->. apply art_lookup_some in El as [Hin Hp].
    split; [exact Hin|]. exists [part], r.
    split; [reflexivity|]. split; [discriminate|]. split; [exact Hp|].
    apply orb_true_iff in Ec as [Ec|Ec].
    + left. destruct (a_norec q); [discriminate|reflexivity].
    + right. apply beqb_eq in Ec. rewrite Hsplit in Ec.
      apply join_comps_inj in Ec.
      * apply app_inv_head in Ec. injection Ec as <-. reflexivity.
      * apply Forall_app. split; [exact Hdone|]. constructor; [exact Hpart|constructor].
      * rewrite <- Hsplit. exact Hpre.
Qed.

Lemma fdo_walk_complete arts pre q : Forall okc pre -> NoDup (map a_path arts) -> In q arts ->
  forall rest done k1 k2, pre = done ++ rest -> rest = k1 ++ k2 -> k1 <> [] ->
  a_path q = join_comps (done ++ k1) -> (a_norec q = false \/ k2 = []) ->
  fdo_walk rest (join_comps done) (join_comps pre) arts <> None.
Proof.
  intros Hpre Hnd Hin rest. induction rest as [|part r IH]; intros done k1 k2 Hsplit Hrest Hk1 Hp Hn.
  - destruct k1; [contradiction|discriminate].
  - destruct k1 as [|part' k1]; [contradiction|]. injection Hrest as <- Hr.
    assert (Hdone : Forall okc done /\ okc part).
    { rewrite Hsplit in Hpre. apply Forall_app in Hpre as [H1 H2].
      inversion H2; subst. split; assumption. }
    destruct Hdone as (Hdone & Hpart).
    cbn [fdo_walk]. rewrite (join2_join done part Hdone Hpart).
    destruct k1 as [|part2 k1].
    + rewrite <- Hp. rewrite (art_lookup_nodup arts q Hnd Hin).
      destruct Hn as [Hn|Hn].
      * rewrite Hn. cbn [negb orb]. discriminate.
      * subst k2. cbn [app] in Hr. subst r. rewrite Hsplit, Hp, beqb_refl, orb_true_r. discriminate.
    + assert (Hgo : fdo_walk r (join_comps (done ++ [part])) (join_comps pre) arts <> None).
      { apply (IH (done ++ [part]) (part2 :: k1) k2).
        - rewrite Hsplit. rewrite <- app_assoc. reflexivity.
        - exact Hr.
        - discriminate.
        - rewrite Hp. rewrite <- app_assoc. reflexivity.
        - exact Hn. }
      destruct (art_lookup (join_comps (done ++ [part])) arts) as [owner|]; [|exact Hgo].
      destruct (negb (a_norec owner) || beqb (join_comps (done ++ [part])) (join_comps pre));
        [discriminate|exact Hgo].
Qed.

(* FindDirArtifactOwnerForPath is sound ... *)
Theorem find_dir_owner_sound cs arts q :
  good_comps cs -> Forall good_art arts ->
  find_dir_owner (join_comps cs) arts = Some q ->
  In q arts /\ inside cs (comps_of q) (a_norec q).
Proof.
  intros Hg Harts Hf. destruct (good_comps_okc _ Hg) as [Hne Hok].
  destruct (exists_last Hne) as (pre & c & ->).
  apply Forall_app in Hok as [Hpre Hc]. inversion Hc as [|? ? Hc' _]; subst.
  unfold find_dir_owner in Hf. destruct pre as [|p0 pre0].
  - (* a single component: Dir is ".", the walk looks up "." and finds nothing *)
    exfalso. cbn [app] in Hf.
    rewrite (dir_join_single c (okc_noslash _ Hc')) in Hf. rewrite split_dot in Hf.
    cbn [fdo_walk] in Hf. rewrite join2_nil_dot in Hf.
    rewrite art_lookup_none_intro in Hf.
    + discriminate.
    + intros a Hin. apply good_path_not_dot. rewrite Forall_forall in Harts. exact (Harts a Hin).
  - set (pre := p0 :: pre0) in *.
    assert (Hpne : pre <> []) by discriminate.
    rewrite (dir_join_snoc pre c Hpne Hpre (okc_noslash _ Hc')) in Hf.
    rewrite (split_join pre Hpne Hpre) in Hf.
    change (@nil N) with (join_comps []) in Hf.
    apply (fdo_walk_sound arts pre q Hpre pre [] eq_refl) in Hf.
    destruct Hf as (Hin & k1 & k2 & Hk & Hk1 & Hp & Hn). cbn [app] in Hp.
    split; [exact Hin|].
    assert (Hk1ok : Forall okc k1).
    { rewrite Hk in Hpre. apply Forall_app in Hpre as [H1 _]. exact H1. }
    assert (Hq : comps_of q = k1).
    { unfold comps_of. rewrite Hp. apply split_join; assumption. }
    rewrite Hq. split.
    + exists (k2 ++ [c]). split; [destruct k2; discriminate|].
      rewrite Hk. rewrite <- app_assoc. reflexivity.
    + destruct Hn as [Hn|Hn]; [left; exact Hn|right].
      subst k2. rewrite Hk, app_nil_r. rewrite app_length. reflexivity.
Qed.

(* ... and complete, when the artifact paths are pairwise distinct (they are the keys of a
   Go map) *)
Theorem find_dir_owner_complete cs arts q :
  good_comps cs -> Forall good_art arts -> NoDup (map a_path arts) ->
  In q arts -> inside cs (comps_of q) (a_norec q) ->
  find_dir_owner (join_comps cs) arts <> None.
Proof.
  intros Hg Harts Hnd Hin [(t & Ht & Hcs) Hn]. destruct (good_comps_okc _ Hg) as [Hne Hok].
  rewrite Forall_forall in Harts. destruct (good_art_path q (Harts q Hin)) as [Hgq Hpq].
  destruct (good_comps_okc _ Hgq) as [Hqne Hqok].
  destruct (exists_last Ht) as (t' & c & ->).
  set (qs := comps_of q) in *.
  assert (Hcs' : cs = (qs ++ t') ++ [c]) by (rewrite Hcs, app_assoc; reflexivity).
  rewrite Hcs' in Hok. apply Forall_app in Hok as [Hpre Hc]. inversion Hc as [|? ? Hc' _]; subst c0 l.
  assert (Hpne : qs ++ t' <> []) by (destruct qs; [contradiction|discriminate]).
  unfold find_dir_owner. rewrite Hcs'.
  rewrite (dir_join_snoc (qs ++ t') c Hpne Hpre (okc_noslash _ Hc')).
  rewrite (split_join (qs ++ t') Hpne Hpre).
  change (@nil N) with (join_comps []).
  apply (fdo_walk_complete arts (qs ++ t') q Hpre Hnd Hin (qs ++ t') [] qs t').
  - reflexivity.
  - reflexivity.
  - exact Hqne.
  - exact Hpq.
  - destruct Hn as [Hn|Hn]; [left; exact Hn|right].
    rewrite Hcs in Hn. rewrite !app_length in Hn. cbn [length] in Hn.
    destruct t'; [reflexivity|]. cbn [length] in Hn. lia.
Qed.

(* The specification of FindDirArtifactOwnerForPath in one statement *)
Theorem find_dir_owner_spec cs arts :
  good_comps cs -> Forall good_art arts -> NoDup (map a_path arts) ->
  (forall q, find_dir_owner (join_comps cs) arts = Some q ->
             In q arts /\ inside cs (comps_of q) (a_norec q)) /\
  (forall q, In q arts -> inside cs (comps_of q) (a_norec q) ->
             find_dir_owner (join_comps cs) arts <> None).
Proof.
  intros Hg Harts Hnd. split.
  - intros q Hf. exact (find_dir_owner_sound cs arts q Hg Harts Hf).
  - intros q Hin Hi. exact (find_dir_owner_complete cs arts q Hg Harts Hnd Hin Hi).
Qed.

Lemma find_dir_owner_none_iff cs arts :
  good_comps cs -> Forall good_art arts -> NoDup (map a_path arts) ->
  (find_dir_owner (join_comps cs) arts = None <->
   forall q, In q arts -> ~ inside cs (comps_of q) (a_norec q)).
Proof.
  intros Hg Harts Hnd. split.
  - intros Hf q Hin Hi. exact (find_dir_owner_complete cs arts q Hg Harts Hnd Hin Hi Hf).
  - intro Hall. destruct (find_dir_owner (join_comps cs) arts) as [q|] eqn:E; [|reflexivity].
    exfalso. apply find_dir_owner_sound in E as [Hin Hi]; try assumption.
    exact (Hall q Hin Hi).
Qed.

Print Assumptions find_dir_owner_spec.
