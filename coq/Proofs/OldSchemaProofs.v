(* C20: a directory manifest written with the old field naming (capitalised keys, every field
   present) is interpreted exactly like the equivalent current-format manifest.

   Proofs/ManifestRT.v proves the codec fact (old_schema_equiv: both encodings of a well-formed
   manifest decode to the same value).  This file lifts it to the operations of Model/Cache.v.
   Rewriting a manifest changes its bytes, hence its key, hence the bytes and keys of every
   ancestor manifest: the two caches hold DIFFERENT keys for directories and the same keys for
   files.  Every operation looks at a manifest object only through [dec_manifest]; so we define a
   simulation [sim_art c1 c2 fuel a1 a2] between (cache, artifact) pairs and show

     C20_checkout_equal      checkout_node gives EQUAL results (any pre-existing entry, both strategies)
     C20_expand_equal        the logical tree a checksum stands for is the same
     C20_status_equal        status trees agree up to the directory checksums inside the St nodes
     C20_st_cm_equal, C20_status_ok_iff, C20_status_short_equal
     C20_old_contents        the manifest a commit starts from has the same keys, related children
     C20_gather_equal        push / fetch: same file objects, same number of manifest objects
     C20_rewrite_sim(_old)   one rewriting step establishes the simulation
     C20_rw_sim              closure over a whole tree: any subset of manifests in either schema
     C20_commit_on_top       commit on top (complete histories, [sim_full]): same resulting
                             workspace, same artifact and checksum, same objects added
     C20_reenc_sim           the construction [reenc] (re-encode any subset [sel] of the manifests
                             of a closed tree) succeeds and yields a simulating artifact
     C20_all_operations, C20_old_schema_equivalent   the summary statements
     cex_expand_short_key, cex_commit_sim_art_only   why short_absent / sim_full are needed

   No axioms; every theorem is followed by Print Assumptions. *)
From Coq Require Import String NArith List Bool Lia PeanoNat.
From DudV Require Import Base.Bytes Base.JsonStr Base.Json Model.Fs Model.Cache.
From DudV Require Import Proofs.CacheDefs Proofs.ManifestRT.
Import ListNotations.
Local Open Scope N_scope.

(* ------------------------------------------------------------------------------------------ *)
(* Named forms of the nested fixpoints of Model/Cache.v and CacheDefs.expand                   *)
(* ------------------------------------------------------------------------------------------ *)

Definition co_go (F : artifact -> option node -> res (option node)) :=
  fix go (kids : list (bytes * artifact)) (es : list (bytes * node)) : res (list (bytes * node)) :=
    match kids with
    | [] => Ok es
    | (name, child) :: r =>
      match F child (alookup name es) with
      | Ok v => go r (dset es name v)
      | Err => Err
      end
    end.

Lemma checkout_node_S H f a slot c st :
  checkout_node H (S f) a slot c st =
  if a_isdir a then
    if negb (has_cs (a_cs a)) then Err
    else match cget c (a_cs a) with
         | None => Err
         | Some o =>
           match slot with
           | None | Some (Dir _) =>
             match dec_manifest (o_data o) with
             | None => Err
             | Some m =>
               match co_go (fun ch s => checkout_node H f ch s c st) (m_contents m)
                           (match slot with Some (Dir es) => es | _ => [] end) with
               | Ok es' => Ok (Some (Dir es'))
               | Err => Err
               end
             end
           | _ => Err
           end
         end
  else checkout_file H a slot c st.
Proof. reflexivity. Qed.

Definition st_go (F : artifact -> option node -> res stree) (es : list (bytes * node)) :=
  fix go (kids : list (bytes * artifact)) : res (list (bytes * stree) * bool) :=
    match kids with
    | [] => Ok ([], true)
    | (name, child) :: r =>
      match F child (alookup name es), go r with
      | Ok s, Ok (l, cm) => Ok ((a_path child, s) :: l, st_cm s && cm)
      | _, _ => Err
      end
    end.

Definition st_go2 (F : artifact -> option node -> res stree) :=
  fix go2 (us : list (bytes * node)) : res (list (bytes * stree)) :=
    match us with
    | [] => Ok []
    | (name, n) :: r =>
      match F (fresh_art name (is_dir n)) (Some n), go2 r with
      | Ok s, Ok l => Ok ((name, s) :: l)
      | _, _ => Err
      end
    end.

Lemma status_node_S H f a slot c :
  status_node H (S f) a slot c =
  if a_isdir a then
    match quick a slot c with
    | St a' w has inc _ _ =>
      match slot with
      | Some (Dir es) =>
        let listed := filter (fun e => negb (a_norec a && is_dir (snd e))) es in
        let tracked : res (list (bytes * artifact) * list (bytes * stree) * bool) :=
          if inc then
            match cget c (a_cs a) with
            | Some o =>
              match dec_manifest (o_data o) with
              | None => Err
              | Some m =>
                match st_go (fun ch s => status_node H f ch s c) es (m_contents m) with
                | Ok (l, cm) => Ok (m_contents m, l, cm)
                | Err => Err
                end
              end
            | None => Err
            end
          else Ok ([], [], false) in
        match tracked with
        | Err => Err
        | Ok (mc, kids, cm) =>
          let untracked :=
            filter (fun e => match alookup (fst e) mc with Some _ => false | None => true end) listed in
          match untracked with
          | [] => Ok (St a' w has inc cm kids)
          | _ => match st_go2 (fun ch s => status_node H f ch s c) untracked with
                 | Ok l => Ok (St a' w has inc false (sort_kv (kids ++ l)))
                 | Err => Err
                 end
          end
        end
      | _ => Ok (St a' w has inc false [])
      end
    end
  else Ok (status_file H a slot c).
Proof. reflexivity. Qed.

Definition ex_go (F : artifact -> option node) :=
  fix go (kids : list (bytes * artifact)) : option (list (bytes * node)) :=
    match kids with
    | [] => Some []
    | (k, ch) :: r => match F ch, go r with
                      | Some t, Some l => Some ((k, t) :: l)
                      | _, _ => None
                      end
    end.

Lemma expand_S f a c :
  expand (S f) a c =
  match cget c (a_cs a) with
  | None => None
  | Some o =>
    if a_isdir a then
      match dec_manifest (o_data o) with
      | None => None
      | Some m => option_map Dir (ex_go (fun ch => expand f ch c) (m_contents m))
      end
    else Some (File (o_data o))
  end.
Proof. reflexivity. Qed.

(* ------------------------------------------------------------------------------------------ *)
(* 1. The simulation                                                                           *)
(* ------------------------------------------------------------------------------------------ *)

(* same path, kind and flags *)
Definition same_shape (a1 a2 : artifact) : Prop :=
  a_path a1 = a_path a2 /\ a_isdir a1 = a_isdir a2 /\ a_norec a1 = a_norec a2 /\ a_skip a1 = a_skip a2.

(* entry lists with the same keys, in the same order, and related children *)
Definition kids_rel (R : artifact -> artifact -> Prop) (l1 l2 : list (bytes * artifact)) : Prop :=
  Forall2 (fun kv1 kv2 => fst kv1 = fst kv2 /\ R (snd kv1) (snd kv2)) l1 l2.

(* two (possibly absent) manifest objects: both absent, both undecodable, or both decode to
   manifests with the same path, the same keys and R-related children *)
Definition man_rel (R : artifact -> artifact -> Prop) (o1 o2 : option cobj) : Prop :=
  match o1, o2 with
  | None, None => True
  | Some x1, Some x2 =>
    match dec_manifest (o_data x1), dec_manifest (o_data x2) with
    | None, None => True
    | Some m1, Some m2 => m_path m1 = m_path m2 /\ kids_rel R (m_contents m1) (m_contents m2)
    | _, _ => False
    end
  | _, _ => False
  end.

Section Sim.
  Variable H : bytes -> bytes.
  Variables c1 c2 : cache.

  (* [sim_art fuel a1 a2]: (c1, a1) and (c2, a2) stand for the same thing, looking [fuel] levels
     of manifests deep (the fuel discipline of checkout_node / status_node / expand).
     - same path, kind, flags, and the same answer to "has a checksum";
     - a FILE artifact has the same checksum on both sides, and (when it has one) the two caches
       agree on that key: the same object or both absent;
     - a DIRECTORY artifact that has a checksum: the two keys (in general DIFFERENT) are both
       absent, or both present and undecodable, or both decode to manifests with the same path
       and keys whose children are pairwise related one level less. *)
  Fixpoint sim_art (fuel : nat) (a1 a2 : artifact) : Prop :=
    match fuel with
    | O => True
    | S f =>
      same_shape a1 a2 /\ has_cs (a_cs a1) = has_cs (a_cs a2) /\
      if a_isdir a1
      then has_cs (a_cs a1) = true -> man_rel (sim_art f) (cget c1 (a_cs a1)) (cget c2 (a_cs a2))
      else a_cs a1 = a_cs a2 /\
           (has_cs (a_cs a1) = true -> cget c1 (a_cs a1) = cget c2 (a_cs a2))
    end.

  (* the fuel-free form *)
  Definition sim_all (a1 a2 : artifact) : Prop := forall fuel, sim_art fuel a1 a2.

  Lemma sim_art_S f a1 a2 :
    sim_art (S f) a1 a2 =
    (same_shape a1 a2 /\ has_cs (a_cs a1) = has_cs (a_cs a2) /\
     if a_isdir a1
     then has_cs (a_cs a1) = true -> man_rel (sim_art f) (cget c1 (a_cs a1)) (cget c2 (a_cs a2))
     else a_cs a1 = a_cs a2 /\
          (has_cs (a_cs a1) = true -> cget c1 (a_cs a1) = cget c2 (a_cs a2))).
  Proof. reflexivity. Qed.

  Lemma kids_rel_impl (R R' : artifact -> artifact -> Prop) l1 l2 :
    (forall x y, R x y -> R' x y) -> kids_rel R l1 l2 -> kids_rel R' l1 l2.
  Proof.
    intros HR Hk. induction Hk as [|x y l l' [Hxy Hr] Hk IH]; constructor.
    - split; [exact Hxy | apply HR; exact Hr].
    - exact IH.
  Qed.

  Lemma man_rel_impl (R R' : artifact -> artifact -> Prop) o1 o2 :
    (forall x y, R x y -> R' x y) -> man_rel R o1 o2 -> man_rel R' o1 o2.
  Proof.
    intros HR. unfold man_rel. destruct o1 as [x1|], o2 as [x2|]; try (intros Hm; exact Hm).
    destruct (dec_manifest (o_data x1)) as [m1|], (dec_manifest (o_data x2)) as [m2|];
      try (intros Hm; exact Hm).
    intros [Hp Hk]. split; [exact Hp | exact (kids_rel_impl R R' _ _ HR Hk)].
  Qed.

  (* less fuel sees less *)
  Lemma sim_art_pred f : forall a1 a2, sim_art (S f) a1 a2 -> sim_art f a1 a2.
  Proof.
    induction f as [|f IH]; intros a1 a2 Hs; [exact I|].
    rewrite sim_art_S in Hs. destruct Hs as (Hsh & Hhas & Hrest).
    rewrite sim_art_S. split; [exact Hsh|]. split; [exact Hhas|].
    destruct (a_isdir a1).
    - intros Hh. apply (man_rel_impl (sim_art (S f)) (sim_art f)); [exact IH | exact (Hrest Hh)].
    - exact Hrest.
  Qed.

  Lemma sim_art_le f f' a1 a2 : (f' <= f)%nat -> sim_art f a1 a2 -> sim_art f' a1 a2.
  Proof.
    intros Hle. induction Hle as [|f Hle IH]; intros Hs; [exact Hs|].
    apply IH. apply sim_art_pred. exact Hs.
  Qed.

  (* a file artifact is the same record on both sides *)
  Lemma sim_file_eq f a1 a2 : sim_art (S f) a1 a2 -> a_isdir a1 = false -> a1 = a2.
  Proof.
    rewrite sim_art_S. intros ((Hp & Hd & Hn & Hk) & _ & Hrest) Hf. rewrite Hf in Hrest.
    destruct Hrest as [Hcs _].
    destruct a1 as [cs1 p1 d1 n1 k1], a2 as [cs2 p2 d2 n2 k2]. cbn in *. congruence.
  Qed.

  (* an artifact without a checksum (what commit and status use for untracked entries) *)
  Lemma sim_nocs f a : has_cs (a_cs a) = false -> sim_art f a a.
  Proof.
    intros Hh. destruct f as [|f]; [exact I|]. rewrite sim_art_S.
    split; [repeat split|]. split; [reflexivity|].
    destruct (a_isdir a).
    - intros Hh'. rewrite Hh in Hh'. discriminate Hh'.
    - split; [reflexivity|]. intros Hh'. rewrite Hh in Hh'. discriminate Hh'.
  Qed.

  Lemma sim_fresh f name d : sim_art f (fresh_art name d) (fresh_art name d).
  Proof. apply sim_nocs. reflexivity. Qed.

  (* lookups in related entry lists *)
  Lemma kids_rel_alookup (R : artifact -> artifact -> Prop) l1 l2 k :
    kids_rel R l1 l2 ->
    match alookup k l1, alookup k l2 with
    | Some x, Some y => R x y
    | None, None => True
    | _, _ => False
    end.
  Proof.
    intros Hk. induction Hk as [|[k1 x] [k2 y] l l' [Hxy Hr] Hk IH]; cbn [alookup]; [exact I|].
    cbn [fst snd] in Hxy, Hr. subst k2. destruct (beqb k k1); [exact Hr | exact IH].
  Qed.

  (* ---------------------------------------------------------------------------------------- *)
  (* 2. checkout                                                                               *)
  (* ---------------------------------------------------------------------------------------- *)

  Lemma qmatch_sim cs slot :
    (has_cs cs = true -> cget c1 cs = cget c2 cs) -> qmatch c1 cs slot = qmatch c2 cs slot.
  Proof.
    intros Hc. unfold qmatch, in_cache. destruct (has_cs cs); [|reflexivity].
    rewrite (Hc eq_refl). reflexivity.
  Qed.

  Lemma checkout_file_sim a slot st :
    (has_cs (a_cs a) = true -> cget c1 (a_cs a) = cget c2 (a_cs a)) ->
    checkout_file H a slot c1 st = checkout_file H a slot c2 st.
  Proof.
    intros Hc. unfold checkout_file. rewrite (qmatch_sim _ slot Hc).
    destruct (has_cs (a_cs a)); [|reflexivity]. rewrite (Hc eq_refl). reflexivity.
  Qed.

  Lemma co_go_sim (R : artifact -> artifact -> Prop) F1 F2 :
    (forall x y s, R x y -> F1 x s = F2 y s) ->
    forall l1 l2, kids_rel R l1 l2 -> forall es, co_go F1 l1 es = co_go F2 l2 es.
  Proof.
    intros HF l1 l2 Hk. induction Hk as [|[k1 x] [k2 y] l l' [Hxy Hr] Hk IH]; intros es;
      cbn [co_go]; [reflexivity|].
    cbn [fst snd] in Hxy, Hr. subst k2. rewrite (HF x y _ Hr).
    destruct (F2 y (alookup k1 es)) as [v|]; [apply IH | reflexivity].
  Qed.

  (* C20, checkout: EQUAL results, for every pre-existing entry and both strategies *)
  Theorem C20_checkout_equal fuel : forall a1 a2 slot st,
    sim_art fuel a1 a2 ->
    checkout_node H fuel a1 slot c1 st = checkout_node H fuel a2 slot c2 st.
  Proof.
    induction fuel as [|f IH]; intros a1 a2 slot st Hs; [reflexivity|].
    pose proof Hs as Hs0. rewrite sim_art_S in Hs. destruct Hs as (Hsh & Hhas & Hrest).
    destruct Hsh as (Hp & Hd & Hn & Hk).
    rewrite !checkout_node_S. rewrite <- Hd. destruct (a_isdir a1) eqn:Hdir.
    - rewrite <- Hhas. destruct (has_cs (a_cs a1)) eqn:Hh; cbn [negb]; [|reflexivity].
      specialize (Hrest eq_refl). unfold man_rel in Hrest.
      destruct (cget c1 (a_cs a1)) as [o1|], (cget c2 (a_cs a2)) as [o2|];
        try (exfalso; exact Hrest); [|reflexivity].
      destruct (dec_manifest (o_data o1)) as [m1|], (dec_manifest (o_data o2)) as [m2|];
        try (exfalso; exact Hrest).
      + destruct Hrest as [_ Hkids].
        rewrite (co_go_sim (sim_art f) _ (fun ch s => checkout_node H f ch s c2 st)
                           (fun x y s Hxy => IH x y s st Hxy) _ _ Hkids).
        reflexivity.
      + destruct slot as [[b|d|t|es|]|]; reflexivity.
    - rewrite <- (sim_file_eq f a1 a2 Hs0 Hdir).
      apply checkout_file_sim. destruct Hrest as [Hcs Hc]. rewrite <- Hcs in Hc. exact Hc.
  Qed.

  (* cache.Checkout (skip-cache artifacts are left alone) *)
  Corollary C20_checkout_art_equal fuel a1 a2 slot st :
    sim_art (S fuel) a1 a2 ->
    checkout_art H (S fuel) a1 slot c1 st = checkout_art H (S fuel) a2 slot c2 st.
  Proof.
    intros Hs. unfold checkout_art.
    pose proof Hs as Hs0. rewrite sim_art_S in Hs0. destruct Hs0 as ((_ & _ & _ & Hk) & _).
    rewrite <- Hk. destruct (a_skip a1); [reflexivity|]. apply C20_checkout_equal. exact Hs.
  Qed.
End Sim.

Print Assumptions C20_checkout_equal.
Print Assumptions C20_checkout_art_equal.

(* ------------------------------------------------------------------------------------------ *)
(* 4. expand: the logical tree a checksum stands for                                           *)
(* ------------------------------------------------------------------------------------------ *)

(* [expand] does not test has_cs: we need that no object is stored under a key shorter than a
   digest, which holds for every content-addressed cache (cache_ok_short_absent below). *)
Definition short_absent (c : cache) : Prop := forall d, has_cs d = false -> cget c d = None.

Lemma cache_ok_short_absent H c : H_has H -> cache_ok H c -> short_absent c.
Proof.
  intros Hhas Hok d Hd. destruct (cget c d) as [o|] eqn:E; [|reflexivity].
  destruct (Hok d o E) as [Hk _]. rewrite Hk, Hhas in Hd. discriminate Hd.
Qed.

Section SimExpand.
  Variables c1 c2 : cache.

  Lemma ex_go_sim (R : artifact -> artifact -> Prop) F1 F2 :
    (forall x y, R x y -> F1 x = F2 y) ->
    forall l1 l2, kids_rel R l1 l2 -> ex_go F1 l1 = ex_go F2 l2.
  Proof.
    intros HF l1 l2 Hk. induction Hk as [|[k1 x] [k2 y] l l' [Hxy Hr] Hk IH];
      cbn [ex_go]; [reflexivity|].
    cbn [fst snd] in Hxy, Hr. subst k2. rewrite (HF x y Hr), IH. reflexivity.
  Qed.

  Theorem C20_expand_equal fuel : forall a1 a2,
    short_absent c1 -> short_absent c2 ->
    sim_art c1 c2 fuel a1 a2 -> expand fuel a1 c1 = expand fuel a2 c2.
  Proof.
    induction fuel as [|f IH]; intros a1 a2 Hs1 Hs2 Hs; [reflexivity|].
    pose proof Hs as Hs0. rewrite sim_art_S in Hs. destruct Hs as (Hsh & Hhas & Hrest).
    destruct Hsh as (Hp & Hd & Hn & Hk).
    rewrite !expand_S. rewrite <- Hd.
    destruct (has_cs (a_cs a1)) eqn:Hh.
    - destruct (a_isdir a1) eqn:Hdir.
      + specialize (Hrest eq_refl). unfold man_rel in Hrest.
        destruct (cget c1 (a_cs a1)) as [o1|], (cget c2 (a_cs a2)) as [o2|];
          try (exfalso; exact Hrest); [|reflexivity].
        destruct (dec_manifest (o_data o1)) as [m1|], (dec_manifest (o_data o2)) as [m2|];
          try (exfalso; exact Hrest); [|reflexivity].
        destruct Hrest as [_ Hkids].
        rewrite (ex_go_sim (sim_art c1 c2 f) _ (fun ch => expand f ch c2)
                           (fun x y Hxy => IH x y Hs1 Hs2 Hxy) _ _ Hkids).
        reflexivity.
      + destruct Hrest as [Hcs Hc]. rewrite (Hc eq_refl). reflexivity.
    - rewrite (Hs1 _ Hh). symmetry in Hhas. rewrite (Hs2 _ Hhas). reflexivity.
  Qed.

  (* in content-addressed caches *)
  Corollary C20_expand_equal_ok H fuel a1 a2 :
    H_has H -> cache_ok H c1 -> cache_ok H c2 ->
    sim_art c1 c2 fuel a1 a2 -> expand fuel a1 c1 = expand fuel a2 c2.
  Proof.
    intros Hh Ho1 Ho2. apply C20_expand_equal; eapply cache_ok_short_absent; eassumption.
  Qed.
End SimExpand.

Print Assumptions C20_expand_equal.
Print Assumptions C20_expand_equal_ok.

(* ------------------------------------------------------------------------------------------ *)
(* 3. status                                                                                   *)
(* ------------------------------------------------------------------------------------------ *)

(* artifacts equal up to the checksum of directories *)
Definition art_sim0 (a1 a2 : artifact) : Prop :=
  same_shape a1 a2 /\ has_cs (a_cs a1) = has_cs (a_cs a2) /\ (a_isdir a1 = false -> a_cs a1 = a_cs a2).

(* status trees equal up to the directory checksums recorded inside the St nodes: same workspace
   status, same HasChecksum / ChecksumInCache / ContentsMatch, same child keys, children related *)
Inductive stree_sim : stree -> stree -> Prop :=
| ss_node a1 a2 w has inc cm k1 k2 :
    art_sim0 a1 a2 ->
    Forall2 (fun x y => fst x = fst y /\ stree_sim (snd x) (snd y)) k1 k2 ->
    stree_sim (St a1 w has inc cm k1) (St a2 w has inc cm k2).

Definition skids_rel (k1 k2 : list (bytes * stree)) : Prop :=
  Forall2 (fun x y => fst x = fst y /\ stree_sim (snd x) (snd y)) k1 k2.

Definition status_rel (r1 r2 : res stree) : Prop :=
  match r1, r2 with
  | Ok s1, Ok s2 => stree_sim s1 s2
  | Err, Err => True
  | _, _ => False
  end.

Lemma stree_sim_cm s1 s2 : stree_sim s1 s2 -> st_cm s1 = st_cm s2.
Proof. intros Hs. destruct Hs. reflexivity. Qed.

Lemma art_sim0_refl a : art_sim0 a a.
Proof. split; [repeat split|]. split; [reflexivity|]. intros _. reflexivity. Qed.

Lemma ins_sorted_rel {A B} (R : A -> B -> Prop) k v1 v2 l1 l2 :
  R v1 v2 ->
  Forall2 (fun x y => fst x = fst y /\ R (snd x) (snd y)) l1 l2 ->
  Forall2 (fun x y => fst x = fst y /\ R (snd x) (snd y)) (ins_sorted k v1 l1) (ins_sorted k v2 l2).
Proof.
  intros Hv Hl. induction Hl as [|[k1 x] [k2 y] l l' [Hxy Hr] Hl IH]; cbn [ins_sorted].
  - constructor; [split; [reflexivity | exact Hv] | constructor].
  - cbn [fst snd] in Hxy, Hr. subst k2. destruct (beqb k k1).
    + constructor; [split; [reflexivity | exact Hv] | exact Hl].
    + destruct (bltb k k1).
      * constructor; [split; [reflexivity | exact Hv]|].
        constructor; [split; [reflexivity | exact Hr] | exact Hl].
      * constructor; [split; [reflexivity | exact Hr] | exact IH].
Qed.

Lemma sort_kv_rel {A B} (R : A -> B -> Prop) l1 l2 :
  Forall2 (fun x y => fst x = fst y /\ R (snd x) (snd y)) l1 l2 ->
  Forall2 (fun x y => fst x = fst y /\ R (snd x) (snd y)) (sort_kv l1) (sort_kv l2).
Proof.
  unfold sort_kv. intros Hl.
  assert (Hacc : Forall2 (fun (x : bytes * A) (y : bytes * B) => fst x = fst y /\ R (snd x) (snd y)) [] [])
    by constructor.
  revert Hacc. generalize (@nil (bytes * A)) (@nil (bytes * B)).
  induction Hl as [|[k1 x] [k2 y] l l' [Hxy Hr] Hl IH]; intros acc1 acc2 Hacc; cbn [fold_left].
  - exact Hacc.
  - cbn [fst snd] in *. subst k2. apply IH. apply ins_sorted_rel; assumption.
Qed.

Section SimStatus.
  Variable H : bytes -> bytes.
  Variables c1 c2 : cache.

  (* ChecksumInCache agrees *)
  Lemma sim_inc f a1 a2 :
    sim_art c1 c2 (S f) a1 a2 ->
    has_cs (a_cs a1) && in_cache c1 (a_cs a1) = has_cs (a_cs a2) && in_cache c2 (a_cs a2).
  Proof.
    rewrite sim_art_S. intros (_ & Hhas & Hrest). rewrite <- Hhas.
    destruct (has_cs (a_cs a1)); [|reflexivity]. cbn [andb]. unfold in_cache.
    destruct (a_isdir a1).
    - specialize (Hrest eq_refl). unfold man_rel in Hrest.
      destruct (cget c1 (a_cs a1)), (cget c2 (a_cs a2)); try reflexivity; exfalso; exact Hrest.
    - destruct Hrest as [Hcs Hc]. rewrite (Hc eq_refl). reflexivity.
  Qed.

  Lemma status_file_sim a slot :
    (has_cs (a_cs a) = true -> cget c1 (a_cs a) = cget c2 (a_cs a)) ->
    status_file H a slot c1 = status_file H a slot c2.
  Proof.
    intros Hc. unfold status_file, quick. rewrite (qmatch_sim c1 c2 _ slot Hc). unfold in_cache.
    destruct (has_cs (a_cs a)); [rewrite (Hc eq_refl); reflexivity|].
    cbn [andb]. destruct slot as [[b|d|t|es|]|]; try reflexivity.
    destruct (a_skip a); [reflexivity|]. destruct (cget c1 (a_cs a)), (cget c2 (a_cs a)); reflexivity.
  Qed.

  Definition status_rel_p (x y : artifact) (r1 r2 : res stree) : Prop :=
    match r1, r2 with
    | Ok s1, Ok s2 => stree_sim s1 s2 /\ a_path x = a_path y
    | Err, Err => True
    | _, _ => False
    end.

  Lemma status_rel_p_rel x y r1 r2 : status_rel_p x y r1 r2 -> status_rel r1 r2.
  Proof.
    unfold status_rel_p, status_rel. destruct r1, r2; try (intros Hr; exact Hr). intros [Hr _]. exact Hr.
  Qed.

  Lemma st_go_sim (R : artifact -> artifact -> Prop) F1 F2 es :
    (forall x y s, R x y -> status_rel_p x y (F1 x s) (F2 y s)) ->
    forall l1 l2, kids_rel R l1 l2 ->
    match st_go F1 es l1, st_go F2 es l2 with
    | Ok (k1, cm1), Ok (k2, cm2) => skids_rel k1 k2 /\ cm1 = cm2
    | Err, Err => True
    | _, _ => False
    end.
  Proof.
    intros HF l1 l2 Hk. induction Hk as [|[k1 x] [k2 y] l l' [Hxy Hr] Hk IH]; cbn [st_go].
    - split; [constructor | reflexivity].
    - cbn [fst snd] in Hxy, Hr. subst k2.
      pose proof (HF x y (alookup k1 es) Hr) as Hxy. unfold status_rel_p in Hxy.
      destruct (F1 x (alookup k1 es)) as [s1|], (F2 y (alookup k1 es)) as [s2|];
        try (exfalso; exact Hxy).
      + destruct Hxy as [Hss Hpath].
        destruct (st_go F1 es l) as [[kk1 cm1]|], (st_go F2 es l') as [[kk2 cm2]|];
          try (exfalso; exact IH); [|exact I].
        destruct IH as [Hkk Hcm]. split.
        * constructor; [split; [exact Hpath | exact Hss] | exact Hkk].
        * rewrite (stree_sim_cm _ _ Hss), Hcm. reflexivity.
      + destruct (st_go F1 es l) as [[kk1 cm1]|], (st_go F2 es l') as [[kk2 cm2]|]; exact I.
  Qed.

  Lemma st_go2_sim F1 F2 :
    (forall name d s, status_rel (F1 (fresh_art name d) s) (F2 (fresh_art name d) s)) ->
    forall us,
    match st_go2 F1 us, st_go2 F2 us with
    | Ok k1, Ok k2 => skids_rel k1 k2
    | Err, Err => True
    | _, _ => False
    end.
  Proof.
    intros HF us. induction us as [|[name n] r IH]; cbn [st_go2]; [constructor|].
    pose proof (HF name (is_dir n) (Some n)) as Hn. unfold status_rel in Hn.
    destruct (F1 (fresh_art name (is_dir n)) (Some n)) as [s1|],
             (F2 (fresh_art name (is_dir n)) (Some n)) as [s2|]; try (exfalso; exact Hn).
    - destruct (st_go2 F1 r) as [kk1|], (st_go2 F2 r) as [kk2|]; try (exfalso; exact IH); [|exact I].
      constructor; [split; [reflexivity | exact Hn] | exact IH].
    - destruct (st_go2 F1 r) as [kk1|], (st_go2 F2 r) as [kk2|]; exact I.
  Qed.

  Lemma kids_rel_untracked (R : artifact -> artifact -> Prop) l1 l2 (listed : list (bytes * node)) :
    kids_rel R l1 l2 ->
    filter (fun e => match alookup (fst e) l1 with Some _ => false | None => true end) listed =
    filter (fun e => match alookup (fst e) l2 with Some _ => false | None => true end) listed.
  Proof.
    intros Hk. apply filter_ext. intros e.
    pose proof (kids_rel_alookup R l1 l2 (fst e) Hk) as Hl.
    destruct (alookup (fst e) l1), (alookup (fst e) l2); try reflexivity; exfalso; exact Hl.
  Qed.

  Lemma status_node_sim fuel : forall a1 a2 slot,
    sim_art c1 c2 fuel a1 a2 ->
    status_rel_p a1 a2 (status_node H fuel a1 slot c1) (status_node H fuel a2 slot c2).
  Proof.
    induction fuel as [|f IH]; intros a1 a2 slot Hs; [exact I|].
    pose proof (sim_inc f a1 a2 Hs) as Hinc.
    pose proof Hs as Hs0. rewrite sim_art_S in Hs. destruct Hs as (Hsh & Hhas & Hrest).
    assert (Ha0 : art_sim0 a1 a2).
    { split; [exact Hsh|]. split; [exact Hhas|]. intros Hf. rewrite Hf in Hrest. exact (proj1 Hrest). }
    destruct Hsh as (Hp & Hd & Hn & Hk).
    rewrite !status_node_S. rewrite <- Hd. destruct (a_isdir a1) eqn:Hdir.
    - unfold quick. cbv beta iota zeta. rewrite <- Hhas in Hinc. rewrite <- Hhas, <- Hinc, <- Hn.
      assert (Hleaf : status_rel_p a1 a2
                (Ok (St a1 (fstat slot) (has_cs (a_cs a1)) (has_cs (a_cs a1) && in_cache c1 (a_cs a1)) false []))
                (Ok (St a2 (fstat slot) (has_cs (a_cs a1)) (has_cs (a_cs a1) && in_cache c1 (a_cs a1)) false []))).
      { split; [|exact Hp]. constructor; [exact Ha0 | constructor]. }
      destruct slot as [[b|d|t|es|]|]; try exact Hleaf. clear Hleaf.
      set (listed := filter (fun e : bytes * node => negb (a_norec a1 && is_dir (snd e))) es).
      destruct (has_cs (a_cs a1) && in_cache c1 (a_cs a1)) eqn:Einc.
      + apply andb_true_iff in Einc as [Hh Hin]. specialize (Hrest Hh). unfold man_rel in Hrest.
        destruct (cget c1 (a_cs a1)) as [o1|], (cget c2 (a_cs a2)) as [o2|];
          try (exfalso; exact Hrest); [|exact I].
        destruct (dec_manifest (o_data o1)) as [m1|], (dec_manifest (o_data o2)) as [m2|];
          try (exfalso; exact Hrest); [|exact I].
        destruct Hrest as [_ Hkids].
        pose proof (st_go_sim (sim_art c1 c2 f) (fun ch s => status_node H f ch s c1)
                      (fun ch s => status_node H f ch s c2) es
                      (fun x y s Hxy => IH x y s Hxy) _ _ Hkids) as Hgo.
        destruct (st_go (fun ch s => status_node H f ch s c1) es (m_contents m1)) as [[kk1 cm1]|],
                 (st_go (fun ch s => status_node H f ch s c2) es (m_contents m2)) as [[kk2 cm2]|];
          try (exfalso; exact Hgo); [|exact I].
        destruct Hgo as [Hkk Hcm]. subst cm2.
        rewrite <- (kids_rel_untracked _ _ _ listed Hkids).
        destruct (filter _ listed) as [|u us] eqn:Eun.
        * split; [|exact Hp]. constructor; [exact Ha0 | exact Hkk].
        * pose proof (st_go2_sim (fun ch s => status_node H f ch s c1) (fun ch s => status_node H f ch s c2)
                        (fun name d s => status_rel_p_rel _ _ _ _ (IH _ _ s (sim_fresh c1 c2 f name d))) (u :: us)) as Hg2.
          destruct (st_go2 (fun ch s => status_node H f ch s c1) (u :: us)) as [l1|],
                   (st_go2 (fun ch s => status_node H f ch s c2) (u :: us)) as [l2|];
            try (exfalso; exact Hg2); [|exact I].
          split; [|exact Hp]. constructor; [exact Ha0|].
          apply sort_kv_rel. apply Forall2_app; [exact Hkk | exact Hg2].
      + cbv beta iota. cbn [alookup].
        destruct (filter _ listed) as [|u us] eqn:Eun.
        * split; [|exact Hp]. constructor; [exact Ha0 | constructor].
        * pose proof (st_go2_sim (fun ch s => status_node H f ch s c1) (fun ch s => status_node H f ch s c2)
                        (fun name d s => status_rel_p_rel _ _ _ _ (IH _ _ s (sim_fresh c1 c2 f name d))) (u :: us)) as Hg2.
          destruct (st_go2 (fun ch s => status_node H f ch s c1) (u :: us)) as [l1|],
                   (st_go2 (fun ch s => status_node H f ch s c2) (u :: us)) as [l2|];
            try (exfalso; exact Hg2); [|exact I].
          split; [|exact Hp]. constructor; [exact Ha0|].
          apply sort_kv_rel. apply Forall2_app; [constructor | exact Hg2].
    - rewrite <- (sim_file_eq c1 c2 f a1 a2 Hs0 Hdir).
      destruct Hrest as [Hcs Hc]. rewrite <- Hcs in Hc.
      rewrite (status_file_sim a1 slot Hc). split; [|reflexivity].
      destruct (status_file H a1 slot c2) as [a w has inc cm k] eqn:E.
      assert (Hk0 : k = []).
      { revert E. unfold status_file, quick. destruct slot as [[b|d|t|es|]|]; try (intros [= _ _ _ _ _ <-]; reflexivity).
        destruct (a_skip a1).
        - destruct (has_cs (a_cs a1)); intros [= _ _ _ _ _ <-]; reflexivity.
        - destruct (cget c2 (a_cs a1)); [destruct (has_cs (a_cs a1) && in_cache c2 (a_cs a1))|];
            intros [= _ _ _ _ _ <-]; reflexivity. }
      subst k. constructor; [apply art_sim0_refl | constructor].
  Qed.
End SimStatus.

Section SimStatusThms.
  Variable H : bytes -> bytes.
  Variables c1 c2 : cache.

  (* C20, status: both fail, or both succeed with status trees equal up to directory checksums *)
  Theorem C20_status_equal fuel a1 a2 slot :
    sim_art c1 c2 fuel a1 a2 ->
    status_rel (status_node H fuel a1 slot c1) (status_node H fuel a2 slot c2).
  Proof.
    intros Hs. eapply status_rel_p_rel. apply status_node_sim. exact Hs.
  Qed.

  Corollary C20_st_cm_equal fuel a1 a2 slot s1 s2 :
    sim_art c1 c2 fuel a1 a2 ->
    status_node H fuel a1 slot c1 = Ok s1 -> status_node H fuel a2 slot c2 = Ok s2 ->
    st_cm s1 = st_cm s2.
  Proof.
    intros Hs E1 E2. pose proof (C20_status_equal fuel a1 a2 slot Hs) as Hr.
    rewrite E1, E2 in Hr. exact (stree_sim_cm _ _ Hr).
  Qed.

  Corollary C20_status_ok_iff fuel a1 a2 slot :
    sim_art c1 c2 fuel a1 a2 ->
    (status_node H fuel a1 slot c1 = Err <-> status_node H fuel a2 slot c2 = Err).
  Proof.
    intros Hs. pose proof (C20_status_equal fuel a1 a2 slot Hs) as Hr. unfold status_rel in Hr.
    destruct (status_node H fuel a1 slot c1), (status_node H fuel a2 slot c2);
      try (exfalso; exact Hr); split; intros E; try reflexivity; discriminate E.
  Qed.

  (* the short-circuit answer (what `dud status` prints per artifact) is EQUAL *)
  Corollary C20_status_short_equal fuel a1 a2 slot :
    sim_art c1 c2 (S fuel) a1 a2 ->
    status_short H (S fuel) a1 slot c1 = status_short H (S fuel) a2 slot c2.
  Proof.
    intros Hs. unfold status_short.
    pose proof (sim_inc c1 c2 fuel a1 a2 Hs) as Hinc.
    pose proof (C20_status_equal (S fuel) a1 a2 slot Hs) as Hr.
    pose proof Hs as Hs0. rewrite sim_art_S in Hs0. destruct Hs0 as ((Hp & Hd & Hn & Hk) & Hhas & Hrest).
    rewrite <- Hd. destruct (a_isdir a1) eqn:Hdir.
    - unfold quick. cbv beta iota. rewrite <- Hhas in Hinc. rewrite <- Hhas, <- Hinc.
      destruct (negb (has_cs (a_cs a1) && (has_cs (a_cs a1) && in_cache c1 (a_cs a1)))); [reflexivity|].
      unfold status_rel in Hr.
      destruct (status_node H (S fuel) a1 slot c1) as [s1|], (status_node H (S fuel) a2 slot c2) as [s2|];
        try (exfalso; exact Hr); [|reflexivity].
      rewrite (stree_sim_cm _ _ Hr). reflexivity.
    - rewrite <- (sim_file_eq c1 c2 fuel a1 a2 Hs Hdir).
      destruct Hrest as [Hcs Hc]. rewrite <- Hcs in Hc.
      rewrite (status_file_sim H c1 c2 a1 slot Hc). reflexivity.
  Qed.
End SimStatusThms.

Print Assumptions C20_status_equal.
Print Assumptions C20_st_cm_equal.
Print Assumptions C20_status_ok_iff.
Print Assumptions C20_status_short_equal.

(* ------------------------------------------------------------------------------------------ *)
(* 6a. the manifest a commit starts from                                                       *)
(* ------------------------------------------------------------------------------------------ *)

Definition contents_rel (R : artifact -> artifact -> Prop) (r1 r2 : res (list (bytes * artifact))) : Prop :=
  match r1, r2 with
  | Ok l1, Ok l2 => kids_rel R l1 l2
  | Err, Err => True
  | _, _ => False
  end.

Section SimOld.
  Variables c1 c2 : cache.

  Theorem C20_old_contents f a1 a2 :
    a_isdir a1 = true -> sim_art c1 c2 (S f) a1 a2 ->
    contents_rel (sim_art c1 c2 f) (old_contents a1 c1) (old_contents a2 c2).
  Proof.
    intros Hdir Hs. rewrite sim_art_S in Hs. destruct Hs as (_ & Hhas & Hrest). rewrite Hdir in Hrest.
    unfold old_contents. rewrite <- Hhas. destruct (has_cs (a_cs a1)); [|constructor].
    specialize (Hrest eq_refl). unfold man_rel in Hrest.
    destruct (cget c1 (a_cs a1)) as [o1|], (cget c2 (a_cs a2)) as [o2|];
      try (exfalso; exact Hrest); [|constructor].
    destruct (dec_manifest (o_data o1)) as [m1|], (dec_manifest (o_data o2)) as [m2|];
      try (exfalso; exact Hrest); [|exact I].
    exact (proj2 Hrest).
  Qed.

  (* the child artifact commit reuses for a workspace entry: related on both sides *)
  Corollary C20_old_child f a1 a2 l1 l2 name isd :
    a_isdir a1 = true -> sim_art c1 c2 (S (S f)) a1 a2 ->
    old_contents a1 c1 = Ok l1 -> old_contents a2 c2 = Ok l2 ->
    sim_art c1 c2 (S f)
      (match alookup name l1 with
       | Some oa => if Bool.eqb (a_isdir oa) isd then oa else fresh_art name isd
       | None => fresh_art name isd end)
      (match alookup name l2 with
       | Some oa => if Bool.eqb (a_isdir oa) isd then oa else fresh_art name isd
       | None => fresh_art name isd end).
  Proof.
    intros Hdir Hs E1 E2. pose proof (C20_old_contents (S f) a1 a2 Hdir Hs) as Hc.
    rewrite E1, E2 in Hc. unfold contents_rel in Hc.
    pose proof (kids_rel_alookup _ l1 l2 name Hc) as Hl.
    destruct (alookup name l1) as [x|], (alookup name l2) as [y|]; try (exfalso; exact Hl).
    - pose proof Hl as Hl0. rewrite sim_art_S in Hl0. destruct Hl0 as ((_ & Hd & _) & _).
      rewrite <- Hd. destruct (Bool.eqb (a_isdir x) isd); [exact Hl | apply sim_fresh].
    - apply sim_fresh.
  Qed.
End SimOld.

Print Assumptions C20_old_contents.
Print Assumptions C20_old_child.

(* ------------------------------------------------------------------------------------------ *)
(* 5. push / fetch: the objects reachable from an artifact                                     *)
(* ------------------------------------------------------------------------------------------ *)

(* src/cache/push.go gatherFilesToPush: skip-cache artifacts contribute nothing; an artifact
   without a checksum or whose object is missing is an error; a directory contributes its
   manifest object and, recursively, its children.  The result separates the keys of FILE
   objects (in visiting order) from the NUMBER of manifest objects: the manifest keys are what
   differs between the two caches.  (Fetch walks the same graph, level by level.) *)
Definition ga_go (F : artifact -> res (list bytes * nat)) :=
  fix go (kids : list (bytes * artifact)) : res (list bytes * nat) :=
    match kids with
    | [] => Ok ([], O)
    | (_, ch) :: r =>
      match F ch, go r with
      | Ok (fs, n), Ok (fs', n') => Ok (fs ++ fs', (n + n')%nat)
      | _, _ => Err
      end
    end.

Fixpoint gather (fuel : nat) (a : artifact) (c : cache) : res (list bytes * nat) :=
  match fuel with
  | O => Err
  | S f =>
    if a_skip a then Ok ([], O)
    else if negb (has_cs (a_cs a)) then Err
    else match cget c (a_cs a) with
         | None => Err
         | Some o =>
           if a_isdir a then
             match dec_manifest (o_data o) with
             | None => Err
             | Some m =>
               match ga_go (fun ch => gather f ch c) (m_contents m) with
               | Ok (fs, n) => Ok (fs, S n)
               | Err => Err
               end
             end
           else Ok ([a_cs a], O)
         end
  end.

Definition reach_files (fuel : nat) (a : artifact) (c : cache) : res (list bytes) :=
  match gather fuel a c with Ok (fs, _) => Ok fs | Err => Err end.
Definition reach_manifests (fuel : nat) (a : artifact) (c : cache) : res nat :=
  match gather fuel a c with Ok (_, n) => Ok n | Err => Err end.

Section SimGather.
  Variables c1 c2 : cache.

  Lemma ga_go_sim (R : artifact -> artifact -> Prop) F1 F2 :
    (forall x y, R x y -> F1 x = F2 y) ->
    forall l1 l2, kids_rel R l1 l2 -> ga_go F1 l1 = ga_go F2 l2.
  Proof.
    intros HF l1 l2 Hk. induction Hk as [|[k1 x] [k2 y] l l' [Hxy Hr] Hk IH];
      cbn [ga_go]; [reflexivity|].
    cbn [fst snd] in Hxy, Hr. rewrite (HF x y Hr), IH. reflexivity.
  Qed.

  Theorem C20_gather_equal fuel : forall a1 a2,
    sim_art c1 c2 fuel a1 a2 -> gather fuel a1 c1 = gather fuel a2 c2.
  Proof.
    induction fuel as [|f IH]; intros a1 a2 Hs; [reflexivity|].
    rewrite sim_art_S in Hs. destruct Hs as ((Hp & Hd & Hn & Hk) & Hhas & Hrest).
    cbn [gather]. rewrite <- Hk, <- Hhas, <- Hd.
    destruct (a_skip a1); [reflexivity|].
    destruct (has_cs (a_cs a1)); cbn [negb]; [|reflexivity].
    destruct (a_isdir a1).
    - specialize (Hrest eq_refl). unfold man_rel in Hrest.
      destruct (cget c1 (a_cs a1)) as [o1|], (cget c2 (a_cs a2)) as [o2|];
        try (exfalso; exact Hrest); [|reflexivity].
      destruct (dec_manifest (o_data o1)) as [m1|], (dec_manifest (o_data o2)) as [m2|];
        try (exfalso; exact Hrest); [|reflexivity].
      destruct Hrest as [_ Hkids].
      rewrite (ga_go_sim (sim_art c1 c2 f) _ (fun ch => gather f ch c2) (fun x y Hxy => IH x y Hxy) _ _ Hkids).
      reflexivity.
    - destruct Hrest as [Hcs Hc]. rewrite (Hc eq_refl), <- Hcs. reflexivity.
  Qed.

  Corollary C20_reach_files_equal fuel a1 a2 :
    sim_art c1 c2 fuel a1 a2 -> reach_files fuel a1 c1 = reach_files fuel a2 c2.
  Proof. intros Hs. unfold reach_files. rewrite (C20_gather_equal fuel a1 a2 Hs). reflexivity. Qed.

  Corollary C20_reach_manifests_equal fuel a1 a2 :
    sim_art c1 c2 fuel a1 a2 -> reach_manifests fuel a1 c1 = reach_manifests fuel a2 c2.
  Proof. intros Hs. unfold reach_manifests. rewrite (C20_gather_equal fuel a1 a2 Hs). reflexivity. Qed.
End SimGather.

Print Assumptions C20_gather_equal.
Print Assumptions C20_reach_files_equal.
Print Assumptions C20_reach_manifests_equal.

(* ------------------------------------------------------------------------------------------ *)
(* 7. rewriting manifests in the old schema establishes the simulation                         *)
(* ------------------------------------------------------------------------------------------ *)

(* the bytes of a manifest in either schema *)
Definition enc_as (old : bool) (m : manifest) : bytes :=
  if old then enc_manifest_old m else enc_manifest m.

Lemma dec_enc_as old m : ManifestRT.wf_manifest m = true -> dec_manifest (enc_as old m) = Some m.
Proof. destruct old; [apply dec_enc_manifest_old | apply dec_enc_manifest]. Qed.

Section Rewrite.
  Variables c1 c2 : cache.

  (* One step.  In c1 the key k1 holds a manifest m (either schema); in c2 the key k2 holds m',
     which is m with the checksums of some directory children replaced by sim-equivalent ones
     (same path, same keys), written in either schema - in particular m in the current and m'
     in the old one.  Then the artifacts pointing at k1 and k2 are related. *)
  Theorem C20_rewrite_sim f k1 k2 o1 o2 m m' old1 old2 p nr sk :
    cget c1 k1 = Some o1 -> o_data o1 = enc_as old1 m -> ManifestRT.wf_manifest m = true ->
    cget c2 k2 = Some o2 -> o_data o2 = enc_as old2 m' -> ManifestRT.wf_manifest m' = true ->
    has_cs k1 = has_cs k2 ->
    m_path m = m_path m' ->
    kids_rel (sim_art c1 c2 f) (m_contents m) (m_contents m') ->
    sim_art c1 c2 (S f) (mkArt k1 p true nr sk) (mkArt k2 p true nr sk).
  Proof.
    intros E1 D1 W1 E2 D2 W2 Hh Hp Hk. rewrite sim_art_S. cbn [a_cs a_path a_isdir a_norec a_skip].
    split; [repeat split|]. split; [exact Hh|]. intros _.
    rewrite E1, E2. unfold man_rel. rewrite D1, D2, (dec_enc_as old1 m W1), (dec_enc_as old2 m' W2).
    split; [exact Hp | exact Hk].
  Qed.

  (* the instance of the property: current format on the left, old format on the right *)
  Corollary C20_rewrite_sim_old f k1 k2 o1 o2 m m' p nr sk :
    cget c1 k1 = Some o1 -> o_data o1 = enc_manifest m -> ManifestRT.wf_manifest m = true ->
    cget c2 k2 = Some o2 -> o_data o2 = enc_manifest_old m' -> ManifestRT.wf_manifest m' = true ->
    has_cs k1 = has_cs k2 ->
    m_path m = m_path m' ->
    kids_rel (sim_art c1 c2 f) (m_contents m) (m_contents m') ->
    sim_art c1 c2 (S f) (mkArt k1 p true nr sk) (mkArt k2 p true nr sk).
  Proof.
    intros E1 D1 W1 E2 D2 W2. exact (C20_rewrite_sim f k1 k2 o1 o2 m m' false true p nr sk E1 D1 W1 E2 D2 W2).
  Qed.

  (* The closure over a whole tree.  [rw_art d a1 a2]: (c2, a2) is (c1, a1) with the manifests of
     ANY SUBSET of its (sub)directories written in the other schema, d levels deep:
     - file artifacts are the same and the caches agree on their key;
     - a directory artifact is absent on both sides, or its manifest m1 in c1 (schema old1) and
       m2 in c2 (schema old2) have the same path and keys and pairwise rewritten children. *)
  Fixpoint rw_art (d : nat) (a1 a2 : artifact) : Prop :=
    same_shape a1 a2 /\ has_cs (a_cs a1) = has_cs (a_cs a2) /\
    if a_isdir a1 then
      has_cs (a_cs a1) = true ->
      (cget c1 (a_cs a1) = None /\ cget c2 (a_cs a2) = None) \/
      match d with
      | O => False
      | S d' =>
        exists o1 o2 m1 m2 old1 old2,
          cget c1 (a_cs a1) = Some o1 /\ o_data o1 = enc_as old1 m1 /\ ManifestRT.wf_manifest m1 = true /\
          cget c2 (a_cs a2) = Some o2 /\ o_data o2 = enc_as old2 m2 /\ ManifestRT.wf_manifest m2 = true /\
          m_path m1 = m_path m2 /\ kids_rel (rw_art d') (m_contents m1) (m_contents m2)
      end
    else a_cs a1 = a_cs a2 /\ (has_cs (a_cs a1) = true -> cget c1 (a_cs a1) = cget c2 (a_cs a2)).

  Theorem C20_rw_sim d : forall a1 a2, rw_art d a1 a2 -> forall fuel, sim_art c1 c2 fuel a1 a2.
  Proof.
    induction d as [|d IH]; intros a1 a2 Hr fuel.
    - destruct fuel as [|f]; [exact I|]. rewrite sim_art_S.
      cbn [rw_art] in Hr. destruct Hr as (Hsh & Hhas & Hrest).
      split; [exact Hsh|]. split; [exact Hhas|].
      destruct (a_isdir a1); [|exact Hrest].
      intros Hh. destruct (Hrest Hh) as [[E1 E2]|Hf]; [|exfalso; exact Hf].
      rewrite E1, E2. exact I.
    - destruct fuel as [|f]; [exact I|]. rewrite sim_art_S.
      cbn [rw_art] in Hr. destruct Hr as (Hsh & Hhas & Hrest).
      split; [exact Hsh|]. split; [exact Hhas|].
      destruct (a_isdir a1); [|exact Hrest].
      intros Hh. destruct (Hrest Hh) as [[E1 E2]|Hex].
      + rewrite E1, E2. exact I.
      + destruct Hex as (o1 & o2 & m1 & m2 & old1 & old2 & E1 & D1 & W1 & E2 & D2 & W2 & Hp & Hk).
        rewrite E1, E2. unfold man_rel.
        rewrite D1, D2, (dec_enc_as old1 m1 W1), (dec_enc_as old2 m2 W2).
        split; [exact Hp|].
        apply (kids_rel_impl (rw_art d) (sim_art c1 c2 f)); [|exact Hk].
        intros x y Hxy. exact (IH x y Hxy f).
  Qed.
End Rewrite.

Print Assumptions C20_rewrite_sim.
Print Assumptions C20_rewrite_sim_old.
Print Assumptions C20_rw_sim.

(* ------------------------------------------------------------------------------------------ *)
(* A boolean checker for the simulation (used for the concrete instances below)                *)
(* ------------------------------------------------------------------------------------------ *)

Definition obj_eqb (o1 o2 : option cobj) : bool :=
  match o1, o2 with
  | None, None => true
  | Some x, Some y => beqb (o_data x) (o_data y) && (o_mode x =? o_mode y)
  | _, _ => false
  end.

Lemma obj_eqb_eq o1 o2 : obj_eqb o1 o2 = true -> o1 = o2.
Proof.
  destruct o1 as [[d1 m1]|], o2 as [[d2 m2]|]; cbn [obj_eqb o_data o_mode]; intros E;
    try discriminate E; [|reflexivity].
  apply andb_true_iff in E as [Ed Em]. apply beqb_eq in Ed. apply N.eqb_eq in Em. subst. reflexivity.
Qed.

Definition shapeb (a1 a2 : artifact) : bool :=
  beqb (a_path a1) (a_path a2) && Bool.eqb (a_isdir a1) (a_isdir a2) &&
  Bool.eqb (a_norec a1) (a_norec a2) && Bool.eqb (a_skip a1) (a_skip a2).

Lemma shapeb_ok a1 a2 : shapeb a1 a2 = true -> same_shape a1 a2.
Proof.
  unfold shapeb, same_shape. intros E.
  apply andb_true_iff in E as [E E4]. apply andb_true_iff in E as [E E3].
  apply andb_true_iff in E as [E1 E2].
  apply beqb_eq in E1. apply Bool.eqb_prop in E2. apply Bool.eqb_prop in E3. apply Bool.eqb_prop in E4.
  repeat split; assumption.
Qed.

Fixpoint kidsb (Rb : artifact -> artifact -> bool) (l1 l2 : list (bytes * artifact)) : bool :=
  match l1, l2 with
  | [], [] => true
  | (k1, x) :: r1, (k2, y) :: r2 => beqb k1 k2 && Rb x y && kidsb Rb r1 r2
  | _, _ => false
  end.

Lemma kidsb_ok (Rb : artifact -> artifact -> bool) (R : artifact -> artifact -> Prop) :
  (forall x y, Rb x y = true -> R x y) ->
  forall l1 l2, kidsb Rb l1 l2 = true -> kids_rel R l1 l2.
Proof.
  intros HR. induction l1 as [|[k1 x] r1 IH]; intros [|[k2 y] r2] E; cbn [kidsb] in E;
    try discriminate E; [constructor|].
  apply andb_true_iff in E as [E E3]. apply andb_true_iff in E as [E1 E2]. apply beqb_eq in E1.
  constructor; [split; [exact E1 | exact (HR x y E2)] | exact (IH r2 E3)].
Qed.

Section SimCheck.
  Variables c1 c2 : cache.

  Fixpoint sim_artb (fuel : nat) (a1 a2 : artifact) : bool :=
    match fuel with
    | O => true
    | S f =>
      shapeb a1 a2 && Bool.eqb (has_cs (a_cs a1)) (has_cs (a_cs a2)) &&
      if a_isdir a1 then
        if has_cs (a_cs a1) then
          match cget c1 (a_cs a1), cget c2 (a_cs a2) with
          | None, None => true
          | Some x1, Some x2 =>
            match dec_manifest (o_data x1), dec_manifest (o_data x2) with
            | None, None => true
            | Some m1, Some m2 =>
              beqb (m_path m1) (m_path m2) && kidsb (sim_artb f) (m_contents m1) (m_contents m2)
            | _, _ => false
            end
          | _, _ => false
          end
        else true
      else beqb (a_cs a1) (a_cs a2) &&
           (if has_cs (a_cs a1) then obj_eqb (cget c1 (a_cs a1)) (cget c2 (a_cs a2)) else true)
    end.

  Lemma sim_artb_ok fuel : forall a1 a2, sim_artb fuel a1 a2 = true -> sim_art c1 c2 fuel a1 a2.
  Proof.
    induction fuel as [|f IH]; intros a1 a2 E; [exact I|].
    cbn [sim_artb] in E. rewrite sim_art_S.
    apply andb_true_iff in E as [E E3]. apply andb_true_iff in E as [E1 E2].
    split; [exact (shapeb_ok _ _ E1)|]. split; [exact (Bool.eqb_prop _ _ E2)|].
    destruct (a_isdir a1).
    - intros Hh. rewrite Hh in E3. unfold man_rel.
      destruct (cget c1 (a_cs a1)) as [x1|], (cget c2 (a_cs a2)) as [x2|]; try discriminate E3; [|exact I].
      destruct (dec_manifest (o_data x1)) as [m1|], (dec_manifest (o_data x2)) as [m2|];
        try discriminate E3; [|exact I].
      apply andb_true_iff in E3 as [Ep Ek]. apply beqb_eq in Ep.
      split; [exact Ep | exact (kidsb_ok _ _ IH _ _ Ek)].
    - apply andb_true_iff in E3 as [Ecs Ec]. apply beqb_eq in Ecs. split; [exact Ecs|].
      intros Hh. rewrite Hh in Ec. exact (obj_eqb_eq _ _ Ec).
  Qed.
End SimCheck.

(* ------------------------------------------------------------------------------------------ *)
(* 6b. a commit on top of an old-schema cache                                                  *)
(* ------------------------------------------------------------------------------------------ *)

(* induction on workspace trees *)
Section NodeInd.
  Variable P : node -> Prop.
  Hypothesis P_file : forall b, P (File b).
  Hypothesis P_linkc : forall d, P (LinkC d).
  Hypothesis P_linko : forall t, P (LinkO t).
  Hypothesis P_other : P Other.
  Hypothesis P_dir : forall es, Forall (fun e => P (snd e)) es -> P (Dir es).

  Fixpoint node_ind_n (n : node) : P n :=
    match n with
    | File b => P_file b
    | LinkC d => P_linkc d
    | LinkO t => P_linko t
    | Other => P_other
    | Dir es =>
      P_dir es ((fix go (l : list (bytes * node)) : Forall (fun e => P (snd e)) l :=
                   match l with
                   | [] => Forall_nil _
                   | e :: r => Forall_cons e (node_ind_n (snd e)) (go r)
                   end) es)
    end.
End NodeInd.

(* the loop of commit_node with the recursive call abstracted *)
Definition cm_child (old : list (bytes * artifact)) (name : bytes) (ch : node) : artifact :=
  match alookup name old with
  | Some oa => if Bool.eqb (a_isdir oa) (is_dir ch) then oa else fresh_art name (is_dir ch)
  | None => fresh_art name (is_dir ch)
  end.

Definition cm_go (F : artifact -> node -> cache -> res (node * cache * artifact))
  (nr : bool) (old : list (bytes * artifact)) :=
  fix go (es : list (bytes * node)) (c : cache)
    : res (list (bytes * node) * cache * list (bytes * artifact)) :=
    match es with
    | [] => Ok ([], c, [])
    | (name, ch) :: r =>
      if nr && is_dir ch then
        match go r c with
        | Ok (es', c', m) => Ok ((name, ch) :: es', c', m)
        | Err => Err
        end
      else if negb (utf8_name name) then Err
      else
        match F (cm_child old name ch) ch c with
        | Err => Err
        | Ok (ch', c1, child') =>
          match go r c1 with
          | Ok (es', c2, m) => Ok ((name, ch') :: es', c2, (a_path child', child') :: m)
          | Err => Err
          end
        end
    end.

Lemma commit_node_Dir H a es c st :
  commit_node H a (Dir es) c st =
  if a_isdir a then
    match old_contents a c with
    | Err => Err
    | Ok old =>
      match cm_go (fun x ch c' => commit_node H x ch c' st) (a_norec a) old es c with
      | Err => Err
      | Ok (es', c', m) =>
        let mb := enc_manifest (mkMan (a_path a) m) in
        Ok (Dir es', cput c' (H mb) mb, set_cs a (H mb))
      end
    end
  else commit_file H a (Dir es) c st.
Proof. reflexivity. Qed.

Lemma commit_node_nondir H a n c st :
  is_dir n = false -> commit_node H a n c st = if a_isdir a then Err else commit_file H a n c st.
Proof. destruct n; intros Hd; try discriminate Hd; reflexivity. Qed.

(* lookups after an insertion *)
Lemma alookup_ins_same {A} k (v : A) l : alookup k (ins_sorted k v l) = Some v.
Proof.
  induction l as [|[k1 v1] r IH]; cbn [ins_sorted alookup].
  - rewrite beqb_refl. reflexivity.
  - destruct (beqb k k1) eqn:E1.
    + cbn [alookup]. rewrite beqb_refl. reflexivity.
    + destruct (bltb k k1).
      * cbn [alookup]. rewrite beqb_refl. reflexivity.
      * cbn [alookup]. rewrite E1. exact IH.
Qed.

Lemma alookup_ins_other {A} k k' (v : A) l : beqb k' k = false -> alookup k' (ins_sorted k v l) = alookup k' l.
Proof.
  intros En. induction l as [|[k1 v1] r IH]; cbn [ins_sorted alookup].
  - rewrite En. reflexivity.
  - destruct (beqb k k1) eqn:E1.
    + apply beqb_eq in E1. subst k1. cbn [alookup]. rewrite En. reflexivity.
    + destruct (bltb k k1).
      * cbn [alookup]. rewrite En. reflexivity.
      * cbn [alookup]. destruct (beqb k' k1); [reflexivity | exact IH].
Qed.

Lemma cget_cput_same c k b : cget (cput c k b) k = Some (mkObj b cache_perms).
Proof. unfold cget, cput. apply alookup_ins_same. Qed.

Lemma cget_cput_other c k b d : beqb d k = false -> cget (cput c k b) d = cget c d.
Proof. unfold cget, cput. apply alookup_ins_other. Qed.

(* the objects a commit adds: always content-addressed *)
Definition puts (H : bytes -> bytes) (c : cache) (P : list bytes) : cache :=
  fold_left (fun c b => cput c (H b) b) P c.

Lemma puts_app H c P Q : puts H c (P ++ Q) = puts H (puts H c P) Q.
Proof. unfold puts. apply fold_left_app. Qed.

Section CommitSim.
  Variable H : bytes -> bytes.
  Hypothesis Hinj : H_inj H.

  Lemma cache_ok_cput c b : cache_ok H c -> cache_ok H (cput c (H b) b).
  Proof.
    intros Hc d o Hg. destruct (beqb d (H b)) eqn:E.
    - apply beqb_eq in E. subst d. rewrite cget_cput_same in Hg. injection Hg as <-.
      split; reflexivity.
    - rewrite (cget_cput_other _ _ _ _ E) in Hg. exact (Hc d o Hg).
  Qed.

  Lemma cache_ok_puts P : forall c, cache_ok H c -> cache_ok H (puts H c P).
  Proof.
    induction P as [|b P IH]; intros c Hc; [exact Hc|]. cbn [puts fold_left].
    apply IH. apply cache_ok_cput. exact Hc.
  Qed.

  (* an object that is present is not changed by a content-addressed write *)
  Lemma cput_keeps c b d o : cache_ok H c -> cget c d = Some o -> cget (cput c (H b) b) d = Some o.
  Proof.
    intros Hc Hg. destruct (beqb d (H b)) eqn:E.
    - apply beqb_eq in E. subst d. rewrite cget_cput_same.
      destruct (Hc _ _ Hg) as [Hk Hm]. apply Hinj in Hk. subst b.
      destruct o as [dd mm]. cbn [o_data o_mode] in *. subst mm. reflexivity.
    - rewrite (cget_cput_other _ _ _ _ E). exact Hg.
  Qed.

  (* The simulation restricted to COMPLETE histories: every directory artifact that has a
     checksum is present on both sides (no garbage-collected manifests).  A write that fills in
     a missing manifest on one side only would break [sim_art]; with everything present,
     content-addressed writes keep the relation. *)
  Fixpoint sim_full (c1 c2 : cache) (fuel : nat) (a1 a2 : artifact) : Prop :=
    match fuel with
    | O => True
    | S f =>
      same_shape a1 a2 /\ has_cs (a_cs a1) = has_cs (a_cs a2) /\
      if a_isdir a1
      then has_cs (a_cs a1) = true ->
           exists o1 o2, cget c1 (a_cs a1) = Some o1 /\ cget c2 (a_cs a2) = Some o2 /\
             match dec_manifest (o_data o1), dec_manifest (o_data o2) with
             | None, None => True
             | Some m1, Some m2 =>
               m_path m1 = m_path m2 /\ kids_rel (sim_full c1 c2 f) (m_contents m1) (m_contents m2)
             | _, _ => False
             end
      else a_cs a1 = a_cs a2 /\
           (has_cs (a_cs a1) = true -> cget c1 (a_cs a1) = cget c2 (a_cs a2))
    end.

  Lemma sim_full_sim c1 c2 fuel : forall a1 a2, sim_full c1 c2 fuel a1 a2 -> sim_art c1 c2 fuel a1 a2.
  Proof.
    induction fuel as [|f IH]; intros a1 a2 Hs; [exact I|].
    cbn [sim_full] in Hs. destruct Hs as (Hsh & Hhas & Hrest). rewrite sim_art_S.
    split; [exact Hsh|]. split; [exact Hhas|].
    destruct (a_isdir a1); [|exact Hrest].
    intros Hh. destruct (Hrest Hh) as (o1 & o2 & E1 & E2 & Hm). rewrite E1, E2. unfold man_rel.
    destruct (dec_manifest (o_data o1)) as [m1|], (dec_manifest (o_data o2)) as [m2|]; try exact Hm.
    destruct Hm as [Hp Hk]. split; [exact Hp | exact (kids_rel_impl _ _ _ _ IH Hk)].
  Qed.

  Lemma sim_full_fresh c1 c2 f name d : sim_full c1 c2 f (fresh_art name d) (fresh_art name d).
  Proof.
    destruct f as [|f]; [exact I|]. cbn [sim_full fresh_art a_cs a_isdir].
    split; [repeat split|]. split; [reflexivity|].
    destruct d.
    - intros Hh. discriminate Hh.
    - split; [reflexivity|]. intros Hh. discriminate Hh.
  Qed.

  Lemma sim_full_cput c1 c2 b f : forall x y,
    cache_ok H c1 -> cache_ok H c2 ->
    sim_full c1 c2 f x y -> sim_full (cput c1 (H b) b) (cput c2 (H b) b) f x y.
  Proof.
    induction f as [|f IH]; intros x y Hc1 Hc2 Hs; [exact I|].
    cbn [sim_full] in Hs |- *. destruct Hs as (Hsh & Hhas & Hrest).
    split; [exact Hsh|]. split; [exact Hhas|].
    destruct (a_isdir x).
    - intros Hh. destruct (Hrest Hh) as (o1 & o2 & E1 & E2 & Hm). exists o1, o2.
      split; [exact (cput_keeps _ _ _ _ Hc1 E1)|]. split; [exact (cput_keeps _ _ _ _ Hc2 E2)|].
      destruct (dec_manifest (o_data o1)) as [m1|], (dec_manifest (o_data o2)) as [m2|]; try exact Hm.
      destruct Hm as [Hp Hk]. split; [exact Hp|].
      apply (kids_rel_impl (sim_full c1 c2 f)); [|exact Hk].
      intros x' y' Hxy. exact (IH x' y' Hc1 Hc2 Hxy).
    - destruct Hrest as [Hcs Hc]. split; [exact Hcs|]. intros Hh. rewrite <- Hcs in *.
      destruct (beqb (a_cs x) (H b)) eqn:E.
      + apply beqb_eq in E. rewrite E, !cget_cput_same. reflexivity.
      + rewrite !(cget_cput_other _ _ _ _ E). exact (Hc Hh).
  Qed.

  Lemma sim_full_puts P : forall c1 c2 f x y,
    cache_ok H c1 -> cache_ok H c2 ->
    sim_full c1 c2 f x y -> sim_full (puts H c1 P) (puts H c2 P) f x y.
  Proof.
    induction P as [|b P IH]; intros c1 c2 f x y Hc1 Hc2 Hs; [exact Hs|]. cbn [puts fold_left].
    apply IH; try (apply cache_ok_cput; assumption). apply sim_full_cput; assumption.
  Qed.

  (* every link of the workspace tree points at a key in the set K *)
  Fixpoint all_links (K : bytes -> Prop) (n : node) : Prop :=
    match n with
    | LinkC d => K d
    | Dir es => (fix all (l : list (bytes * node)) : Prop :=
                   match l with [] => True | (_, ch) :: r => all_links K ch /\ all r end) es
    | _ => True
    end.

  Lemma all_links_dir K es : all_links K (Dir es) -> Forall (fun e => all_links K (snd e)) es.
  Proof.
    cbn [all_links]. induction es as [|[k ch] r IH]; intros Ha; [constructor|].
    destruct Ha as [Hch Hr]. constructor; [exact Hch | exact (IH Hr)].
  Qed.

  (* the two caches agree on which keys of K are present *)
  Definition agree_on (K : bytes -> Prop) (c1 c2 : cache) : Prop :=
    forall d, K d -> in_cache c1 d = in_cache c2 d.

  Lemma agree_on_puts K P : forall c1 c2, agree_on K c1 c2 -> agree_on K (puts H c1 P) (puts H c2 P).
  Proof.
    induction P as [|b P IH]; intros c1 c2 Ha; [exact Ha|]. cbn [puts fold_left]. apply IH.
    intros d Hd. unfold in_cache. destruct (beqb d (H b)) eqn:E.
    - apply beqb_eq in E. subst d. rewrite !cget_cput_same. reflexivity.
    - rewrite !(cget_cput_other _ _ _ _ E). exact (Ha d Hd).
  Qed.

  (* results of a commit on the two sides: the same node, the same artifact (in particular the
     same recorded checksum), and the same objects added to the two caches *)
  Definition commit_rel (c1 c2 : cache) (r1 r2 : res (node * cache * artifact)) : Prop :=
    match r1, r2 with
    | Ok (n1, c1', b1), Ok (n2, c2', b2) =>
      n1 = n2 /\ b1 = b2 /\ exists P, c1' = puts H c1 P /\ c2' = puts H c2 P
    | Err, Err => True
    | _, _ => False
    end.

  Definition sim_full_all (c1 c2 : cache) (a1 a2 : artifact) : Prop := forall f, sim_full c1 c2 f a1 a2.

  Lemma full_file_eq c1 c2 a1 a2 : sim_full_all c1 c2 a1 a2 -> a_isdir a1 = false -> a1 = a2.
  Proof.
    intros Hs Hd. apply (sim_file_eq c1 c2 O); [|exact Hd]. apply sim_full_sim. exact (Hs 1%nat).
  Qed.

  Lemma set_cs_shape a1 a2 d : same_shape a1 a2 -> set_cs a1 d = set_cs a2 d.
  Proof. intros (Hp & Hd & Hn & Hk). unfold set_cs. rewrite Hp, Hd, Hn, Hk. reflexivity. Qed.

  Lemma commit_file_sim K c1 c2 a n st :
    all_links K n -> agree_on K c1 c2 ->
    (has_cs (a_cs a) = true -> cget c1 (a_cs a) = cget c2 (a_cs a)) ->
    commit_rel c1 c2 (commit_file H a n c1 st) (commit_file H a n c2 st).
  Proof.
    intros Hl Ha Hc. unfold commit_file. rewrite (qmatch_sim c1 c2 _ (Some n) Hc).
    destruct (qmatch c2 (a_cs a) (Some n)).
    - split; [reflexivity|]. split; [reflexivity|]. exists []. split; reflexivity.
    - destruct n as [b|d|t|es|]; try exact I.
      + destruct (a_skip a).
        * split; [reflexivity|]. split; [reflexivity|]. exists []. split; reflexivity.
        * destruct st; (split; [reflexivity|]; split; [reflexivity|]; exists [b]; split; reflexivity).
      + cbn [all_links] in Hl. rewrite (Ha d Hl). destruct (in_cache c2 d); [|exact I].
        split; [reflexivity|]. split; [reflexivity|]. exists []. split; reflexivity.
  Qed.

  (* the old manifests the two commits start from *)
  Lemma full_old_contents c1 c2 a1 a2 :
    a_isdir a1 = true -> sim_full_all c1 c2 a1 a2 ->
    match old_contents a1 c1, old_contents a2 c2 with
    | Ok l1, Ok l2 => forall f, kids_rel (sim_full c1 c2 f) l1 l2
    | Err, Err => True
    | _, _ => False
    end.
  Proof.
    intros Hdir Hs. unfold old_contents.
    pose proof (Hs 1%nat) as H1. cbn [sim_full] in H1. destruct H1 as (_ & Hhas & H1). rewrite Hdir in H1.
    rewrite <- Hhas. destruct (has_cs (a_cs a1)) eqn:Hh; [|intros f; constructor].
    destruct (H1 eq_refl) as (o1 & o2 & E1 & E2 & Hm). rewrite E1, E2.
    destruct (dec_manifest (o_data o1)) as [m1|] eqn:D1, (dec_manifest (o_data o2)) as [m2|] eqn:D2;
      try exact Hm.
    intros f. pose proof (Hs (S f)) as Hf. cbn [sim_full] in Hf. destruct Hf as (_ & _ & Hf).
    rewrite Hdir in Hf. destruct (Hf Hh) as (o1' & o2' & E1' & E2' & Hm').
    rewrite E1 in E1'. rewrite E2 in E2'. injection E1' as <-. injection E2' as <-.
    rewrite D1, D2 in Hm'. exact (proj2 Hm').
  Qed.

  Lemma full_child c1 c2 l1 l2 name ch :
    (forall f, kids_rel (sim_full c1 c2 f) l1 l2) ->
    sim_full_all c1 c2 (cm_child l1 name ch) (cm_child l2 name ch).
  Proof.
    intros Hk f. unfold cm_child.
    pose proof (kids_rel_alookup _ l1 l2 name (Hk f)) as Hl.
    pose proof (kids_rel_alookup _ l1 l2 name (Hk 1%nat)) as Hl1.
    destruct (alookup name l1) as [x|], (alookup name l2) as [y|]; try (exfalso; exact Hl).
    - cbn [sim_full] in Hl1. destruct Hl1 as ((_ & Hd & _) & _). rewrite <- Hd.
      destruct (Bool.eqb (a_isdir x) (is_dir ch)); [exact Hl | apply sim_full_fresh].
    - apply sim_full_fresh.
  Qed.

  Definition go_rel (c1 c2 : cache)
    (r1 r2 : res (list (bytes * node) * cache * list (bytes * artifact))) : Prop :=
    match r1, r2 with
    | Ok (es1, c1', m1), Ok (es2, c2', m2) =>
      es1 = es2 /\ m1 = m2 /\ exists P, c1' = puts H c1 P /\ c2' = puts H c2 P
    | Err, Err => True
    | _, _ => False
    end.

  Lemma cm_go_sim K st nr l1 l2 es :
    Forall (fun e => forall c1 c2 a1 a2,
              all_links K (snd e) -> cache_ok H c1 -> cache_ok H c2 -> agree_on K c1 c2 ->
              sim_full_all c1 c2 a1 a2 ->
              commit_rel c1 c2 (commit_node H a1 (snd e) c1 st) (commit_node H a2 (snd e) c2 st)) es ->
    Forall (fun e => all_links K (snd e)) es ->
    forall c1 c2,
      cache_ok H c1 -> cache_ok H c2 -> agree_on K c1 c2 ->
      (forall f, kids_rel (sim_full c1 c2 f) l1 l2) ->
      go_rel c1 c2 (cm_go (fun x ch c' => commit_node H x ch c' st) nr l1 es c1)
                   (cm_go (fun x ch c' => commit_node H x ch c' st) nr l2 es c2).
  Proof.
    intros HIH. induction HIH as [|[name ch] r IHch _ IHr]; intros Hlinks c1 c2 Hc1 Hc2 Hag Hk;
      cbn [cm_go].
    - split; [reflexivity|]. split; [reflexivity|]. exists []. split; reflexivity.
    - inversion Hlinks as [|e r' Hlch Hlr]; subst. cbn [snd] in IHch, Hlch.
      destruct (nr && is_dir ch).
      + pose proof (IHr Hlr c1 c2 Hc1 Hc2 Hag Hk) as Hr. unfold go_rel in Hr |- *.
        destruct (cm_go _ nr l1 r c1) as [[[es1 c1'] m1]|], (cm_go _ nr l2 r c2) as [[[es2 c2'] m2]|];
          try exact Hr.
        destruct Hr as (-> & -> & HP). split; [reflexivity|]. split; [reflexivity | exact HP].
      + destruct (negb (utf8_name name)); [exact I|].
        pose proof (IHch c1 c2 _ _ Hlch Hc1 Hc2 Hag (full_child c1 c2 l1 l2 name ch Hk)) as Hch.
        unfold commit_rel in Hch.
        destruct (commit_node H (cm_child l1 name ch) ch c1 st) as [[[ch1 c1'] b1]|],
                 (commit_node H (cm_child l2 name ch) ch c2 st) as [[[ch2 c2'] b2]|];
          try (exfalso; exact Hch); [|exact I].
        destruct Hch as (-> & -> & P & -> & ->).
        assert (Hk' : forall f, kids_rel (sim_full (puts H c1 P) (puts H c2 P) f) l1 l2).
        { intros f. apply (kids_rel_impl (sim_full c1 c2 f)); [|exact (Hk f)].
          intros x y Hxy. apply sim_full_puts; assumption. }
        pose proof (IHr Hlr _ _ (cache_ok_puts P c1 Hc1) (cache_ok_puts P c2 Hc2)
                        (agree_on_puts K P c1 c2 Hag) Hk') as Hr.
        unfold go_rel in Hr |- *.
        destruct (cm_go _ nr l1 r (puts H c1 P)) as [[[es1 c1''] m1]|],
                 (cm_go _ nr l2 r (puts H c2 P)) as [[[es2 c2''] m2]|]; try exact Hr.
        destruct Hr as (-> & -> & Q & -> & ->). split; [reflexivity|]. split; [reflexivity|].
        exists (P ++ Q). rewrite !puts_app. split; reflexivity.
  Qed.

  (* C20, commit on top: committing the same workspace tree on top of the two histories gives
     the same workspace, the same artifact - the recorded checksum does not depend on the schema
     the old manifests were written in - and adds the same (current-format) objects. *)
  Theorem C20_commit_on_top K st n : forall c1 c2 a1 a2,
    all_links K n -> cache_ok H c1 -> cache_ok H c2 -> agree_on K c1 c2 ->
    sim_full_all c1 c2 a1 a2 ->
    commit_rel c1 c2 (commit_node H a1 n c1 st) (commit_node H a2 n c2 st).
  Proof.
    induction n as [b|d|t| |es IH] using node_ind_n; intros c1 c2 a1 a2 Hl Hc1 Hc2 Hag Hs;
      pose proof (Hs 1%nat) as Hs1; cbn [sim_full] in Hs1; destruct Hs1 as (Hsh & Hhas & Hrest);
      pose proof Hsh as (Hp & Hd & Hn & Hk).
    1-4: rewrite !commit_node_nondir by reflexivity; rewrite <- Hd;
         destruct (a_isdir a1) eqn:Hdir; [exact I|];
         rewrite <- (full_file_eq c1 c2 a1 a2 Hs Hdir);
         destruct Hrest as [Hcs Hc]; rewrite <- Hcs in Hc;
         exact (commit_file_sim K c1 c2 a1 _ st Hl Hag Hc).
    rewrite !commit_node_Dir. rewrite <- Hd. destruct (a_isdir a1) eqn:Hdir.
    - pose proof (full_old_contents c1 c2 a1 a2 Hdir Hs) as Hold.
      destruct (old_contents a1 c1) as [l1|], (old_contents a2 c2) as [l2|];
        try (exfalso; exact Hold); [|exact I].
      rewrite <- Hn.
      pose proof (cm_go_sim K st (a_norec a1) l1 l2 es IH (all_links_dir K es Hl) c1 c2 Hc1 Hc2 Hag Hold) as Hgo.
      unfold go_rel in Hgo.
      destruct (cm_go _ (a_norec a1) l1 es c1) as [[[es1 c1'] m1]|],
               (cm_go _ (a_norec a1) l2 es c2) as [[[es2 c2'] m2]|]; try (exfalso; exact Hgo); [|exact I].
      destruct Hgo as (-> & -> & P & -> & ->). cbv zeta. rewrite <- Hp.
      split; [reflexivity|]. split; [apply set_cs_shape; exact Hsh|].
      exists (P ++ [enc_manifest (mkMan (a_path a1) m2)]). rewrite !puts_app. split; reflexivity.
    - rewrite <- (full_file_eq c1 c2 a1 a2 Hs Hdir).
      destruct Hrest as [Hcs Hc]. rewrite <- Hcs in Hc.
      exact (commit_file_sim K c1 c2 a1 _ st Hl Hag Hc).
  Qed.

  (* in particular the recorded checksum and the resulting workspace are the same *)
  Corollary C20_commit_checksum K st n c1 c2 a1 a2 n1 c1' b1 n2 c2' b2 :
    all_links K n -> cache_ok H c1 -> cache_ok H c2 -> agree_on K c1 c2 ->
    sim_full_all c1 c2 a1 a2 ->
    commit_node H a1 n c1 st = Ok (n1, c1', b1) -> commit_node H a2 n c2 st = Ok (n2, c2', b2) ->
    n1 = n2 /\ a_cs b1 = a_cs b2.
  Proof.
    intros Hl Hc1 Hc2 Hag Hs E1 E2.
    pose proof (C20_commit_on_top K st n c1 c2 a1 a2 Hl Hc1 Hc2 Hag Hs) as Hr.
    rewrite E1, E2 in Hr. destruct Hr as (-> & -> & _). split; reflexivity.
  Qed.
End CommitSim.

Print Assumptions C20_commit_on_top.
Print Assumptions C20_commit_checksum.

(* A well-founded form of [sim_full] (a finite committed tree, d levels deep), its boolean
   checker, and the one-step / whole-tree rewriting statements for it. *)
Section SimWf.
  Variables c1 c2 : cache.

  Fixpoint sim_wf (d : nat) (a1 a2 : artifact) : Prop :=
    same_shape a1 a2 /\ has_cs (a_cs a1) = has_cs (a_cs a2) /\
    if a_isdir a1 then
      has_cs (a_cs a1) = true ->
      match d with
      | O => False
      | S d' =>
        exists o1 o2, cget c1 (a_cs a1) = Some o1 /\ cget c2 (a_cs a2) = Some o2 /\
          match dec_manifest (o_data o1), dec_manifest (o_data o2) with
          | None, None => True
          | Some m1, Some m2 => m_path m1 = m_path m2 /\ kids_rel (sim_wf d') (m_contents m1) (m_contents m2)
          | _, _ => False
          end
      end
    else a_cs a1 = a_cs a2 /\ (has_cs (a_cs a1) = true -> cget c1 (a_cs a1) = cget c2 (a_cs a2)).

  Theorem sim_wf_full d : forall a1 a2, sim_wf d a1 a2 -> sim_full_all c1 c2 a1 a2.
  Proof.
    induction d as [|d IH]; intros a1 a2 Hw f; (destruct f as [|f]; [exact I|]);
      cbn [sim_wf] in Hw; destruct Hw as (Hsh & Hhas & Hrest); cbn [sim_full];
      (split; [exact Hsh|]); (split; [exact Hhas|]); (destruct (a_isdir a1); [|exact Hrest]);
      intros Hh; specialize (Hrest Hh); [exfalso; exact Hrest|].
    destruct Hrest as (o1 & o2 & E1 & E2 & Hm). exists o1, o2. split; [exact E1|]. split; [exact E2|].
    destruct (dec_manifest (o_data o1)) as [m1|], (dec_manifest (o_data o2)) as [m2|]; try exact Hm.
    destruct Hm as [Hp Hk]. split; [exact Hp|].
    apply (kids_rel_impl (sim_wf d)); [|exact Hk]. intros x y Hxy. exact (IH x y Hxy f).
  Qed.

  Fixpoint sim_wfb (d : nat) (a1 a2 : artifact) : bool :=
    shapeb a1 a2 && Bool.eqb (has_cs (a_cs a1)) (has_cs (a_cs a2)) &&
    if a_isdir a1 then
      if has_cs (a_cs a1) then
        match d with
        | O => false
        | S d' =>
          match cget c1 (a_cs a1), cget c2 (a_cs a2) with
          | Some x1, Some x2 =>
            match dec_manifest (o_data x1), dec_manifest (o_data x2) with
            | None, None => true
            | Some m1, Some m2 =>
              beqb (m_path m1) (m_path m2) && kidsb (sim_wfb d') (m_contents m1) (m_contents m2)
            | _, _ => false
            end
          | _, _ => false
          end
        end
      else true
    else beqb (a_cs a1) (a_cs a2) &&
         (if has_cs (a_cs a1) then obj_eqb (cget c1 (a_cs a1)) (cget c2 (a_cs a2)) else true).

  Lemma sim_wfb_ok d : forall a1 a2, sim_wfb d a1 a2 = true -> sim_wf d a1 a2.
  Proof.
    induction d as [|d IH]; intros a1 a2 E; cbn [sim_wfb] in E; cbn [sim_wf];
      apply andb_true_iff in E as [E E3]; apply andb_true_iff in E as [E1 E2];
      (split; [exact (shapeb_ok _ _ E1)|]); (split; [exact (Bool.eqb_prop _ _ E2)|]);
      destruct (a_isdir a1).
    - intros Hh. rewrite Hh in E3. discriminate E3.
    - apply andb_true_iff in E3 as [Ecs Ec]. apply beqb_eq in Ecs. split; [exact Ecs|].
      intros Hh. rewrite Hh in Ec. exact (obj_eqb_eq _ _ Ec).
    - intros Hh. rewrite Hh in E3.
      destruct (cget c1 (a_cs a1)) as [x1|], (cget c2 (a_cs a2)) as [x2|]; try discriminate E3.
      exists x1, x2. split; [reflexivity|]. split; [reflexivity|].
      destruct (dec_manifest (o_data x1)) as [m1|], (dec_manifest (o_data x2)) as [m2|];
        try discriminate E3; [|exact I].
      apply andb_true_iff in E3 as [Ep Ek]. apply beqb_eq in Ep.
      split; [exact Ep | exact (kidsb_ok _ _ IH _ _ Ek)].
    - apply andb_true_iff in E3 as [Ecs Ec]. apply beqb_eq in Ecs. split; [exact Ecs|].
      intros Hh. rewrite Hh in Ec. exact (obj_eqb_eq _ _ Ec).
  Qed.

  (* one rewriting step, for complete histories *)
  Theorem C20_rewrite_wf d a1 a2 o1 o2 m m' old1 old2 :
    same_shape a1 a2 -> a_isdir a1 = true -> has_cs (a_cs a1) = has_cs (a_cs a2) ->
    cget c1 (a_cs a1) = Some o1 -> o_data o1 = enc_as old1 m -> ManifestRT.wf_manifest m = true ->
    cget c2 (a_cs a2) = Some o2 -> o_data o2 = enc_as old2 m' -> ManifestRT.wf_manifest m' = true ->
    m_path m = m_path m' ->
    kids_rel (sim_wf d) (m_contents m) (m_contents m') ->
    sim_wf (S d) a1 a2.
  Proof.
    intros Hsh Hdir Hh E1 D1 W1 E2 D2 W2 Hp Hk. cbn [sim_wf]. rewrite Hdir.
    split; [exact Hsh|]. split; [exact Hh|]. intros _. exists o1, o2.
    split; [exact E1|]. split; [exact E2|].
    rewrite D1, D2, (dec_enc_as old1 m W1), (dec_enc_as old2 m' W2). split; [exact Hp | exact Hk].
  Qed.
End SimWf.

Print Assumptions sim_wf_full.
Print Assumptions C20_rewrite_wf.

(* a decidable sufficient condition for cache_ok *)
Definition cache_okb (H : bytes -> bytes) (c : cache) : bool :=
  forallb (fun kv => beqb (fst kv) (H (o_data (snd kv))) && (o_mode (snd kv) =? cache_perms)) c.

Lemma cache_okb_ok H c : cache_okb H c = true -> cache_ok H c.
Proof.
  unfold cache_okb, cache_ok, cget. induction c as [|[k o] r IH]; intros E d o' Hg; cbn [alookup] in Hg.
  - discriminate Hg.
  - cbn [forallb fst snd] in E. apply andb_true_iff in E as [E1 E2].
    destruct (beqb d k) eqn:Ed.
    + apply beqb_eq in Ed. subst d. injection Hg as <-.
      apply andb_true_iff in E1 as [Ek Em]. apply beqb_eq in Ek. apply N.eqb_eq in Em.
      split; assumption.
    + exact (IH E2 d o' Hg).
Qed.

(* ------------------------------------------------------------------------------------------ *)
(* 7b. the construction of the property: re-encoding ANY SUBSET of the manifests of a tree     *)
(* ------------------------------------------------------------------------------------------ *)

Definition re_go (F : artifact -> cache -> option (artifact * cache)) :=
  fix go (kids : list (bytes * artifact)) (c2 : cache) : option (list (bytes * artifact) * cache) :=
    match kids with
    | [] => Some ([], c2)
    | (k, ch) :: r =>
      match F ch c2 with
      | None => None
      | Some (ch', c2') =>
        match go r c2' with
        | None => None
        | Some (l, c2'') => Some ((k, ch') :: l, c2'')
        end
      end
    end.

(* Re-encode the manifests below an artifact of c1: [sel path] chooses the schema (true = old)
   of the manifest with that path.  Children first (their new keys go into the parent); the new
   objects are added to c2. *)
Fixpoint reenc (H : bytes -> bytes) (sel : bytes -> bool) (fuel : nat) (a : artifact) (c1 c2 : cache)
  : option (artifact * cache) :=
  match fuel with
  | O => None
  | S f =>
    if a_isdir a then
      if negb (has_cs (a_cs a)) then Some (a, c2)
      else match cget c1 (a_cs a) with
           | None => Some (a, c2)
           | Some o =>
             match dec_manifest (o_data o) with
             | None => None
             | Some m =>
               match re_go (fun ch c => reenc H sel f ch c1 c) (m_contents m) c2 with
               | None => None
               | Some (l, c2') =>
                 let b := enc_as (sel (m_path m)) (mkMan (m_path m) l) in
                 Some (set_cs a (H b), cput c2' (H b) b)
               end
             end
           end
    else Some (a, c2)
  end.

(* the file objects of a cache *)
Definition file_objects (c : cache) : cache :=
  filter (fun kv => match dec_manifest (o_data (snd kv)) with Some _ => false | None => true end) c.

(* c' has every object of c *)
Definition ext (c c' : cache) : Prop := forall d o, cget c d = Some o -> cget c' d = Some o.

Lemma ext_refl c : ext c c.
Proof. intros d o E. exact E. Qed.
Lemma ext_trans c c' c'' : ext c c' -> ext c' c'' -> ext c c''.
Proof. intros H1 H2 d o E. exact (H2 d o (H1 d o E)). Qed.

Lemma keys_gt_keys {A B} k (l1 : list (bytes * A)) (l2 : list (bytes * B)) :
  Forall2 (fun x y => fst x = fst y) l1 l2 -> keys_gt k l1 = keys_gt k l2.
Proof.
  intros Hl. induction Hl as [|x y l l' Hxy Hl IH]; [reflexivity|].
  unfold keys_gt in *. cbn [forallb]. rewrite Hxy, IH. reflexivity.
Qed.

Lemma ssorted_keys {A B} (l1 : list (bytes * A)) (l2 : list (bytes * B)) :
  Forall2 (fun x y => fst x = fst y) l1 l2 -> ssorted l1 = ssorted l2.
Proof.
  intros Hl. induction Hl as [|x y l l' Hxy Hl IH]; [reflexivity|].
  cbn [ssorted]. rewrite Hxy, IH, (keys_gt_keys (fst y) l l' Hl). reflexivity.
Qed.

(* a well-formed manifest stays well-formed when checksums of children are replaced by text *)
Lemma wf_rebuilt m l :
  ManifestRT.wf_manifest m = true ->
  Forall2 (fun kv kv' => fst kv = fst kv' /\ a_path (snd kv) = a_path (snd kv') /\
                         okb (a_cs (snd kv')) = true) (m_contents m) l ->
  ManifestRT.wf_manifest (mkMan (m_path m) l) = true.
Proof.
  unfold ManifestRT.wf_manifest. cbn [m_path m_contents]. intros Hw Hl.
  apply andb_true_iff in Hw as [Hw H3]. apply andb_true_iff in Hw as [H1 H2].
  rewrite H1. cbn [andb].
  assert (Hk : Forall2 (fun (x y : bytes * artifact) => fst x = fst y) (m_contents m) l).
  { clear -Hl. induction Hl as [|x y r r' (Hxy & _) Hl IH]; constructor; assumption. }
  rewrite <- (ssorted_keys _ _ Hk), H2. cbn [andb].
  clear Hk H1 H2. revert H3. generalize (m_contents m) Hl. clear Hl.
  intros l0 Hl. induction Hl as [|[k x] [k' y] r r' (Hxy & Hp & Hc) Hl IH]; intros H3; [reflexivity|].
  cbn [fst snd] in Hxy, Hp, Hc. subst k'.
  unfold wf_entries in *. cbn [forallb] in H3 |- *. apply andb_true_iff in H3 as [Hx Hr].
  rewrite (IH Hr), andb_true_r.
  unfold wf_entry in Hx |- *. cbn [fst snd] in Hx |- *.
  apply andb_true_iff in Hx as [Hx _]. apply andb_true_iff in Hx as [Hx Hx3].
  apply andb_true_iff in Hx as [Hx1 Hx2].
  rewrite <- Hp, Hx1, Hx2, Hx3, Hc. reflexivity.
Qed.

Lemma bytes_ok_wf s : bytes_ok s -> wf_bytes s = true.
Proof.
  unfold wf_bytes, bytes_ok. intros Hb.
  induction Hb as [|b r Hbb _ IH]; [reflexivity|]. cbn [forallb]. rewrite IH, andb_true_r.
  unfold is_byte. apply N.ltb_lt. exact Hbb.
Qed.

Lemma okstr_okb s : valid (length s) s = true -> bytes_ok s -> okb s = true.
Proof. intros Hv Hb. unfold okb. rewrite Hv, (bytes_ok_wf s Hb). reflexivity. Qed.

Section Reenc.
  Variable H : bytes -> bytes.
  Hypothesis Hinj : H_inj H.
  Hypothesis Hhas : H_has H.
  Hypothesis Htext : H_text H.                       (* digests are text *)
  Variable sel : bytes -> bool.
  Variable c1 : cache.

  (* the tree below the artifact is completely present in c1 (d levels), its manifests are
     well-formed (what commit writes, in either schema) *)
  Fixpoint closed (d : nat) (a : artifact) : Prop :=
    match d with
    | O => False
    | S d' =>
      has_cs (a_cs a) = true ->
      if a_isdir a then
        exists o m, cget c1 (a_cs a) = Some o /\ dec_manifest (o_data o) = Some m /\
                    ManifestRT.wf_manifest m = true /\
                    Forall (fun kv => closed d' (snd kv)) (m_contents m)
      else in_cache c1 (a_cs a) = true
    end.

  Lemma kids_rel_impl_Forall (Q : artifact -> Prop) (R R' : artifact -> artifact -> Prop) l1 l2 :
    (forall x y, Q x -> R x y -> R' x y) ->
    Forall (fun kv => Q (snd kv)) l1 -> kids_rel R l1 l2 -> kids_rel R' l1 l2.
  Proof.
    intros HR HQ Hk. induction Hk as [|x y l l' [Hxy Hr] Hk IH]; [constructor|].
    inversion HQ as [|x' l0 Hx Hl]; subst.
    constructor; [split; [exact Hxy | exact (HR _ _ Hx Hr)] | exact (IH Hl)].
  Qed.

  (* adding objects to c2 keeps the relation, for closed trees *)
  Lemma sim_wf_ext c2 c2' d : forall x y,
    closed d x -> ext c2 c2' -> sim_wf c1 c2 d x y -> sim_wf c1 c2' d x y.
  Proof.
    induction d as [|d IH]; intros x y Hcl He Hs; [exfalso; exact Hcl|].
    cbn [sim_wf closed] in Hs, Hcl |- *. destruct Hs as (Hsh & Hh & Hrest).
    split; [exact Hsh|]. split; [exact Hh|].
    destruct (a_isdir x).
    - intros Hx. destruct (Hcl Hx) as (o & m & Eo & Dm & _ & Hkids).
      destruct (Hrest Hx) as (o1 & o2 & E1 & E2 & Hm).
      rewrite Eo in E1. injection E1 as <-. rewrite Dm in Hm.
      exists o, o2. split; [exact Eo|]. split; [exact (He _ _ E2)|]. rewrite Dm.
      destruct (dec_manifest (o_data o2)) as [m2|]; [|exact Hm].
      destruct Hm as [Hp Hk]. split; [exact Hp|].
      apply (kids_rel_impl_Forall (closed d) (sim_wf c1 c2 d) (sim_wf c1 c2' d)); [|exact Hkids|exact Hk].
      intros x' y' Hx' Hxy. exact (IH x' y' Hx' He Hxy).
    - destruct Hrest as [Hcs Hc]. split; [exact Hcs|]. intros Hx.
      specialize (Hc Hx). specialize (Hcl Hx). unfold in_cache in Hcl.
      destruct (cget c1 (a_cs x)) as [o|] eqn:Eo; [|discriminate Hcl].
      symmetry in Hc. rewrite (He _ _ Hc). reflexivity.
  Qed.

  Lemma Hokb b : okb (H b) = true.
  Proof. destruct (Htext b) as [Hv Hb]. exact (okstr_okb _ Hv Hb). Qed.

  Definition re_form (a a' : artifact) : Prop := a' = a \/ exists b, a' = set_cs a (H b).

  Definition re_post (c2 : cache) (d : nat) (a a' : artifact) (c2' : cache) : Prop :=
    cache_ok H c2' /\ ext c2 c2' /\ sim_wf c1 c2' d a a' /\ re_form a a'.

  Lemma same_shape_refl a : same_shape a a.
  Proof. repeat split. Qed.

  Lemma sim_wf_refl_file c2 d a :
    a_isdir a = false -> ext c1 c2 -> (has_cs (a_cs a) = true -> in_cache c1 (a_cs a) = true) ->
    sim_wf c1 c2 d a a.
  Proof.
    intros Hd He Hin.
    assert (Hgoal : same_shape a a /\ has_cs (a_cs a) = has_cs (a_cs a) /\
                    (a_cs a = a_cs a /\ (has_cs (a_cs a) = true -> cget c1 (a_cs a) = cget c2 (a_cs a)))).
    { split; [apply same_shape_refl|]. split; [reflexivity|]. split; [reflexivity|].
      intros Hh. specialize (Hin Hh). unfold in_cache in Hin.
      destruct (cget c1 (a_cs a)) as [o|] eqn:Eo; [|discriminate Hin].
      rewrite (He _ _ Eo). reflexivity. }
    destruct d; cbn [sim_wf]; rewrite Hd; exact Hgoal.
  Qed.

  Lemma sim_wf_nocs c2 d a : has_cs (a_cs a) = false -> sim_wf c1 c2 d a a.
  Proof.
    intros Hh.
    destruct d; cbn [sim_wf]; (split; [apply same_shape_refl|]); (split; [reflexivity|]);
      destruct (a_isdir a); try (intros Hh'; rewrite Hh in Hh'; discriminate Hh');
      (split; [reflexivity|]); intros Hh'; rewrite Hh in Hh'; discriminate Hh'.
  Qed.

  Lemma re_go_spec d (F : artifact -> cache -> option (artifact * cache)) :
    (forall a c2, cache_ok H c2 -> ext c1 c2 -> closed d a ->
                  exists a' c2', F a c2 = Some (a', c2') /\ re_post c2 d a a' c2') ->
    forall kids c2, cache_ok H c2 -> ext c1 c2 -> Forall (fun kv => closed d (snd kv)) kids ->
      exists l c2', re_go F kids c2 = Some (l, c2') /\ cache_ok H c2' /\ ext c2 c2' /\
        Forall2 (fun kv kv' => fst kv = fst kv' /\ sim_wf c1 c2' d (snd kv) (snd kv') /\
                               re_form (snd kv) (snd kv')) kids l.
  Proof.
    intros HF. induction kids as [|[k ch] r IH]; intros c2 Hc2 He Hcl; cbn [re_go].
    - exists [], c2. split; [reflexivity|]. split; [exact Hc2|]. split; [apply ext_refl | constructor].
    - inversion Hcl as [|x l0 Hch Hr]; subst. cbn [snd] in Hch.
      destruct (HF ch c2 Hc2 He Hch) as (ch' & c2a & EF & Hca & Hea & Hsa & Hfa). rewrite EF.
      destruct (IH c2a Hca (ext_trans _ _ _ He Hea) Hr) as (l & c2b & Ego & Hcb & Heb & Hl). rewrite Ego.
      exists ((k, ch') :: l), c2b. split; [reflexivity|]. split; [exact Hcb|].
      split; [exact (ext_trans _ _ _ Hea Heb)|].
      constructor; [|exact Hl]. cbn [fst snd]. split; [reflexivity|].
      split; [exact (sim_wf_ext c2a c2b d ch ch' Hch Heb Hsa) | exact Hfa].
  Qed.

  Lemma reenc_spec d : forall a c2,
    cache_ok H c2 -> ext c1 c2 -> closed d a ->
    exists a' c2', reenc H sel d a c1 c2 = Some (a', c2') /\ re_post c2 d a a' c2'.
  Proof.
    induction d as [|d IH]; intros a c2 Hc2 He Hcl; [exfalso; exact Hcl|].
    pose proof Hcl as Hcl0. cbn [closed] in Hcl. cbn [reenc].
    destruct (a_isdir a) eqn:Hdir.
    - destruct (has_cs (a_cs a)) eqn:Hh; cbn [negb].
      + destruct (Hcl eq_refl) as (o & m & Eo & Dm & Wm & Hkids). rewrite Eo, Dm.
        destruct (re_go_spec d (fun ch c => reenc H sel d ch c1 c) IH (m_contents m) c2 Hc2 He Hkids)
          as (l & c2b & Ego & Hcb & Heb & Hl).
        rewrite Ego. cbv zeta.
        assert (Hlift : forall c', ext c2b c' -> kids_rel (sim_wf c1 c' d) (m_contents m) l).
        { intros c' He'. clear -Hl Hkids He'.
          induction Hl as [|x y r r' (Hxy & Hs & Hf) Hl IHl]; [constructor|].
          inversion Hkids as [|x' r0 Hx Hr]; subst.
          constructor; [|exact (IHl Hr)]. split; [exact Hxy|].
          exact (sim_wf_ext c2b c' d (snd x) (snd y) Hx He' Hs). }
        set (b := enc_as (sel (m_path m)) (mkMan (m_path m) l)).
        exists (set_cs a (H b)), (cput c2b (H b) b). split; [reflexivity|].
        assert (Hext : ext c2b (cput c2b (H b) b)).
        { intros k o' Ek. exact (cput_keeps H Hinj c2b b k o' Hcb Ek). }
        assert (Hwf : ManifestRT.wf_manifest (mkMan (m_path m) l) = true).
        { apply wf_rebuilt; [exact Wm|].
          assert (Hent : Forall (fun kv => okb (a_cs (snd kv)) = true) (m_contents m)).
          { unfold ManifestRT.wf_manifest in Wm. apply andb_true_iff in Wm as [_ We].
            unfold wf_entries in We. rewrite forallb_forall in We. apply Forall_forall.
            intros kv Hin. specialize (We kv Hin). unfold wf_entry in We.
            apply andb_true_iff in We as [_ We]. exact We. }
          clear -Hl Hent Htext. induction Hl as [|x y r r' (Hxy & Hs & Hf) Hl IHl]; [constructor|].
          inversion Hent as [|x' r0 Hx Hr]; subst.
          constructor; [|exact (IHl Hr)]. split; [exact Hxy|]. split.
          - destruct d; cbn [sim_wf] in Hs; destruct Hs as ((Hp & _) & _); exact Hp.
          - destruct Hf as [->|[b' ->]]; [exact Hx | apply Hokb]. }
        split; [exact (cache_ok_cput H c2b b Hcb)|].
        split; [exact (ext_trans _ _ _ Heb Hext)|].
        split; [|right; exists b; reflexivity].
        cbn [sim_wf]. rewrite Hdir. cbn [set_cs a_cs].
        split; [repeat split|]. split; [rewrite Hh, Hhas; reflexivity|]. intros _.
        exists o, (mkObj b cache_perms). split; [exact Eo|]. split; [apply cget_cput_same|].
        rewrite Dm. cbn [o_data]. unfold b at 1. rewrite (dec_enc_as _ _ Hwf). cbn [m_path m_contents].
        split; [reflexivity | exact (Hlift _ Hext)].
      + exists a, c2. split; [reflexivity|]. split; [exact Hc2|]. split; [apply ext_refl|].
        split; [apply sim_wf_nocs; exact Hh | left; reflexivity].
    - exists a, c2. split; [reflexivity|]. split; [exact Hc2|]. split; [apply ext_refl|].
      split; [apply sim_wf_refl_file; [exact Hdir | exact He | exact Hcl] | left; reflexivity].
  Qed.

  (* C20, the construction: for every closed tree of a content-addressed cache and EVERY choice
     [sel] of the directories whose manifests are rewritten in the old schema, the re-encoding
     succeeds and the new artifact in the extended cache simulates the original one. *)
  Theorem C20_reenc_sim d a :
    cache_ok H c1 -> closed d a ->
    exists a' c2, reenc H sel d a c1 c1 = Some (a', c2) /\
                  cache_ok H c2 /\ ext c1 c2 /\ sim_wf c1 c2 d a a' /\ sim_full_all c1 c2 a a' /\
                  forall fuel, sim_art c1 c2 fuel a a'.
  Proof.
    intros Hc1 Hcl.
    destruct (reenc_spec d a c1 Hc1 (ext_refl c1) Hcl) as (a' & c2 & Er & Hc2 & He & Hs & _).
    exists a', c2. split; [exact Er|]. split; [exact Hc2|]. split; [exact He|]. split; [exact Hs|].
    pose proof (sim_wf_full c1 c2 d a a' Hs) as Hfull. split; [exact Hfull|].
    intros fuel. apply sim_full_sim. exact (Hfull fuel).
  Qed.
End Reenc.

Print Assumptions C20_reenc_sim.

(* ------------------------------------------------------------------------------------------ *)
(* Summary: every operation agrees                                                             *)
(* ------------------------------------------------------------------------------------------ *)

Theorem C20_all_operations H c1 c2 a1 a2 :
  (forall fuel, sim_art c1 c2 fuel a1 a2) ->
  forall fuel slot st,
    checkout_node H fuel a1 slot c1 st = checkout_node H fuel a2 slot c2 st /\
    status_rel (status_node H fuel a1 slot c1) (status_node H fuel a2 slot c2) /\
    status_short H (S fuel) a1 slot c1 = status_short H (S fuel) a2 slot c2 /\
    gather fuel a1 c1 = gather fuel a2 c2 /\
    (short_absent c1 -> short_absent c2 -> expand fuel a1 c1 = expand fuel a2 c2).
Proof.
  intros Hs fuel slot st.
  split; [apply C20_checkout_equal; apply Hs|].
  split; [apply C20_status_equal; apply Hs|].
  split; [apply C20_status_short_equal; apply Hs|].
  split; [apply C20_gather_equal; apply Hs|].
  intros S1 S2. apply C20_expand_equal; [exact S1 | exact S2 | apply Hs].
Qed.
Print Assumptions C20_all_operations.

(* the property as stated: any tree of a content-addressed cache, the manifests of any subset
   [sel] of its directories rewritten in the old schema *)
Theorem C20_old_schema_equivalent H sel c1 d a :
  H_inj H -> H_has H -> H_text H -> cache_ok H c1 -> closed c1 d a ->
  exists a' c2,
    reenc H sel d a c1 c1 = Some (a', c2) /\ cache_ok H c2 /\
    (forall fuel slot st,
       checkout_node H fuel a slot c1 st = checkout_node H fuel a' slot c2 st /\
       status_rel (status_node H fuel a slot c1) (status_node H fuel a' slot c2) /\
       status_short H (S fuel) a slot c1 = status_short H (S fuel) a' slot c2 /\
       gather fuel a c1 = gather fuel a' c2 /\
       expand fuel a c1 = expand fuel a' c2) /\
    (forall K st n, all_links K n -> agree_on K c1 c2 ->
       commit_rel H c1 c2 (commit_node H a n c1 st) (commit_node H a' n c2 st)).
Proof.
  intros Hinj Hhas Htext Hc1 Hcl.
  destruct (C20_reenc_sim H Hinj Hhas Htext sel c1 d a Hc1 Hcl)
    as (a' & c2 & Er & Hc2 & He & Hw & Hfull & Hsim).
  exists a', c2. split; [exact Er|]. split; [exact Hc2|]. split.
  - intros fuel slot st.
    destruct (C20_all_operations H c1 c2 a a' Hsim fuel slot st) as (P1 & P2 & P3 & P4 & P5).
    split; [exact P1|]. split; [exact P2|]. split; [exact P3|]. split; [exact P4|].
    apply P5; eapply cache_ok_short_absent; eassumption.
  - intros K st n Hl Hag. exact (C20_commit_on_top H Hinj K st n c1 c2 a a' Hl Hc1 Hc2 Hag Hfull).
Qed.
Print Assumptions C20_old_schema_equivalent.

(* a checker for [closed] *)
Fixpoint closedb (c1 : cache) (d : nat) (a : artifact) : bool :=
  match d with
  | O => false
  | S d' =>
    if has_cs (a_cs a) then
      if a_isdir a then
        match cget c1 (a_cs a) with
        | Some o =>
          match dec_manifest (o_data o) with
          | Some m => ManifestRT.wf_manifest m && forallb (fun kv => closedb c1 d' (snd kv)) (m_contents m)
          | None => false
          end
        | None => false
        end
      else in_cache c1 (a_cs a)
    else true
  end.

Lemma closedb_ok c1 d : forall a, closedb c1 d a = true -> closed c1 d a.
Proof.
  induction d as [|d IH]; intros a E; [discriminate E|].
  cbn [closedb] in E. cbn [closed]. intros Hh. rewrite Hh in E.
  destruct (a_isdir a); [|exact E].
  destruct (cget c1 (a_cs a)) as [o|]; [|discriminate E].
  destruct (dec_manifest (o_data o)) as [m|] eqn:Dm; [|discriminate E].
  apply andb_true_iff in E as [Ew Ek]. exists o, m.
  split; [reflexivity|]. split; [exact Dm|]. split; [exact Ew|].
  rewrite forallb_forall in Ek. apply Forall_forall. intros kv Hin. exact (IH _ (Ek kv Hin)).
Qed.
(* ------------------------------------------------------------------------------------------ *)
(* Non-vacuity: a concrete two-level tree                                                      *)
(* ------------------------------------------------------------------------------------------ *)

Definition Ht : bytes -> bytes := fun b => 1 :: 2 :: 3 :: b.
Definition ex_sub : bytes := [115; 117; 98].
Definition ex_tree : node := Dir [([97], File [104; 105]); (ex_sub, Dir [([98], File [120])])].
Definition ex_art0 : artifact := mkArt [] [100] true false false.

(* the committed state: cache ex_c1, artifact ex_a1, workspace ex_ws (links, strategy Link) *)
Definition ex_committed := commit_node Ht ex_art0 ex_tree [] Link.
Definition ex_ws : node := match ex_committed with Ok (n, _, _) => n | Err => Other end.
Definition ex_c1 : cache := match ex_committed with Ok (_, c, _) => c | Err => [] end.
Definition ex_a1 : artifact := match ex_committed with Ok (_, _, a) => a | Err => ex_art0 end.

Example ex_commit_ok :
  ex_ws = Dir [([97], LinkC (Ht [104; 105])); (ex_sub, Dir [([98], LinkC (Ht [120]))])] /\
  length ex_c1 = 4%nat /\ has_cs (a_cs ex_a1) = true.
Proof. vm_compute. repeat split. Qed.

(* (i) only the ROOT manifest re-encoded with enc_manifest_old, stored under its own key in a
   second cache that has the file objects and the (unchanged) manifest of sub *)
Definition ex_root_man : manifest :=
  match cget ex_c1 (a_cs ex_a1) with
  | Some o => match dec_manifest (o_data o) with Some m => m | None => mkMan [] [] end
  | None => mkMan [] []
  end.
Definition ex_root_old : bytes := enc_manifest_old ex_root_man.
Definition ex_c2 : cache :=
  cput (filter (fun kv => negb (beqb (fst kv) (a_cs ex_a1))) ex_c1) (Ht ex_root_old) ex_root_old.
Definition ex_a2 : artifact := set_cs ex_a1 (Ht ex_root_old).

Example ex_root_old_text :
  ex_root_old =
  of_string "{""Path"":""d"",""Contents"":{""a"":{""Checksum"":""\u0001\u0002\u0003hi"",""Path"":""a"",""IsDir"":false,""DisableRecursion"":false,""SkipCache"":false},""sub"":{""Checksum"":"%string
  ++ jstr (a_cs (match alookup ex_sub (m_contents ex_root_man) with Some x => x | None => ex_art0 end))
  ++ of_string ",""Path"":""sub"",""IsDir"":true,""DisableRecursion"":false,""SkipCache"":false}}}"%string ++ [10].
Proof. vm_compute. reflexivity. Qed.

Example ex_keys_differ :
  beqb (a_cs ex_a1) (a_cs ex_a2) = false /\ cget ex_c2 (a_cs ex_a1) = None /\ cget ex_c1 (a_cs ex_a2) = None.
Proof. vm_compute. repeat split. Qed.

Example ex_sim : sim_art ex_c1 ex_c2 3 ex_a1 ex_a2.
Proof. apply sim_artb_ok. vm_compute. reflexivity. Qed.

Example ex_checkout_same :
  checkout_node Ht 3 ex_a1 None ex_c1 Link = Ok (Some ex_ws) /\
  checkout_node Ht 3 ex_a2 None ex_c2 Link = Ok (Some ex_ws) /\
  checkout_node Ht 3 ex_a1 None ex_c1 Copy = Ok (Some ex_tree) /\
  checkout_node Ht 3 ex_a2 None ex_c2 Copy = Ok (Some ex_tree).
Proof. vm_compute. repeat split. Qed.

(* the theorems apply to the instance *)
Example ex_status_same :
  status_short Ht 3 ex_a1 (Some ex_ws) ex_c1 = Ok true /\
  status_short Ht 3 ex_a2 (Some ex_ws) ex_c2 = Ok true /\
  status_short Ht 3 ex_a1 (Some ex_tree) ex_c1 = status_short Ht 3 ex_a2 (Some ex_tree) ex_c2.
Proof.
  split; [vm_compute; reflexivity|]. split; [vm_compute; reflexivity|].
  apply C20_status_short_equal. exact ex_sim.
Qed.

Example ex_expand_same :
  expand 3 ex_a1 ex_c1 = Some ex_tree /\ expand 3 ex_a2 ex_c2 = Some ex_tree.
Proof. vm_compute. repeat split. Qed.

Example ex_gather_same :
  gather 3 ex_a1 ex_c1 = Ok ([Ht [104; 105]; Ht [120]], 2%nat) /\
  gather 3 ex_a2 ex_c2 = Ok ([Ht [104; 105]; Ht [120]], 2%nat).
Proof. vm_compute. repeat split. Qed.

(* (ii) the manifests of ANY SUBSET of the directories re-encoded: all four choices for the two
   directories d and sub; the caches share only the file objects *)
Definition ex_sel (root sub : bool) (p : bytes) : bool := if beqb p ex_sub then sub else root.
Definition ex_re (root sub : bool) : artifact * cache :=
  match reenc Ht (ex_sel root sub) 3 ex_a1 ex_c1 (file_objects ex_c1) with
  | Some r => r
  | None => (ex_art0, [])
  end.

Example ex_subsets :
  forallb (fun rs : bool * bool =>
    let (a2, c2) := ex_re (fst rs) (snd rs) in
    sim_artb ex_c1 c2 3 ex_a1 a2 &&
    (length c2 =? 4)%nat &&
    (* a manifest in the old schema, or above one, has a different key *)
    Bool.eqb (beqb (a_cs a2) (a_cs ex_a1)) (negb (fst rs || snd rs)))
    [(false, false); (true, false); (false, true); (true, true)] = true.
Proof. vm_compute. reflexivity. Qed.

Example ex_subsets_checkout :
  forallb (fun rs : bool * bool =>
    let (a2, c2) := ex_re (fst rs) (snd rs) in
    match checkout_node Ht 3 a2 None c2 Copy, checkout_node Ht 3 a2 None c2 Link with
    | Ok (Some t), Ok (Some w) => node_eqb t ex_tree && node_eqb w ex_ws
    | _, _ => false
    end)
    [(false, false); (true, false); (false, true); (true, true)] = true.
Proof. vm_compute. reflexivity. Qed.

(* a commit on top: the workspace after an edit (a changed, c added below sub), committed on
   top of the current-format history and on top of each re-encoded one *)
Lemma Ht_inj : H_inj Ht.
Proof. intros a b E. unfold Ht in E. injection E as E. exact E. Qed.

Definition ex_ws2 : node :=
  Dir [([97], File [104; 111]); (ex_sub, Dir [([98], LinkC (Ht [120])); ([99], File [121])])].

Example ex_commit_on_top_root :
  match commit_node Ht ex_a1 ex_ws2 ex_c1 Link, commit_node Ht ex_a2 ex_ws2 ex_c2 Link with
  | Ok (n1, _, b1), Ok (n2, _, b2) =>
    node_eqb n1 n2 && art_eqb b1 b2 && negb (beqb (a_cs b1) (a_cs ex_a1))
  | _, _ => false
  end = true.
Proof. vm_compute. reflexivity. Qed.

Example ex_commit_on_top_subsets :
  forallb (fun rs : bool * bool =>
    let (a2, c2) := ex_re (fst rs) (snd rs) in
    match commit_node Ht ex_a1 ex_ws2 ex_c1 Copy, commit_node Ht a2 ex_ws2 c2 Copy with
    | Ok (n1, _, b1), Ok (n2, _, b2) => node_eqb n1 n2 && art_eqb b1 b2
    | _, _ => false
    end)
    [(false, false); (true, false); (false, true); (true, true)] = true.
Proof. vm_compute. reflexivity. Qed.

(* the hypotheses of C20_commit_on_top hold for the instance *)
Example ex_commit_theorem_applies st :
  commit_rel Ht ex_c1 ex_c2 (commit_node Ht ex_a1 ex_ws2 ex_c1 st) (commit_node Ht ex_a2 ex_ws2 ex_c2 st).
Proof.
  apply (C20_commit_on_top Ht Ht_inj (fun d => in_cache ex_c1 d = in_cache ex_c2 d)).
  - unfold ex_ws2. cbn [all_links]. repeat split; vm_compute; reflexivity.
  - apply cache_okb_ok. vm_compute. reflexivity.
  - apply cache_okb_ok. vm_compute. reflexivity.
  - intros d Hd. exact Hd.
  - apply (sim_wf_full ex_c1 ex_c2 3). apply sim_wfb_ok. vm_compute. reflexivity.
Qed.

(* (iii) the whole-tree theorem applies: a hash whose digests are text (a prefix-free code over
   the characters 0 1 2 3, prefixed with aaa), the same tree, every choice of the subset *)
Fixpoint q_encp (p : positive) : bytes :=
  match p with
  | xH => [49]
  | xO q => 50 :: q_encp q
  | xI q => 51 :: q_encp q
  end.
Definition q_encn (n : N) : bytes := match n with N0 => [48] | Npos p => q_encp p end.
Definition Hq (b : bytes) : bytes := 97 :: 97 :: 97 :: flat_map q_encn b.

Lemma q_encp_inj p : forall q (r r' : bytes), q_encp p ++ r = q_encp q ++ r' -> p = q /\ r = r'.
Proof.
  induction p as [p IH|p IH|]; intros [q|q|] r r' E; cbn [q_encp app] in E; try discriminate E;
    injection E as E.
  - destruct (IH _ _ _ E) as [-> ->]. split; reflexivity.
  - destruct (IH _ _ _ E) as [-> ->]. split; reflexivity.
  - subst r'. split; reflexivity.
Qed.

Lemma q_encn_inj n : forall m (r r' : bytes), q_encn n ++ r = q_encn m ++ r' -> n = m /\ r = r'.
Proof.
  destruct n as [|p]; intros [|q] r r' E; cbn [q_encn app] in E.
  - injection E as ->. split; reflexivity.
  - destruct q; discriminate E.
  - destruct p; discriminate E.
  - destruct (q_encp_inj _ _ _ _ E) as [-> ->]. split; reflexivity.
Qed.

Lemma Hq_inj : H_inj Hq.
Proof.
  intros a b E. unfold Hq in E. injection E as E. revert b E.
  induction a as [|x a IH]; intros [|y b] E; cbn [flat_map] in E.
  - reflexivity.
  - destruct y as [|[q|q|]]; discriminate E.
  - destruct x as [|[q|q|]]; discriminate E.
  - apply q_encn_inj in E as [-> E2]. rewrite (IH _ E2). reflexivity.
Qed.

Lemma Hq_has : H_has Hq.
Proof. intros b. unfold Hq, has_cs. cbn [List.length]. apply N.leb_le. rewrite !Nat2N.inj_succ. lia. Qed.

Lemma q_valid_ascii s : Forall (fun b => b < 128) s -> valid (List.length s) s = true.
Proof.
  induction 1 as [|b r Hb _ IH]; [reflexivity|]. cbn [List.length valid].
  replace (b <? 128) with true by lia. exact IH.
Qed.

Lemma Hq_text : H_text Hq.
Proof.
  intros b.
  assert (Ha : Forall (fun x => x < 128) (Hq b)).
  { unfold Hq. repeat (constructor; [lia|]). induction b as [|n b IH]; [constructor|].
    cbn [flat_map]. apply Forall_app. split; [|exact IH].
    destruct n as [|p]; cbn [q_encn]; [constructor; [lia|constructor]|].
    induction p as [p IHp|p IHp|]; cbn [q_encp]; constructor; try lia; try exact IHp. constructor. }
  split; [exact (q_valid_ascii _ Ha)|].
  unfold bytes_ok. eapply Forall_impl; [|exact Ha]. intros x Hx. cbv beta in *. lia.
Qed.

Definition qx_committed := commit_node Hq ex_art0 ex_tree [] Link.
Definition qx_c1 : cache := match qx_committed with Ok (_, c, _) => c | Err => [] end.
Definition qx_a1 : artifact := match qx_committed with Ok (_, _, a) => a | Err => ex_art0 end.

Example qx_hyps : cache_okb Hq qx_c1 = true /\ closedb qx_c1 3 qx_a1 = true /\ length qx_c1 = 4%nat.
Proof. vm_compute. repeat split. Qed.

Example qx_theorem_applies sel :
  exists a' c2,
    reenc Hq sel 3 qx_a1 qx_c1 qx_c1 = Some (a', c2) /\ cache_ok Hq c2 /\
    (forall fuel slot st,
       checkout_node Hq fuel qx_a1 slot qx_c1 st = checkout_node Hq fuel a' slot c2 st /\
       status_rel (status_node Hq fuel qx_a1 slot qx_c1) (status_node Hq fuel a' slot c2) /\
       status_short Hq (S fuel) qx_a1 slot qx_c1 = status_short Hq (S fuel) a' slot c2 /\
       gather fuel qx_a1 qx_c1 = gather fuel a' c2 /\
       expand fuel qx_a1 qx_c1 = expand fuel a' c2) /\
    (forall K st n, all_links K n -> agree_on K qx_c1 c2 ->
       commit_rel Hq qx_c1 c2 (commit_node Hq qx_a1 n qx_c1 st) (commit_node Hq a' n c2 st)).
Proof.
  apply (C20_old_schema_equivalent Hq sel qx_c1 3 qx_a1 Hq_inj Hq_has Hq_text).
  - apply cache_okb_ok. exact (proj1 qx_hyps).
  - apply closedb_ok. exact (proj1 (proj2 qx_hyps)).
Qed.

(* and the rewritten tree really is different: with every manifest in the old schema the root
   key changes, the cache gains two objects, checkout still gives the committed tree *)
Example qx_all_old :
  match reenc Hq (fun _ => true) 3 qx_a1 qx_c1 qx_c1 with
  | Some (a', c2) =>
    negb (beqb (a_cs a') (a_cs qx_a1)) && (length c2 =? 6)%nat &&
    match checkout_node Hq 3 a' None c2 Copy with
    | Ok (Some t) => node_eqb t ex_tree
    | _ => false
    end
  | None => false
  end = true.
Proof. vm_compute. reflexivity. Qed.

(* ------------------------------------------------------------------------------------------ *)
(* Why the extra hypotheses: two counterexamples                                               *)
(* ------------------------------------------------------------------------------------------ *)

(* a saturating checker: like sim_artb, but when the depth runs out a directory artifact with a
   checksum must be absent on both sides; then the relation holds for EVERY fuel *)
Section SimSat.
  Variables c1 c2 : cache.

  Fixpoint sim_satb (d : nat) (a1 a2 : artifact) : bool :=
    shapeb a1 a2 && Bool.eqb (has_cs (a_cs a1)) (has_cs (a_cs a2)) &&
    if a_isdir a1 then
      if has_cs (a_cs a1) then
        match cget c1 (a_cs a1), cget c2 (a_cs a2) with
        | None, None => true
        | Some x1, Some x2 =>
          match d with
          | O => false
          | S d' =>
            match dec_manifest (o_data x1), dec_manifest (o_data x2) with
            | None, None => true
            | Some m1, Some m2 =>
              beqb (m_path m1) (m_path m2) && kidsb (sim_satb d') (m_contents m1) (m_contents m2)
            | _, _ => false
            end
          end
        | _, _ => false
        end
      else true
    else beqb (a_cs a1) (a_cs a2) &&
         (if has_cs (a_cs a1) then obj_eqb (cget c1 (a_cs a1)) (cget c2 (a_cs a2)) else true).

  Lemma sim_satb_ok d : forall a1 a2, sim_satb d a1 a2 = true -> forall fuel, sim_art c1 c2 fuel a1 a2.
  Proof.
    induction d as [|d IH]; intros a1 a2 E fuel; (destruct fuel as [|f]; [exact I|]);
      cbn [sim_satb] in E; rewrite sim_art_S;
      apply andb_true_iff in E as [E E3]; apply andb_true_iff in E as [E1 E2];
      (split; [exact (shapeb_ok _ _ E1)|]); (split; [exact (Bool.eqb_prop _ _ E2)|]);
      destruct (a_isdir a1).
    - intros Hh. rewrite Hh in E3. unfold man_rel.
      destruct (cget c1 (a_cs a1)) as [x1|], (cget c2 (a_cs a2)) as [x2|]; try discriminate E3. exact I.
    - apply andb_true_iff in E3 as [Ecs Ec]. apply beqb_eq in Ecs. split; [exact Ecs|].
      intros Hh. rewrite Hh in Ec. exact (obj_eqb_eq _ _ Ec).
    - intros Hh. rewrite Hh in E3. unfold man_rel.
      destruct (cget c1 (a_cs a1)) as [x1|], (cget c2 (a_cs a2)) as [x2|]; try discriminate E3; [|exact I].
      destruct (dec_manifest (o_data x1)) as [m1|], (dec_manifest (o_data x2)) as [m2|];
        try discriminate E3; [|exact I].
      apply andb_true_iff in E3 as [Ep Ek]. apply beqb_eq in Ep. split; [exact Ep|].
      apply (kidsb_ok (sim_satb d) (sim_art c1 c2 f)); [|exact Ek].
      intros x y Hxy. exact (IH x y Hxy f).
    - apply andb_true_iff in E3 as [Ecs Ec]. apply beqb_eq in Ecs. split; [exact Ecs|].
      intros Hh. rewrite Hh in Ec. exact (obj_eqb_eq _ _ Ec).
  Qed.
End SimSat.

(* (1) expand does not test has_cs: without [short_absent] the simulation (which, like every
   operation of the model, ignores keys shorter than a digest) does not give equal expansions *)
Definition cx1_c1 : cache := [([1], mkObj (enc_manifest (mkMan [] [])) cache_perms)].
Definition cx1_a1 : artifact := mkArt [1] [100] true false false.
Definition cx1_a2 : artifact := mkArt [2] [100] true false false.

Example cex_expand_short_key :
  (forall fuel, sim_art cx1_c1 [] fuel cx1_a1 cx1_a2) /\
  expand 2 cx1_a1 cx1_c1 = Some (Dir []) /\ expand 2 cx1_a2 [] = None.
Proof.
  split; [apply (sim_satb_ok cx1_c1 [] 1); vm_compute; reflexivity|]. vm_compute. split; reflexivity.
Qed.

(* (2) commit on top under [sim_art] alone is FALSE.  The recorded child y is a directory whose
   manifest is absent on both sides (keys X1 / X2).  The commit first stores the file w, whose
   bytes are a manifest (with a skip-cache child f) and whose digest is X1: now y's old manifest
   exists on side 1 only, f inherits skip-cache there and the two commits record different trees.
   [sim_full] (every recorded directory present) excludes this. *)
Definition cx2_blob : bytes := enc_manifest (mkMan [121] [([102], mkArt [] [102] false false true)]).
Definition cx2_X1 : bytes := Ht cx2_blob.
Definition cx2_X2 : bytes := cx2_X1 ++ [48].
Definition cx2_R1 : bytes := enc_manifest (mkMan [100] [([121], mkArt cx2_X1 [121] true false false)]).
Definition cx2_R2 : bytes := enc_manifest_old (mkMan [100] [([121], mkArt cx2_X2 [121] true false false)]).
Definition cx2_c1 : cache := cput [] (Ht cx2_R1) cx2_R1.
Definition cx2_c2 : cache := cput [] (Ht cx2_R2) cx2_R2.
Definition cx2_a1 : artifact := mkArt (Ht cx2_R1) [100] true false false.
Definition cx2_a2 : artifact := mkArt (Ht cx2_R2) [100] true false false.
Definition cx2_ws : node := Dir [([119], File cx2_blob); ([121], Dir [([102], File [1])])].

Example cex_commit_sim_art_only :
  (forall fuel, sim_art cx2_c1 cx2_c2 fuel cx2_a1 cx2_a2) /\
  cache_ok Ht cx2_c1 /\ cache_ok Ht cx2_c2 /\
  match commit_node Ht cx2_a1 cx2_ws cx2_c1 Link, commit_node Ht cx2_a2 cx2_ws cx2_c2 Link with
  | Ok (n1, _, b1), Ok (n2, _, b2) => node_eqb n1 n2 = false /\ beqb (a_cs b1) (a_cs b2) = false
  | _, _ => False
  end.
Proof.
  split; [apply (sim_satb_ok cx2_c1 cx2_c2 2); vm_compute; reflexivity|].
  split; [apply cache_okb_ok; vm_compute; reflexivity|].
  split; [apply cache_okb_ok; vm_compute; reflexivity|].
  vm_compute. split; reflexivity.
Qed.

Print Assumptions cex_expand_short_key.
Print Assumptions cex_commit_sim_art_only.
Print Assumptions qx_theorem_applies.
Print Assumptions ex_commit_theorem_applies.
